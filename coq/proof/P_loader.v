(* C13 — lemmas about the loader model (model/M_loader.v). *)
From Coq Require Import List String Ascii ZArith Bool Arith Lia.
Import ListNotations.
From TT Require Import M_loader.
Open Scope string_scope.
Open Scope list_scope.
Local Arguments String.eqb : simpl never.

(* ---------------------------------------------------------------- induction on JSON terms *)

Lemma json_ind' (P : json -> Prop) :
  P JNull -> (forall b, P (JBool b)) -> (forall z, P (JInt z)) -> (forall z, P (JFlt z)) ->
  (forall s, P (JStr s)) ->
  (forall l, Forall P l -> P (JArr l)) ->
  (forall kv, Forall (fun p => P (snd p)) kv -> P (JObj kv)) ->
  forall j, P j.
Proof.
  intros Hn Hb Hi Hf Hs Ha Ho.
  fix IH 1. intros [| b | z | z | s | l | kv].
  - exact Hn.
  - apply Hb.
  - apply Hi.
  - apply Hf.
  - apply Hs.
  - apply Ha. induction l as [| x r IHr]; constructor; [apply IH | exact IHr].
  - apply Ho. induction kv as [| [k v] r IHr]; constructor; [apply IH | exact IHr].
Qed.

(* ------------------------------------------------------------------------ remove_comments *)

Lemma rc_arr l : rc (JArr l) = JArr (rc_list l).
Proof. reflexivity. Qed.

Lemma rc_obj kv : rc (JObj kv) = JObj (rc_fields kv).
Proof. reflexivity. Qed.

Lemma falsy_rc v : truthy v = false -> rc v = v.
Proof. destruct v as [| | | | | [| ] | [| ]]; simpl; auto; discriminate. Qed.

Lemma ignored_truthy v : ignored v = true -> truthy v = true.
Proof.
  destruct v as [| | | | | | kv]; simpl; try discriminate.
  destruct kv; simpl; [discriminate | auto].
Qed.

Lemma underscore_not_ignore k : underscore k = true -> String.eqb "ignore" k = false.
Proof.
  intros H. destruct (String.eqb_spec "ignore" k) as [E | E]; auto.
  subst k. simpl in H. discriminate.
Qed.

Lemma jget_ignore_rc_fields kv :
  match jget "ignore" kv with
  | None => jget "ignore" (rc_fields kv) = None
  | Some v => truthy v = false -> jget "ignore" (rc_fields kv) = Some v
  end.
Proof.
  induction kv as [| [k v] r IH]; simpl; auto.
  destruct (String.eqb "ignore" k) eqn:E.
  - intros F. apply String.eqb_eq in E. subst k.
    assert (ignored v = false) as Iv.
    { destruct (ignored v) eqn:I; auto. apply ignored_truthy in I. congruence. }
    rewrite Iv. simpl. rewrite (falsy_rc v F). reflexivity.
  - destruct (underscore k || ignored v); simpl; [| rewrite E]; exact IH.
Qed.

Lemma ignored_rc x : ignored x = false -> ignored (rc x) = false.
Proof.
  destruct x as [| | | | | l | kv]; try (simpl; auto; fail).
  intros H. rewrite rc_obj. unfold ignored in *.
  pose proof (jget_ignore_rc_fields kv) as G.
  destruct (jget "ignore" kv) as [v |].
  - rewrite (G H). exact H.
  - rewrite G. reflexivity.
Qed.

Lemma clean_arr l : clean (JArr l) <-> Forall (fun x => ignored x = false /\ clean x) l.
Proof.
  simpl. induction l as [| x r IH]; split; intros H; auto.
  - destruct H as (A & B & C). constructor; auto. apply IH; auto.
  - inversion H as [| ? ? [A B] C]; subst. repeat split; auto. apply IH; auto.
Qed.

Lemma clean_obj kv :
  clean (JObj kv) <-> Forall (fun p => underscore (fst p) = false /\ ignored (snd p) = false /\ clean (snd p)) kv.
Proof.
  simpl. induction kv as [| [k v] r IH]; split; intros H; auto.
  - destruct H as (A & B & C & D). constructor; auto. apply IH; auto.
  - inversion H as [| ? ? (A & B & C) D]; subst. repeat split; auto. apply IH; auto.
Qed.

Lemma rc_clean_l : forall j, clean (rc j).
Proof.
  induction j as [| | | | | l IH | kv IH] using json_ind'; try exact I.
  - rewrite rc_arr. apply clean_arr. induction IH as [| x r Hx Hr IHr]; simpl; auto.
    destruct (ignored x) eqn:E; auto. constructor; auto. split; auto. apply ignored_rc; auto.
  - rewrite rc_obj. apply clean_obj. induction IH as [| [k v] r Hx Hr IHr]; simpl; auto.
    destruct (underscore k) eqn:U; simpl; auto.
    destruct (ignored v) eqn:E; auto. constructor; auto. simpl. repeat split; auto. apply ignored_rc; auto.
Qed.

Lemma clean_rc_id_l : forall j, clean j -> rc j = j.
Proof.
  induction j as [| | | | | l IH | kv IH] using json_ind'; auto.
  - intros C. rewrite rc_arr. f_equal. apply clean_arr in C.
    induction IH as [| x r Hx Hr IHr]; simpl; auto.
    inversion C as [| ? ? [A B] C']; subst. rewrite A, (Hx B), (IHr C'). reflexivity.
  - intros C. rewrite rc_obj. f_equal. apply clean_obj in C.
    induction IH as [| [k v] r Hx Hr IHr]; simpl; auto.
    inversion C as [| ? ? (A & B & D) C']; subst. simpl in *. rewrite A, B. simpl.
    rewrite (Hx D), (IHr C'). reflexivity.
Qed.

Lemma rc_idempotent_l : forall j, rc (rc j) = rc j.
Proof. intros j. apply clean_rc_id_l, rc_clean_l. Qed.

(* comments are inert *)

Lemma deco_fields_jget_ignore kv kv' : deco_fields kv kv' -> jget "ignore" kv' = jget "ignore" kv.
Proof.
  induction 1 as [| k v kv kv' _ IH | k v v' kv kv' K _ _ IH | k v kv kv' U _ IH | k v kv kv' K _ _ IH]; simpl; auto.
  - rewrite IH. reflexivity.
  - destruct (String.eqb_spec "ignore" k); [congruence | exact IH].
  - rewrite (underscore_not_ignore k U). exact IH.
  - destruct (String.eqb_spec "ignore" k); [congruence | exact IH].
Qed.

Lemma deco_ignored x x' : deco x x' -> ignored x' = ignored x.
Proof.
  intros [j | l l' _ | kv kv' H]; auto.
  simpl. rewrite (deco_fields_jget_ignore _ _ H). reflexivity.
Qed.

Scheme deco_mind := Induction for deco Sort Prop
  with deco_list_mind := Induction for deco_list Sort Prop
  with deco_fields_mind := Induction for deco_fields Sort Prop.
Combined Scheme deco_mutind from deco_mind, deco_list_mind, deco_fields_mind.

Lemma deco_rc_all :
  (forall j j', deco j j' -> rc j' = rc j) /\
  (forall l l', deco_list l l' -> rc_list l' = rc_list l) /\
  (forall kv kv', deco_fields kv kv' -> rc_fields kv' = rc_fields kv).
Proof.
  apply deco_mutind; intros.
  - reflexivity.
  - change (JArr (rc_list l') = JArr (rc_list l)). f_equal. assumption.
  - change (JObj (rc_fields kv') = JObj (rc_fields kv)). f_equal. assumption.
  - reflexivity.
  - simpl. rewrite (deco_ignored _ _ d). rewrite H, H0. reflexivity.
  - simpl. rewrite e. assumption.
  - reflexivity.
  - simpl. rewrite H. reflexivity.
  - simpl. rewrite (deco_ignored _ _ d). rewrite H, H0. reflexivity.
  - simpl. rewrite e. simpl. assumption.
  - simpl. rewrite e. rewrite orb_true_r. assumption.
Qed.

Lemma deco_rc_l : forall j j', deco j j' -> rc j' = rc j.
Proof. apply deco_rc_all. Qed.

Lemma comments_inert_l : forall schema recheck fuel j j',
  deco j j' -> load schema recheck fuel j' = load schema recheck fuel j.
Proof. intros. unfold load. rewrite (deco_rc_l _ _ H). reflexivity. Qed.

(* --------------------------------------------------------------- induction on programs *)

Lemma prog_ind' (P : prog -> Prop) :
  (forall s, P (PRef s)) -> (forall s, P (PLook s)) -> (forall e, P (PBad e)) ->
  (forall id pre cls body, Forall (fun kc => P (snd kc)) body -> P (PDef id pre cls body)) ->
  forall p, P p.
Proof.
  intros Hr Hl Hb Hd. fix IH 1. intros [s | s | e | id pre cls body].
  - apply Hr.
  - apply Hl.
  - apply Hb.
  - apply Hd. induction body as [| [k c] r IHr]; constructor; [apply IH | exact IHr].
Qed.

Definition dom (st : state) : list string := map fst (st_reg st).

Lemma defs_def id pre cls body : defs (PDef id pre cls body) = defs_body body ++ [id].
Proof. reflexivity. Qed.
Lemma scoped_def D id pre cls body : scoped D (PDef id pre cls body) = (pre = None /\ scoped_body D body).
Proof. reflexivity. Qed.
Lemma explained_def R H id pre cls body :
  explained R H (PDef id pre cls body) =
  ((exists n kids, R id = Some n /\ H n = Some (mkObj cls id kids) /\ Forall2 (slot_ok R) body kids) /\
   explained_body R H body).
Proof.
  simpl. f_equal. induction body as [| [k c] r IH]; [reflexivity |].
  simpl. rewrite IH. reflexivity.
Qed.
Lemma occurs_def id cls body id' pre cls' body' :
  occurs id cls body (PDef id' pre cls' body') =
  ((id' = id /\ cls' = cls /\ body' = body) \/ occurs_body id cls body body').
Proof.
  simpl. f_equal. induction body' as [| [k c] r IH]; [reflexivity |].
  simpl. rewrite IH. reflexivity.
Qed.

Lemma exec_def b id pre cls body st :
  exec b (PDef id pre cls body) st =
  if bound id (st_reg st) then Err (EDup id) [] else
  match pre with
  | Some e => Err e []
  | None =>
      match wrap cls id (run_body (exec b) body st []) with
      | Err e ch => Err e ch
      | Ok kids st' =>
          if b && bound id (st_reg st') then Err (EDup id) [] else
          let n := st_next st' in
          Ok n (mkSt (S n) ((id, n) :: st_reg st') ((n, mkObj cls id kids) :: st_heap st'))
      end
  end.
Proof. reflexivity. Qed.

Lemma lookup_in s r n : lookup s r = Some n -> In s (map fst r).
Proof.
  induction r as [| [k m] t IH]; simpl; [discriminate |].
  destruct (String.eqb_spec s k); [left; auto | right; auto].
Qed.

Lemma in_lookup s r : In s (map fst r) -> exists n, lookup s r = Some n.
Proof.
  induction r as [| [k m] t IH]; simpl; [tauto |].
  intros [E | I].
  - subst. rewrite String.eqb_refl. eauto.
  - destruct (String.eqb s k); eauto.
Qed.

Lemma bound_false s r : bound s r = false <-> ~ In s (map fst r).
Proof.
  unfold bound. split.
  - intros H I. apply in_lookup in I. destruct I as [n E]. rewrite E in H. discriminate.
  - intros H. destruct (lookup s r) eqn:E; auto. exfalso. apply H. eapply lookup_in; eauto.
Qed.

Lemma wrap_ok {A} cls id (r : res A) a st : wrap cls id r = Ok a st -> r = Ok a st.
Proof.
  destruct r as [a' st' | e ch]; simpl; [auto |].
  destruct e; simpl; try discriminate; destruct (String.eqb _ _); discriminate.
Qed.

(* ---------------------------------------- registry domain, scoping, distinctness of ids *)

Definition inv1 (b : bool) (p : prog) : Prop :=
  forall st n st', exec b p st = Ok n st' ->
    dom st' = rev (defs p) ++ dom st /\ scoped (dom st) p /\
    (b = true -> NoDup (dom st) -> NoDup (dom st')).

Lemma run_body_inv1 b body :
  Forall (fun kc => inv1 b (snd kc)) body ->
  forall st acc kids st', run_body (exec b) body st acc = Ok kids st' ->
    dom st' = rev (defs_body body) ++ dom st /\ scoped_body (dom st) body /\
    (b = true -> NoDup (dom st) -> NoDup (dom st')).
Proof.
  induction 1 as [| [k c] r Hc Hr IH]; intros st acc kids st' E; simpl in E.
  - inversion E; subst. simpl. auto.
  - destruct (exec b c st) as [n st1 | e ch] eqn:Ec; [| discriminate].
    destruct (Hc _ _ _ Ec) as (D1 & S1 & N1). simpl in D1.
    destruct (IH _ _ _ _ E) as (D2 & S2 & N2).
    simpl. rewrite rev_app_distr, <- app_assoc. rewrite <- D1. repeat split; auto.
Qed.

Lemma exec_inv1 b : forall p, inv1 b p.
Proof.
  induction p as [s | s | e | id pre cls body IH] using prog_ind'; intros st n st' E.
  - simpl in E. destruct (lookup s (st_reg st)) eqn:L; inversion E; subst. simpl.
    repeat split; auto. eapply lookup_in; eauto.
  - simpl in E. destruct (lookup s (st_reg st)) eqn:L; inversion E; subst. simpl.
    repeat split; auto. eapply lookup_in; eauto.
  - simpl in E. discriminate.
  - rewrite exec_def in E.
    destruct (bound id (st_reg st)) eqn:B0; [discriminate |].
    destruct pre as [e |]; [discriminate |].
    destruct (wrap cls id (run_body (exec b) body st [])) as [kids st1 | e ch] eqn:W; [| discriminate].
    apply wrap_ok in W.
    destruct (run_body_inv1 b body IH _ _ _ _ W) as (D1 & S1 & N1).
    destruct (b && bound id (st_reg st1)) eqn:B1; [discriminate |].
    inversion E; subst; clear E.
    rewrite defs_def, scoped_def. unfold dom at 1. simpl. fold (dom st1).
    rewrite rev_app_distr. simpl. rewrite D1. repeat split; auto.
    intros Hb ND. subst b. simpl in B1. apply bound_false in B1. fold (dom st1) in B1.
    unfold dom at 1. simpl. fold (dom st1). constructor; auto.
Qed.

Lemma exec_all_inv1 b : forall ps st st', exec_all b ps st = Ok tt st' ->
  dom st' = rev (defs_all ps) ++ dom st /\ scoped_all (dom st) ps /\
  (b = true -> NoDup (dom st) -> NoDup (dom st')).
Proof.
  induction ps as [| p r IH]; intros st st' E; simpl in E.
  - inversion E; subst. simpl. auto.
  - destruct (exec b p st) as [n st1 | e ch] eqn:Ep; [| discriminate].
    destruct (exec_inv1 b p _ _ _ Ep) as (D1 & S1 & N1).
    destruct (IH _ _ E) as (D2 & S2 & N2).
    unfold defs_all in *. simpl. rewrite rev_app_distr, <- app_assoc, <- D1. repeat split; auto.
Qed.

Lemma res_cases {A} (r : res A) : (exists a st, r = Ok a st) \/ (exists e ch, r = Err e ch).
Proof. destruct r; [left | right]; eauto. Qed.

(* an accepted specification defines every id once and refers only to completed definitions *)
Lemma accepted_wellformed_l : forall b ps st,
  exec_all b ps st0 = Ok tt st -> scoped_all [] ps /\ (b = true -> NoDup (defs_all ps)).
Proof.
  intros b ps st E. destruct (exec_all_inv1 b ps _ _ E) as (D & S & N). split; auto.
  intros Hb. specialize (N Hb (NoDup_nil _)). rewrite D in N. simpl in N. rewrite app_nil_r in N.
  apply NoDup_rev in N. rewrite rev_involutive in N. exact N.
Qed.

Lemma duplicate_rejected_l : forall ps,
  ~ NoDup (defs_all ps) -> exists e ch, exec_all true ps st0 = Err e ch.
Proof.
  intros ps H. destruct (res_cases (exec_all true ps st0)) as [(a & st & E) | X]; auto.
  destruct a. exfalso. apply H. eapply accepted_wellformed_l; eauto.
Qed.

Lemma dangling_rejected_l : forall b ps,
  ~ scoped_all [] ps -> exists e ch, exec_all b ps st0 = Err e ch.
Proof.
  intros b ps H. destruct (res_cases (exec_all b ps st0)) as [(a & st & E) | X]; auto.
  destruct a. exfalso. apply H. eapply accepted_wellformed_l; eauto.
Qed.

(* ------------------------------------------------- completeness: well-formed => accepted *)

Lemma NoDup_app_tail {A} (l l' : list A) : NoDup (l ++ l') -> NoDup l'.
Proof. induction l as [| x r IH]; simpl; auto. intros H. inversion H; auto. Qed.

Lemma all_inv1 b (body : list (string * prog)) : Forall (fun kc => inv1 b (snd kc)) body.
Proof. apply Forall_forall. intros. apply exec_inv1. Qed.

Definition inv2 (b : bool) (p : prog) : Prop :=
  forall st, scoped (dom st) p -> NoDup (rev (defs p) ++ dom st) -> exists n st', exec b p st = Ok n st'.

Lemma run_body_inv2 b body :
  Forall (fun kc => inv2 b (snd kc)) body ->
  forall st acc, scoped_body (dom st) body -> NoDup (rev (defs_body body) ++ dom st) ->
    exists kids st', run_body (exec b) body st acc = Ok kids st'.
Proof.
  induction 1 as [| [k c] r Hc Hr IH]; intros st acc S N; simpl.
  - eauto.
  - simpl in S, N. destruct S as [Sc Sr].
    rewrite rev_app_distr, <- app_assoc in N.
    destruct (Hc st Sc) as (n & st1 & E). { eapply NoDup_app_tail; eauto. }
    simpl in E.
    rewrite E. destruct (exec_inv1 b c _ _ _ E) as (D1 & _ & _). simpl in D1.
    apply IH; rewrite D1; auto.
Qed.

Lemma exec_inv2 b : forall p, inv2 b p.
Proof.
  induction p as [s | s | e | id pre cls body IH] using prog_ind'; intros st S N.
  - simpl in *. destruct (in_lookup _ _ S) as [n E]. rewrite E. eauto.
  - simpl in *. destruct (in_lookup _ _ S) as [n E]. rewrite E. eauto.
  - simpl in S. tauto.
  - rewrite scoped_def in S. destruct S as [P S]. subst pre.
    rewrite defs_def, rev_app_distr in N. simpl in N. inversion N as [| ? ? Nid N']; subst.
    rewrite exec_def.
    assert (bound id (st_reg st) = false) as B0.
    { apply bound_false. intros I. apply Nid. apply in_or_app. right. exact I. }
    rewrite B0.
    destruct (run_body_inv2 b body IH st [] S N') as (kids & st1 & E). rewrite E. simpl.
    destruct (run_body_inv1 b body (all_inv1 b body) _ _ _ _ E) as (D1 & _ & _).
    assert (bound id (st_reg st1) = false) as B1.
    { apply bound_false. fold (dom st1). rewrite D1. exact Nid. }
    rewrite B1, andb_false_r. eauto.
Qed.

Lemma wellformed_accepted_l : forall b ps,
  scoped_all [] ps -> NoDup (defs_all ps) -> exists st, exec_all b ps st0 = Ok tt st.
Proof.
  intros b ps. change (@nil string) with (dom st0).
  assert (forall ps st, scoped_all (dom st) ps -> NoDup (rev (defs_all ps) ++ dom st) ->
                        exists st', exec_all b ps st = Ok tt st') as G.
  { clear ps. induction ps as [| p r IH]; intros st S N; simpl.
    - eauto.
    - simpl in S. destruct S as [Sp Sr]. unfold defs_all in N. simpl in N.
      rewrite rev_app_distr, <- app_assoc in N.
      destruct (exec_inv2 b p st Sp) as (n & st1 & E). { eapply NoDup_app_tail; eauto. }
      rewrite E. destruct (exec_inv1 b p _ _ _ E) as (D1 & _ & _).
      apply IH; rewrite D1; auto. }
  intros S N. apply G; auto. simpl. rewrite app_nil_r. apply NoDup_rev. exact N.
Qed.

(* --------------------------------------------- one id, one identity: the final registry *)

Definition Rof (st : state) : string -> option nat := fun s => lookup s (st_reg st).
Definition Hof (st : state) : nat -> option obj := fun n => hget n (st_heap st).

Definition good (st : state) : Prop :=
  (forall m o, Hof st m = Some o -> m < st_next st) /\
  (forall s m, Rof st s = Some m -> m < st_next st) /\
  (forall a b m, Rof st a = Some m -> Rof st b = Some m -> a = b).

Definition sext (st st' : state) : Prop :=
  (forall s m, Rof st s = Some m -> Rof st' s = Some m) /\
  (forall n o, Hof st n = Some o -> Hof st' n = Some o).

Lemma sext_refl st : sext st st.
Proof. split; auto. Qed.
Lemma sext_trans a b c : sext a b -> sext b c -> sext a c.
Proof. intros [A1 A2] [B1 B2]. split; auto. Qed.

Lemma denote_mono (R R' : string -> option nat) p n :
  (forall s m, R s = Some m -> R' s = Some m) -> denote R p = Some n -> denote R' p = Some n.
Proof. intros M. destruct p; simpl; auto. Qed.

Lemma slots_mono (R R' : string -> option nat) body kids :
  (forall s m, R s = Some m -> R' s = Some m) ->
  Forall2 (slot_ok R) body kids -> Forall2 (slot_ok R') body kids.
Proof.
  intros M. induction 1 as [| kc kn b k [A B] _ IH]; constructor; auto.
  split; auto. eapply denote_mono; eauto.
Qed.

Lemma explained_mono (R R' : string -> option nat) (H H' : nat -> option obj) :
  (forall s m, R s = Some m -> R' s = Some m) -> (forall n o, H n = Some o -> H' n = Some o) ->
  forall p, explained R H p -> explained R' H' p.
Proof.
  intros MR MH. induction p as [s | s | e | id pre cls body IH] using prog_ind'; auto.
  rewrite !explained_def. intros [(n & kids & A & B & C) D]. split.
  - exists n, kids. repeat split; auto. eapply slots_mono; eauto.
  - clear A B C. induction IH as [| [k c] r Hc Hr IHr]; simpl in *; auto.
    destruct D as [D1 D2]. split; auto.
Qed.

Lemma explained_body_mono (R R' : string -> option nat) (H H' : nat -> option obj) :
  (forall s m, R s = Some m -> R' s = Some m) -> (forall n o, H n = Some o -> H' n = Some o) ->
  forall b, explained_body R H b -> explained_body R' H' b.
Proof.
  intros MR MH. induction b as [| [k c] r IH]; simpl; auto.
  intros [A B]. split; auto. eapply explained_mono; eauto.
Qed.

Definition inv3 (p : prog) : Prop :=
  forall st n st', exec true p st = Ok n st' -> good st ->
    good st' /\ sext st st' /\ denote (Rof st') p = Some n /\ explained (Rof st') (Hof st') p.

Lemma run_body_inv3 body :
  Forall (fun kc => inv3 (snd kc)) body ->
  forall st acc kids st', run_body (exec true) body st acc = Ok kids st' -> good st ->
    good st' /\ sext st st' /\
    exists new, kids = rev acc ++ new /\ Forall2 (slot_ok (Rof st')) body new /\
                explained_body (Rof st') (Hof st') body.
Proof.
  induction 1 as [| [k c] r Hc Hr IH]; intros st acc kids st' E G; simpl in E.
  - inversion E; subst. split; [exact G | split; [apply sext_refl |]].
    exists []. rewrite app_nil_r. split; [reflexivity | split; [constructor | exact I]].
  - destruct (exec true c st) as [n st1 | e ch] eqn:Ec; [| discriminate].
    destruct (Hc _ _ _ Ec G) as (G1 & X1 & Dn & Ex). simpl in Dn, Ex.
    destruct (IH _ _ _ _ E G1) as (G2 & X2 & new & K & F & Eb).
    split; auto. split; [eapply sext_trans; eauto |].
    destruct X2 as [XR XH].
    exists ((k, n) :: new). split; [| split].
    + rewrite K. simpl. rewrite <- app_assoc. reflexivity.
    + constructor; auto. split; auto. simpl. eapply denote_mono; eauto.
    + simpl. split; auto. eapply explained_mono; eauto.
Qed.

Lemma exec_inv3 : forall p, inv3 p.
Proof.
  induction p as [s | s | e | id pre cls body IH] using prog_ind'; intros st n st' E G.
  - simpl in E. destruct (lookup s (st_reg st)) eqn:L; inversion E; subst.
    split; [exact G | split; [apply sext_refl | split; [exact L | exact I]]].
  - simpl in E. destruct (lookup s (st_reg st)) eqn:L; inversion E; subst.
    split; [exact G | split; [apply sext_refl | split; [exact L | exact I]]].
  - simpl in E. discriminate.
  - rewrite exec_def in E.
    destruct (bound id (st_reg st)) eqn:B0; [discriminate |].
    destruct pre as [e |]; [discriminate |].
    destruct (wrap cls id (run_body (exec true) body st [])) as [kids st1 | e ch] eqn:W; [| discriminate].
    apply wrap_ok in W.
    destruct (run_body_inv3 body IH _ _ _ _ W G) as (G1 & X1 & new & K & F & Eb).
    simpl in K. subst new.
    destruct (bound id (st_reg st1)) eqn:B1; [discriminate |]. simpl in E.
    inversion E; subst; clear E.
    set (n := st_next st1).
    set (st' := {| st_next := S n; st_reg := (id, n) :: st_reg st1;
                   st_heap := (n, {| o_cls := cls; o_id := id; o_kids := kids |}) :: st_heap st1 |}).
    destruct G1 as (GH & GR & GI).
    assert (forall s m, Rof st1 s = Some m -> Rof st' s = Some m) as XR.
    { intros s m L. unfold Rof, st'. simpl. destruct (String.eqb_spec s id); auto.
      subst s. unfold bound in B1. unfold Rof in L. rewrite L in B1. discriminate. }
    assert (forall m o, Hof st1 m = Some o -> Hof st' m = Some o) as XH.
    { intros m o L. unfold Hof, st'. simpl. destruct (Nat.eqb_spec m n); auto.
      subst m. apply GH in L. unfold n in L. lia. }
    assert (Rof st' id = Some n) as Rid.
    { unfold Rof, st'. simpl. rewrite String.eqb_refl. reflexivity. }
    split; [| split; [| split]].
    + split; [| split].
      * intros m o L. unfold Hof, st' in L. simpl in L. destruct (Nat.eqb_spec m n).
        -- subst. simpl. lia.
        -- apply GH in L. simpl. fold n in L. lia.
      * intros s m L. unfold Rof, st' in L. simpl in L. destruct (String.eqb_spec s id).
        -- inversion L; subst. simpl. lia.
        -- apply GR in L. simpl. fold n in L. lia.
      * intros a b m La Lb. unfold Rof, st' in La, Lb. simpl in La, Lb.
        destruct (String.eqb_spec a id) as [Ea | Ea]; destruct (String.eqb_spec b id) as [Eb' | Eb']; subst; auto.
        -- inversion La; subst. apply GR in Lb. fold n in Lb. lia.
        -- inversion Lb; subst. apply GR in La. fold n in La. lia.
        -- eapply GI; eauto.
    + eapply sext_trans; [exact X1 | split; auto].
    + exact Rid.
    + rewrite explained_def. split.
      * exists n, kids. split; [exact Rid | split].
        -- unfold Hof, st'. simpl. rewrite Nat.eqb_refl. reflexivity.
        -- eapply slots_mono; eauto.
      * eapply explained_body_mono; eauto.
Qed.

Lemma good0 : good st0.
Proof. repeat split; unfold Hof, Rof; simpl; intros; discriminate. Qed.

Lemma exec_all_inv3 : forall ps st st', exec_all true ps st = Ok tt st' -> good st ->
  good st' /\ sext st st' /\ Forall (explained (Rof st') (Hof st')) ps.
Proof.
  induction ps as [| p r IH]; intros st st' E G; simpl in E.
  - inversion E; subst. split; [exact G | split; [apply sext_refl | constructor]].
  - destruct (exec true p st) as [n st1 | e ch] eqn:Ep; [| discriminate].
    destruct (exec_inv3 p _ _ _ Ep G) as (G1 & X1 & _ & Ex).
    destruct (IH _ _ E G1) as (G2 & X2 & F).
    split; auto. split; [eapply sext_trans; eauto |].
    constructor; auto. destruct X2. eapply explained_mono; eauto.
Qed.

(* every occurrence of an id — defining dict or string reference, in any holder — is the one
   identity the final registry binds to it; distinct ids are distinct objects *)
Lemma refs_share_identity_l : forall ps st,
  exec_all true ps st0 = Ok tt st ->
  Forall (explained (Rof st) (Hof st)) ps /\
  (forall a b n, Rof st a = Some n -> Rof st b = Some n -> a = b).
Proof.
  intros ps st E. destruct (exec_all_inv3 ps _ _ E good0) as (G & _ & F). split; auto. apply G.
Qed.

(* ----------------------------------------------- an update is seen through every holder *)

Lemma explained_occurs R H id cls body : forall p,
  explained R H p -> occurs id cls body p ->
  exists n kids, R id = Some n /\ H n = Some (mkObj cls id kids) /\ Forall2 (slot_ok R) body kids.
Proof.
  induction p as [s | s | e | id' pre cls' body' IH] using prog_ind'; [simpl; tauto | simpl; tauto | simpl; tauto |].
  rewrite explained_def, occurs_def. intros [A B] [(E1 & E2 & E3) | O].
  - subst. exact A.
  - clear A. induction IH as [| [k c] r Hc Hr IHr]; simpl in *; [tauto |].
    destruct B as [B1 B2]. destruct O as [O | O]; auto.
Qed.

Lemma slot_lookup R body kids k c :
  Forall2 (slot_ok R) body kids -> pget k body = Some c ->
  exists m, kid k kids = Some m /\ denote R c = Some m.
Proof.
  induction 1 as [| [k1 c1] [k2 m2] b ks [A B] _ IH]; simpl; [discriminate |].
  simpl in A, B. subst k2. destruct (String.eqb k k1).
  - intros E. inversion E; subst. eauto.
  - exact IH.
Qed.

Lemma denote_mention R c s : mention c = Some s -> denote R c = R s.
Proof. destruct c; simpl; intros E; inversion E; subst; auto. Qed.

Lemma update_seen_l : forall ps st,
  exec_all true ps st0 = Ok tt st ->
  forall h cls body k c s n,
    Exists (occurs h cls body) ps -> pget k body = Some c -> mention c = Some s ->
    lookup s (st_reg st) = Some n ->
    forall (V : Type) (sigma : nat -> option V) (v : V), sees st (upd sigma n v) h k = Some v.
Proof.
  intros ps st E h cls body k c s n O P M L V sigma v.
  destruct (refs_share_identity_l ps st E) as [F _].
  apply Exists_exists in O. destruct O as (p & Ip & Op).
  rewrite Forall_forall in F. specialize (F p Ip).
  destruct (explained_occurs _ _ _ _ _ _ F Op) as (nh & kids & A & B & C).
  destruct (slot_lookup _ _ _ _ _ C P) as (m & Km & Dm).
  rewrite (denote_mention _ _ _ M) in Dm. unfold Rof in Dm. rewrite L in Dm. inversion Dm; subst m.
  unfold sees. unfold Rof in A. rewrite A. unfold Hof in B. rewrite B. simpl. rewrite Km.
  unfold upd. rewrite Nat.eqb_refl. reflexivity.
Qed.

(* ... and through no holder of a different id *)
Lemma update_frame_l : forall ps st,
  exec_all true ps st0 = Ok tt st ->
  forall h cls body k c s s' n,
    Exists (occurs h cls body) ps -> pget k body = Some c -> mention c = Some s' -> s' <> s ->
    lookup s (st_reg st) = Some n ->
    forall (V : Type) (sigma : nat -> option V) (v : V),
      sees st (upd sigma n v) h k = sees st sigma h k.
Proof.
  intros ps st E h cls body k c s s' n O P M NE L V sigma v.
  destruct (refs_share_identity_l ps st E) as [F Inj].
  apply Exists_exists in O. destruct O as (p & Ip & Op).
  rewrite Forall_forall in F. specialize (F p Ip).
  destruct (explained_occurs _ _ _ _ _ _ F Op) as (nh & kids & A & B & C).
  destruct (slot_lookup _ _ _ _ _ C P) as (m & Km & Dm).
  rewrite (denote_mention _ _ _ M) in Dm.
  unfold sees. unfold Rof in A. rewrite A. unfold Hof in B. rewrite B. simpl. rewrite Km.
  unfold upd. destruct (Nat.eqb_spec m n); auto. subst m. exfalso. apply NE. eapply Inj; eauto.
Qed.

(* --------------------------------------------------------- the code as it stands (recheck=false) *)

Lemma run_body_recheck body :
  Forall (fun kc => forall st n st', exec true (snd kc) st = Ok n st' -> exec false (snd kc) st = Ok n st') body ->
  forall st acc kids st', run_body (exec true) body st acc = Ok kids st' ->
                          run_body (exec false) body st acc = Ok kids st'.
Proof.
  induction 1 as [| [k c] r Hc Hr IH]; intros st acc kids st' E; simpl in *; auto.
  destruct (exec true c st) as [n st1 | e ch] eqn:Ec; [| discriminate].
  rewrite (Hc _ _ _ Ec). auto.
Qed.

(* whatever the corrected loader accepts, the current one accepts with the same result *)
Lemma recheck_only_rejects_l : forall p st n st',
  exec true p st = Ok n st' -> exec false p st = Ok n st'.
Proof.
  induction p as [s | s | e | id pre cls body IH] using prog_ind'; intros st n st' E; auto.
  rewrite exec_def in *.
  destruct (bound id (st_reg st)); [discriminate |].
  destruct pre; [discriminate |].
  destruct (wrap cls id (run_body (exec true) body st [])) as [kids st1 | e ch] eqn:W; [| discriminate].
  apply wrap_ok in W. rewrite (run_body_recheck body IH _ _ _ _ W). simpl.
  destruct (bound id (st_reg st1)); [discriminate |]. exact E.
Qed.

Lemma recheck_only_rejects_all_l : forall ps st st',
  exec_all true ps st = Ok tt st' -> exec_all false ps st = Ok tt st'.
Proof.
  induction ps as [| p r IH]; intros st st' E; simpl in *; auto.
  destruct (exec true p st) as [n st1 | e ch] eqn:Ep; [| discriminate].
  rewrite (recheck_only_rejects_l _ _ _ _ Ep). auto.
Qed.

Lemma nested_free_def id pre cls body :
  nested_free (PDef id pre cls body) = (~ In id (defs_body body) /\ nested_free_body body).
Proof. reflexivity. Qed.

(* what does hold of the code as it stands: duplicates are caught unless nested in their own definition *)
Definition inv4 (p : prog) : Prop :=
  forall st n st', exec false p st = Ok n st' -> nested_free p -> NoDup (dom st) -> NoDup (dom st').

Lemma run_body_inv4 body :
  Forall (fun kc => inv4 (snd kc)) body ->
  forall st acc kids st', run_body (exec false) body st acc = Ok kids st' ->
    nested_free_body body -> NoDup (dom st) -> NoDup (dom st').
Proof.
  induction 1 as [| [k c] r Hc Hr IH]; intros st acc kids st' E NF ND; simpl in E.
  - inversion E; subst. auto.
  - destruct (exec false c st) as [n st1 | e ch] eqn:Ec; [| discriminate].
    simpl in NF. destruct NF as [NF1 NF2]. eapply IH; [exact E | exact NF2 |].
    eapply Hc; [exact Ec | exact NF1 | exact ND].
Qed.

Lemma exec_inv4 : forall p, inv4 p.
Proof.
  induction p as [s | s | e | id pre cls body IH] using prog_ind'; intros st n st' E NF ND.
  - simpl in E. destruct (lookup s (st_reg st)); inversion E; subst; auto.
  - simpl in E. destruct (lookup s (st_reg st)); inversion E; subst; auto.
  - simpl in E. discriminate.
  - rewrite exec_def in E. rewrite nested_free_def in NF. destruct NF as [NI NF].
    destruct (bound id (st_reg st)) eqn:B0; [discriminate |].
    destruct pre as [e |]; [discriminate |].
    destruct (wrap cls id (run_body (exec false) body st [])) as [kids st1 | e ch] eqn:W; [| discriminate].
    apply wrap_ok in W. simpl in E. inversion E; subst; clear E.
    pose proof (run_body_inv4 body IH _ _ _ _ W NF ND) as N1.
    destruct (run_body_inv1 false body (all_inv1 false body) _ _ _ _ W) as (D1 & _ & _).
    unfold dom. simpl. fold (dom st1). constructor; auto.
    rewrite D1. intros I. apply in_app_or in I. destruct I as [I | I].
    + apply NI. apply in_rev. exact I.
    + apply bound_false in B0. apply B0. exact I.
Qed.

Lemma duplicate_rejected_unless_nested_l : forall ps,
  Forall nested_free ps -> ~ NoDup (defs_all ps) -> exists e ch, exec_all false ps st0 = Err e ch.
Proof.
  intros ps NF H. destruct (res_cases (exec_all false ps st0)) as [(a & st & E) | X]; auto.
  exfalso. apply H. destruct a.
  assert (forall ps st st', exec_all false ps st = Ok tt st' -> Forall nested_free ps ->
                            NoDup (dom st) -> NoDup (dom st')) as G.
  { clear. induction ps as [| p r IH]; intros st st' E NF ND; simpl in E.
    - inversion E; subst; auto.
    - destruct (exec false p st) as [n st1 | e ch] eqn:Ep; [| discriminate].
      inversion NF; subst. eapply IH; eauto. eapply exec_inv4; eauto. }
  specialize (G ps st0 st E NF (NoDup_nil _)).
  destruct (exec_all_inv1 false ps _ _ E) as (D & _ & _). rewrite D in G. simpl in G.
  rewrite app_nil_r in G. apply NoDup_rev in G. rewrite rev_involutive in G. exact G.
Qed.

(* ------------------------------------------------- rejections are parse errors *)

Definition perr (inside : bool) (e : err) : Prop :=
  parse_error e = true \/ (inside = true /\ exists k, e = EKeyError k).

Lemma only_parse_def inside id pre cls body :
  only_parse inside (PDef id pre cls body) =
  (match pre with None => True | Some e => parse_error e = true end /\ only_parse_body body).
Proof. reflexivity. Qed.

Lemma run_body_perr b body :
  Forall (fun kc => forall st e ch, exec b (snd kc) st = Err e ch -> only_parse true (snd kc) -> perr true e) body ->
  forall st acc e ch, run_body (exec b) body st acc = Err e ch -> only_parse_body body -> perr true e.
Proof.
  induction 1 as [| [k c] r Hc Hr IH]; intros st acc e ch E OP; simpl in E; [discriminate |].
  simpl in OP. destruct OP as [O1 O2].
  destruct (exec b c st) as [n st1 | e1 ch1] eqn:Ec.
  - eapply IH; eauto.
  - inversion E; subst. eapply Hc; eauto.
Qed.

Lemma wrap_perr {A} cls id (r : res A) e ch e0 ch0 :
  r = Err e0 ch0 -> perr true e0 -> wrap cls id r = Err e ch -> parse_error e = true.
Proof.
  intros -> [P | (_ & k & ->)]; simpl.
  - destruct e0; simpl in P; try discriminate; simpl; intros E; inversion E; subst; reflexivity.
  - destruct (String.eqb k "id"); intros E; inversion E; subst; reflexivity.
Qed.

Lemma exec_perr b : forall p inside st e ch,
  exec b p st = Err e ch -> only_parse inside p -> perr inside e.
Proof.
  induction p as [s | s | e0 | id pre cls body IH] using prog_ind'; intros inside st e ch E OP.
  - simpl in E. destruct (lookup s (st_reg st)); inversion E; subst. left. reflexivity.
  - simpl in E, OP. destruct (lookup s (st_reg st)); inversion E; subst. right. eauto.
  - simpl in E, OP. inversion E; subst. exact OP.
  - rewrite exec_def in E. rewrite only_parse_def in OP. destruct OP as [OP1 OP2]. left.
    destruct (bound id (st_reg st)); [inversion E; subst; reflexivity |].
    destruct pre as [e1 |]; [inversion E; subst; exact OP1 |].
    destruct (run_body (exec b) body st []) as [kids st1 | e1 ch1] eqn:R.
    + simpl in E. destruct (b && bound id (st_reg st1)); inversion E; subst. reflexivity.
    + assert (perr true e1) as P1.
      { eapply (run_body_perr b body); [| exact R | exact OP2].
        eapply Forall_impl; [| exact IH].
        intros [k c] Hc st' e' ch' E' O'. eapply Hc; eauto. }
      destruct (wrap cls id (Err e1 ch1)) as [? ? | e2 ch2] eqn:W.
      * apply wrap_ok in W. discriminate.
      * inversion E; subst. exact (wrap_perr cls id (Err e1 ch1) e ch e1 ch1 eq_refl P1 W).
Qed.

Lemma rejection_is_parse_error_l : forall b ps st e ch,
  exec_all b ps st = Err e ch -> Forall (only_parse false) ps -> parse_error e = true.
Proof.
  induction ps as [| p r IH]; intros st e ch E OP; simpl in E; [discriminate |].
  inversion OP; subst.
  destruct (exec b p st) as [n st1 | e1 ch1] eqn:Ep.
  - eapply IH; eauto.
  - inversion E; subst. destruct (exec_perr b p false st e ch Ep) as [P | (X & _)]; auto. discriminate.
Qed.

(* ------------------------------------------------------------------------ expand_plates *)

Lemma plate_free_arr l : plate_free (JArr l) <-> Forall plate_free l.
Proof.
  simpl. induction l as [| x r IH]; split; intros H; auto.
  - destruct H. constructor; auto. apply IH; auto.
  - inversion H; subst. split; auto. apply IH; auto.
Qed.

Lemma plate_free_obj kv :
  plate_free (JObj kv) <-> plate_of kv = NotPlate /\ Forall (fun p => plate_free (snd p)) kv.
Proof.
  simpl. split; intros [A B]; split; auto; clear A.
  - induction kv as [| [k v] r IH]; auto. destruct B. constructor; auto.
  - induction kv as [| [k v] r IH]; auto. inversion B; subst. split; [assumption | apply IH; assumption].
Qed.

Lemma jsize_arr l : jsize (JArr l) = S (list_sum (map jsize l)).
Proof. simpl. f_equal. induction l as [| x r IH]; simpl; auto. Qed.

Lemma jsize_obj kv : jsize (JObj kv) = S (list_sum (map (fun p => jsize (snd p)) kv)).
Proof. simpl. f_equal. induction kv as [| [k v] r IH]; simpl; auto. Qed.

Lemma jsize_pos j : 1 <= jsize j.
Proof. destruct j; simpl; lia. Qed.

Lemma sum_bounds {A} (f : A -> nat) (l : list A) :
  (forall x, 1 <= f x) -> List.length l <= list_sum (map f l) /\ forall x, In x l -> f x <= list_sum (map f l).
Proof.
  intros P. induction l as [| y r [IH1 IH2]]; simpl; split; try lia; try tauto.
  - specialize (P y). lia.
  - intros x [E | I]; [subst; lia | specialize (IH2 x I); lia].
Qed.

Lemma expand_loop_id ex : forall rest n pre,
  Forall (fun x => ex x = inl x /\ plate_free x) rest -> List.length rest < n ->
  expand_loop ex n pre rest = inl (JArr (rev pre ++ rest)).
Proof.
  induction rest as [| x tl IH]; intros n pre F L; destruct n as [| n']; simpl in L; try lia; simpl.
  - rewrite app_nil_r. reflexivity.
  - inversion F as [| ? ? [Ex Px] F']; subst.
    assert (match x with JObj kv => plate_of kv | _ => NotPlate end = NotPlate) as NP.
    { destruct x; auto. apply plate_free_obj in Px. tauto. }
    rewrite NP, Ex. rewrite IH; auto; try lia. simpl. rewrite <- app_assoc. reflexivity.
Qed.

Lemma expand_fields_id ex kv :
  Forall (fun p => ex (snd p) = inl (snd p)) kv -> expand_fields ex kv = inl kv.
Proof.
  induction 1 as [| [k v] r Hv Hr IH]; simpl; auto. simpl in Hv. rewrite Hv, IH. reflexivity.
Qed.

(* a specification without plates is left alone *)
Lemma expand_plate_free_l : forall fuel j, plate_free j -> jsize j <= fuel -> expand fuel j = inl j.
Proof.
  induction fuel as [| f IH]; intros j PF SZ.
  - pose proof (jsize_pos j). lia.
  - destruct j as [| | | | | l | kv]; try reflexivity.
    + rewrite jsize_arr in SZ. apply plate_free_arr in PF.
      destruct (sum_bounds jsize l jsize_pos) as [B1 B2].
      change (expand_loop (expand f) (S f) [] l = inl (JArr l)).
      rewrite expand_loop_id; auto; try lia.
      apply Forall_forall. intros x I. rewrite Forall_forall in PF. split; auto.
      apply IH; auto. specialize (B2 x I). lia.
    + rewrite jsize_obj in SZ. apply plate_free_obj in PF. destruct PF as [NP PF].
      destruct (sum_bounds (fun p : string * json => jsize (snd p)) kv (fun p => jsize_pos (snd p))) as [B1 B2].
      simpl. rewrite NP. rewrite expand_fields_id; auto.
      apply Forall_forall. intros p I. rewrite Forall_forall in PF.
      apply IH; auto. specialize (B2 p I). simpl in B2. lia.
Qed.

(* a plate that is the element of a list is replaced, in place, by its clones *)
Lemma expand_single_plate_l : forall f kv clones,
  plate_of kv = PlateRange clones -> Forall plate_free clones -> list_sum (map jsize clones) <= f ->
  expand (S f) (JArr [JObj kv]) = inl (JArr clones).
Proof.
  intros f kv clones P PF SZ.
  change (expand_loop (expand f) (S f) [] [JObj kv] = inl (JArr clones)).
  simpl. rewrite P. rewrite app_nil_r.
  destruct clones as [| y tl]; [reflexivity |].
  destruct (sum_bounds jsize (y :: tl) jsize_pos) as [B1 B2]. simpl in B1.
  rewrite expand_loop_id; auto; [| simpl in SZ; lia].
  inversion PF; subst. apply Forall_forall. intros x I. rewrite Forall_forall in H2. split; auto.
  apply expand_plate_free_l; auto. specialize (B2 x (or_intror I)). lia.
Qed.

(* ------------------------------------------------------------------ at the level of main *)

Lemma load_spec schema b fuel data ps :
  spec_of schema fuel data = Some ps -> load schema b fuel data = exec_all b ps st0.
Proof.
  unfold spec_of, load. destruct (expand fuel (rc data)); intros E; inversion E; subst. reflexivity.
Qed.

Lemma load_ok_spec schema b fuel data st :
  load schema b fuel data = Ok tt st -> exists ps, spec_of schema fuel data = Some ps.
Proof.
  unfold spec_of, load. destruct (expand fuel (rc data)); intros E; [eauto | discriminate].
Qed.

Lemma C13_refs_l : forall schema fuel data ps st,
  spec_of schema fuel data = Some ps -> load schema true fuel data = Ok tt st ->
  let R := fun s => lookup s (st_reg st) in
  let H := fun n => hget n (st_heap st) in
  Forall (explained R H) ps /\ (forall a b n, R a = Some n -> R b = Some n -> a = b).
Proof. intros schema fuel data ps st S L. rewrite (load_spec _ _ _ _ _ S) in L. apply refs_share_identity_l; auto. Qed.

Lemma C13_update_l : forall schema fuel data ps st,
  spec_of schema fuel data = Some ps -> load schema true fuel data = Ok tt st ->
  forall h cls body k c s n,
    Exists (occurs h cls body) ps -> pget k body = Some c -> mention c = Some s ->
    lookup s (st_reg st) = Some n ->
    forall (V : Type) (sigma : nat -> option V) (v : V),
      sees st (upd sigma n v) h k = Some v /\
      (forall h' cls' body' k' c' s', Exists (occurs h' cls' body') ps -> pget k' body' = Some c' ->
         mention c' = Some s' -> s' <> s -> sees st (upd sigma n v) h' k' = sees st sigma h' k').
Proof.
  intros schema fuel data ps st S L h cls body k c s n O P M Ls V sigma v.
  rewrite (load_spec _ _ _ _ _ S) in L. split.
  - eapply update_seen_l; eauto.
  - intros. eapply update_frame_l; eauto.
Qed.

Lemma C13_dangling_l : forall schema recheck fuel data ps,
  spec_of schema fuel data = Some ps -> ~ scoped_all [] ps ->
  exists e ch, load schema recheck fuel data = Err e ch /\
               (Forall (only_parse false) ps -> parse_error e = true).
Proof.
  intros schema b fuel data ps S H. rewrite (load_spec _ b _ _ _ S).
  destruct (dangling_rejected_l b ps H) as (e & ch & E). exists e, ch. split; auto.
  intros OP. eapply rejection_is_parse_error_l; eauto.
Qed.

Lemma C13_duplicate_l : forall schema fuel data ps,
  spec_of schema fuel data = Some ps -> ~ NoDup (defs_all ps) ->
  exists e ch, load schema true fuel data = Err e ch /\
               (Forall (only_parse false) ps -> parse_error e = true).
Proof.
  intros schema fuel data ps S H. rewrite (load_spec _ true _ _ _ S).
  destruct (duplicate_rejected_l ps H) as (e & ch & E). exists e, ch. split; auto.
  intros OP. eapply rejection_is_parse_error_l; eauto.
Qed.

Lemma C13_duplicate_current_l : forall schema fuel data ps,
  spec_of schema fuel data = Some ps -> Forall nested_free ps -> ~ NoDup (defs_all ps) ->
  exists e ch, load schema false fuel data = Err e ch.
Proof.
  intros schema fuel data ps S NF H. rewrite (load_spec _ false _ _ _ S).
  apply duplicate_rejected_unless_nested_l; auto.
Qed.

Lemma C13_accepts_iff_l : forall schema fuel data ps,
  spec_of schema fuel data = Some ps ->
  ((exists st, load schema true fuel data = Ok tt st) <-> (scoped_all [] ps /\ NoDup (defs_all ps))).
Proof.
  intros schema fuel data ps S. rewrite (load_spec _ true _ _ _ S). split.
  - intros [st E]. destruct (accepted_wellformed_l true ps st E); auto.
  - intros [A B]. apply wellformed_accepted_l; auto.
Qed.

Lemma C13_recheck_l : forall schema fuel data st,
  load schema true fuel data = Ok tt st -> load schema false fuel data = Ok tt st.
Proof.
  intros schema fuel data st. unfold load. destruct (expand fuel (rc data)); auto.
  apply recheck_only_rejects_all_l.
Qed.
