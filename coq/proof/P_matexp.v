(* C04: the spectral transition matrix IS the matrix exponential.
   exp(Qt) is taken as the entrywise power series  sum_k t^k/k! (Q^k)_ij  (Coquelicot is_series).
   For Q = A diag(lam) B with B = A^-1 we have Q^k = A diag(lam^k) B, so each entry of the series is a
   finite linear combination of the scalar exponential series; a shift Q + cI with non-negative
   entries gives non-negativity of P(t) for t >= 0 without Cauchy products. *)
From Coq Require Import QArith Reals List Arith Lia Lra Psatz Qreals.
Import ListNotations.
From TT Require Import Num NumR Tree M_subst P_subst.
Set Warnings "-ambiguous-paths".
From Coquelicot Require Import Coquelicot.
Set Warnings "ambiguous-paths".
Open Scope R_scope.

(* k-fold matrix product *)
Fixpoint mpow (n : nat) (Q : list (list R)) (k : nat) : list (list R) :=
  match k with O => mident NumR n | S k' => mmul NumR n Q (mpow n Q k') end.

(* ------------------------------------------------------------------ series helpers *)
Lemma is_series_scal_R (c : R) (a : nat -> R) (l : R) :
  is_series a l -> is_series (fun k => c * a k) (c * l).
Proof. exact (is_series_scal_l c a l). Qed.

(* the scalar exponential series *)
Lemma is_series_exp x : is_series (fun k => x ^ k / INR (fact k)) (exp x).
Proof.
  pose proof (is_exp_Reals x) as H. unfold is_pseries in H. revert H.
  apply is_series_ext. intros k. rewrite pow_n_pow. reflexivity.
Qed.

Lemma is_series_zero : is_series (fun _ : nat => 0) 0.
Proof.
  pose proof (is_series_scal_R 0 _ _ (is_series_exp 0)) as H. rewrite Rmult_0_l in H.
  revert H. apply is_series_ext. intros k. apply Rmult_0_l.
Qed.

Lemma is_series_S {X} (l : list X) (f : X -> nat -> R) (s : X -> R) :
  (forall a, In a l -> is_series (f a) (s a)) ->
  is_series (fun k => Sum l (fun a => f a k)) (Sum l s).
Proof.
  induction l as [|x l IH]; intros H.
  - rewrite S_nil. apply (is_series_ext (fun _ => 0)); [intros; reflexivity|]. apply is_series_zero.
  - rewrite S_cons. apply (is_series_ext (fun k => plus (f x k) (Sum l (fun a => f a k)))).
    + intros k. rewrite S_cons. reflexivity.
    + apply (is_series_plus (f x) (fun k => Sum l (fun a => f a k)) (s x) (Sum l s)).
      * apply H; left; reflexivity.
      * apply IH. intros; apply H; right; assumption.
Qed.

Lemma is_series_nonneg (a : nat -> R) (s : R) : (forall k, 0 <= a k) -> is_series a s -> 0 <= s.
Proof.
  intros Ha Hs.
  assert (H : Rbar_le (Finite 0) (Finite s)).
  { apply (is_lim_seq_le (fun _ => 0) (sum_n a) 0 s).
    - intros k. induction k as [|k IH]; [rewrite sum_O; apply Ha|].
      rewrite sum_Sn. change (0 <= sum_n a k + a (S k)). specialize (Ha (S k)). lra.
    - apply is_lim_seq_const.
    - exact Hs. }
  exact H.
Qed.

(* ------------------------------------------------------------------ Q = A diag(lam) A^-1 *)
Section MatExp.
Variables (n : nat) (A B Q : list (list R)) (lam : list R).
Hypothesis HA : wf n A.
Hypothesis HB : wf n B.
Hypothesis Hl : length lam = n.
Hypothesis HAB : mmul NumR n A B = mident NumR n.
Hypothesis HBA : mmul NumR n B A = mident NumR n.
Hypothesis HQ : mmul NumR n (map (fun row => vmul NumR row lam) A) B = Q.

(* Q^k = A diag(lam^k) B *)
Lemma mpow_spectral k :
  mpow n Q k = mkm n (fun i j => Sumn n (fun a => mg A i a * vg lam a ^ k * mg B a j)).
Proof.
  induction k as [|k IH].
  - cbn [mpow]. rewrite mident_mkm. apply mkm_ext. intros i j Hi Hj.
    rewrite <- (ab_delta n A B HA HB HAB i j Hi Hj). apply S_ext. intros a _. rewrite pow_O. ring.
  - cbn [mpow]. rewrite IH. rewrite <- HQ. rewrite (AlamB_mkm n A B lam HA HB Hl), mmul_mkm.
    apply mkm_ext. intros i j Hi Hj.
    rewrite (S_ext _ _ (fun m => Sumn n (fun a => Sumn n (fun q =>
              (mg A i a * vg lam a * mg B a m) * (mg A m q * vg lam q ^ k * mg B q j)))))
      by (intros; apply S_mul).
    rewrite S_swap. apply Sn_ext. intros a Ha. rewrite S_swap.
    rewrite (Sn_ext n _ (fun q => (mg A i a * vg lam a * vg lam q ^ k * mg B q j) * (if Nat.eqb a q then 1 else 0))).
    + rewrite (Sn_ext n _ (fun q => if Nat.eqb a q then mg A i a * vg lam a * vg lam q ^ k * mg B q j else 0)).
      * rewrite Sn_delta' by assumption. rewrite <- tech_pow_Rmult. ring.
      * intros q _. destruct (Nat.eqb a q); ring.
    + intros q Hq. rewrite <- (ba_delta n A B HA HB HBA a q) by assumption.
      rewrite <- S_scal. apply S_ext. intros m _. ring.
Qed.

Lemma mpow_entry k i j : (i < n)%nat -> (j < n)%nat ->
  mg (mpow n Q k) i j = Sumn n (fun a => mg A i a * vg lam a ^ k * mg B a j).
Proof. intros Hi Hj. rewrite mpow_spectral, mg_mkm by assumption. reflexivity. Qed.

(* P(t) = exp(Qt): the exponential series of Q t converges entrywise to the spectral formula *)
Theorem spectral_exp_series t i j : (i < n)%nat -> (j < n)%nat ->
  is_series (fun k => t ^ k / INR (fact k) * mg (mpow n Q k) i j)
            (mg (p_spectral NumR n A lam B t) i j).
Proof.
  intros Hi Hj. rewrite (p_spectral_mkm n A B lam HA HB Hl), mg_mkm by assumption. unfold pf.
  apply (is_series_ext (fun k => Sumn n (fun a => (mg A i a * mg B a j) * ((vg lam a * t) ^ k / INR (fact k))))).
  - intros k. rewrite mpow_entry by assumption. rewrite <- S_scal. apply S_ext. intros a _.
    rewrite Rpow_mult_distr. unfold Rdiv. ring.
  - apply (is_series_ext (fun k => Sumn n (fun a => (fun a k => (mg A i a * mg B a j) * ((vg lam a * t) ^ k / INR (fact k))) a k)));
      [intros; reflexivity|].
    replace (Sumn n (fun k => mg A i k * exp (vg lam k * t) * mg B k j))
      with (Sumn n (fun a => (mg A i a * mg B a j) * exp (vg lam a * t))) by (apply S_ext; intros; ring).
    apply is_series_S. intros a _.
    apply is_series_scal_R.
    apply is_series_exp.
Qed.

End MatExp.
Print Assumptions spectral_exp_series.

(* ---------------------------------------------------------------- non-negativity of P(t), t >= 0 *)
Lemma S_ge_term {X} (l : list X) (f : X -> R) x :
  (forall k, In k l -> 0 <= f k) -> In x l -> f x <= Sum l f.
Proof.
  induction l as [|y l IH]; intros H Hin; [destruct Hin|]. rewrite S_cons.
  assert (0 <= f y) by (apply H; left; reflexivity).
  assert (0 <= Sum l f) by (apply S_nonneg; intros; apply H; right; assumption).
  destruct Hin as [->|Hin]; [lra|].
  assert (f x <= Sum l f) by (apply IH; auto; intros; apply H; right; assumption). lra.
Qed.

(* powers of an entrywise non-negative matrix are entrywise non-negative *)
Lemma mpow_nonneg n f k i j :
  (forall i j, (i < n)%nat -> (j < n)%nat -> 0 <= f i j) -> (i < n)%nat -> (j < n)%nat ->
  0 <= mg (mpow n (mkm n f) k) i j.
Proof.
  intros Hf. revert i j.
  assert (H : exists g, mpow n (mkm n f) k = mkm n g /\ forall i j, (i < n)%nat -> (j < n)%nat -> 0 <= g i j).
  { induction k as [|k [g [E Hg]]].
    - exists (fun i j => if Nat.eqb i j then 1 else 0). split; [reflexivity|].
      intros i j _ _. destruct (Nat.eqb i j); lra.
    - exists (fun i j => Sumn n (fun m => f i m * g m j)). split.
      + cbn [mpow]. rewrite E, mmul_mkm. reflexivity.
      + intros i j Hi Hj. apply S_nonneg. intros m Hm. apply in_seq in Hm.
        apply Rmult_le_pos; [apply Hf|apply Hg]; lia. }
  destruct H as [g [E Hg]]. intros i j Hi Hj. rewrite E, mg_mkm by assumption. apply Hg; assumption.
Qed.

Section NonNeg.
Variables (n : nat) (A B Q : list (list R)) (lam : list R).
Hypothesis HA : wf n A.
Hypothesis HB : wf n B.
Hypothesis Hl : length lam = n.
Hypothesis HAB : mmul NumR n A B = mident NumR n.
Hypothesis HBA : mmul NumR n B A = mident NumR n.
Hypothesis HQ : mmul NumR n (map (fun row => vmul NumR row lam) A) B = Q.

(* shift: M = Q + c I = A diag(lam + c) B; for c >= max_i -Q_ii all entries of M are >= 0 *)
Let c : R := Sumn n (fun i => Rabs (mg Q i i)).
Let lamc : list R := map (fun k => vg lam k + c) (seq 0 n).
Let M : list (list R) := mkm n (fun i j => mg Q i j + (if Nat.eqb i j then c else 0)).

Lemma lamc_length : length lamc = n.
Proof. unfold lamc. rewrite map_length, seq_length. reflexivity. Qed.
Lemma lamc_entry k : (k < n)%nat -> vg lamc k = vg lam k + c.
Proof. intros Hk. exact (lk_map_seq (fun k => vg lam k + c) n k 0 Hk). Qed.

Lemma Q_entry i j : (i < n)%nat -> (j < n)%nat ->
  mg Q i j = Sumn n (fun k => mg A i k * vg lam k * mg B k j).
Proof. intros Hi Hj. rewrite <- HQ, (AlamB_mkm n A B lam HA HB Hl), mg_mkm by assumption. reflexivity. Qed.

Lemma shift_spectral : mmul NumR n (map (fun row => vmul NumR row lamc) A) B = M.
Proof.
  rewrite (AlamB_mkm n A B lamc HA HB lamc_length). unfold M. apply mkm_ext. intros i j Hi Hj.
  rewrite (Sn_ext n _ (fun k => mg A i k * vg lam k * mg B k j + c * (mg A i k * mg B k j)))
    by (intros k Hk; rewrite lamc_entry by assumption; ring).
  rewrite S_plus, S_scal, <- Q_entry, (ab_delta n A B HA HB HAB i j Hi Hj) by assumption.
  destruct (Nat.eqb i j); ring.
Qed.

Lemma shift_p_spectral t i j : (i < n)%nat -> (j < n)%nat ->
  mg (p_spectral NumR n A lamc B t) i j = exp (c * t) * mg (p_spectral NumR n A lam B t) i j.
Proof.
  intros Hi Hj. rewrite (p_spectral_mkm n A B lamc HA HB lamc_length), (p_spectral_mkm n A B lam HA HB Hl).
  rewrite !mg_mkm by assumption. unfold pf. rewrite <- S_scal. apply Sn_ext. intros k Hk.
  rewrite lamc_entry by assumption. rewrite Rmult_plus_distr_r, exp_plus. ring.
Qed.

Hypothesis Hoff : forall i j, (i < n)%nat -> (j < n)%nat -> i <> j -> 0 <= mg Q i j.

Lemma shift_nonneg i j : (i < n)%nat -> (j < n)%nat -> 0 <= mg Q i j + (if Nat.eqb i j then c else 0).
Proof.
  intros Hi Hj. destruct (Nat.eqb_spec i j) as [<-|Hij].
  - assert (Rabs (mg Q i i) <= c).
    { unfold c. apply (S_ge_term (seq 0 n) (fun i => Rabs (mg Q i i))); [intros; apply Rabs_pos|apply in_seq; lia]. }
    pose proof (Rle_abs (- mg Q i i)) as H1. rewrite Rabs_Ropp in H1. lra.
  - specialize (Hoff i j Hi Hj Hij). lra.
Qed.

Theorem spectral_nonneg t i j : 0 <= t -> (i < n)%nat -> (j < n)%nat ->
  0 <= mg (p_spectral NumR n A lam B t) i j.
Proof.
  intros Ht Hi Hj.
  pose proof (spectral_exp_series n A B M lamc HA HB lamc_length HAB HBA shift_spectral t i j Hi Hj) as H.
  apply is_series_nonneg in H.
  - rewrite shift_p_spectral in H by assumption.
    pose proof (exp_pos (c * t)) as He.
    destruct (Rle_lt_dec 0 (mg (p_spectral NumR n A lam B t) i j)) as [|Hneg]; [assumption|].
    exfalso. apply (Rlt_irrefl 0). apply (Rle_lt_trans _ _ _ H).
    rewrite <- (Rmult_0_r (exp (c * t))). apply Rmult_lt_compat_l; assumption.
  - intros k. apply Rmult_le_pos.
    + apply Rmult_le_pos; [apply pow_le; assumption|]. left. apply Rinv_0_lt_compat, INR_fact_lt_0.
    + apply mpow_nonneg; try assumption. intros; apply shift_nonneg; assumption.
Qed.

End NonNeg.
Print Assumptions spectral_nonneg.

(* the same, phrased on the series alone: whatever the exponential series of Q t sums to is >= 0 *)
Corollary spectral_exp_series_nonneg n A B Q lam :
  wf n A -> wf n B -> length lam = n ->
  mmul NumR n A B = mident NumR n -> mmul NumR n B A = mident NumR n ->
  mmul NumR n (map (fun row => vmul NumR row lam) A) B = Q ->
  (forall i j, (i < n)%nat -> (j < n)%nat -> i <> j -> 0 <= mg Q i j) ->
  forall t i j s, 0 <= t -> (i < n)%nat -> (j < n)%nat ->
  is_series (fun k => t ^ k / INR (fact k) * mg (mpow n Q k) i j) s -> 0 <= s.
Proof.
  intros HA HB Hl HAB HBA HQ Hoff t i j s Ht Hi Hj Hs.
  pose proof (spectral_exp_series n A B Q lam HA HB Hl HAB HBA HQ t i j Hi Hj) as H.
  apply is_series_unique in H. apply is_series_unique in Hs. rewrite <- Hs, H.
  apply (spectral_nonneg n A B Q lam); assumption.
Qed.

(* ------------------------------------------------------------------ the statements for C04 *)
(* SymmetricSubstitutionModel.p_t / EmpiricalSubstitutionModel.p_t: under the hypotheses of
   symmetric_p_t the spectral formula is the matrix exponential: for every t the power series
   sum_k t^k/k! Q^k converges entrywise to P(t). *)
Theorem spectral_is_exp_series n Q pi V W lam :
  (forall i, (i < n)%nat -> 0 < vget NumR pi i) -> wf n Q -> wf n V -> wf n W -> length lam = n ->
  mmul NumR n V W = mident NumR n -> mmul NumR n W V = mident NumR n ->
  mmul NumR n (map (fun row => vmul NumR row lam) V) W = symmetrised NumR n Q pi ->
  let P := p_spectral NumR n (spectral_A NumR n V pi) lam (spectral_B NumR n W pi) in
  forall t i j, (i < n)%nat -> (j < n)%nat ->
    is_series (fun k => t ^ k / INR (fact k) * mget NumR (mpow n Q k) i j) (mget NumR (P t) i j).
Proof.
  intros Hp HQ HV HW Hl HVW HWV He P t i j Hi Hj.
  destruct (factors_wf n pi V W) as [HAw HBw].
  pose proof (factors_AB n pi Hp V W HV HW HVW) as HAB.
  pose proof (factors_BA n pi Hp V W HV HW HWV) as HBA.
  pose proof (factors_generate_Q n Q pi Hp V W lam HQ HV HW Hl He) as HG.
  exact (spectral_exp_series n _ _ Q lam HAw HBw Hl HAB HBA HG t i j Hi Hj).
Qed.
Print Assumptions spectral_is_exp_series.

(* the value of Coquelicot's total [Series] operator *)
Corollary spectral_is_exp_Series n Q pi V W lam :
  (forall i, (i < n)%nat -> 0 < vget NumR pi i) -> wf n Q -> wf n V -> wf n W -> length lam = n ->
  mmul NumR n V W = mident NumR n -> mmul NumR n W V = mident NumR n ->
  mmul NumR n (map (fun row => vmul NumR row lam) V) W = symmetrised NumR n Q pi ->
  forall t i j, (i < n)%nat -> (j < n)%nat ->
    mget NumR (p_spectral NumR n (spectral_A NumR n V pi) lam (spectral_B NumR n W pi) t) i j
    = Series (fun k => t ^ k / INR (fact k) * mget NumR (mpow n Q k) i j).
Proof.
  intros Hp HQ HV HW Hl HVW HWV He t i j Hi Hj. symmetry. apply is_series_unique.
  exact (spectral_is_exp_series n Q pi V W lam Hp HQ HV HW Hl HVW HWV He t i j Hi Hj).
Qed.

(* off-diagonal entries of Q non-negative, t >= 0: every entry of P(t) = exp(Qt) is non-negative
   (and at most one when the rows of Q sum to zero) *)
Theorem exp_series_nonneg n Q pi V W lam :
  (forall i, (i < n)%nat -> 0 < vget NumR pi i) -> wf n Q -> wf n V -> wf n W -> length lam = n ->
  mmul NumR n V W = mident NumR n -> mmul NumR n W V = mident NumR n ->
  mmul NumR n (map (fun row => vmul NumR row lam) V) W = symmetrised NumR n Q pi ->
  (forall i j, (i < n)%nat -> (j < n)%nat -> i <> j -> 0 <= mget NumR Q i j) ->
  let P := p_spectral NumR n (spectral_A NumR n V pi) lam (spectral_B NumR n W pi) in
  forall t i j, 0 <= t -> (i < n)%nat -> (j < n)%nat ->
    0 <= mget NumR (P t) i j /\
    (forall s, is_series (fun k => t ^ k / INR (fact k) * mget NumR (mpow n Q k) i j) s -> 0 <= s) /\
    (List.Forall (fun row => nsum NumR row = 0) Q -> mget NumR (P t) i j <= 1).
Proof.
  intros Hp HQ HV HW Hl HVW HWV He Hoff P t i j Ht Hi Hj.
  destruct (factors_wf n pi V W) as [HAw HBw].
  pose proof (factors_AB n pi Hp V W HV HW HVW) as HAB.
  pose proof (factors_BA n pi Hp V W HV HW HWV) as HBA.
  pose proof (factors_generate_Q n Q pi Hp V W lam HQ HV HW Hl He) as HG.
  assert (Hnn : forall j0, (j0 < n)%nat -> 0 <= mg (P t) i j0).
  { intros j0 Hj0. exact (spectral_nonneg n _ _ Q lam HAw HBw Hl HAB HBA HG Hoff t i j0 Ht Hi Hj0). }
  split; [apply Hnn; assumption|]. split.
  - intros s Hs.
    exact (spectral_exp_series_nonneg n _ _ Q lam HAw HBw Hl HAB HBA HG Hoff t i j s Ht Hi Hj Hs).
  - intros Hrows.
    destruct (symmetric_p_t n Q pi V W lam Hp HQ HV HW Hl HVW HWV He) as (_ & _ & _ & _ & Hone).
    rewrite <- (Hone Hrows t i Hi).
    apply (S_ge_term (seq 0 n) (fun j0 => mg (P t) i j0) j).
    + intros j0 Hj0. apply in_seq in Hj0. apply Hnn. lia.
    + apply in_seq. lia.
Qed.
Print Assumptions exp_series_nonneg.
