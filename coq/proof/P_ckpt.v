(* C17 — proofs about model/M_ckpt.v *)
From Coq Require Import List String ZArith Bool Ascii DecimalString DecimalZ DecimalPos Lia.
Import ListNotations.
From TT Require Import M_ckpt.
Open Scope string_scope.
Open Scope list_scope.

(* ------------------------------------------------------------------ induction on Python values *)
Section PvInd.
  Variable P : pv -> Prop.
  Hypothesis HNone : P PNone.
  Hypothesis HBool : forall b, P (PBool b).
  Hypothesis HInt : forall z, P (PInt z).
  Hypothesis HFloat : forall z, P (PFloat z).
  Hypothesis HStr : forall s, P (PStr s).
  Hypothesis HList : forall l, Forall P l -> P (PList l).
  Hypothesis HTuple : forall l, Forall P l -> P (PTuple l).
  Hypothesis HDict : forall d, Forall (fun p => P (snd p)) d -> P (PDict d).
  Hypothesis HTensor : forall dt nn v, P v -> P (PTensor dt nn v).
  Hypothesis HParam : forall id dt nn v, P v -> P (PParam id dt nn v).
  Hypothesis HObj : forall c fs, Forall (fun p => P (snd p)) fs -> P (PObj c fs).

  Fixpoint pv_ind' (v : pv) : P v :=
    match v with
    | PNone => HNone
    | PBool b => HBool b
    | PInt z => HInt z
    | PFloat z => HFloat z
    | PStr s => HStr s
    | PList l => HList l ((fix go (l : list pv) : Forall P l :=
                             match l with [] => Forall_nil _ | x :: r => Forall_cons _ (pv_ind' x) (go r) end) l)
    | PTuple l => HTuple l ((fix go (l : list pv) : Forall P l :=
                               match l with [] => Forall_nil _ | x :: r => Forall_cons _ (pv_ind' x) (go r) end) l)
    | PDict d => HDict d ((fix go (d : list (key * pv)) : Forall (fun p => P (snd p)) d :=
                             match d with [] => Forall_nil _ | (k, x) :: r => Forall_cons (k, x) (pv_ind' x) (go r) end) d)
    | PTensor dt nn v => HTensor dt nn v (pv_ind' v)
    | PParam id dt nn v => HParam id dt nn v (pv_ind' v)
    | PObj c fs => HObj c fs ((fix go (d : list (string * pv)) : Forall (fun p => P (snd p)) d :=
                                 match d with [] => Forall_nil _ | (k, x) :: r => Forall_cons (k, x) (pv_ind' x) (go r) end) fs)
    end.
End PvInd.

(* ------------------------------------------------------------------ decimal keys *)
Lemma parse_int_zstr z : parse_int (zstr z) = Some z.
Proof.
  unfold parse_int, zstr.
  rewrite NilZero.isi.
  - cbn. now rewrite DecimalZ.of_to.
  - destruct z; cbn; try discriminate; intro H; injection H as H; now apply Unsigned.to_uint_nonnil in H.
  - destruct z; cbn; try discriminate; intro H; injection H as H; now apply Unsigned.to_uint_nonnil in H.
Qed.

(* ------------------------------------------------------------------ JSON round trip *)
Definition enc_list := fix go (l : list pv) : option (list jv) :=
  match l with
  | [] => Some []
  | x :: r => match enc x with
              | None => None
              | Some y => match go r with None => None | Some ys => Some (y :: ys) end
              end
  end.
Definition enc_dict := fix go (d : list (key * pv)) : option (list (string * jv)) :=
  match d with
  | [] => Some []
  | (k, x) :: r => match enc x with
                   | None => None
                   | Some y => match go r with None => None | Some ys => Some ((key_str k, y) :: ys) end
                   end
  end.

Lemma enc_list_norm l :
  Forall (fun v => plainb v = true -> json_rt v = Some (norm v)) l ->
  forallb plainb l = true ->
  exists js, enc_list l = Some js /\ map dec js = map norm l.
Proof.
  induction 1 as [|x r Hx _ IH]; cbn; intros Hp.
  - exists []; auto.
  - apply andb_true_iff in Hp as [Hpx Hpr].
    specialize (Hx Hpx). unfold json_rt in Hx.
    destruct (enc x) as [y|] eqn:Ey; cbn in Hx; [|discriminate]. injection Hx as Hx.
    destruct (IH Hpr) as [js [E1 E2]]. rewrite E1. exists (y :: js). cbn. now rewrite Hx, E2.
Qed.

Lemma lookup_map_dec_type d ds :
  forallb (fun p => match p with (k, x) => is_kstr k && plainb x end) d = true ->
  Forall (fun p => plainb (snd p) = true -> json_rt (snd p) = Some (norm (snd p))) d ->
  enc_dict d = Some ds ->
  map (fun p => match p with (k, x) => (k, dec x) end) ds
  = map (fun p => (key_str (fst p), norm (snd p))) d.
Proof.
  revert ds. induction d as [|[k x] r IH]; cbn; intros ds Hp Hf E.
  - injection E as <-. reflexivity.
  - apply andb_true_iff in Hp as [Hpx Hpr]. apply andb_true_iff in Hpx as [_ Hpx].
    inversion Hf as [|? ? Hx Hr]; subst. cbn in Hx. specialize (Hx Hpx). unfold json_rt in Hx.
    destruct (enc x) as [y|]; cbn in Hx; [|discriminate]. injection Hx as Hx.
    destruct (enc_dict r) as [ys|] eqn:Er; [|discriminate]. injection E as <-.
    cbn. rewrite Hx. f_equal. now apply IH.
Qed.

Lemma enc_dict_some d :
  forallb (fun p => match p with (k, x) => is_kstr k && plainb x end) d = true ->
  Forall (fun p => plainb (snd p) = true -> json_rt (snd p) = Some (norm (snd p))) d ->
  exists ds, enc_dict d = Some ds.
Proof.
  induction d as [|[k x] r IH]; cbn; intros Hp Hf.
  - eauto.
  - apply andb_true_iff in Hp as [Hpx Hpr]. apply andb_true_iff in Hpx as [_ Hpx].
    inversion Hf as [|? ? Hx Hr]; subst. cbn in Hx. specialize (Hx Hpx). unfold json_rt in Hx.
    destruct (enc x) as [y|]; cbn in Hx; [|discriminate].
    destruct (IH Hpr Hr) as [ys ->]. eauto.
Qed.

(* the "type" entry of a string-keyed dictionary of plain values, after the round trip *)
Lemma norm_marker x : is_tensor_marker (Some (norm x)) = is_tensor_marker (Some x).
Proof. destruct x; reflexivity. Qed.

Lemma lookup_type_norm d :
  forallb (fun p => match p with (k, x) => is_kstr k && plainb x end) d = true ->
  tensor_like d = false ->
  is_tensor_marker (lookup "type" (map (fun p => (key_str (fst p), norm (snd p))) d)) = false.
Proof.
  induction d as [|[k x] r IH]; cbn -[String.eqb]; intros Hp Ht; [reflexivity|].
  apply andb_true_iff in Hp as [Hpx Hpr]. apply andb_true_iff in Hpx as [Hk Hpx].
  destruct k as [z|s]; [discriminate|]. cbn -[String.eqb] in *.
  apply orb_false_iff in Ht as [Ht1 Ht2].
  destruct (String.eqb "type" s) eqn:Es.
  - cbn -[String.eqb] in Ht1. destruct x; cbn -[String.eqb] in *; auto.
  - now apply IH.
Qed.

Lemma map_kstr_norm d :
  forallb (fun p => match p with (k, x) => is_kstr k && plainb x end) d = true ->
  map (fun p => (KStr (fst p), snd p)) (map (fun p => (key_str (fst p), norm (snd p))) d)
  = map (fun p => match p with (k, x) => (k, norm x) end) d.
Proof.
  induction d as [|[k x] r IH]; cbn; intros Hp; [reflexivity|].
  apply andb_true_iff in Hp as [Hpx Hpr]. apply andb_true_iff in Hpx as [Hk _].
  destruct k; [discriminate|]. cbn. f_equal. now apply IH.
Qed.

(* json.load(json.dump(v)) = v up to tuples -> lists, for every plain value *)
Lemma json_rt_plain_l : forall v, plainb v = true -> json_rt v = Some (norm v).
Proof.
  induction v using pv_ind'; cbn; intros Hp; try reflexivity; try discriminate.
  - (* list *)
    destruct (enc_list_norm l H Hp) as [js [E1 E2]].
    unfold json_rt. cbn. fold enc_list. rewrite E1. cbn. now rewrite E2.
  - (* tuple *)
    destruct (enc_list_norm l H Hp) as [js [E1 E2]].
    unfold json_rt. cbn. fold enc_list. rewrite E1. cbn. now rewrite E2.
  - (* dict *)
    apply andb_true_iff in Hp as [Hp Ht]. apply negb_true_iff in Ht.
    destruct (enc_dict_some d Hp H) as [ds E].
    unfold json_rt. cbn. fold enc_dict. rewrite E. cbn.
    rewrite (lookup_map_dec_type d ds Hp H E).
    unfold hook. rewrite (lookup_type_norm d Hp Ht).
    now rewrite map_kstr_norm.
  - (* tensor *)
    specialize (IHv Hp). unfold json_rt in *. cbn.
    destruct (enc v) as [j|]; cbn in IHv; [|discriminate]. injection IHv as IHv.
    destruct nn; cbn; unfold hook; cbn; now rewrite IHv.
Qed.

Lemma norm_no_tuple_l : forall v, no_tupleb v = true -> norm v = v.
Proof.
  induction v using pv_ind'; cbn; intros Hp; try reflexivity; try discriminate.
  - f_equal. induction H as [|x r Hx _ IH]; cbn in *; [reflexivity|].
    apply andb_true_iff in Hp as [H1 H2]. now rewrite Hx, IH.
  - f_equal. induction H as [|[k x] r Hx _ IH]; cbn in *; [reflexivity|].
    apply andb_true_iff in Hp as [H1 H2]. now rewrite Hx, IH.
  - f_equal. now apply IHv.
  - f_equal. now apply IHv.
  - f_equal. induction H as [|[k x] r Hx _ IH]; cbn in *; [reflexivity|].
    apply andb_true_iff in Hp as [H1 H2]. now rewrite Hx, IH.
Qed.

Lemma json_rt_safe_l v : plainb v = true -> no_tupleb v = true -> json_rt v = Some v.
Proof. intros H1 H2. rewrite json_rt_plain_l by assumption. now rewrite norm_no_tuple_l. Qed.

(* the defect class: an integer key ALWAYS comes back as its decimal string *)
Lemma json_rt_int_key_l z v : plainb v = true ->
  json_rt (PDict [(KInt z, v)]) = Some (PDict [(KStr (zstr z), norm v)])
  \/ is_tensor_marker (Some v) = true /\ zstr z = "type".
Proof.
  intros Hp. pose proof (json_rt_plain_l v Hp) as Hv. unfold json_rt in *. cbn -[String.eqb zstr].
  destruct (enc v) as [j|]; cbn in Hv; [|discriminate]. injection Hv as Hv. cbn -[String.eqb zstr].
  unfold hook. cbn -[String.eqb zstr]. rewrite Hv.
  destruct (String.eqb "type" (zstr z)) eqn:E.
  - destruct (is_tensor_marker (Some (norm v))) eqn:Em.
    + right. rewrite norm_marker in Em. apply String.eqb_eq in E. auto.
    + left. reflexivity.
  - left. reflexivity.
Qed.
