(* C17 — proofs about model/M_ckpt.v *)
From Coq Require Import List String ZArith Bool Ascii DecimalString DecimalZ DecimalPos Lia.
Import ListNotations.
From TT Require Import M_ckpt.
Open Scope string_scope.
Open Scope list_scope.

(* ------------------------------------------------------------------ induction on Python values *)
Section PvInd.
  Variable P : pv -> Prop.
  Hypothesis HNone : P PNone.
  Hypothesis HBool : forall b, P (PBool b).
  Hypothesis HInt : forall z, P (PInt z).
  Hypothesis HFloat : forall z, P (PFloat z).
  Hypothesis HStr : forall s, P (PStr s).
  Hypothesis HList : forall l, Forall P l -> P (PList l).
  Hypothesis HTuple : forall l, Forall P l -> P (PTuple l).
  Hypothesis HDict : forall d, Forall (fun p => P (snd p)) d -> P (PDict d).
  Hypothesis HTensor : forall dt nn v, P v -> P (PTensor dt nn v).
  Hypothesis HParam : forall id dt nn v, P v -> P (PParam id dt nn v).
  Hypothesis HObj : forall c fs, Forall (fun p => P (snd p)) fs -> P (PObj c fs).

  Fixpoint pv_ind' (v : pv) : P v :=
    match v with
    | PNone => HNone
    | PBool b => HBool b
    | PInt z => HInt z
    | PFloat z => HFloat z
    | PStr s => HStr s
    | PList l => HList l ((fix go (l : list pv) : Forall P l :=
                             match l with [] => Forall_nil _ | x :: r => Forall_cons _ (pv_ind' x) (go r) end) l)
    | PTuple l => HTuple l ((fix go (l : list pv) : Forall P l :=
                               match l with [] => Forall_nil _ | x :: r => Forall_cons _ (pv_ind' x) (go r) end) l)
    | PDict d => HDict d ((fix go (d : list (key * pv)) : Forall (fun p => P (snd p)) d :=
                             match d with [] => Forall_nil _ | (k, x) :: r => Forall_cons (k, x) (pv_ind' x) (go r) end) d)
    | PTensor dt nn v => HTensor dt nn v (pv_ind' v)
    | PParam id dt nn v => HParam id dt nn v (pv_ind' v)
    | PObj c fs => HObj c fs ((fix go (d : list (string * pv)) : Forall (fun p => P (snd p)) d :=
                                 match d with [] => Forall_nil _ | (k, x) :: r => Forall_cons (k, x) (pv_ind' x) (go r) end) fs)
    end.
End PvInd.

(* ------------------------------------------------------------------ decimal keys *)
Lemma parse_int_zstr z : parse_int (zstr z) = Some z.
Proof.
  unfold parse_int, zstr.
  rewrite NilZero.isi.
  - cbn. now rewrite DecimalZ.of_to.
  - destruct z; cbn; try discriminate; intro H; injection H as H; now apply Unsigned.to_uint_nonnil in H.
  - destruct z; cbn; try discriminate; intro H; injection H as H; now apply Unsigned.to_uint_nonnil in H.
Qed.

(* ------------------------------------------------------------------ JSON round trip *)
Definition enc_list := fix go (l : list pv) : option (list jv) :=
  match l with
  | [] => Some []
  | x :: r => match enc x with
              | None => None
              | Some y => match go r with None => None | Some ys => Some (y :: ys) end
              end
  end.
Definition enc_dict := fix go (d : list (key * pv)) : option (list (string * jv)) :=
  match d with
  | [] => Some []
  | (k, x) :: r => match enc x with
                   | None => None
                   | Some y => match go r with None => None | Some ys => Some ((key_str k, y) :: ys) end
                   end
  end.

Lemma enc_list_norm l :
  Forall (fun v => plainb v = true -> json_rt v = Some (norm v)) l ->
  forallb plainb l = true ->
  exists js, enc_list l = Some js /\ map dec js = map norm l.
Proof.
  induction 1 as [|x r Hx _ IH]; cbn; intros Hp.
  - exists []; auto.
  - apply andb_true_iff in Hp as [Hpx Hpr].
    specialize (Hx Hpx). unfold json_rt in Hx.
    destruct (enc x) as [y|] eqn:Ey; cbn in Hx; [|discriminate]. injection Hx as Hx.
    destruct (IH Hpr) as [js [E1 E2]]. rewrite E1. exists (y :: js). cbn. now rewrite Hx, E2.
Qed.

Lemma lookup_map_dec_type d ds :
  forallb (fun p => match p with (k, x) => is_kstr k && plainb x end) d = true ->
  Forall (fun p => plainb (snd p) = true -> json_rt (snd p) = Some (norm (snd p))) d ->
  enc_dict d = Some ds ->
  map (fun p => match p with (k, x) => (k, dec x) end) ds
  = map (fun p => (key_str (fst p), norm (snd p))) d.
Proof.
  revert ds. induction d as [|[k x] r IH]; cbn; intros ds Hp Hf E.
  - injection E as <-. reflexivity.
  - apply andb_true_iff in Hp as [Hpx Hpr]. apply andb_true_iff in Hpx as [_ Hpx].
    inversion Hf as [|? ? Hx Hr]; subst. cbn in Hx. specialize (Hx Hpx). unfold json_rt in Hx.
    destruct (enc x) as [y|]; cbn in Hx; [|discriminate]. injection Hx as Hx.
    destruct (enc_dict r) as [ys|] eqn:Er; [|discriminate]. injection E as <-.
    cbn. rewrite Hx. f_equal. now apply IH.
Qed.

Lemma enc_dict_some d :
  forallb (fun p => match p with (k, x) => is_kstr k && plainb x end) d = true ->
  Forall (fun p => plainb (snd p) = true -> json_rt (snd p) = Some (norm (snd p))) d ->
  exists ds, enc_dict d = Some ds.
Proof.
  induction d as [|[k x] r IH]; cbn; intros Hp Hf.
  - eauto.
  - apply andb_true_iff in Hp as [Hpx Hpr]. apply andb_true_iff in Hpx as [_ Hpx].
    inversion Hf as [|? ? Hx Hr]; subst. cbn in Hx. specialize (Hx Hpx). unfold json_rt in Hx.
    destruct (enc x) as [y|]; cbn in Hx; [|discriminate].
    destruct (IH Hpr Hr) as [ys ->]. eauto.
Qed.

(* the "type" entry of a string-keyed dictionary of plain values, after the round trip *)
Lemma norm_marker x : is_tensor_marker (Some (norm x)) = is_tensor_marker (Some x).
Proof. destruct x; reflexivity. Qed.

Lemma lookup_type_norm d :
  forallb (fun p => match p with (k, x) => is_kstr k && plainb x end) d = true ->
  tensor_like d = false ->
  is_tensor_marker (lookup "type" (map (fun p => (key_str (fst p), norm (snd p))) d)) = false.
Proof.
  induction d as [|[k x] r IH]; cbn -[String.eqb]; intros Hp Ht; [reflexivity|].
  apply andb_true_iff in Hp as [Hpx Hpr]. apply andb_true_iff in Hpx as [Hk Hpx].
  destruct k as [z|s]; [discriminate|]. cbn -[String.eqb] in *.
  apply orb_false_iff in Ht as [Ht1 Ht2].
  destruct (String.eqb "type" s) eqn:Es.
  - cbn -[String.eqb] in Ht1. destruct x; cbn -[String.eqb] in *; auto.
  - now apply IH.
Qed.

Lemma map_kstr_norm d :
  forallb (fun p => match p with (k, x) => is_kstr k && plainb x end) d = true ->
  map (fun p => (KStr (fst p), snd p)) (map (fun p => (key_str (fst p), norm (snd p))) d)
  = map (fun p => match p with (k, x) => (k, norm x) end) d.
Proof.
  induction d as [|[k x] r IH]; cbn; intros Hp; [reflexivity|].
  apply andb_true_iff in Hp as [Hpx Hpr]. apply andb_true_iff in Hpx as [Hk _].
  destruct k; [discriminate|]. cbn. f_equal. now apply IH.
Qed.

(* json.load(json.dump(v)) = v up to tuples -> lists, for every plain value *)
Lemma json_rt_plain_l : forall v, plainb v = true -> json_rt v = Some (norm v).
Proof.
  induction v using pv_ind'; cbn; intros Hp; try reflexivity; try discriminate.
  - (* list *)
    destruct (enc_list_norm l H Hp) as [js [E1 E2]].
    unfold json_rt. cbn. fold enc_list. rewrite E1. cbn. now rewrite E2.
  - (* tuple *)
    destruct (enc_list_norm l H Hp) as [js [E1 E2]].
    unfold json_rt. cbn. fold enc_list. rewrite E1. cbn. now rewrite E2.
  - (* dict *)
    apply andb_true_iff in Hp as [Hp Ht]. apply negb_true_iff in Ht.
    destruct (enc_dict_some d Hp H) as [ds E].
    unfold json_rt. cbn. fold enc_dict. rewrite E. cbn.
    rewrite (lookup_map_dec_type d ds Hp H E).
    unfold hook. rewrite (lookup_type_norm d Hp Ht).
    now rewrite map_kstr_norm.
  - (* tensor *)
    specialize (IHv Hp). unfold json_rt in *. cbn.
    destruct (enc v) as [j|]; cbn in IHv; [|discriminate]. injection IHv as IHv.
    destruct nn; cbn; unfold hook; cbn; now rewrite IHv.
Qed.

Lemma norm_no_tuple_l : forall v, no_tupleb v = true -> norm v = v.
Proof.
  induction v using pv_ind'; cbn; intros Hp; try reflexivity; try discriminate.
  - f_equal. induction H as [|x r Hx _ IH]; cbn in *; [reflexivity|].
    apply andb_true_iff in Hp as [H1 H2]. now rewrite Hx, IH.
  - f_equal. induction H as [|[k x] r Hx _ IH]; cbn in *; [reflexivity|].
    apply andb_true_iff in Hp as [H1 H2]. now rewrite Hx, IH.
  - f_equal. now apply IHv.
  - f_equal. now apply IHv.
  - f_equal. induction H as [|[k x] r Hx _ IH]; cbn in *; [reflexivity|].
    apply andb_true_iff in Hp as [H1 H2]. now rewrite Hx, IH.
Qed.

Lemma json_rt_safe_l v : plainb v = true -> no_tupleb v = true -> json_rt v = Some v.
Proof. intros H1 H2. rewrite json_rt_plain_l by assumption. now rewrite norm_no_tuple_l. Qed.

(* the defect class: an integer key ALWAYS comes back as its decimal string *)
Lemma json_rt_int_key_l z v : plainb v = true ->
  json_rt (PDict [(KInt z, v)]) = Some (PDict [(KStr (zstr z), norm v)])
  \/ is_tensor_marker (Some v) = true /\ zstr z = "type".
Proof.
  intros Hp. pose proof (json_rt_plain_l v Hp) as Hv. unfold json_rt in *. cbn -[String.eqb zstr].
  destruct (enc v) as [j|]; cbn in Hv; [|discriminate]. injection Hv as Hv. cbn -[String.eqb zstr].
  unfold hook. cbn -[String.eqb zstr]. rewrite Hv.
  destruct (String.eqb "type" (zstr z)) eqn:E.
  - destruct (is_tensor_marker (Some (norm v))) eqn:Em.
    + right. rewrite norm_marker in Em. apply String.eqb_eq in E. auto.
    + left. reflexivity.
  - left. reflexivity.
Qed.

(* ------------------------------------------------------------------ relational forms *)
Lemma json_rt_list_rel l l' :
  Forall2 (fun v v' => json_rt v = Some v') l l' -> json_rt (PList l) = Some (PList l').
Proof.
  intros H. unfold json_rt. cbn. fold enc_list.
  assert (exists js, enc_list l = Some js /\ map dec js = l') as [js [E1 E2]].
  { induction H as [|v v' r r' Hv _ IH]; cbn; [exists []; auto|].
    unfold json_rt in Hv. destruct (enc v) as [j|]; cbn in Hv; [|discriminate]. injection Hv as Hv.
    destruct IH as [js [E1 E2]]. rewrite E1. exists (j :: js). cbn. now rewrite Hv, E2. }
  rewrite E1. cbn. now rewrite E2.
Qed.

Lemma json_rt_dict_rel d (d2 : list (string * pv)) :
  Forall2 (fun p q => fst q = key_str (fst p) /\ json_rt (snd p) = Some (snd q)) d d2 ->
  is_tensor_marker (lookup "type" d2) = false ->
  json_rt (PDict d) = Some (PDict (map (fun q => (KStr (fst q), snd q)) d2)).
Proof.
  intros H Hm. unfold json_rt. cbn. fold enc_dict.
  assert (exists ds, enc_dict d = Some ds /\ map (fun p => match p with (k, x) => (k, dec x) end) ds = d2)
    as [ds [E1 E2]].
  { clear Hm. induction H as [|[k v] [k' v'] r r' [Hk Hv] _ IH]; cbn; [exists []; auto|].
    cbn in Hk, Hv. unfold json_rt in Hv. destruct (enc v) as [j|]; cbn in Hv; [|discriminate].
    injection Hv as Hv. destruct IH as [ds [E1 E2]]. rewrite E1.
    exists ((key_str k, j) :: ds). cbn. now rewrite Hv, E2, Hk. }
  rewrite E1. cbn. rewrite E2. unfold hook. now rewrite Hm.
Qed.

(* ------------------------------------------------------------------ external (torch) state *)
Lemma zstr_not_type z : String.eqb "type" (zstr z) = false.
Proof.
  unfold zstr. destruct z as [|p|p]; cbn; try reflexivity.
  - unfold NilZero.string_of_uint. destruct (Pos.to_uint p); reflexivity.
Qed.

Lemma lookup_type_int_keys (d : list (key * pv)) (f : pv -> pv) :
  all_int_keys d = true ->
  lookup "type" (map (fun p => (key_str (fst p), f (snd p))) d) = None.
Proof.
  induction d as [|[k x] r IH]; cbn -[String.eqb zstr]; intros H; [reflexivity|].
  apply andb_true_iff in H as [Hk Hr]. destruct k as [z|s]; [|discriminate].
  cbn -[String.eqb zstr]. rewrite zstr_not_type. now apply IH.
Qed.

(* an integer-keyed dictionary of plain values: keys come back as strings; int(...) undoes it *)
Lemma json_rt_int_dict d :
  all_int_keys d = true -> forallb (fun q => plainb (snd q)) d = true ->
  json_rt (PDict d) = Some (PDict (map (fun p => (KStr (key_str (fst p)), norm (snd p))) d)).
Proof.
  intros Hk Hp.
  rewrite (json_rt_dict_rel d (map (fun p => (key_str (fst p), norm (snd p))) d)).
  - now rewrite map_map.
  - clear Hk. induction d as [|[k x] r IH]; cbn; constructor.
    + cbn. split; [reflexivity|]. cbn in Hp. apply andb_true_iff in Hp as [H1 _]. now apply json_rt_plain_l.
    + apply IH. cbn in Hp. now apply andb_true_iff in Hp as [_ H2].
  - now rewrite lookup_type_int_keys.
Qed.

Lemma int_keys_back d :
  all_int_keys d = true ->
  int_keys (PDict (map (fun p => (KStr (key_str (fst p)), norm (snd p))) d)) = Some (norm (PDict d)).
Proof.
  intros Hk. cbn -[zstr]. 
  assert (mapM (fun p : key * pv => match p with
                        | (KStr s, x) => option_map (fun z => (KInt z, x)) (parse_int s)
                        | (KInt _, _) => None end)
               (map (fun p => (KStr (key_str (fst p)), norm (snd p))) d)
          = Some (map (fun p => match p with (k, x) => (k, norm x) end) d)) as ->; [|reflexivity].
  induction d as [|[k x] r IH]; cbn -[zstr]; [reflexivity|].
  cbn in Hk. apply andb_true_iff in Hk as [H1 H2]. destruct k as [z|s]; [|discriminate].
  cbn -[zstr]. rewrite parse_int_zstr. cbn -[zstr]. now rewrite (IH H2).
Qed.

(* image of one entry of an external state dictionary under json *)
Definition ext_img (paths : list string) (p : key * pv) : string * pv :=
  (key_str (fst p),
   if mem (key_str (fst p)) paths
   then match snd p with
        | PDict d' => PDict (map (fun q => (KStr (key_str (fst q)), norm (snd q))) d')
        | x => norm x
        end
   else norm (snd p)).

Lemma ext_marker paths d :
  forallb (fun p => match p with
                    | (KStr k, x) => if mem k paths
                                     then match x with
                                          | PDict d' => all_int_keys d' && forallb (fun q => plainb (snd q)) d'
                                          | _ => false end
                                     else plainb x
                    | (KInt _, _) => false end) d = true ->
  tensor_like d = false ->
  is_tensor_marker (lookup "type" (map (ext_img paths) d)) = false.
Proof.
  induction d as [|[k x] r IH]; cbn -[String.eqb]; intros Hp Ht; [reflexivity|].
  apply andb_true_iff in Hp as [Hpx Hpr]. apply orb_false_iff in Ht as [Ht1 Ht2].
  destruct k as [z|s]; [discriminate|]. cbn -[String.eqb] in *.
  destruct (String.eqb "type" s) eqn:Es; [|now apply IH].
  cbn -[String.eqb] in Ht1.
  destruct (mem s paths).
  - destruct x; try discriminate. reflexivity.
  - rewrite norm_marker. exact Ht1.
Qed.

(* THE statement about torch.optim state: written to JSON and read back, the integer keys have
   become strings; re-keying exactly the integer-keyed entries gives the state back (tuples as lists) *)
Lemma rekey_roundtrip_l paths fixes v :
  (forall k, mem k fixes = mem k paths) ->
  ext_okb paths v = true ->
  exists v', json_rt v = Some v' /\ rekey fixes v' = Some (norm v).
Proof.
  intros Hf Hok. destruct v; try discriminate. cbn in Hok.
  apply andb_true_iff in Hok as [Hp Ht]. apply negb_true_iff in Ht.
  exists (PDict (map (fun q => (KStr (fst q), snd q)) (map (ext_img paths) d))). split.
  - apply json_rt_dict_rel; [|now apply ext_marker].
    clear Ht. induction d as [|[k x] r IH]; cbn; constructor.
    + cbn in Hp. apply andb_true_iff in Hp as [H1 _]. destruct k as [z|s]; [discriminate|].
      unfold ext_img. cbn. split; [reflexivity|].
      destruct (mem s paths).
      * destruct x; try discriminate. apply andb_true_iff in H1 as [Ha Hb]. now apply json_rt_int_dict.
      * now apply json_rt_plain_l.
    + apply IH. cbn in Hp. now apply andb_true_iff in Hp as [_ H2].
  - cbn.
    assert (mapM (fun p : key * pv => match p with
                  | (KStr k, x) => if mem k fixes
                                   then match x with
                                        | PDict _ => option_map (fun y => (KStr k, y)) (int_keys x)
                                        | _ => Some (KStr k, x) end
                                   else Some (KStr k, x)
                  | (KInt z, x) => Some (KInt z, x) end)
              (map (fun q => (KStr (fst q), snd q)) (map (ext_img paths) d))
            = Some (map (fun p => match p with (k, x) => (k, norm x) end) d)) as ->; [|reflexivity].
    clear Ht. induction d as [|[k x] r IH]; [reflexivity|].
    cbn in Hp. apply andb_true_iff in Hp as [H1 H2]. destruct k as [z|s]; [discriminate|].
    cbn [map mapM].
    assert (ext_img paths (KStr s, x) =
      (s, if mem s paths then match x with
                              | PDict d' => PDict (map (fun q => (KStr (key_str (fst q)), norm (snd q))) d')
                              | _ => norm x end
          else norm x)) as -> by (unfold ext_img; cbn [fst snd key_str]; destruct x; reflexivity).
    cbn [fst snd]. rewrite Hf.
    destruct (mem s paths) eqn:Em.
    + destruct x as [| | | | | | |dd| | |]; try discriminate. apply andb_true_iff in H1 as [Ha Hb].
      rewrite (int_keys_back dd Ha). cbn [option_map]. now rewrite (IH H2).
    + rewrite (IH H2). reflexivity.
Qed.

(* ------------------------------------------------------------------ association lists *)
Lemma lookup_set_same {A} k (v : A) d : lookup k (set_field k v d) = Some v.
Proof.
  induction d as [|[k' v'] r IH]; cbn -[String.eqb].
  - now rewrite String.eqb_refl.
  - destruct (String.eqb k k') eqn:E; cbn -[String.eqb]; [now rewrite String.eqb_refl | now rewrite E].
Qed.

Lemma lookup_set_other {A} k k' (v : A) d : k <> k' -> lookup k' (set_field k v d) = lookup k' d.
Proof.
  intros Hn. induction d as [|[k2 v2] r IH]; cbn -[String.eqb].
  - destruct (String.eqb k' k) eqn:E; [apply String.eqb_eq in E; congruence | reflexivity].
  - destruct (String.eqb k k2) eqn:E; cbn -[String.eqb].
    + apply String.eqb_eq in E. subst k2.
      destruct (String.eqb k' k) eqn:E2; [apply String.eqb_eq in E2; congruence | reflexivity].
    + destruct (String.eqb k' k2); [reflexivity | exact IH].
Qed.

Lemma keys_set_present {A} k (v : A) d : In k (map fst d) -> map fst (set_field k v d) = map fst d.
Proof.
  induction d as [|[k' v'] r IH]; cbn -[String.eqb]; intros H; [contradiction|].
  destruct (String.eqb k k') eqn:E; cbn.
  - apply String.eqb_eq in E. now subst.
  - f_equal. apply IH. destruct H as [H|H]; [subst; now rewrite String.eqb_refl in E | exact H].
Qed.

Lemma lookup_in_keys {A} k (d : list (string * A)) v : lookup k d = Some v -> In k (map fst d).
Proof.
  induction d as [|[k' v'] r IH]; cbn -[String.eqb]; [discriminate|].
  destruct (String.eqb k k') eqn:E; intros H.
  - apply String.eqb_eq in E. now left.
  - right. now apply IH.
Qed.

Lemma keys_in_lookup {A} k (d : list (string * A)) : In k (map fst d) -> exists v, lookup k d = Some v.
Proof.
  induction d as [|[k' v'] r IH]; cbn -[String.eqb]; [contradiction|].
  destruct (String.eqb k k') eqn:E; intros H; [eauto|].
  destruct H as [H|H]; [subst; now rewrite String.eqb_refl in E | now apply IH].
Qed.

Lemma lookup_map_snd {A B} (f : A -> B) k (d : list (string * A)) :
  lookup k (map (fun p => (fst p, f (snd p))) d) = option_map f (lookup k d).
Proof.
  induction d as [|[k' v'] r IH]; cbn -[String.eqb]; [reflexivity|].
  destruct (String.eqb k k'); [reflexivity | exact IH].
Qed.

Lemma assoc_ext {A} (a b : list (string * A)) :
  map fst a = map fst b -> NoDup (map fst a) ->
  (forall k, In k (map fst a) -> lookup k a = lookup k b) -> a = b.
Proof.
  revert b. induction a as [|[k v] r IH]; intros [|[k' v'] r'] Hk Hn Hl; cbn in *; try discriminate; [reflexivity|].
  injection Hk as -> Hk. inversion Hn as [|? ? Hnot Hn']; subst.
  pose proof (Hl k' (or_introl eq_refl)) as H0. rewrite String.eqb_refl in H0. injection H0 as ->.
  f_equal. apply IH; auto.
  intros k Hin. specialize (Hl k (or_intror Hin)).
  destruct (String.eqb k k') eqn:E; [|exact Hl].
  apply String.eqb_eq in E. subst. contradiction.
Qed.

Lemma mem_In s l : mem s l = true <-> In s l.
Proof.
  unfold mem. rewrite existsb_exists. split.
  - intros [x [H1 H2]]. apply String.eqb_eq in H2. now subst.
  - intros H. exists s. split; [exact H | apply String.eqb_refl].
Qed.

Lemma nodupb_NoDup l : nodupb l = true -> NoDup l.
Proof.
  induction l as [|x r IH]; cbn; intros H; constructor.
  - apply andb_true_iff in H as [H _]. apply negb_true_iff in H. intro Hin. apply mem_In in Hin. congruence.
  - apply IH. now apply andb_true_iff in H as [_ H].
Qed.

Lemma same_set_mem a b : same_set a b = true -> forall k, mem k b = mem k a.
Proof.
  unfold same_set, subset. intros H k. apply andb_true_iff in H as [H1 H2].
  rewrite forallb_forall in H1, H2.
  destruct (mem k a) eqn:Ea.
  - apply mem_In in Ea. now apply H1.
  - destruct (mem k b) eqn:Eb; [|reflexivity]. apply mem_In in Eb. apply H2 in Eb. congruence.
Qed.

Lemma lookupk_kstr (E : list (string * pv)) k :
  lookupk k (map (fun q => (KStr (fst q), snd q)) E) = lookup k E.
Proof.
  induction E as [|[k' v'] r IH]; cbn -[String.eqb]; [reflexivity|].
  destruct (String.eqb k k'); [reflexivity | exact IH].
Qed.

Lemma find_w_In k ws w : find_w k ws = Some w -> In w ws /\ wkey w = k.
Proof.
  unfold find_w. intros H. apply find_some in H as [H1 H2]. apply String.eqb_eq in H2. auto.
Qed.

Lemma find_w_nodup ws w : NoDup (map wkey ws) -> In w ws -> find_w (wkey w) ws = Some w.
Proof.
  unfold find_w. induction ws as [|w' r IH]; cbn -[String.eqb]; intros Hn Hin; [contradiction|].
  inversion Hn as [|? ? Hnot Hn']; subst.
  destruct Hin as [->|Hin]; [now rewrite String.eqb_refl|].
  destruct (String.eqb (wkey w') (wkey w)) eqn:E; [|now apply IH].
  apply String.eqb_eq in E. exfalso. apply Hnot. rewrite E. now apply in_map.
Qed.

Lemma find_r_Some k rs : (exists r, In r rs /\ rkey r = k) -> exists r, find_r k rs = Some r.
Proof.
  unfold find_r. intros [r [Hin Hk]].
  destruct (find (fun r0 => String.eqb (rkey r0) k) rs) eqn:E; [eauto|].
  exfalso. apply (find_none _ _ E) in Hin. subst. now rewrite String.eqb_refl in Hin.
Qed.

Lemma find_r_In k rs r : find_r k rs = Some r -> In r rs /\ rkey r = k.
Proof.
  unfold find_r. intros H. apply find_some in H as [H1 H2]. apply String.eqb_eq in H2. auto.
Qed.

Lemma Forall2_weaken {A B} (P Q : A -> B -> Prop) l l' :
  (forall a b, P a b -> Q a b) -> Forall2 P l l' -> Forall2 Q l l'.
Proof. intros H. induction 1; constructor; auto. Qed.

(* what an attribute must look like for the (write mode, read mode) pair it goes through;
   s0 = attributes of the freshly constructed object; CR / CRid = "this child object survives the
   round trip" (CRid: as a member of a list, found by its id) *)
Definition value_ok (CR CRid : pv -> pv -> Prop) (s0 : state) (w : wentry) (r : rentry) (v : pv) : Prop :=
  match wm w, rm r with
  | WDirect, RDirect => plainb v = true
  | WSeq, RDeque => plainb v = true
  | WDirect, RParam => exists id dt nn vals dt0 nn0 vals0,
      v = PParam id dt nn vals /\ plainb vals = true
      /\ lookup (wfield w) s0 = Some (PParam id dt0 nn0 vals0)
  | WTolist, RTensor src => exists dt vals,
      v = PTensor dt false vals /\ plainb vals = true /\ dtype_of (lookup src s0) = Some dt
  | WTolistEach, RTensorEach src => exists dt l,
      v = PList (map (PTensor dt false) l) /\ forallb plainb l = true /\ dtype_of (lookup src s0) = Some dt
  | WChild, RChild => exists c0, lookup (wfield w) s0 = Some c0 /\ CR c0 v
  | WChildren, RChildren => exists cs0 cs,
      lookup (wfield w) s0 = Some (PList cs0) /\ v = PList cs /\ Forall2 CRid cs0 cs
      /\ NoDup (map obj_id cs0)
  | WExternal k, RExternal _ => ext_okb (ext_int_key_paths k) v = true
  | _, _ => False
  end.

Lemma value_ok_mono (CR CRid CR' CRid' : pv -> pv -> Prop) s0 w r v :
  (forall a b, CR a b -> CR' a b) -> (forall a b, CRid a b -> CRid' a b) ->
  value_ok CR CRid s0 w r v -> value_ok CR' CRid' s0 w r v.
Proof.
  intros H1 H2. unfold value_ok. destruct (wm w), (rm r); auto.
  - intros [c0 [Ha Hb]]. exists c0. auto.
  - intros [cs0 [cs [Ha [Hb [Hc Hd]]]]]. exists cs0, cs. repeat split; auto.
    eapply Forall2_weaken; [|exact Hc]. auto.
Qed.

(* ------------------------------------------------------------------ one object: restore (save s) = s *)
Section FlatRT.
  Variable csave : pv -> option pv.
  Variable crestore : pv -> pv -> option pv.

  (* a child object c (fresh counterpart c0 built by the restart) survives the round trip *)
  Definition child_rt (c0 c : pv) : Prop :=
    exists d d', csave c = Some d /\ json_rt d = Some d' /\ crestore c0 d' = Some (norm c).
  (* children held in a list are matched by the "id" their dictionary carries *)
  Definition child_rt_id (c0 c : pv) : Prop :=
    exists d d', csave c = Some d /\ json_rt d = Some d' /\ crestore c0 d' = Some (norm c)
                 /\ dict_id d' = obj_id c0.

  Lemma mapM_tvals dt l : mapM tvals (map (PTensor dt false) l) = Some l.
  Proof. induction l as [|x r IH]; cbn; [reflexivity | now rewrite IH]. Qed.

  Lemma find_by_id_nodup xs x :
    NoDup (map dict_id xs) -> In x xs -> find_by_id (dict_id x) xs = Some x.
  Proof.
    induction xs as [|y r IH]; cbn; intros Hn Hin; [contradiction|].
    inversion Hn as [|? ? Hnot Hn']; subst.
    destruct Hin as [->|Hin].
    - destruct (dict_id x); cbn; [now rewrite String.eqb_refl | reflexivity].
    - destruct (opt_str_eqb (dict_id y) (dict_id x)) eqn:E; [|now apply IH].
      exfalso. apply Hnot.
      assert (dict_id y = dict_id x) as ->.
      { destruct (dict_id y), (dict_id x); cbn in E; try discriminate; [apply String.eqb_eq in E; now subst | reflexivity]. }
      now apply in_map.
  Qed.

  Lemma children_rt cs0 cs :
    Forall2 child_rt_id cs0 cs -> NoDup (map obj_id cs0) ->
    exists ds ds', mapM csave cs = Some ds /\ Forall2 (fun d d' => json_rt d = Some d') ds ds'
      /\ mapM (fun c => match find_by_id (obj_id c) ds' with
                        | Some st => crestore c st
                        | None => Some c end) cs0 = Some (map norm cs).
  Proof.
    intros HF Hn.
    assert (exists ds ds', mapM csave cs = Some ds /\ Forall2 (fun d d' => json_rt d = Some d') ds ds'
              /\ map dict_id ds' = map obj_id cs0
              /\ Forall2 (fun c0 c => exists d', In d' ds' /\ dict_id d' = obj_id c0 /\ crestore c0 d' = Some (norm c)) cs0 cs)
      as [ds [ds' [H1 [H2 [H3 H4]]]]].
    { clear Hn. induction HF as [|c0 c r0 r [d [d' [Ha [Hb [Hc Hd]]]]] _ IH].
      - exists [], []. cbn. repeat split; constructor.
      - destruct IH as [ds [ds' [H1 [H2 [H3 H4]]]]].
        exists (d :: ds), (d' :: ds'). cbn. rewrite Ha, H1. repeat split.
        + now constructor.
        + now rewrite Hd, H3.
        + constructor.
          * exists d'. cbn. auto.
          * eapply Forall2_weaken; [|exact H4]. cbn. intros a b [x [Hx1 Hx2]]. exists x. auto. }
    exists ds, ds'. repeat split; auto.
    rewrite <- H3 in Hn.
    clear H1 H2 H3 HF. induction H4 as [|c0 c r0 r [d' [Hin [Hid Hc]]] _ IH]; cbn; [reflexivity|].
    rewrite <- Hid. rewrite (find_by_id_nodup ds' d' Hn Hin). rewrite Hc. now rewrite IH.
  Qed.

  (* one key: what is written for it, what json returns, what the matching read makes of it *)
  Lemma entry_rt s0 w r v :
    compat_mode w r = true -> rfield r = wfield w -> value_ok child_rt child_rt_id s0 w r v ->
    exists e e', wenc csave (wm w) v = Some e /\ json_rt e = Some e'
                 /\ rdec crestore s0 r e' = Some (norm v).
  Proof.
    unfold compat_mode, value_ok, rdec. intros Hc Hf Hv.
    destruct (wm w) eqn:Ew, (rm r) eqn:Er; try discriminate; try contradiction; cbn [wenc].
    - (* direct *) exists v, (norm v). repeat split; auto using json_rt_plain_l.
    - (* Parameter object *)
      destruct Hv as [id [dt [nn [vals [dt0 [nn0 [vals0 [-> [Hp H0]]]]]]]]].
      pose proof (json_rt_plain_l vals Hp) as Hj. unfold json_rt in Hj.
      destruct (enc vals) as [j|] eqn:Ej; cbn in Hj; [|discriminate]. injection Hj as Hj.
      exists (PParam id dt nn vals).
      exists (PDict [(KStr "id", PStr id); (KStr "type", PStr penc_type_name); (KStr "tensor", norm vals);
                     (KStr "dtype", PStr dt); (KStr "nn", PBool nn)]).
      split; [reflexivity|]. split.
      + unfold json_rt. cbn [enc]. rewrite Ej. cbn [option_map dec map]. rewrite Hj. reflexivity.
      + rewrite Hf, H0. reflexivity.
    - (* list(deque) *) exists v, (norm v). repeat split; auto using json_rt_plain_l.
    - (* tolist / tensor *)
      destruct Hv as [dt [vals [-> [Hp H0]]]]. exists vals, (norm vals).
      split; [reflexivity|]. split; [now apply json_rt_plain_l|]. now rewrite H0.
    - (* list of tensors *)
      destruct Hv as [dt [l [-> [Hp H0]]]]. exists (PList l), (PList (map norm l)).
      split; [now rewrite mapM_tvals|]. split.
      + change (PList (map norm l)) with (norm (PList l)). now apply json_rt_plain_l.
      + rewrite H0. cbn. now rewrite !map_map.
    - (* child *)
      destruct Hv as [c0 [H0 [d [d' [Ha [Hb Hc']]]]]]. exists d, d'. rewrite Hf, H0. auto.
    - (* children *)
      destruct Hv as [cs0 [cs [H0 [-> [HF Hn]]]]].
      destruct (children_rt cs0 cs HF Hn) as [ds [ds' [H1 [H2 H3]]]].
      exists (PList ds), (PList ds'). rewrite H1. split; [reflexivity|]. split.
      + now apply json_rt_list_rel.
      + rewrite Hf, H0, H3. reflexivity.
    - (* external torch state *)
      apply andb_true_iff in Hc as [Hk Hs]. apply String.eqb_eq in Hk. subst kind0.
      destruct (rekey_roundtrip_l (ext_int_key_paths kind) (rfix r) v (same_set_mem _ _ Hs) Hv) as [v' [H1 H2]].
      exists v, v'. auto.
  Qed.

  Variable t : ctable.
  Variables s0 s : state.
  Hypothesis Hdeleg : deleg t = None.
  Hypothesis Hkeys : keys_ok t = true.
  (* the attributes in play are exactly those the table writes, on both objects *)
  Hypothesis wf_fields : map fst s = map wfield (writes t).
  Hypothesis wf_fields0 : map fst s0 = map fst s.
  (* same configuration: guards evaluate alike on the saved and on the fresh object *)
  Hypothesis wf_guards : forall w, In w (writes t) -> guard_holds (wguard w) s0 = guard_holds (wguard w) s.
  (* every attribute that is read back has the shape its modes expect *)
  Hypothesis wf_values : forall w r v, In w (writes t) -> In r (reads t) -> rkey r = wkey w ->
    guard_holds (rguard r) s0 = true -> lookup (wfield w) s = Some v -> value_ok child_rt child_rt_id s0 w r v.
  (* what is written without being read back (the identity; an empty list of children) is
     serialisable and the fresh object already holds it *)
  Hypothesis wf_fixed : forall w v, In w (writes t) -> lookup (wfield w) s = Some v ->
    (forall r, In r (reads t) -> rkey r = wkey w -> guard_holds (rguard r) s0 = false) ->
    lookup (wfield w) s0 = Some (norm v)
    /\ (guard_holds (wguard w) s = true -> exists e e', wenc csave (wm w) v = Some e /\ json_rt e = Some e').

  Let Hstruct : struct_ok t = true.
  Proof. unfold keys_ok in Hkeys. rewrite Hdeleg in Hkeys. now apply andb_true_iff in Hkeys as [H _]; apply andb_true_iff in H as [H _]. Qed.
  Let Hreads : forall r, In r (reads t) -> read_ok t r = true.
  Proof. unfold keys_ok in Hkeys. rewrite Hdeleg in Hkeys. apply andb_true_iff in Hkeys as [H _]. apply andb_true_iff in H as [_ H]. now rewrite forallb_forall in H. Qed.
  Let Hwrites : forall w, In w (writes t) -> write_ok t w = true.
  Proof. unfold keys_ok in Hkeys. rewrite Hdeleg in Hkeys. apply andb_true_iff in Hkeys as [_ H]. now rewrite forallb_forall in H. Qed.
  Let Hnd_wkey : NoDup (map wkey (writes t)).
  Proof. unfold struct_ok in Hstruct. repeat (apply andb_true_iff in Hstruct as [Hstruct ?]). now apply nodupb_NoDup. Qed.
  Let Hnd_wfield : NoDup (map wfield (writes t)).
  Proof. unfold struct_ok in Hstruct. repeat (apply andb_true_iff in Hstruct as [Hstruct ?]). now apply nodupb_NoDup. Qed.
  Let Hnd_rfield : NoDup (map rfield (reads t)).
  Proof. unfold struct_ok in Hstruct. repeat (apply andb_true_iff in Hstruct as [Hstruct ?]). now apply nodupb_NoDup. Qed.
  Let Hnd_rkey : NoDup (map rkey (reads t)).
  Proof. unfold struct_ok in Hstruct. repeat (apply andb_true_iff in Hstruct as [Hstruct ?]). now apply nodupb_NoDup. Qed.
  Let Hnotype : ~ In "type" (map wkey (writes t)).
  Proof. unfold struct_ok in Hstruct. apply andb_true_iff in Hstruct as [_ H]. apply negb_true_iff in H. intro Hin. apply mem_In in Hin. congruence. Qed.

  (* facts about a read entry *)
  Lemma read_facts r : In r (reads t) ->
    exists w, In w (writes t) /\ wkey w = rkey r /\ wfield w = rfield r /\ compat_mode w r = true
              /\ guard_compat w r = true.
  Proof.
    intros Hin. pose proof (Hreads r Hin) as H. unfold read_ok in H.
    destruct (find_w (rkey r) (writes t)) as [w|] eqn:E; [|discriminate].
    apply find_w_In in E as [E1 E2]. apply andb_true_iff in H as [H H3]. apply andb_true_iff in H as [H1 H2].
    apply String.eqb_eq in H1. exists w. auto.
  Qed.

  Lemma opt_str_eqb_eq a b : opt_str_eqb a b = true -> a = b.
  Proof. destruct a, b; cbn; try discriminate; auto. intros H. apply String.eqb_eq in H. now subst. Qed.

  (* an active read has an active write *)
  Lemma active_read_write r w : In r (reads t) -> In w (writes t) -> guard_compat w r = true ->
    guard_holds (rguard r) s0 = true -> guard_holds (wguard w) s = true.
  Proof.
    intros Hr Hw Hg Ha. unfold guard_compat in Hg. apply orb_true_iff in Hg as [Hg|Hg].
    - apply opt_str_eqb_eq in Hg. rewrite <- (wf_guards w Hw), Hg. exact Ha.
    - apply andb_true_iff in Hg as [Hg _]. apply opt_str_eqb_eq in Hg. now rewrite Hg.
  Qed.

  Lemma field_value w : In w (writes t) -> exists v, lookup (wfield w) s = Some v.
  Proof. intros Hw. apply keys_in_lookup. rewrite wf_fields. now apply in_map. Qed.

  (* --- step A/B: the dictionary written and what json returns --- *)
  Definition entry_rel (w : wentry) (q : string * pv) : Prop :=
    fst q = wkey w /\ exists v e, lookup (wfield w) s = Some v /\ wenc csave (wm w) v = Some e
      /\ json_rt e = Some (snd q)
      /\ (forall r, In r (reads t) -> rkey r = wkey w -> guard_holds (rguard r) s0 = true ->
                    rdec crestore s0 r (snd q) = Some (norm v)).

  Lemma entries_exist l : incl l (writes t) -> (forall w, In w l -> guard_holds (wguard w) s = true) ->
    exists E', Forall2 entry_rel l E'.
  Proof.
    induction l as [|w l IH]; intros Hi Ha; [exists []; constructor|].
    destruct IH as [E' HE]; [intros x Hx; apply Hi; now right | intros x Hx; apply Ha; now right|].
    assert (Hw : In w (writes t)) by (apply Hi; now left).
    destruct (field_value w Hw) as [v Hv].
    (* is there an active reader of this key? *)
    destruct (existsb (fun r => String.eqb (rkey r) (wkey w) && guard_holds (rguard r) s0) (reads t)) eqn:Ex.
    - apply existsb_exists in Ex as [r [Hr Hx]]. apply andb_true_iff in Hx as [Hk Hg]. apply String.eqb_eq in Hk.
      destruct (read_facts r Hr) as [w' [Hw' [Hk' [Hf' [Hc' Hg']]]]].
      assert (w' = w) as ->.
      { pose proof (find_w_nodup (writes t) w' Hnd_wkey Hw') as F1.
        pose proof (find_w_nodup (writes t) w Hnd_wkey Hw) as F2. rewrite Hk', Hk in F1. congruence. }
      destruct (entry_rt s0 w r v Hc' (eq_sym Hf') (wf_values w r v Hw Hr Hk Hg Hv)) as [e [e' [H1 [H2 H3]]]].
      exists ((wkey w, e') :: E'). constructor; [|exact HE].
      split; [reflexivity|]. exists v, e. repeat split; auto. cbn [snd].
      intros r2 Hr2 Hk2 Hg2.
      assert (r2 = r) as ->; [|exact H3].
      { clear - Hnd_rkey Hr Hr2 Hk Hk2. rewrite <- Hk in Hk2. revert Hr Hr2 Hk2.
        induction (reads t) as [|x rs IHr]; cbn; [contradiction|]. inversion Hnd_rkey as [|? ? Hnot Hn']; subst.
        intros [->|H1] [->|H2] Hk2; auto.
        - exfalso. apply Hnot. rewrite <- Hk2. now apply in_map.
        - exfalso. apply Hnot. rewrite Hk2. now apply in_map. }
    - assert (Hno : forall r, In r (reads t) -> rkey r = wkey w -> guard_holds (rguard r) s0 = false).
      { intros r Hr Hk. destruct (guard_holds (rguard r) s0) eqn:Eg; [|reflexivity].
        exfalso. assert (existsb (fun r => String.eqb (rkey r) (wkey w) && guard_holds (rguard r) s0) (reads t) = true); [|congruence].
        apply existsb_exists. exists r. split; [exact Hr|]. rewrite Hk, String.eqb_refl. exact Eg. }
      destruct (wf_fixed w v Hw Hv Hno) as [_ He]. destruct (He (Ha w (or_introl eq_refl))) as [e [e' [H1 H2]]].
      exists ((wkey w, e') :: E'). constructor; [|exact HE].
      split; [reflexivity|]. exists v, e. repeat split; auto.
      intros r Hr Hk Hg. rewrite (Hno r Hr Hk) in Hg. discriminate.
  Qed.

  Lemma entries_state_dict l E' : Forall2 entry_rel l E' ->
    exists E, mapM (write_entry csave s) l = Some E
              /\ Forall2 (fun p q => fst q = key_str (fst p) /\ json_rt (snd p) = Some (snd q)) E E'.
  Proof.
    induction 1 as [|w q l E' [Hk [v [e [Hv [He [Hj _]]]]]] _ [E [IH1 IH2]]]; [exists []; split; [reflexivity|constructor]|].
    exists ((KStr (wkey w), e) :: E). cbn. unfold write_entry at 1. rewrite Hv, He. cbn. rewrite IH1.
    split; [reflexivity|]. constructor; [|exact IH2]. cbn. auto.
  Qed.

  Lemma entries_keys l E' : Forall2 entry_rel l E' -> map fst E' = map wkey l.
  Proof. induction 1 as [|w q l E' [Hk _] _ IH]; cbn; [reflexivity | now rewrite Hk, IH]. Qed.

  Lemma lookup_entry l E' w : Forall2 entry_rel l E' -> NoDup (map wkey l) -> In w l ->
    exists q, lookup (wkey w) E' = Some (snd q) /\ entry_rel w q.
  Proof.
    induction 1 as [|w' q l E' Hq _ IH]; cbn -[String.eqb]; intros Hn Hin; [contradiction|].
    inversion Hn as [|? ? Hnot Hn']; subst. destruct q as [k x]. destruct Hin as [->|Hin].
    - exists (k, x). destruct Hq as [Hk Hrest]. cbn in Hk. subst k. rewrite String.eqb_refl. split; [reflexivity|]. split; auto.
    - destruct (IH Hn' Hin) as [q [H1 H2]]. exists q. split; [|exact H2].
      destruct Hq as [Hk _]. cbn in Hk. subst k.
      destruct (String.eqb (wkey w) (wkey w')) eqn:E; [|exact H1].
      apply String.eqb_eq in E. exfalso. apply Hnot. rewrite <- E. now apply in_map.
  Qed.

  (* --- step C: load_state_dict, read by read --- *)
  Definition target (r : rentry) : pv :=
    match lookup (rfield r) s with Some v => norm v | None => PNone end.
  Definition apply_read (a : state) (r : rentry) : state :=
    if guard_holds (rguard r) s0 then set_field (rfield r) (target r) a else a.

  Lemma write_in_active w : In w (writes t) -> guard_holds (wguard w) s = true -> In w (active_writes t s).
  Proof. intros H1 H2. unfold active_writes. apply filter_In. auto. Qed.

  Lemma NoDup_map_filter {A B} (f : A -> B) (p : A -> bool) l : NoDup (map f l) -> NoDup (map f (filter p l)).
  Proof.
    induction l as [|x r IH]; cbn; intros H; [constructor|]. inversion H as [|? ? Hnot Hn]; subst.
    destruct (p x); cbn; [constructor|]; auto.
    intro Hin. apply Hnot. apply in_map_iff in Hin as [y [Hy1 Hy2]]. apply filter_In in Hy2 as [Hy2 _].
    rewrite <- Hy1. now apply in_map.
  Qed.

  Lemma read_steps E' : Forall2 entry_rel (active_writes t s) E' ->
    forall rs, incl rs (reads t) -> forall acc,
    fold_left (read_step crestore s0 (map (fun q => (KStr (fst q), snd q)) E')) rs (Some acc)
    = Some (fold_left apply_read rs acc).
  Proof.
    intros HE. induction rs as [|r rs IH]; intros Hi acc; [reflexivity|].
    assert (Hr : In r (reads t)) by (apply Hi; now left).
    cbn [fold_left].
    replace (read_step crestore s0 (map (fun q => (KStr (fst q), snd q)) E') (Some acc) r)
      with (if guard_holds (rguard r) s0
            then match lookupk (rkey r) (map (fun q => (KStr (fst q), snd q)) E') with
                 | None => None
                 | Some x => option_map (fun v => set_field (rfield r) v acc) (rdec crestore s0 r x)
                 end
            else Some acc) by reflexivity.
    replace (apply_read acc r) with (if guard_holds (rguard r) s0 then set_field (rfield r) (target r) acc else acc)
      by reflexivity.
    destruct (guard_holds (rguard r) s0) eqn:Eg.
    - destruct (read_facts r Hr) as [w [Hw [Hk [Hf [Hc Hg]]]]].
      pose proof (active_read_write r w Hr Hw Hg Eg) as Hact.
      destruct (lookup_entry (active_writes t s) E' w HE) as [q [Hq1 [_ [v [e [Hv [_ [_ Hq2]]]]]]]].
      { unfold active_writes. now apply NoDup_map_filter. }
      { now apply write_in_active. }
      rewrite lookupk_kstr, <- Hk, Hq1. rewrite (Hq2 r Hr (eq_sym Hk) Eg). cbn [option_map].
      unfold target. rewrite <- Hf, Hv. apply IH. intros x Hx. apply Hi. now right.
    - apply IH. intros x Hx. apply Hi. now right.
  Qed.

  (* --- step D: the attributes after loading --- *)
  Lemma fold_keys rs : (forall r, In r rs -> In (rfield r) (map fst s0)) ->
    forall acc, map fst acc = map fst s0 -> map fst (fold_left apply_read rs acc) = map fst s0.
  Proof.
    induction rs as [|r rs IH]; intros Hin acc Ha; [exact Ha|]. cbn. apply IH.
    - intros x Hx. apply Hin. now right.
    - unfold apply_read. destruct (guard_holds (rguard r) s0); [|exact Ha].
      rewrite keys_set_present; [exact Ha|]. rewrite Ha. apply Hin. now left.
  Qed.

  Lemma fold_lookup k rs : NoDup (map rfield rs) -> forall acc,
    lookup k (fold_left apply_read rs acc)
    = match find (fun r => guard_holds (rguard r) s0 && String.eqb (rfield r) k) rs with
      | Some r => Some (target r)
      | None => lookup k acc
      end.
  Proof.
    induction rs as [|r rs IH]; intros Hn acc; [reflexivity|].
    inversion Hn as [|? ? Hnot Hn']; subst. cbn [fold_left find]. rewrite (IH Hn').
    unfold apply_read.
    destruct (guard_holds (rguard r) s0) eqn:Eg; cbn [andb].
    - destruct (String.eqb (rfield r) k) eqn:Ek.
      + apply String.eqb_eq in Ek. subst k.
        destruct (find (fun r1 => guard_holds (rguard r1) s0 && String.eqb (rfield r1) (rfield r)) rs) eqn:Ef.
        * exfalso. apply find_some in Ef as [Hin Hx]. apply andb_true_iff in Hx as [_ Hx].
          apply String.eqb_eq in Hx. apply Hnot. rewrite <- Hx. now apply in_map.
        * apply lookup_set_same.
      + destruct (find _ rs); [reflexivity|]. apply lookup_set_other. intro H. subst. now rewrite String.eqb_refl in Ek.
    - reflexivity.
  Qed.

  (* THE round-trip statement for one object *)
  Theorem flat_roundtrip :
    exists d d', state_dict csave t s = Some d /\ json_rt d = Some d'
                 /\ load_state_dict crestore t s0 d' = Some (map (fun p => (fst p, norm (snd p))) s)
                 /\ (forall i, In (mkW "id" "id" WId None) (writes t) -> lookup "id" s = Some (PStr i) ->
                                dict_id d' = Some i).
  Proof.
    destruct (entries_exist (active_writes t s)) as [E' HE].
    { intros w Hw. unfold active_writes in Hw. now apply filter_In in Hw as [Hw _]. }
    { intros w Hw. unfold active_writes in Hw. now apply filter_In in Hw as [_ Hw]. }
    destruct (entries_state_dict _ _ HE) as [E [HE1 HE2]].
    exists (PDict E), (PDict (map (fun q => (KStr (fst q), snd q)) E')).
    split; [unfold state_dict; now rewrite Hdeleg, HE1|]. split; [|split].
    - apply json_rt_dict_rel; [exact HE2|].
      assert (lookup "type" E' = None) as ->; [|reflexivity].
      destruct (lookup "type" E') eqn:El; [|reflexivity]. exfalso. apply lookup_in_keys in El.
      rewrite (entries_keys _ _ HE) in El. apply Hnotype.
      apply in_map_iff in El as [w [Hw1 Hw2]]. unfold active_writes in Hw2. apply filter_In in Hw2 as [Hw2 _].
      rewrite <- Hw1. now apply in_map.
    - unfold load_state_dict. rewrite Hdeleg. rewrite (read_steps E' HE (reads t) (incl_refl _) s0). f_equal.
      assert (Hrf : forall r, In r (reads t) -> In (rfield r) (map fst s0)).
      { intros r Hr. destruct (read_facts r Hr) as [w [Hw [_ [Hf _]]]]. rewrite wf_fields0, wf_fields, <- Hf. now apply in_map. }
      apply assoc_ext.
      + rewrite (fold_keys (reads t) Hrf s0 eq_refl), wf_fields0, map_map. reflexivity.
      + rewrite (fold_keys (reads t) Hrf s0 eq_refl), wf_fields0, wf_fields. exact Hnd_wfield.
      + intros k Hk. rewrite (fold_keys (reads t) Hrf s0 eq_refl), wf_fields0, wf_fields in Hk.
        apply in_map_iff in Hk as [w [Hwk Hw]]. subst k.
        destruct (field_value w Hw) as [v Hv].
        rewrite (fold_lookup (wfield w) (reads t) Hnd_rfield s0), lookup_map_snd, Hv. cbn [option_map].
        destruct (find (fun r => guard_holds (rguard r) s0 && String.eqb (rfield r) (wfield w)) (reads t)) as [r|] eqn:Ef.
        * apply find_some in Ef as [Hr Hx]. apply andb_true_iff in Hx as [_ Hx]. apply String.eqb_eq in Hx.
          unfold target. now rewrite Hx, Hv.
        * apply (wf_fixed w v Hw Hv). intros r Hr Hk.
          destruct (guard_holds (rguard r) s0) eqn:Eg; [|reflexivity]. exfalso.
          destruct (read_facts r Hr) as [w' [Hw' [Hk' [Hf' _]]]].
          assert (w' = w) as ->.
          { pose proof (find_w_nodup (writes t) w' Hnd_wkey Hw') as F1.
            pose proof (find_w_nodup (writes t) w Hnd_wkey Hw) as F2. rewrite Hk', Hk in F1. congruence. }
          pose proof (find_none _ _ Ef r Hr) as Hx. cbn -[String.eqb] in Hx. rewrite Eg, <- Hf', String.eqb_refl in Hx. discriminate.
    - intros i Hw Hi. unfold dict_id. rewrite lookupk_kstr.
      destruct (lookup_entry (active_writes t s) E' (mkW "id" "id" WId None) HE) as [q [Hq1 [_ [v [e [Hv [He [Hj _]]]]]]]].
      { unfold active_writes. now apply NoDup_map_filter. }
      { now apply write_in_active. }
      cbn [wkey wfield wm wenc] in *. rewrite Hq1. rewrite Hi in Hv. injection Hv as <-. injection He as <-.
      cbn in Hj. injection Hj as <-. reflexivity.
  Qed.
End FlatRT.

(* ------------------------------------------------------------------ a class that delegates to a torch object *)
Lemma deleg_roundtrip csave crestore t d v v0 :
  deleg t = Some d -> keys_ok t = true ->
  ext_okb (ext_int_key_paths (dkind d)) v = true ->
  exists x x', state_dict csave t [(dfield d, v)] = Some x /\ json_rt x = Some x'
               /\ load_state_dict crestore t [(dfield d, v0)] x' = Some [(dfield d, norm v)].
Proof.
  intros Hd Hk Hv. unfold keys_ok in Hk. rewrite Hd in Hk. unfold deleg_ok in Hk.
  destruct (writes t); [|discriminate]. destruct (reads t); [|discriminate].
  apply andb_true_iff in Hk as [Hs _].
  destruct (rekey_roundtrip_l _ (dfix d) v (same_set_mem _ _ Hs) Hv) as [v' [H1 H2]].
  exists v, v'. unfold state_dict, load_state_dict. rewrite Hd. cbn [lookup set_field option_map].
  rewrite H2. cbn [option_map]. rewrite (String.eqb_refl (dfield d)). auto.
Qed.

(* ------------------------------------------------------------------ whole object trees *)
(* the object carries its id under "id" and its class writes it as the identity entry *)
Definition idcond (T : list ctable) (o0 o : pv) : Prop :=
  exists c fs0 fs t i, o0 = PObj c fs0 /\ o = PObj c fs /\ find_table c T = Some t
    /\ In (mkW "id" "id" WId None) (writes t) /\ deleg t = None
    /\ lookup "id" fs = Some (PStr i) /\ lookup "id" fs0 = Some (PStr i).

(* o = the object whose state is saved, o0 = the object the restart has constructed from the same
   specification; n bounds the nesting depth *)
Fixpoint WF (n : nat) (T : list ctable) (o0 o : pv) : Prop :=
  match n with
  | O => False
  | S n' =>
      exists c fs0 fs t, o0 = PObj c fs0 /\ o = PObj c fs /\ find_table c T = Some t /\
        match deleg t with
        | Some d => exists v v0, fs = [(dfield d, v)] /\ fs0 = [(dfield d, v0)]
                                 /\ ext_okb (ext_int_key_paths (dkind d)) v = true
        | None =>
            map fst fs = map wfield (writes t) /\ map fst fs0 = map fst fs
            /\ (forall w, In w (writes t) -> guard_holds (wguard w) fs0 = guard_holds (wguard w) fs)
            /\ (forall w r v, In w (writes t) -> In r (reads t) -> rkey r = wkey w ->
                  guard_holds (rguard r) fs0 = true -> lookup (wfield w) fs = Some v ->
                  value_ok (WF n' T) (fun c0 c => WF n' T c0 c /\ idcond T c0 c) fs0 w r v)
            /\ (forall w v, In w (writes t) -> lookup (wfield w) fs = Some v ->
                  (forall r, In r (reads t) -> rkey r = wkey w -> guard_holds (rguard r) fs0 = false) ->
                  lookup (wfield w) fs0 = Some (norm v)
                  /\ (guard_holds (wguard w) fs = true ->
                      (is_wid (wm w) = true /\ plainb v = true) \/ (wm w = WChildren /\ v = PList [])))
        end
  end.

Lemma norm_obj c fs : norm (PObj c fs) = PObj c (map (fun p => (fst p, norm (snd p))) fs).
Proof. cbn. f_equal. apply map_ext. now intros [f x]. Qed.

Theorem tree_roundtrip T : (forall t, In t T -> keys_ok t = true) ->
  forall n o0 o, WF n T o0 o ->
  exists d d', save n T o = Some d /\ json_rt d = Some d' /\ restore n T o0 d' = Some (norm o)
               /\ (idcond T o0 o -> dict_id d' = obj_id o0).
Proof.
  intros HT. induction n as [|n IH]; intros o0 o H; [contradiction|].
  destruct H as [c [fs0 [fs [t [-> [-> [Ht H]]]]]]].
  assert (Hk : keys_ok t = true).
  { apply HT. unfold find_table in Ht. now apply find_some in Ht as [Ht _]. }
  cbn [save restore]. rewrite Ht.
  destruct (deleg t) as [d|] eqn:Hd.
  - destruct H as [v [v0 [-> [-> Hv]]]].
    destruct (deleg_roundtrip (save n T) (restore n T) t d v v0 Hd Hk Hv) as [x [x' [H1 [H2 H3]]]].
    exists x, x'. repeat split; auto.
    + rewrite H3. cbn. reflexivity.
    + intros [c' [fs0' [fs' [t' [i [E1 [E2 [Ht' [_ [Hd' _]]]]]]]]]]. injection E1 as <- <-. congruence.
  - destruct H as [H1 [H2 [H3 [H4 H5]]]].
    destruct (flat_roundtrip (save n T) (restore n T) t fs0 fs Hd Hk H1 H2 H3) as [d [d' [Ha [Hb [Hc Hi]]]]].
    + intros w r v Hw Hr Hkey Hg Hv. eapply value_ok_mono; [| |exact (H4 w r v Hw Hr Hkey Hg Hv)].
      * intros a b Hab. destruct (IH a b Hab) as [x [x' [X1 [X2 [X3 _]]]]]. exists x, x'. auto.
      * intros a b [Hab Hid]. destruct (IH a b Hab) as [x [x' [X1 [X2 [X3 X4]]]]]. exists x, x'. auto.
    + intros w v Hw Hv Hno. destruct (H5 w v Hw Hv Hno) as [Hx Hy]. split; [exact Hx|].
      intros Hg. destruct (Hy Hg) as [[Hwid Hp]|[Hm ->]].
      * exists v, (norm v). split; [|now apply json_rt_plain_l]. destruct (wm w); try discriminate. reflexivity.
      * exists (PList []), (PList []). rewrite Hm. split; reflexivity.
    + exists d, d'. repeat split; auto.
      * rewrite Hc. cbn [option_map]. now rewrite norm_obj.
      * intros [c' [fs0' [fs' [t' [i [E1 [E2 [Ht' [Hw [_ [Hl Hl0]]]]]]]]]]].
        injection E1 as <- <-. injection E2 as <-. rewrite Ht in Ht'. injection Ht' as <-.
        rewrite (Hi i Hw Hl). cbn. now rewrite Hl0.
Qed.

(* ------------------------------------------------------------------ run loops *)
Section RunProofs.
  Variable St : Type.
  Variable step : St -> St.

  Lemma trace_app a b e s :
    trace St step (a + b) e s = trace St step a e s ++ trace St step b (e + a) (iter St step a s).
  Proof.
    revert e s. induction a as [|a IH]; intros e s; cbn.
    - now rewrite Nat.add_0_r.
    - f_equal. rewrite IH. f_equal. f_equal. lia.
  Qed.

  Lemma trace_length n e s : List.length (trace St step n e s) = n.
  Proof. revert e s. induction n as [|n IH]; intros; cbn; auto. Qed.

  (* The uninterrupted run splits at any iteration N <= total into the first N iterations and the
     run that starts with counter N+1 from the state reached after N iterations. *)
  Lemma full_run_split total N s0 : N <= total ->
    full_run St step total s0
    = firstn N (full_run St step total s0) ++ resumed_run St step total (S N) (iter St step N s0).
  Proof.
    intros H. unfold full_run, resumed_run.
    replace total with (N + (total - N)) at 1 2 by lia. rewrite trace_app.
    rewrite firstn_app, trace_length, Nat.sub_diag, firstn_O, app_nil_r.
    rewrite firstn_all2 by (rewrite trace_length; lia).
    reflexivity.
  Qed.

  (* resuming with the counter and the state the checkpoint should hold continues the same run *)
  Theorem resume_same_trajectory_l (save_restore : St -> option St) total N s0 epoch restored :
    (forall s, save_restore s = Some s) ->             (* the round-trip theorems *)
    N <= total ->
    save_restore (iter St step N s0) = Some restored ->
    epoch = S N ->                                     (* loop_ok, see resume_epoch_ok *)
    resumed_run St step total epoch restored = skipn N (full_run St step total s0)
    /\ List.length (resumed_run St step total epoch restored) = total - N.
  Proof.
    intros Hrt HN Hs ->. rewrite Hrt in Hs. injection Hs as <-.
    split.
    - rewrite (full_run_split total N s0 HN) at 1.
      assert (Hl : List.length (firstn N (full_run St step total s0)) = N).
      { rewrite firstn_length. unfold full_run. rewrite trace_length. lia. }
      rewrite skipn_app, Hl, Nat.sub_diag, skipn_O.
      rewrite skipn_all2 by lia. reflexivity.
    - unfold resumed_run. rewrite trace_length. lia.
  Qed.

  (* ... and with the counter the current loops restore (N itself) it does not: one iteration more *)
  Lemma resume_off_by_one_l total N s : N <= total -> 1 <= N ->
    List.length (resumed_run St step total N s) = S (total - N).
  Proof. intros. unfold resumed_run. rewrite trace_length. lia. Qed.
End RunProofs.

Lemma resume_epoch_ok L N : loop_ok L = true -> resume_epoch L N = (N + 1)%Z.
Proof.
  unfold loop_ok, resume_epoch. intros H. apply Z.eqb_eq in H. destruct (incr_before_save L); lia.
Qed.

(* ------------------------------------------------------------------ parameters *)
Lemma restored_dtype_ok kept copied spec inferred saved :
  mem "dtype" copied = true -> restored_dtype kept copied spec inferred saved = saved.
Proof. unfold restored_dtype. now intros ->. Qed.

Lemma restored_nn_ok kept copied spec saved :
  mem "nn" copied = true -> restored_nn kept copied spec saved = saved.
Proof. unfold restored_nn. now intros ->. Qed.

(* what holds of the code as it is: the dtype survives when the specification states it, or when
   torch.tensor infers the saved one from the values *)
Lemma restored_dtype_weak kept copied spec inferred saved :
  mem "dtype" kept = true -> (spec = Some saved \/ (spec = None /\ inferred = saved)) ->
  restored_dtype kept copied spec inferred saved = saved.
Proof.
  unfold restored_dtype. intros Hk [->|[-> ->]]; destruct (mem "dtype" copied); auto. now rewrite Hk.
Qed.
