(* The n-dimensional chain rule for the implemented leapfrog map, NONLINEAR gradient.

   Positions and momenta live in an arbitrary real normed module U (R^n for every n, in particular);
   the gradient g : U -> U of the potential energy is Frechet differentiable (Coquelicot's
   [filterdiff], differential Dg q at q), the inverse mass matrix is a bounded linear map Mi.
   The implemented arrangement  kick(eps/2); L x [drift(eps); kick(eps)]; kick(-eps/2)
   (proof/P_leapfrog.v, leapfrog_shears) is then Frechet differentiable at every point, and its
   differential is a composition of 2L+2 LINEAR shears, the kicks being taken at the positions of
   the trajectory.  Every determinant-like functional (multiplicative on compositions, one on
   block-triangular shears) therefore gives it determinant one.
   After the section: (a) U := R gives back the scalar shears of P_leapfrog_jac.v and the list model on
   one-element vectors, with the 2x2 determinant as an instance of the determinant-like functional;
   (b) U := R^(n+1) (iterated product [Un n], coordinates [emb]) gives the list model of
   model/M_leapfrog.v in every dimension, any length-preserving gradient, diagonal or dense inverse
   mass matrix (leapfrog_list_model_ndim). *)
From Coq Require Import QArith Reals List Lra Lia.
From Coquelicot Require Import Coquelicot.
Import ListNotations.
From TT Require Import Num NumR M_leapfrog P_leapfrog P_leapfrog_jac.
Open Scope R_scope.

(* pairing of two differentiable maps *)
Lemma filterdiff_pair {K : AbsRing} {T U V : NormedModule K}
  (f : T -> U) (h : T -> V) (x : T) (lf : T -> U) (lh : T -> V) :
  filterdiff f (locally x) lf -> filterdiff h (locally x) lh ->
  filterdiff (fun t => (f t, h t)) (locally x) (fun t => (lf t, lh t)).
Proof.
  intros Hf Hh.
  apply (filterdiff_comp'_2 f h (fun u v => (u, v)) x lf lh (fun u v => (u, v)) Hf Hh).
  apply filterdiff_linear.
  apply is_linear_prod; [apply is_linear_fst | apply is_linear_snd].
Qed.

Fixpoint giter {A : Type} (n : nat) (f : A -> A) (x : A) : A :=
  match n with O => x | S k => giter k f (f x) end.
Lemma giter_is_iter {A : Type} n (f : A -> A) x : giter n f x = iter n f x.
Proof. revert x; induction n; intros; simpl; auto. Qed.

Section NDim.
Context {U : NormedModule R_AbsRing}.
Variable g : U -> U.                 (* gradient of the potential energy *)
Variable Dg : U -> U -> U.           (* its differential at every point (the Hessian as a linear map) *)
Hypothesis g_diff : forall q, filterdiff g (locally q) (Dg q).
Variable Mi : U -> U.                (* the inverse mass matrix as a linear map *)
Hypothesis Mi_lin : is_linear Mi.

Definition gkick (c : R) (x : U * U) : U * U := (fst x, minus (snd x) (scal c (g (fst x)))).
Definition gdrift (c : R) (x : U * U) : U * U := (plus (fst x) (scal c (Mi (snd x))), snd x).
Definition gleap (eps : R) (L : nat) (x : U * U) : U * U :=
  gkick (- (eps / 2)) (giter L (fun y => gkick eps (gdrift eps y)) (gkick (eps / 2) x)).

(* linear shears: the differentials *)
Inductive lshear := LKick (c : R) (q : U) | LDrift (c : R).
Definition lact (s : lshear) (d : U * U) : U * U :=
  match s with
  | LKick c q => (fst d, minus (snd d) (scal c (Dg q (fst d))))
  | LDrift c => (plus (fst d) (scal c (Mi (snd d))), snd d)
  end.
Definition lcomp (l : list lshear) (d : U * U) : U * U := fold_left (fun d s => lact s d) l d.

Lemma Dg_lin q : is_linear (Dg q).
Proof. exact (proj1 (g_diff q)). Qed.

Lemma scal_lin (c : R) (A : U -> U) : is_linear A -> is_linear (fun u => scal c (A u)).
Proof.
  intros HA. apply (is_linear_comp A (fun u => scal c u)); [exact HA|].
  apply (is_linear_scal_r (K := R_AbsRing) (V := U) c). exact Rmult_comm.
Qed.
Lemma opp_lin (A : U -> U) : is_linear A -> is_linear (fun u => Hierarchy.opp (A u)).
Proof. intros HA. apply (is_linear_comp A Hierarchy.opp); [exact HA | apply is_linear_opp]. Qed.

Lemma gkick_diff : forall c x, filterdiff (gkick c) (locally x) (lact (LKick c (fst x))).
Proof.
  intros c x. unfold gkick, lact.
  apply (filterdiff_pair (fun y : U * U => fst y) (fun y => minus (snd y) (scal c (g (fst y)))) x
                         (fun d : U * U => fst d) (fun d => minus (snd d) (scal c (Dg (fst x) (fst d))))).
  - apply filterdiff_linear. apply is_linear_fst.
  - apply (filterdiff_minus_fct (fun y : U * U => snd y) (fun y => scal c (g (fst y)))
                                (fun d : U * U => snd d) (fun d => scal c (Dg (fst x) (fst d)))).
    + apply filterdiff_linear. apply is_linear_snd.
    + apply (filterdiff_scal_r_fct c (fun y : U * U => g (fst y)) (fun d : U * U => Dg (fst x) (fst d))).
      * exact Rmult_comm.
      * apply (filterdiff_comp' (fun y : U * U => fst y) g x (fun d : U * U => fst d) (Dg (fst x))).
        -- apply filterdiff_linear. apply is_linear_fst.
        -- apply g_diff.
Qed.

Lemma gdrift_lin c : is_linear (lact (LDrift c)).
Proof.
  unfold lact.
  apply (is_linear_prod (fun d : U * U => plus (fst d) (scal c (Mi (snd d)))) (fun d : U * U => snd d));
    [|apply is_linear_snd].
  apply (is_linear_comp (fun d : U * U => (fst d, scal c (Mi (snd d)))) (fun z : U * U => plus (fst z) (snd z)));
    [|apply is_linear_plus].
  apply (is_linear_prod (fun d : U * U => fst d) (fun d : U * U => scal c (Mi (snd d)))); [apply is_linear_fst|].
  apply (is_linear_comp (fun d : U * U => snd d) (fun u => scal c (Mi u))); [apply is_linear_snd|].
  apply scal_lin. exact Mi_lin.
Qed.

Lemma gdrift_diff : forall c x, filterdiff (gdrift c) (locally x) (lact (LDrift c)).
Proof.
  intros c x. change (gdrift c) with (lact (LDrift c)).
  apply filterdiff_linear. apply gdrift_lin.
Qed.

Lemma lact_lin s : is_linear (lact s).
Proof.
  destruct s as [c q|c]; [|apply gdrift_lin].
  exact (proj1 (gkick_diff c (q, q))).
Qed.

Lemma lcomp_lin l : is_linear (lcomp l).
Proof.
  induction l as [|s r IH].
  - apply is_linear_id.
  - change (is_linear (fun d => lcomp r (lact s d))).
    apply is_linear_comp; [apply lact_lin | exact IH].
Qed.

(* nonlinear shears and the differential of any composition of them, computed along the trajectory *)
Inductive gshear := GKick (c : R) | GDrift (c : R).
Definition gact (s : gshear) (x : U * U) : U * U :=
  match s with GKick c => gkick c x | GDrift c => gdrift c x end.
Definition gcomp (l : list gshear) (x : U * U) : U * U := fold_left (fun x s => gact s x) l x.
Definition dshear (s : gshear) (x : U * U) : lshear :=
  match s with GKick c => LKick c (fst x) | GDrift c => LDrift c end.
Fixpoint dlist (l : list gshear) (x : U * U) : list lshear :=
  match l with [] => [] | s :: r => dshear s x :: dlist r (gact s x) end.

Lemma dlist_length l x : length (dlist l x) = length l.
Proof. revert x; induction l; intros; simpl; auto. Qed.

Lemma gact_diff s x : filterdiff (gact s) (locally x) (lact (dshear s x)).
Proof. destruct s; [apply gkick_diff | apply gdrift_diff]. Qed.

Lemma gcomp_diff l : forall x, filterdiff (gcomp l) (locally x) (lcomp (dlist l x)).
Proof.
  induction l as [|s r IH]; intros x.
  - apply (filterdiff_id (locally x)).
  - change (filterdiff (fun y => gcomp r (gact s y)) (locally x)
                       (fun d => lcomp (dlist r (gact s x)) (lact (dshear s x) d))).
    apply (filterdiff_comp' (gact s) (gcomp r) x); [apply gact_diff | apply IH].
Qed.

(* the implemented arrangement as a list of 2L+2 shears *)
Fixpoint kd_list (eps : R) (L : nat) : list gshear :=
  match L with O => [] | S k => GDrift eps :: GKick eps :: kd_list eps k end.
Definition leap_list (eps : R) (L : nat) : list gshear :=
  GKick (eps / 2) :: kd_list eps L ++ [GKick (- (eps / 2))].

Lemma kd_list_length eps L : length (kd_list eps L) = (2 * L)%nat.
Proof. induction L; simpl; auto. rewrite IHL. lia. Qed.
Lemma leap_list_length eps L : length (leap_list eps L) = (2 * L + 2)%nat.
Proof. unfold leap_list. simpl. rewrite app_length, kd_list_length. simpl. lia. Qed.

Lemma kd_list_giter eps L x :
  gcomp (kd_list eps L) x = giter L (fun y => gkick eps (gdrift eps y)) x.
Proof. revert x; induction L; intros x; [reflexivity|]. simpl. apply IHL. Qed.
Lemma gleap_gcomp eps L x : gleap eps L x = gcomp (leap_list eps L) x.
Proof.
  unfold gleap, leap_list, gcomp. simpl. rewrite fold_left_app. simpl.
  f_equal. symmetry. apply kd_list_giter.
Qed.

Theorem gleap_differentiable : forall eps L x,
  exists l, length l = (2 * L + 2)%nat /\ filterdiff (gleap eps L) (locally x) (lcomp l).
Proof.
  intros eps L x. exists (dlist (leap_list eps L) x). split.
  - rewrite dlist_length. apply leap_list_length.
  - apply (filterdiff_ext (gcomp (leap_list eps L))).
    + intros y. symmetry. apply gleap_gcomp.
    + apply gcomp_diff.
Qed.

(* ---- determinants: any functional that behaves like one ---- *)
Variable det : ((U * U) -> (U * U)) -> R.
Hypothesis det_comp : forall f h, is_linear f -> is_linear h -> det (fun d => h (f d)) = det h * det f.
Hypothesis det_ext : forall f h, (forall d, f d = h d) -> det f = det h.
Hypothesis det_id : det (fun d => d) = 1.
Hypothesis det_lower : forall A, is_linear A -> det (fun d => (fst d, plus (snd d) (A (fst d)))) = 1.
Hypothesis det_upper : forall B, is_linear B -> det (fun d => (plus (fst d) (B (snd d)), snd d)) = 1.

Lemma det_lact s : det (lact s) = 1.
Proof.
  destruct s as [c q|c].
  - rewrite <- (det_lower (fun u => Hierarchy.opp (scal c (Dg q u)))).
    + apply det_ext. intros d. reflexivity.
    + apply opp_lin. apply scal_lin. apply Dg_lin.
  - rewrite <- (det_upper (fun v => scal c (Mi v))).
    + apply det_ext. intros d. reflexivity.
    + apply scal_lin. exact Mi_lin.
Qed.

Lemma det_lcomp l : det (lcomp l) = 1.
Proof.
  induction l as [|s r IH].
  - rewrite <- det_id. apply det_ext. intros d. reflexivity.
  - rewrite (det_ext (lcomp (s :: r)) (fun d => lcomp r (lact s d))); [|intros d; reflexivity].
    rewrite det_comp; [|apply lact_lin|apply lcomp_lin].
    rewrite IH, det_lact. ring.
Qed.

Theorem gleap_volume_preserving : forall eps L x,
  exists Df, filterdiff (gleap eps L) (locally x) Df /\ det Df = 1.
Proof.
  intros eps L x. destruct (gleap_differentiable eps L x) as [l [_ Hl]].
  exists (lcomp l). split; [exact Hl | apply det_lcomp].
Qed.
End NDim.

(* the differential, explicitly: the linear shears taken along the trajectory of the point *)
Theorem gleap_differential_along_trajectory :
  forall {U : NormedModule R_AbsRing} (g : U -> U) (Dg : U -> U -> U) (Mi : U -> U),
  (forall q, filterdiff g (locally q) (Dg q)) -> is_linear Mi ->
  forall eps L x,
    filterdiff (gleap g Mi eps L) (locally x) (lcomp Dg Mi (dlist g Mi (leap_list eps L) x)).
Proof.
  intros U g Dg Mi Hg HMi eps L x.
  apply (filterdiff_ext (gcomp g Mi (leap_list eps L))).
  - intros y. symmetry. apply gleap_gcomp.
  - apply gcomp_diff; assumption.
Qed.

(* ================================================================== (a) dimension one *)
(* U := R: the generic shears are the scalar shears of proof/P_leapfrog_jac.v, hence the list model
   on one-element vectors *)
Lemma gleap_dim1_is_sleap mi (g : R -> R) eps L x :
  gleap (U := R_NormedModule) g (fun p => mi * p) eps L x = sleap mi g eps L x.
Proof. unfold gleap, sleap. rewrite giter_is_iter. reflexivity. Qed.

Lemma gleap_dim1_is_model mi (g : R -> R) eps L x :
  leapfrog NumR eps (Diag [mi]) (map g) L (lift x)
  = lift (gleap (U := R_NormedModule) g (fun p => mi * p) eps L x).
Proof. rewrite leapfrog_lift, gleap_dim1_is_sleap. reflexivity. Qed.

Lemma gleap_dim1_Fq_Fp mi (g : R -> R) eps L q p :
  gleap (U := R_NormedModule) g (fun p => mi * p) eps L (q, p) = (Fq mi g eps L q p, Fp mi g eps L q p).
Proof.
  unfold Fq, Fp. change ([q], [p]) with (lift (q, p)). rewrite gleap_dim1_is_model.
  destruct (gleap g (fun p0 => mi * p0) eps L (q, p)); reflexivity.
Qed.

(* the 2x2 determinant of a map of the plane is a determinant-like functional: the hypotheses of
   gleap_volume_preserving are satisfiable by the real thing *)
Definition det2 (f : R * R -> R * R) : R :=
  fst (f (1, 0)) * snd (f (0, 1)) - fst (f (0, 1)) * snd (f (1, 0)).

Lemma plane_linear_expand (h : R * R -> R * R) :
  is_linear (U := prod_NormedModule R_AbsRing R_NormedModule R_NormedModule)
            (V := prod_NormedModule R_AbsRing R_NormedModule R_NormedModule) h ->
  forall a c, h (a, c) = (a * fst (h (1, 0)) + c * fst (h (0, 1)), a * snd (h (1, 0)) + c * snd (h (0, 1))).
Proof.
  intros Hh a c.
  replace (a, c) with (plus (scal a ((1, 0) : prod_NormedModule R_AbsRing R_NormedModule R_NormedModule))
                            (scal c ((0, 1) : prod_NormedModule R_AbsRing R_NormedModule R_NormedModule))).
  - rewrite (linear_plus h Hh), !(linear_scal h Hh).
    destruct (h (1, 0)) as [u1 u2], (h (0, 1)) as [v1 v2]. reflexivity.
  - unfold plus, scal; simpl. unfold prod_plus, prod_scal; simpl. unfold scal, plus; simpl. unfold mult; simpl.
    f_equal; ring.
Qed.

Lemma det2_comp (f h : R * R -> R * R) :
  is_linear (U := prod_NormedModule R_AbsRing R_NormedModule R_NormedModule)
            (V := prod_NormedModule R_AbsRing R_NormedModule R_NormedModule) f ->
  is_linear (U := prod_NormedModule R_AbsRing R_NormedModule R_NormedModule)
            (V := prod_NormedModule R_AbsRing R_NormedModule R_NormedModule) h ->
  det2 (fun d => h (f d)) = det2 h * det2 f.
Proof.
  intros _ Hh. unfold det2.
  destruct (f (1, 0)) as [a c] eqn:E1. destruct (f (0, 1)) as [b d] eqn:E2.
  rewrite (plane_linear_expand h Hh a c), (plane_linear_expand h Hh b d). simpl. ring.
Qed.
Lemma det2_ext (f h : R * R -> R * R) : (forall d, f d = h d) -> det2 f = det2 h.
Proof. intros E. unfold det2. rewrite !E. reflexivity. Qed.
Lemma det2_id : det2 (fun d => d) = 1.
Proof. unfold det2; simpl. ring. Qed.
Lemma det2_lower (A : R -> R) :
  is_linear (U := R_NormedModule) (V := R_NormedModule) A ->
  det2 (fun d => (fst d, plus (snd d) (A (fst d)))) = 1.
Proof.
  intros HA. assert (A0 : A 0 = 0) by exact (linear_zero (U := R_NormedModule) (V := R_NormedModule) A HA).
  unfold det2; cbn [fst snd]. rewrite A0. unfold plus; simpl. ring.
Qed.
Lemma det2_upper (B : R -> R) :
  is_linear (U := R_NormedModule) (V := R_NormedModule) B ->
  det2 (fun d => (plus (fst d) (B (snd d)), snd d)) = 1.
Proof.
  intros HB. assert (B0 : B 0 = 0) by exact (linear_zero (U := R_NormedModule) (V := R_NormedModule) B HB).
  unfold det2; cbn [fst snd]. rewrite B0. unfold plus; simpl. ring.
Qed.

(* one degree of freedom, as a Frechet differential of the map of the plane: determinant one *)
Theorem gleap_dim1_volume mi (g g' : R -> R) :
  (forall x, is_derive g x (g' x)) ->
  forall eps L x, exists Df,
    filterdiff (U := prod_NormedModule R_AbsRing R_NormedModule R_NormedModule)
               (V := prod_NormedModule R_AbsRing R_NormedModule R_NormedModule)
               (sleap mi g eps L) (locally x) Df /\ det2 Df = 1.
Proof.
  intros Hg eps L x.
  destruct (gleap_volume_preserving (U := R_NormedModule) g (fun q d => scal d (g' q)) Hg
              (fun p => mi * p) (is_linear_scal_r (K := R_AbsRing) (V := R_NormedModule) mi Rmult_comm)
              det2 det2_comp det2_ext det2_id det2_lower det2_upper eps L x) as [Df [HD Hdet]].
  exists Df. split; [|exact Hdet].
  apply (filterdiff_ext (gleap (U := R_NormedModule) g (fun p => mi * p) eps L)); [|exact HD].
  intros y. apply gleap_dim1_is_sleap.
Qed.

(* ================================================================== (b) every dimension *)
(* R^(n+1) as the iterated product R * (R * ( ... * R)) and its coordinates as a list *)
Fixpoint Un (n : nat) : NormedModule R_AbsRing :=
  match n with
  | O => R_NormedModule
  | S k => prod_NormedModule R_AbsRing R_NormedModule (Un k)
  end.
Fixpoint emb (n : nat) : Un n -> list R :=
  match n return Un n -> list R with
  | O => fun u => [u]
  | S k => fun u => fst u :: emb k (snd u)
  end.
Fixpoint unemb (n : nat) : list R -> Un n :=
  match n return list R -> Un n with
  | O => fun l => hd 0 l
  | S k => fun l => (hd 0 l, unemb k (tl l))
  end.

Lemma emb_length n u : length (emb n u) = S n.
Proof. induction n; simpl; auto. Qed.
Lemma unemb_emb n u : unemb n (emb n u) = u.
Proof. induction n; simpl; auto. destruct u as [a v]; simpl. rewrite IHn. reflexivity. Qed.
Lemma emb_unemb n l : length l = S n -> emb n (unemb n l) = l.
Proof.
  revert l; induction n; intros l Hl.
  - destruct l as [|a [|b r]]; simpl in *; try discriminate. reflexivity.
  - destruct l as [|a r]; simpl in *; try discriminate. rewrite IHn; auto.
Qed.
Lemma emb_inj n u v : emb n u = emb n v -> u = v.
Proof. intros E. rewrite <- (unemb_emb n u), <- (unemb_emb n v), E. reflexivity. Qed.

Lemma emb_plus n (a b : Un n) : emb n (plus a b) = vadd NumR (emb n a) (emb n b).
Proof.
  induction n.
  - reflexivity.
  - destruct a as [a1 a2], b as [b1 b2].
    change (plus a1 b1 :: emb n (plus a2 b2) = (a1 + b1) :: vadd NumR (emb n a2) (emb n b2)).
    rewrite IHn. reflexivity.
Qed.
Lemma emb_scal n c (a : Un n) : emb n (scal c a) = vscale NumR c (emb n a).
Proof.
  induction n.
  - reflexivity.
  - destruct a as [a1 a2].
    change (scal c a1 :: emb n (scal c a2) = (c * a1) :: vscale NumR c (emb n a2)).
    rewrite IHn. reflexivity.
Qed.
Lemma emb_minus n (a b : Un n) : emb n (minus a b) = vsub NumR (emb n a) (emb n b).
Proof.
  induction n.
  - reflexivity.
  - destruct a as [a1 a2], b as [b1 b2].
    change (minus a1 b1 :: emb n (minus a2 b2) = (a1 - b1) :: vsub NumR (emb n a2) (emb n b2)).
    rewrite IHn. reflexivity.
Qed.

Definition embs (n : nat) (x : Un n * Un n) : list R * list R := (emb n (fst x), emb n (snd x)).

Section ListModel.
Variable n : nat.
Variable grad : list R -> list R.
Variable Minv : mass R.
Variable g : Un n -> Un n.
Variable Mi : Un n -> Un n.
Hypothesis grad_g : forall u, grad (emb n u) = emb n (g u).
Hypothesis Minv_Mi : forall u, minv_apply NumR Minv (emb n u) = emb n (Mi u).

Lemma kick_emb c x : kick NumR grad c (embs n x) = embs n (gkick g c x).
Proof.
  unfold kick, gkick, embs; cbn [fst snd].
  rewrite emb_minus, emb_scal, grad_g. reflexivity.
Qed.
Lemma drift_emb c x : drift NumR Minv c (embs n x) = embs n (gdrift Mi c x).
Proof.
  unfold drift, gdrift, embs; cbn [fst snd].
  rewrite emb_plus, emb_scal, Minv_Mi. reflexivity.
Qed.
Lemma leapfrog_emb eps L x :
  leapfrog NumR eps Minv grad L (embs n x) = embs n (gleap g Mi eps L x).
Proof.
  rewrite leapfrog_shears, half_R. unfold gleap. rewrite kick_emb.
  assert (H : forall k y, iter k (fun y => kick NumR grad eps (drift NumR Minv eps y)) (embs n y)
                          = embs n (giter k (fun y => gkick g eps (gdrift Mi eps y)) y)).
  { induction k; intros y; simpl; auto. rewrite drift_emb, kick_emb. apply IHk. }
  rewrite H, kick_emb. reflexivity.
Qed.
End ListModel.

(* additive and homogeneous maps out of R^(n+1) are bounded, hence linear in Coquelicot's sense *)
Lemma line_linear {V : NormedModule R_AbsRing} (l : R -> V) :
  (forall k x, l (scal k x) = scal k (l x)) -> (forall x y, l (plus x y) = plus (l x) (l y)) ->
  is_linear (U := R_NormedModule) l.
Proof.
  intros Hs Hp. split; [exact Hp | exact Hs|].
  exists (norm (l 1) + 1). split.
  - pose proof (norm_ge_0 (l 1)). lra.
  - intros x. replace x with (scal x 1) at 1 by (unfold scal; simpl; unfold mult; simpl; ring).
    rewrite Hs. eapply Rle_trans; [apply norm_scal|].
    change (abs x) with (norm (V := R_NormedModule) x).
    pose proof (norm_ge_0 (V := R_NormedModule) x). pose proof (norm_ge_0 (l 1)). nra.
Qed.

Lemma findim_linear n : forall {V : NormedModule R_AbsRing} (l : Un n -> V),
  (forall k x, l (scal k x) = scal k (l x)) -> (forall x y, l (plus x y) = plus (l x) (l y)) ->
  is_linear l.
Proof.
  induction n; intros V l Hs Hp.
  - apply line_linear; assumption.
  - set (l1 := fun a : R => l ((a, Hierarchy.zero) : prod_NormedModule R_AbsRing R_NormedModule (Un n))).
    set (l2 := fun v : Un n => l ((Hierarchy.zero, v) : prod_NormedModule R_AbsRing R_NormedModule (Un n))).
    assert (H1 : is_linear (U := R_NormedModule) l1).
    { apply line_linear; intros; unfold l1.
      - rewrite <- Hs. f_equal. symmetry. apply injective_projections; simpl; [reflexivity | apply (scal_zero_r (V := Un n))].
      - rewrite <- Hp. f_equal. symmetry. apply injective_projections; simpl; [reflexivity | apply (plus_zero_l (G := Un n))]. }
    assert (H2 : is_linear l2).
    { apply IHn; intros; unfold l2.
      - rewrite <- Hs. f_equal. symmetry. apply injective_projections; simpl; [apply (scal_zero_r (V := R_NormedModule)) | reflexivity].
      - rewrite <- Hp. f_equal. symmetry. apply injective_projections; simpl; [apply (plus_zero_l (G := R_NormedModule)) | reflexivity]. }
    apply (is_linear_ext (U := prod_NormedModule R_AbsRing R_NormedModule (Un n))
             (fun x : R * Un n => plus (l1 (fst x)) (l2 (snd x)))).
    + intros [a v]. unfold l1, l2; cbn [fst snd]. rewrite <- Hp. f_equal.
      apply injective_projections; simpl; [apply (plus_zero_r (G := R_NormedModule)) | apply (plus_zero_l (G := Un n))].
    + apply (is_linear_comp (U := prod_NormedModule R_AbsRing R_NormedModule (Un n))
               (fun x : R * Un n => (l1 (fst x), l2 (snd x))) (fun z : V * V => plus (fst z) (snd z)));
        [|apply is_linear_plus].
      apply (is_linear_prod (T := prod_NormedModule R_AbsRing R_NormedModule (Un n))
               (fun x : R * Un n => l1 (fst x)) (fun x : R * Un n => l2 (snd x))).
      * apply (is_linear_comp (fun x : R * Un n => fst x) l1); [apply is_linear_fst | exact H1].
      * apply (is_linear_comp (fun x : R * Un n => snd x) l2); [apply is_linear_snd | exact H2].
Qed.

(* the inverse mass matrix of the list model (diagonal or dense) acts additively and homogeneously
   on vectors of one length *)
Lemma ndot_vadd (row a b : list R) : length a = length b ->
  ndot NumR row (vadd NumR a b) = ndot NumR row a + ndot NumR row b.
Proof.
  revert a b; induction row as [|r row IH]; intros a b Hl; simpl; [ring|].
  destruct a as [|x a], b as [|y b]; simpl in *; try discriminate; [ring|].
  change (r * (x + y) + ndot NumR row (vadd NumR a b) = r * x + ndot NumR row a + (r * y + ndot NumR row b)).
  rewrite IH by lia. ring.
Qed.
Lemma ndot_vscale (row a : list R) c : ndot NumR row (vscale NumR c a) = c * ndot NumR row a.
Proof.
  revert a; induction row as [|r row IH]; intros a; simpl; [ring|].
  destruct a as [|x a]; simpl; [ring|].
  change (r * (c * x) + ndot NumR row (vscale NumR c a) = c * (r * x + ndot NumR row a)).
  rewrite IH. ring.
Qed.
Lemma minv_apply_vadd Minv (a b : list R) : length a = length b ->
  minv_apply NumR Minv (vadd NumR a b) = vadd NumR (minv_apply NumR Minv a) (minv_apply NumR Minv b).
Proof.
  intros Hl. destruct Minv as [d|m]; simpl.
  - revert a b Hl; induction d as [|x d IH]; intros a b Hl; [reflexivity|].
    destruct a as [|y a], b as [|z b]; simpl in *; try discriminate; [reflexivity|].
    change (x * (y + z) :: vmul NumR d (vadd NumR a b)
            = (x * y + x * z) :: vadd NumR (vmul NumR d a) (vmul NumR d b)).
    rewrite IH by lia. f_equal. ring.
  - induction m as [|row m IH]; [reflexivity|].
    change (ndot NumR row (vadd NumR a b) :: matvec NumR m (vadd NumR a b)
            = (ndot NumR row a + ndot NumR row b) :: vadd NumR (matvec NumR m a) (matvec NumR m b)).
    rewrite IH, ndot_vadd by assumption. reflexivity.
Qed.
Lemma minv_apply_vscale Minv c (a : list R) :
  minv_apply NumR Minv (vscale NumR c a) = vscale NumR c (minv_apply NumR Minv a).
Proof.
  destruct Minv as [d|m]; simpl.
  - revert a; induction d as [|x d IH]; intros a; [reflexivity|].
    destruct a as [|y a]; [reflexivity|].
    change (x * (c * y) :: vmul NumR d (vscale NumR c a) = c * (x * y) :: vscale NumR c (vmul NumR d a)).
    rewrite IH. f_equal. ring.
  - induction m as [|row m IH]; [reflexivity|].
    change (ndot NumR row (vscale NumR c a) :: matvec NumR m (vscale NumR c a)
            = c * ndot NumR row a :: vscale NumR c (matvec NumR m a)).
    rewrite IH, ndot_vscale. reflexivity.
Qed.

Definition MiU (n : nat) (Minv : mass R) (u : Un n) : Un n := unemb n (minv_apply NumR Minv (emb n u)).
Definition gU (n : nat) (grad : list R -> list R) (u : Un n) : Un n := unemb n (grad (emb n u)).

Lemma MiU_emb n Minv u : wf_minv (S n) Minv -> minv_apply NumR Minv (emb n u) = emb n (MiU n Minv u).
Proof.
  intros Hm. unfold MiU. rewrite emb_unemb; auto.
  apply (minv_apply_length (S n)); [exact Hm | apply emb_length].
Qed.
Lemma gU_emb n grad u : wf_grad (S n) grad -> grad (emb n u) = emb n (gU n grad u).
Proof. intros Hg. unfold gU. rewrite emb_unemb; auto. apply Hg. apply emb_length. Qed.

Lemma MiU_lin n Minv : wf_minv (S n) Minv -> is_linear (MiU n Minv).
Proof.
  intros Hm. apply findim_linear.
  - intros k x. apply (emb_inj n). rewrite emb_scal, <- !MiU_emb by assumption.
    rewrite emb_scal. apply minv_apply_vscale.
  - intros x y. apply (emb_inj n). rewrite emb_plus, <- !MiU_emb by assumption.
    rewrite emb_plus. apply minv_apply_vadd. rewrite !emb_length. reflexivity.
Qed.

(* The list model (model/M_leapfrog.v) in dimension n+1: ANY gradient function on lists that keeps
   the length, ANY inverse mass matrix of that size (diagonal or dense).  Read through the
   coordinates [emb], the implemented map is the generic [gleap]; when the gradient is Frechet
   differentiable the implemented map is Frechet differentiable at every point, its differential is
   a composition of 2L+2 linear shears, and every determinant-like functional gives it the value
   one. *)
Theorem leapfrog_list_model_ndim :
  forall (n : nat) (grad : list R -> list R) (Minv : mass R),
    wf_grad (S n) grad -> wf_minv (S n) Minv ->
    let g := gU n grad in
    let Mi := MiU n Minv in
    (forall eps L x, leapfrog NumR eps Minv grad L (embs n x) = embs n (gleap g Mi eps L x)) /\
    is_linear Mi /\
    forall Dg, (forall q, filterdiff g (locally q) (Dg q)) ->
      forall eps L x,
        (exists l, length l = (2 * L + 2)%nat /\ filterdiff (gleap g Mi eps L) (locally x) (lcomp Dg Mi l)) /\
        forall det : (Un n * Un n -> Un n * Un n) -> R,
          (forall f h, is_linear f -> is_linear h -> det (fun d => h (f d)) = det h * det f) ->
          (forall f h, (forall d, f d = h d) -> det f = det h) ->
          det (fun d => d) = 1 ->
          (forall A, is_linear A -> det (fun d => (fst d, plus (snd d) (A (fst d)))) = 1) ->
          (forall B, is_linear B -> det (fun d => (plus (fst d) (B (snd d)), snd d)) = 1) ->
          exists Df, filterdiff (gleap g Mi eps L) (locally x) Df /\ det Df = 1.
Proof.
  intros n grad Minv Hgrad Hm g Mi. split; [|split].
  - intros eps L x. apply leapfrog_emb.
    + intros u. apply gU_emb. exact Hgrad.
    + intros u. apply MiU_emb. exact Hm.
  - apply MiU_lin. exact Hm.
  - intros Dg HDg eps L x. split.
    + apply gleap_differentiable; [exact HDg | apply MiU_lin; exact Hm].
    + intros det H1 H2 H3 H4 H5.
      apply (gleap_volume_preserving g Dg HDg Mi (MiU_lin n Minv Hm) det H1 H2 H3 H4 H5).
Qed.

Print Assumptions gleap_differentiable.
Print Assumptions gleap_volume_preserving.
Print Assumptions gleap_dim1_volume.
Print Assumptions leapfrog_list_model_ndim.
