(* C07 for the ratio node-height transform on EVERY topology: the Jacobian matrix of
   (root height, ratios) -> internal heights, rows and columns both in pre-order, is BUILT from the
   model's partial derivatives (Derive); its entries above the diagonal vanish, its diagonal is
   1 (root) and h_parent - bound (other internal nodes), so its determinant is their product and the
   value reported by the code (ratio_logdet) is ln |det J|. *)
From Coq Require Import QArith Reals List Lra Lia Arith.
From Coquelicot Require Import Coquelicot.
Import ListNotations.
From TT Require Import Num NumR Tree M_height P_height P_height_jac P_height_inv
                       P_det_def P_tridet P_transform_det.
Open Scope R_scope.

(* internal heights in pre-order (the order of ipre and of ratio_inv) *)
Fixpoint hpre (ht : htree R) : list R :=
  match ht with HLeaf _ _ => [] | HNode _ h l r => h :: hpre l ++ hpre r end.

Lemma nodup_app_parts {A} (a b : list A) :
  NoDup (a ++ b) -> NoDup a /\ NoDup b /\ (forall x, In x a -> In x b -> False).
Proof.
  induction a as [|y a IH]; intros H; cbn [app] in H.
  - repeat split; [constructor | exact H | intros x []].
  - inversion H as [|? ? Hn Hd]; subst. destruct (IH Hd) as (Ha & Hb & Hab).
    repeat split.
    + constructor; [intro Hy; apply Hn; apply in_or_app; left; exact Hy | exact Ha].
    + exact Hb.
    + intros x [Hx|Hx] Hxb; [subst; apply Hn; apply in_or_app; right; exact Hxb | exact (Hab x Hx Hxb)].
Qed.

Lemma lk_upd : forall (l : list R) a b s, (a < length l)%nat ->
  lk (upd l a s) b 0 = if Nat.eqb a b then s else lk l b 0.
Proof.
  induction l as [|y l IH]; intros a b s Ha; cbn [length] in Ha; [lia|].
  destruct a as [|a]; destruct b as [|b]; cbn [upd lk Nat.eqb]; try reflexivity.
  apply IH. lia.
Qed.

Section RatioDet.
Variable n : nat.
Variable times : list R.
Notation bound := (bound NumR times).
Notation fwd := (ratio_fwd NumR n times).
Notation xof := (x_of NumR n).

(* the diagonal, in pre-order: 1 for the root, parent height - bound below *)
Fixpoint dfull (hpar : option R) (t : itree) (ht : htree R) : list R :=
  match t, ht with
  | INode _ l r, HNode _ h hl hr =>
      (match hpar with None => 1 | Some hp => hp - Rmax (bound l) (bound r) end)
      :: dfull (Some h) l hl ++ dfull (Some h) r hr
  | _, _ => []
  end.

Lemma hpre_len t : forall x hp, length (hpre (fwd x hp t)) = length (ipre t).
Proof.
  induction t as [i|i l IHl r IHr]; intros x hp; [reflexivity|].
  cbn [ratio_fwd]. cbn zeta. cbn [hpre ipre length]. rewrite !app_length, IHl, IHr. reflexivity.
Qed.
Lemma dfull_len t : forall x hp hp', length (dfull hp' t (fwd x hp t)) = length (ipre t).
Proof.
  induction t as [i|i l IHl r IHr]; intros x hp hp'; [reflexivity|].
  cbn [ratio_fwd]. cbn zeta. cbn [dfull ipre length]. rewrite !app_length, IHl, IHr. reflexivity.
Qed.

(* changing ONE parameter (that of the b-th internal node in pre-order) leaves the heights of the nodes
   before it unchanged and moves the height of that node affinely, with slope the diagonal entry *)
Lemma ratio_pre_affine t : forall x x' hp b,
  NoDup (ipre t) -> (b < length (ipre t))%nat ->
  (forall k, In k (ipre t) -> k <> nth b (ipre t) 0%nat -> xof x' k = xof x k) ->
  forall a, (a <= b)%nat ->
  nth a (hpre (fwd x' hp t)) 0
  = nth a (hpre (fwd x hp t)) 0
    + (if Nat.eqb a b
       then (xof x' (nth b (ipre t) 0%nat) - xof x (nth b (ipre t) 0%nat)) * nth b (dfull hp t (fwd x hp t)) 0
       else 0).
Proof.
  induction t as [i|i l IHl r IHr]; intros x x' hp b Hnd Hb Hx a Hab; cbn [ipre length] in Hb; [lia|].
  cbn [ipre] in Hnd, Hx. inversion Hnd as [|? ? Hi Hnd']; subst.
  destruct (nodup_app_parts _ _ Hnd') as (Nl & Nr & Dlr).
  cbn [ratio_fwd]. cbn zeta. cbn [hpre dfull].
  destruct b as [|b].
  - (* the node itself *)
    assert (a = 0%nat) by lia. subst a. cbn [nth ipre Nat.eqb].
    destruct hp as [p|]; cbn [add sub mul nmax NumR]; ring.
  - cbn [ipre nth] in Hx |- *.
    set (j := nth b (ipre l ++ ipre r) 0%nat) in *.
    assert (Hjin : In j (ipre l ++ ipre r)).
    { apply nth_In. rewrite app_length in Hb |- *. lia. }
    assert (Hij : i <> j) by (intro E; apply Hi; rewrite E; exact Hjin).
    rewrite (Hx i) by (auto; left; reflexivity).
    set (h := match hp with
              | Some hp0 => add NumR (nmax NumR (bound l) (bound r)) (mul NumR (xof x i) (sub NumR hp0 (nmax NumR (bound l) (bound r))))
              | None => xof x i end).
    destruct a as [|a]; [cbn [nth Nat.eqb]; lra|].
    cbn [nth]. change (Nat.eqb (S a) (S b)) with (Nat.eqb a b).
    assert (Ll' : length (hpre (fwd x' (Some h) l)) = length (ipre l)) by apply hpre_len.
    assert (Ll : length (hpre (fwd x (Some h) l)) = length (ipre l)) by apply hpre_len.
    assert (Dl : length (dfull (Some h) l (fwd x (Some h) l)) = length (ipre l)) by apply dfull_len.
    rewrite app_length in Hb.
    destruct (Nat.lt_ge_cases b (length (ipre l))) as [Hbl|Hbl].
    + (* the parameter belongs to the left subtree *)
      assert (Ej : j = nth b (ipre l) 0%nat) by (unfold j; apply app_nth1; exact Hbl).
      rewrite !app_nth1 by lia.
      rewrite (IHl x x' (Some h) b Nl Hbl); [rewrite <- Ej; reflexivity| |lia].
      intros k Hk Hkj. apply Hx; [right; apply in_or_app; left; exact Hk | rewrite Ej; exact Hkj].
    + (* the parameter belongs to the right subtree: the left subtree does not move *)
      assert (Ej : j = nth (b - length (ipre l)) (ipre r) 0%nat) by (unfold j; apply app_nth2; lia).
      assert (Hjr : In j (ipre r)) by (rewrite Ej; apply nth_In; lia).
      assert (El : fwd x' (Some h) l = fwd x (Some h) l).
      { apply ratio_fwd_local. intros k Hk. apply Hx; [right; apply in_or_app; left; exact Hk|].
        intro E. subst k. exact (Dlr j Hk Hjr). }
      rewrite El.
      destruct (Nat.lt_ge_cases a (length (ipre l))) as [Hal|Hal].
      * rewrite !(app_nth1 _ _ _ (n:=a)) by lia.
        destruct (Nat.eqb_spec a b); [lia|lra].
      * rewrite !(app_nth2 _ _ _ (n:=a)) by lia. rewrite (app_nth2 _ _ _ (n:=b)) by lia.
        rewrite Ll, Dl.
        rewrite (IHr x x' (Some h) (b - length (ipre l))%nat Nr); [| lia | | lia].
        -- rewrite <- Ej.
           destruct (Nat.eqb_spec a b); destruct (Nat.eqb_spec (a - length (ipre l)) (b - length (ipre l))); try lia; reflexivity.
        -- intros k Hk Hkj. apply Hx; [right; apply in_or_app; right; exact Hk | rewrite Ej; exact Hkj].
Qed.

(* ---- the Jacobian matrix, rows and columns in pre-order ---- *)
Definition pnode (t : itree) (b : nat) : nat := nth b (ipre t) 0%nat.
Definition ratio_partial (x : list R) (t : itree) (a b : nat) : R :=
  Derive (fun s => nth a (hpre (fwd (upd x (pnode t b - n) s) None t)) 0) (xof x (pnode t b)).
Definition ratio_jacobian (x : list R) (t : itree) : list (list R) :=
  tabulate (length (ipre t)) (ratio_partial x t).

Theorem ratio_partial_derive x t a b :
  NoDup (ipre t) -> (forall k, In k (ipre t) -> (n <= k < n + length x)%nat) ->
  (b < length (ipre t))%nat -> (a <= b)%nat ->
  is_derive (fun s => nth a (hpre (fwd (upd x (pnode t b - n) s) None t)) 0) (xof x (pnode t b))
            (if Nat.eqb a b then nth b (dfull None t (fwd x None t)) 0 else 0).
Proof.
  intros Hnd Hr Hb Hab. set (j := pnode t b).
  assert (Hj : In j (ipre t)) by (apply nth_In; exact Hb).
  pose proof (Hr j Hj) as Hjr.
  assert (Hxj : forall s, xof (upd x (j - n) s) j = s).
  { intros s. unfold x_of. cbn [zero NumR]. rewrite nsub_sub, lk_upd by lia. rewrite Nat.eqb_refl. reflexivity. }
  assert (Hxk : forall s k, In k (ipre t) -> k <> j -> xof (upd x (j - n) s) k = xof x k).
  { intros s k Hk Hkj. pose proof (Hr k Hk). unfold x_of. cbn [zero NumR]. rewrite !nsub_sub, lk_upd by lia.
    destruct (Nat.eqb_spec (j - n) (k - n)); [lia|reflexivity]. }
  set (d := if Nat.eqb a b then nth b (dfull None t (fwd x None t)) 0 else 0).
  apply (is_derive_ext (fun s => nth a (hpre (fwd x None t)) 0 + (s - xof x j) * d)).
  - intros s. rewrite (ratio_pre_affine t x (upd x (j - n) s) None b Hnd Hb (Hxk s) a Hab).
    fold (pnode t b). fold j. rewrite Hxj. unfold d. destruct (Nat.eqb a b); [reflexivity | lra].
  - auto_derive; [exact I|]. apply Rmult_1_l.
Qed.

Lemma ratio_jacobian_entry x t a b :
  NoDup (ipre t) -> (forall k, In k (ipre t) -> (n <= k < n + length x)%nat) ->
  (b < length (ipre t))%nat -> (a <= b)%nat ->
  entry NumR (ratio_jacobian x t) a b = if Nat.eqb a b then nth b (dfull None t (fwd x None t)) 0 else 0.
Proof.
  intros Hnd Hr Hb Hab. unfold ratio_jacobian. rewrite entry_tabulate by lia.
  unfold ratio_partial. apply is_derive_unique. apply ratio_partial_derive; assumption.
Qed.

(* det J = product of the diagonal *)
Theorem ratio_jacobian_det x t :
  NoDup (ipre t) -> (forall k, In k (ipre t) -> (n <= k < n + length x)%nat) ->
  ldet NumR (length (ipre t)) (ratio_jacobian x t) = rprod (dfull None t (fwd x None t)).
Proof.
  intros Hnd Hr. rewrite ldet_lower_triangular.
  - f_equal. unfold diagonal.
    rewrite (map_ext_in _ (fun i => nth i (dfull None t (fwd x None t)) 0)).
    + rewrite <- (dfull_len t x None None). apply map_nth_seq.
    + intros i Hi. apply in_seq in Hi. rewrite ratio_jacobian_entry by (assumption || lia).
      rewrite Nat.eqb_refl. reflexivity.
  - intros a b Hab. rewrite ratio_jacobian_entry by (assumption || lia).
    destruct (Nat.eqb_spec a b); [lia|reflexivity].
Qed.

(* ---- the diagonal is the list whose logarithms the code sums ---- *)
Lemma dfull_some t : forall p ht, dfull (Some p) t ht = diag_entries times (Some p) t ht.
Proof.
  induction t as [i|i l IHl r IHr]; intros p [j h|j h hl hr]; cbn [dfull diag_entries]; try reflexivity.
  rewrite IHl, IHr. reflexivity.
Qed.
Lemma dfull_pos t : forall hp ht, strictly_above times t ht -> bound t < hp ->
  List.Forall (fun d => 0 < d) (dfull (Some hp) t ht).
Proof.
  induction t as [i|i l IHl r IHr]; intros hp [j h|j h hl hr] Ha Hb; cbn [dfull]; try constructor.
  - change (bound (INode i l r)) with (Rmax (bound l) (bound r)) in Hb. lra.
  - cbn [strictly_above] in Ha. destruct Ha as (Hh & Al & Ar).
    pose proof (Rmax_l (bound l) (bound r)). pose proof (Rmax_r (bound l) (bound r)).
    apply Forall_app. split; [apply IHl | apply IHr]; try assumption; lra.
Qed.

Lemma rsumR_rsum l : rsumR l = rsum l.
Proof. induction l as [|a l IH]; cbn; [reflexivity|]. rewrite IH. reflexivity. Qed.

(* the diagonal of the Jacobian is 1 (root) followed by the entries whose logarithms the code sums
   (diag_entries of P_height_jac.v, C07_ratio_report) *)
Lemma dfull_root x i l r :
  dfull None (INode i l r) (fwd x None (INode i l r))
  = 1 :: diag_entries times None (INode i l r) (fwd x None (INode i l r)).
Proof.
  cbn [ratio_fwd]. cbn zeta. cbn [dfull diag_entries app]. rewrite !dfull_some. reflexivity.
Qed.

(* MAIN: on the parameter domain (root above its bound, positive ratios) the value reported by the
   code is ln |det| of the Jacobian matrix *)
Theorem ratio_logdet_is_logabsdet x i l r :
  let t := INode i l r in
  NoDup (ipre t) -> (forall k, In k (ipre t) -> (n <= k < n + length x)%nat) ->
  bound t < xof x i -> (forall j, In j (ipre l ++ ipre r) -> 0 < xof x j) ->
  ratio_logdet NumR times None t (fwd x None t)
  = ln (Rabs (ldet NumR (length (ipre t)) (ratio_jacobian x t))).
Proof.
  intros t Hnd Hr Hb Hx.
  pose proof (ratio_fwd_strict n times x i l r Hb Hx) as Hs.
  rewrite ratio_jacobian_det by assumption. unfold t.
  rewrite ln_rprod.
  - rewrite dfull_root. cbn [map rsum]. rewrite ln_1, ratio_logdet_is_sum_ln_diag, rsumR_rsum. lra.
  - revert Hs. cbn [ratio_fwd]. cbn zeta. cbn [strictly_above dfull]. intros (Hh & Al & Ar).
    change (bound (INode i l r)) with (Rmax (bound l) (bound r)) in Hb.
    pose proof (Rmax_l (bound l) (bound r)). pose proof (Rmax_r (bound l) (bound r)).
    constructor; [lra|]. apply Forall_app. split; apply dfull_pos; try assumption; lra.
Qed.
End RatioDet.

Print Assumptions ratio_partial_derive.
Print Assumptions ratio_jacobian_det.
Print Assumptions ratio_logdet_is_logabsdet.

(* for the numbering produced by setup_indexes (n taxa, internal nodes n .. 2n-2, n-1 parameters) *)
Lemma indexed_ipre tr :
  NoDup (ipre (index_tree tr))
  /\ forall k, In k (ipre (index_tree tr)) -> (leaves tr <= k < leaves tr + (leaves tr - 1))%nat.
Proof.
  unfold index_tree. destruct (index_from tr (leaves tr)) as [it nx] eqn:E. cbn [fst].
  destruct (index_from_seq _ _ _ _ E) as (H1 & H2 & H3). split.
  - apply (Permutation.Permutation_NoDup (l := iinternals it)); [symmetry; apply ipre_perm|].
    rewrite H3. apply seq_NoDup.
  - intros k Hk. apply (Permutation.Permutation_in _ (ipre_perm it)) in Hk. rewrite H3 in Hk.
    apply in_seq in Hk. exact Hk.
Qed.

Theorem ratio_logdet_is_logabsdet_indexed times tr x i l r :
  index_tree tr = INode i l r -> length x = (leaves tr - 1)%nat ->
  bound NumR times (INode i l r) < x_of NumR (leaves tr) x i ->
  (forall j, In j (ipre l ++ ipre r) -> 0 < x_of NumR (leaves tr) x j) ->
  ratio_logdet NumR times None (INode i l r) (ratio_fwd NumR (leaves tr) times x None (INode i l r))
  = ln (Rabs (ldet NumR (length (ipre (INode i l r))) (ratio_jacobian (leaves tr) times x (INode i l r)))).
Proof.
  intros E Hlen Hb Hx. destruct (indexed_ipre tr) as [Hnd Hr]. rewrite E in Hnd, Hr.
  apply ratio_logdet_is_logabsdet; try assumption. rewrite Hlen. exact Hr.
Qed.
Print Assumptions ratio_logdet_is_logabsdet_indexed.

(* non-vacuity: ((0,1),2), times 0, 1/2, 0, ratio 1/2, root height 2 (the parameters of C06_example):
   the Jacobian is [[1; 0]; [1/2; 3/2]] in pre-order (root, node 3), its determinant is 3/2 *)
Example ratio_det_example :
  let t := index_tree (Node (Node (Leaf 0) (Leaf 1)) (Leaf 2)) in
  let times := [0; 1/2; 0] in let x := [1/2; 2] in
  ldet NumR 2 (ratio_jacobian 3 times x t) = 3/2
  /\ ratio_logdet NumR times None t (ratio_fwd NumR 3 times x None t) = ln (3/2).
Proof.
  intros t times x.
  assert (M1 : Rmax 0 (1/2) = 1/2) by (apply Rmax_right; lra).
  assert (M2 : Rmax (1/2) 0 = 1/2) by (apply Rmax_left; lra).
  destruct (indexed_ipre (Node (Node (Leaf 0) (Leaf 1)) (Leaf 2))) as [Hnd Hr].
  split.
  - change 2%nat with (length (ipre t)). rewrite ratio_jacobian_det; [|exact Hnd|exact Hr].
    cbn -[Rmax Rdiv]. rewrite ?M1, ?M2. lra.
  - cbn -[Rmax Rdiv ln]. rewrite ?M1, ?M2. replace (2 - 1 / 2) with (3 / 2) by lra. lra.
Qed.
