(* Proofs for C20, GMRF part: the sum of squared first differences the code computes is the
   quadratic form of the tridiagonal precision matrix (plain, weighted, time-aware); the
   integrated closed forms are the pointwise products and, given the Gamma-kernel normalisation
   of the lgamma oracle, the integrals. *)
From Coquelicot Require Import Coquelicot.
From Coq Require Import QArith Reals List Lra Lia Qreals Arith.
Import ListNotations.
Local Open Scope list_scope.
From TT Require Import Num NumR Tree M_gmrf.
Open Scope R_scope.

(* ---------------------------------------------------------------- NumR unfolding helpers *)
Lemma two_R : two NumR = 2.
Proof. unfold two; cbn [ofQ NumR]. unfold Q2R; simpl. lra. Qed.
Lemma ofNat_INR n : ofNat NumR n = INR n.
Proof. unfold ofNat; cbn [ofQ NumR]. unfold Q2R; simpl. rewrite <- INR_IZR_INZ. lra. Qed.

Lemma nsum_cons x l : nsum NumR (x :: l) = x + nsum NumR l.
Proof. reflexivity. Qed.
Lemma ndot_cons x a y b : ndot NumR (x :: a) (y :: b) = x * y + ndot NumR a b.
Proof. reflexivity. Qed.
Lemma ndot_nil_r a : ndot NumR a [] = 0.
Proof. destruct a; reflexivity. Qed.
Lemma ndot_nil_l b : ndot NumR [] b = 0.
Proof. reflexivity. Qed.

Lemma ndot_comm a b : ndot NumR a b = ndot NumR b a.
Proof.
  revert b; induction a as [|x a IH]; intros [|y b]; try reflexivity.
  rewrite !ndot_cons, IH. lra.
Qed.
Lemma ndot_repeat0_l k y : ndot NumR (repeat 0 k) y = 0.
Proof.
  revert y; induction k as [|k IH]; intros [|b y]; try reflexivity.
  cbn [repeat]. rewrite ndot_cons, IH. lra.
Qed.
Lemma ndot_unitrow o n y : ndot NumR (unitrow NumR o n) y = match n, y with S _, b :: _ => o * b | _, _ => 0 end.
Proof.
  destruct n as [|k]; [reflexivity|]. destruct y as [|b y]; [reflexivity|].
  unfold unitrow. rewrite ndot_cons. change (zero NumR) with 0. rewrite ndot_repeat0_l. lra.
Qed.
Lemma unitrow_length o n : length (unitrow NumR o n) = n.
Proof. destruct n; cbn [unitrow length]; [reflexivity|]. rewrite repeat_length; reflexivity. Qed.

(* ---------------------------------------------------------------- block form of x'Mx *)
Lemma matvec_zipcons c M a y :
  matvec NumR (zipcons c M) (a :: y) =
  zipw (fun ci v => ci * a + v) c (matvec NumR M y).
Proof.
  revert M; induction c as [|ci c IH]; intros [|row M]; try reflexivity.
  cbn [zipcons matvec map zipw]. f_equal. apply IH.
Qed.
Lemma matvec_length M y : length (matvec NumR M y) = length M.
Proof. unfold matvec; apply map_length. Qed.
Lemma ndot_zipw_affine y c v a :
  length c = length v ->
  ndot NumR y (zipw (fun ci w => ci * a + w) c v) = a * ndot NumR y c + ndot NumR y v.
Proof.
  revert c v; induction y as [|b y IH]; intros [|ci c] [|w v] H; try discriminate H;
    cbn [zipw]; rewrite ?ndot_nil_l, ?ndot_nil_r; try lra.
  rewrite !ndot_cons, IH by (simpl in H; lia). lra.
Qed.
Lemma quad_block d r c M a y :
  length c = length M ->
  quad NumR ((d :: r) :: zipcons c M) (a :: y) =
  a * (d * a + ndot NumR r y) + (a * ndot NumR y c + quad NumR M y).
Proof.
  intros H. unfold quad at 1. cbn [matvec map]. fold (matvec NumR (zipcons c M) (a :: y)).
  rewrite matvec_zipcons, !ndot_cons, ndot_zipw_affine by (rewrite matvec_length; exact H).
  reflexivity.
Qed.

Lemma zipcons_length (c : list R) (M : list (list R)) : length c = length M -> length (zipcons c M) = length M.
Proof.
  revert M; induction c as [|a c IH]; intros [|row M] H; try discriminate H; try reflexivity.
  cbn [zipcons length]. f_equal. apply IH. simpl in H; lia.
Qed.
Lemma tri_dense_length diag off :
  S (length off) = length diag -> length (tri_dense NumR diag off) = length diag.
Proof.
  revert off; induction diag as [|d ds IH]; intros off H; [discriminate H|].
  destruct off as [|o os].
  - destruct ds; [reflexivity|discriminate H].
  - assert (Hos : S (length os) = length ds) by (simpl in H; lia).
    cbn [tri_dense length]. f_equal. rewrite zipcons_length.
    + apply IH; exact Hos.
    + rewrite unitrow_length, IH by exact Hos. reflexivity.
Qed.

(* x'Mx of a symmetric tridiagonal matrix: sum d_i x_i^2 + 2 sum o_i x_i x_{i+1} *)
Fixpoint quad_tri (diag off x : list R) : R :=
  match diag, x with
  | d :: ds, a :: y =>
      match off, y with
      | o :: os, b :: _ => d * a * a + 2 * o * a * b + quad_tri ds os y
      | _, _ => d * a * a
      end
  | _, _ => 0
  end.

Lemma quad_tri_dense diag off x :
  length x = length diag -> S (length off) = length diag ->
  quad NumR (tri_dense NumR diag off) x = quad_tri diag off x.
Proof.
  revert off x; induction diag as [|d ds IH]; intros off x Hx Ho; [discriminate Ho|].
  destruct x as [|a y]; [discriminate Hx|].
  destruct off as [|o os].
  - destruct ds; [|discriminate Ho]. destruct y; [|discriminate Hx].
    cbn [tri_dense quad_tri]. unfold quad. cbn [matvec map]. rewrite !ndot_cons, !ndot_nil_l. lra.
  - cbn [tri_dense].
    rewrite quad_block.
    2:{ rewrite unitrow_length, tri_dense_length; [reflexivity | simpl in Ho; lia]. }
    rewrite IH by (simpl in Hx, Ho; lia).
    rewrite (ndot_comm y), !ndot_unitrow.
    destruct ds as [|d' ds]; [simpl in Ho; lia|].
    destruct y as [|b y]; [discriminate Hx|].
    cbn [length quad_tri]. lra.
Qed.

(* ---------------------------------------------------------------- the ring identity *)
Lemma quad_tri_weighted tau iw : forall prev a y,
  length y = length iw ->
  quad_tri (wdiag_from NumR tau prev iw) (woff NumR tau iw) (a :: y) =
  tau * prev * a * a + tau * ndot NumR iw (sqdiffs_from NumR a y).
Proof.
  induction iw as [|m r IH]; intros prev a y H.
  - destruct y; [|discriminate H]. cbn [wdiag_from woff map quad_tri sqdiffs_from mul NumR].
    rewrite ndot_nil_l. lra.
  - destruct y as [|b s]; [discriminate H|].
    cbn [wdiag_from woff map quad_tri sqdiffs_from].
    destruct r as [|m' r'].
    + destruct s; [|discriminate H].
      cbn [wdiag_from woff map quad_tri sqdiffs_from]. rewrite ndot_cons, ndot_nil_l.
      unfold sq; cbn [mul add sub opp NumR]. lra.
    + destruct s as [|b' s']; [discriminate H|].
      specialize (IH m b (b' :: s') ltac:(simpl in H |- *; lia)).
      cbn [wdiag_from woff map] in IH |- *. cbn [quad_tri]. cbn [quad_tri] in IH.
      rewrite ndot_cons. cbn [sqdiffs_from] in IH |- *.
      unfold sq in *; cbn [mul add sub opp NumR] in *. lra.
Qed.

Lemma wdiag_from_length tau prev iw : length (wdiag_from NumR tau prev iw) = S (length iw).
Proof. revert prev; induction iw; intros; cbn [wdiag_from length]; [reflexivity|]. rewrite IHiw; reflexivity. Qed.
Lemma woff_length tau iw : length (woff NumR tau iw) = length iw.
Proof. unfold woff; apply map_length. Qed.
Lemma sqdiffs_from_length a y : length (sqdiffs_from NumR a y) = length y.
Proof. revert a; induction y; intros; cbn [sqdiffs_from length]; [reflexivity|]. rewrite IHy; reflexivity. Qed.
Lemma fdim_length x : fdim NumR x = Nat.pred (length x).
Proof. destruct x; [reflexivity|]. unfold fdim; cbn [sqdiffs]. rewrite sqdiffs_from_length. reflexivity. Qed.

(* x' (tau D' W^-1 D) x = tau * sum m_i (x_i - x_{i+1})^2, every length >= 1 *)
Lemma quad_precision_matrix_w tau iw x :
  length x = S (length iw) ->
  quad NumR (precision_matrix_w NumR tau iw) x = tau * ndot NumR iw (sqdiffs NumR x).
Proof.
  intros H. unfold precision_matrix_w.
  rewrite quad_tri_dense by (rewrite wdiag_from_length, ?woff_length; lia).
  destruct x as [|a y]; [discriminate H|].
  rewrite quad_tri_weighted by (simpl in H; lia).
  cbn [sqdiffs zero NumR]. lra.
Qed.

(* ---------------------------------------------------------------- what the code publishes *)
Lemma wdiag_from_ones tau k :
  wdiag_from NumR tau 1 (repeat 1 k) = repeat (mul NumR (two NumR) tau) k ++ [tau].
Proof.
  induction k as [|k IH]; cbn [repeat wdiag_from app].
  - f_equal. cbn [mul NumR]. lra.
  - rewrite IH. f_equal. rewrite two_R. cbn [mul add NumR]. lra.
Qed.
Lemma map_repeat' {A B} (f : A -> B) a k : map f (repeat a k) = repeat (f a) k.
Proof. induction k; cbn [repeat map]; [reflexivity|]. rewrite IHk; reflexivity. Qed.
Lemma precision_matrix_plain_is_unit_weighted tau n :
  (2 <= n)%nat ->
  precision_matrix_plain NumR tau n = precision_matrix_w NumR tau (repeat 1 (Nat.pred n)).
Proof.
  intros H. destruct n as [|[|k]]; try lia.
  unfold precision_matrix_plain, precision_matrix_w. cbn [Nat.pred pm_plain_diag pm_plain_off].
  f_equal.
  - cbn [repeat wdiag_from]. rewrite wdiag_from_ones. f_equal. cbn [mul add zero NumR]. lra.
  - unfold woff. change (S k) with (1 + k)%nat. cbn [repeat Nat.add map]. f_equal.
    + cbn [opp mul NumR]. lra.
    + rewrite map_repeat'. f_equal. cbn [opp mul NumR]. lra.
Qed.

(* ---------------------------------------------------------------- the three variants *)
Definition variant_ok (v : @variant R) (x : list R) : Prop :=
  match v with
  | Plain => True
  | Weighted w => (Nat.pred (length x) <= length w)%nat
  | TimeAware h _ => (length x <= length h)%nat
  end.

Lemma nsum_plain s : nsum NumR s = ndot NumR (repeat 1 (length s)) s.
Proof. induction s as [|a s IH]; [reflexivity|]. cbn [length repeat]. rewrite ndot_cons, nsum_cons, IH. lra. Qed.
Lemma nsum_zipw_div s w :
  nsum NumR (zipw (div NumR) s w) =
  ndot NumR (map (fun wi => div NumR (one NumR) wi) (firstn (length s) w)) s.
Proof.
  revert w; induction s as [|a s IH]; intros [|b w]; try reflexivity.
  cbn [zipw length firstn map]. rewrite nsum_cons, ndot_cons, IH. cbn [div one NumR]. unfold Rdiv. lra.
Qed.
Lemma nsum_map_scale c l : nsum NumR (map (fun v => mul NumR v c) l) = c * nsum NumR l.
Proof. induction l as [|a l IH]; cbn [map]; rewrite ?nsum_cons, ?IH; cbn [nsum zero mul NumR]; lra. Qed.
Lemma ndot_map_scale c l s : ndot NumR (map (fun m => mul NumR m c) l) s = c * ndot NumR l s.
Proof.
  revert s; induction l as [|a l IH]; intros [|b s]; cbn [map]; rewrite ?ndot_nil_l, ?ndot_nil_r; try lra.
  rewrite !ndot_cons, IH. cbn [mul NumR]. lra.
Qed.

(* sum of the weighted squared differences as the code computes them = sum m_i (dx_i)^2 *)
Lemma wsqdiffs_inv_weights v x :
  nsum NumR (wsqdiffs NumR v x) = ndot NumR (inv_weights NumR v (fdim NumR x)) (sqdiffs NumR x).
Proof.
  destruct v as [|w|h rescale]; unfold wsqdiffs, inv_weights, fdim.
  - apply nsum_plain.
  - apply nsum_zipw_div.
  - destruct rescale.
    + rewrite nsum_map_scale, ndot_map_scale, nsum_zipw_div. reflexivity.
    + apply nsum_zipw_div.
Qed.

Lemma insert_q_length q l : length (insert_q q l) = S (length l).
Proof. induction l as [|x l IH]; [reflexivity|]. cbn [insert_q]. destruct (Qle_bool q x); cbn [length]; [reflexivity|]. rewrite IH; reflexivity. Qed.
Lemma sort_q_length l : length (sort_q l) = length l.
Proof. induction l as [|q l IH]; [reflexivity|]. cbn [sort_q]. rewrite insert_q_length, IH. reflexivity. Qed.
Lemma diffs_from_length a r : length (diffs_from NumR a r) = length r.
Proof. revert a; induction r; intros; cbn [diffs_from length]; [reflexivity|]. rewrite IHr; reflexivity. Qed.
Lemma means_from_length a r : length (means_from NumR a r) = length r.
Proof. revert a; induction r; intros; cbn [means_from length]; [reflexivity|]. rewrite IHr; reflexivity. Qed.
Lemma ta_weights_length h : length (ta_weights NumR h) = Nat.pred (length h).
Proof.
  unfold ta_weights, heights_sorted.
  pose proof (sort_q_length (0%Q :: h)) as HL.
  destruct (sort_q (0%Q :: h)) as [|q0 s]; [discriminate HL|].
  cbn [map diffs]. destruct (map (ofQ NumR) s) as [|d0 ds] eqn:E.
  - apply (f_equal (@length R)) in E. rewrite map_length in E. simpl in HL, E. cbn [diffs_from means length]. lia.
  - cbn [diffs_from means]. rewrite means_from_length, diffs_from_length.
    apply (f_equal (@length R)) in E. rewrite map_length in E. simpl in HL, E. lia.
Qed.

Lemma inv_weights_length v x :
  variant_ok v x -> length (inv_weights NumR v (fdim NumR x)) = fdim NumR x.
Proof.
  intros H. rewrite fdim_length. destruct v as [|w|h rescale]; unfold inv_weights.
  - apply repeat_length.
  - rewrite map_length, firstn_length. simpl in H. lia.
  - simpl in H.
    assert (length (map (fun wi => div NumR (one NumR) wi) (firstn (Nat.pred (length x)) (ta_weights NumR h)))
            = Nat.pred (length x)) as E.
    { rewrite map_length, firstn_length, ta_weights_length. lia. }
    destruct rescale; [rewrite map_length|]; exact E.
Qed.

(* THE identity: for every variant the sum the density uses, times tau, is x'Qx with
   Q = tau D' W^-1 D *)
Lemma sum_is_quadratic_form v x tau :
  (1 <= length x)%nat -> variant_ok v x ->
  nsum NumR (wsqdiffs NumR v x) * tau =
  quad NumR (precision_matrix_w NumR tau (inv_weights NumR v (fdim NumR x))) x.
Proof.
  intros Hx Hv. rewrite quad_precision_matrix_w, wsqdiffs_inv_weights; [lra|].
  rewrite inv_weights_length by assumption. rewrite fdim_length. lia.
Qed.

(* the matrix the model publishes *)
Lemma published_is_weighted v x tau :
  (2 <= length x)%nat ->
  precision_matrix NumR v tau (length x) =
  precision_matrix_w NumR tau (inv_weights NumR v (fdim NumR x)).
Proof.
  intros Hx. rewrite fdim_length. destruct v; cbn [precision_matrix]; try reflexivity.
  rewrite precision_matrix_plain_is_unit_weighted by assumption. reflexivity.
Qed.

Lemma gmrf_is_quadratic_form_l v x tau :
  (2 <= length x)%nat -> variant_ok v x ->
  nsum NumR (wsqdiffs NumR v x) * tau = quad NumR (precision_matrix NumR v tau (length x)) x.
Proof.
  intros Hx Hv. rewrite published_is_weighted by assumption. apply sum_is_quadratic_form; [lia|assumption].
Qed.

Lemma gmrf_is_gaussian_form_l ln2pi v x tau :
  (2 <= length x)%nat -> variant_ok v x ->
  gmrf NumR ln2pi v x tau =
  gauss_form NumR ln2pi (fdim NumR x) (precision_matrix NumR v tau (length x)) x tau.
Proof.
  intros Hx Hv. unfold gmrf, gmrf_value, gauss_form.
  rewrite <- gmrf_is_quadratic_form_l by assumption. reflexivity.
Qed.

(* the plain case at the literal statement: sum (x_{i+1}-x_i)^2 tau = x'Qx, Q as the code builds it *)
Lemma plain_sum_is_quadratic_form_l x tau :
  (2 <= length x)%nat ->
  nsum NumR (sqdiffs NumR x) * tau = quad NumR (precision_matrix_plain NumR tau (length x)) x.
Proof. intros Hx. exact (gmrf_is_quadratic_form_l (Plain) x tau Hx I). Qed.

(* what the code returns for the weighted / time-aware variants is the PLAIN matrix; its quadratic
   form misses the density's by exactly tau * sum (1 - m_i) (dx_i)^2 *)
Lemma plain_matrix_error_l v x tau :
  (2 <= length x)%nat -> variant_ok v x ->
  quad NumR (precision_matrix_plain NumR tau (length x)) x - nsum NumR (wsqdiffs NumR v x) * tau =
  tau * (nsum NumR (sqdiffs NumR x) - nsum NumR (wsqdiffs NumR v x)).
Proof.
  intros Hx Hv. rewrite <- plain_sum_is_quadratic_form_l by assumption. lra.
Qed.

(* ... which is not zero in general: x = (0,1), weight 2, tau = 1 *)
Lemma weighted_precision_refuted_l :
  exists (w x : list R) (tau : R),
    (2 <= length x)%nat /\ variant_ok (Weighted w) x /\
    quad NumR (precision_matrix_plain NumR tau (length x)) x <>
    nsum NumR (wsqdiffs NumR (Weighted w) x) * tau.
Proof.
  exists [2], [0; 1], 1. split; [simpl; lia|]. split; [simpl; lia|].
  rewrite <- plain_sum_is_quadratic_form_l by (simpl; lia).
  cbn [wsqdiffs sqdiffs sqdiffs_from zipw nsum]. unfold sq. cbn [add sub mul div zero NumR]. lra.
Qed.

(* ---------------------------------------------------------------- integrated forms *)
Lemma half_dim_R d : half_dim NumR d = INR d / 2.
Proof. unfold half_dim. rewrite ofNat_INR, two_R. reflexivity. Qed.

(* ln of the factor that does not depend on the integration variable *)
Definition lnK_gmrf (ln2pi alpha beta lg_a : R) (d : nat) : R :=
  alpha * ln beta - lg_a - INR d / 2 * ln2pi.
Definition lnK_const (alpha beta lg_a : R) : R := alpha * ln beta - lg_a.

(* pointwise, in log space: ln Gamma(tau; alpha, beta) + ln GMRF(x | tau)
   = ln K(x) + (a' - 1) ln tau - b' tau,  a' = alpha + d/2, b' = beta + S/2 *)
Lemma gmrf_integrand_log_l ln2pi alpha beta lg_a d S tau :
  gamma_logpdf NumR alpha beta lg_a tau + gmrf_value NumR ln2pi d S tau =
  lnK_gmrf ln2pi alpha beta lg_a d + (alpha + INR d / 2 - 1) * ln tau - (beta + S / 2) * tau.
Proof.
  unfold gamma_logpdf, gmrf_value, lnK_gmrf. rewrite ofNat_INR, two_R.
  cbn [add sub mul div opp one nln NumR]. lra.
Qed.
(* the value the code reports = ln K(x) + lgamma a' - a' ln b' *)
Lemma gmrf_integrated_value_l ln2pi alpha beta lg_a lg_a' d S :
  gmrf_integrated_value NumR ln2pi alpha beta lg_a lg_a' d S =
  lnK_gmrf ln2pi alpha beta lg_a d + lg_a' - (alpha + INR d / 2) * ln (beta + S / 2).
Proof.
  unfold gmrf_integrated_value, lnK_gmrf. rewrite half_dim_R, two_R.
  cbn [add sub mul div opp one nln NumR]. replace (S / 2 + beta) with (beta + S / 2) by lra. lra.
Qed.
(* pointwise product of the densities: K(x) tau^(a'-1) e^(-b' tau) *)
Lemma gmrf_integrand_product_l ln2pi alpha beta lg_a d S tau :
  exp (gamma_logpdf NumR alpha beta lg_a tau) * exp (gmrf_value NumR ln2pi d S tau) =
  exp (lnK_gmrf ln2pi alpha beta lg_a d) *
  (Rpower tau (alpha + INR d / 2 - 1) * exp (- ((beta + S / 2) * tau))).
Proof.
  rewrite <- exp_plus, gmrf_integrand_log_l. unfold Rpower. rewrite <- !exp_plus. f_equal. lra.
Qed.

Lemma const_integrand_log_l alpha beta lg_a m S theta :
  invgamma_logpdf NumR alpha beta lg_a theta + const_value NumR m S theta =
  lnK_const alpha beta lg_a + (- (alpha + INR m) - 1) * ln theta - (beta + S) / theta.
Proof.
  unfold invgamma_logpdf, const_value, lnK_const. rewrite ofNat_INR.
  cbn [add sub mul div opp one nln NumR]. unfold Rdiv. lra.
Qed.
Lemma const_integrated_value_l alpha beta lg_a lg_am m S :
  const_integrated_value NumR alpha beta lg_a lg_am m S =
  lnK_const alpha beta lg_a + lg_am - (alpha + INR m) * ln (beta + S).
Proof.
  unfold const_integrated_value, lnK_const. rewrite ofNat_INR. cbn [add sub mul div opp one nln NumR]. lra.
Qed.
Lemma const_integrand_product_l alpha beta lg_a m S theta :
  exp (invgamma_logpdf NumR alpha beta lg_a theta) * exp (const_value NumR m S theta) =
  exp (lnK_const alpha beta lg_a) *
  (Rpower theta (- (alpha + INR m) - 1) * exp (- ((beta + S) / theta))).
Proof.
  rewrite <- exp_plus, const_integrand_log_l. unfold Rpower. rewrite <- !exp_plus. f_equal. lra.
Qed.

(* The lgamma oracle.  Coq's libraries here have no Gamma function: what is assumed about the
   values math.lgamma returns is exactly the normalisation of the Gamma kernel (and of the
   inverse-Gamma kernel, its image under t -> 1/t). *)
Definition gamma_kernel_normalised (Lg : R -> R) : Prop :=
  forall a b, 0 < a -> 0 < b ->
  is_RInt_gen (fun t => Rpower t (a - 1) * exp (- (b * t))) (at_right 0) (Rbar_locally p_infty)
              (exp (Lg a) / Rpower b a).
Definition invgamma_kernel_normalised (Lg : R -> R) : Prop :=
  forall a b, 0 < a -> 0 < b ->
  is_RInt_gen (fun t => Rpower t (- a - 1) * exp (- (b / t))) (at_right 0) (Rbar_locally p_infty)
              (exp (Lg a) / Rpower b a).

Section Oracle.
Variable Lg : R -> R.
Hypothesis gamma_kernel : gamma_kernel_normalised Lg.
Hypothesis invgamma_kernel : invgamma_kernel_normalised Lg.

Lemma scaled_kernel_integral (f g : R -> R) (lnK v a' b' l : R) :
  (forall t, f t = exp lnK * g t) ->
  is_RInt_gen g (at_right 0) (Rbar_locally p_infty) (exp v / Rpower b' a') ->
  l = lnK + v - a' * ln b' ->
  is_RInt_gen f (at_right 0) (Rbar_locally p_infty) (exp l).
Proof.
  intros Hf Hg ->.
  apply (is_RInt_gen_scal _ (exp lnK)) in Hg.
  replace (exp (lnK + v - a' * ln b')) with (scal (exp lnK) (exp v / Rpower b' a')).
  - eapply is_RInt_gen_ext; [|exact Hg].
    apply filter_forall. intros ab t _. rewrite Hf. reflexivity.
  - unfold scal; simpl; unfold mult; simpl. unfold Rpower, Rdiv.
    rewrite <- exp_Ropp, <- !exp_plus. f_equal. lra.
Qed.

(* GMRFGammaIntegrated = integral over tau of Gamma(tau; alpha, beta) * GMRF(x | tau) *)
Lemma gmrf_integrated_is_integral_l ln2pi alpha beta d S :
  0 < alpha -> 0 < beta -> 0 <= S ->
  is_RInt_gen (fun tau => exp (gamma_logpdf NumR alpha beta (Lg alpha) tau) *
                          exp (gmrf_value NumR ln2pi d S tau))
    (at_right 0) (Rbar_locally p_infty)
    (exp (gmrf_integrated_value NumR ln2pi alpha beta (Lg alpha) (Lg (alpha + INR d / 2)) d S)).
Proof.
  intros Ha Hb HS.
  assert (0 <= INR d) by apply pos_INR.
  eapply scaled_kernel_integral.
  - intros t. apply gmrf_integrand_product_l.
  - apply gamma_kernel; lra.
  - apply gmrf_integrated_value_l.
Qed.

(* ConstantCoalescentIntegrated = integral over theta of InvGamma(theta; alpha, beta) *
   ConstantCoalescent(T | theta), the latter through its statistic S and event count m *)
Lemma const_integrated_is_integral_l alpha beta m S :
  0 < alpha -> 0 < beta -> 0 <= S ->
  is_RInt_gen (fun theta => exp (invgamma_logpdf NumR alpha beta (Lg alpha) theta) *
                            exp (const_value NumR m S theta))
    (at_right 0) (Rbar_locally p_infty)
    (exp (const_integrated_value NumR alpha beta (Lg alpha) (Lg (alpha + INR m)) m S)).
Proof.
  intros Ha Hb HS.
  assert (0 <= INR m) by apply pos_INR.
  eapply scaled_kernel_integral.
  - intros t. apply const_integrand_product_l.
  - apply invgamma_kernel; lra.
  - apply const_integrated_value_l.
Qed.
End Oracle.
