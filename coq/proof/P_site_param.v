(* Free theorems: the NumI run of each site-model term encloses its NumR value. *)
From Coq Require Import QArith Reals List.
From Param Require Import Param.
From TT Require Import Num NumR NumI ParamI M_site.

Parametricity Recursive weibull_rates qualified.
Parametricity Recursive disc_probs qualified.
Parametricity Recursive invariant_rates qualified.
Parametricity Recursive invariant_probs qualified.
Parametricity Recursive constant_rates qualified.

Lemma weibull_rates_enclosed shape Shape K inv Inv mu Mu :
  rel shape Shape -> option_R R I.type rel inv Inv -> option_R R I.type rel mu Mu ->
  list_R R I.type rel (weibull_rates NumR shape K inv mu) (weibull_rates NumI Shape K Inv Mu).
Proof.
  intros Hs Hi Hm.
  exact (TT_o_M_site_o_weibull_rates_R R I.type rel NumR NumI NumRI_R shape Shape Hs K K (nat_R_refl K)
           inv Inv Hi mu Mu Hm).
Qed.

Lemma disc_probs_enclosed K inv Inv :
  option_R R I.type rel inv Inv ->
  list_R R I.type rel (disc_probs NumR K inv) (disc_probs NumI K Inv).
Proof.
  intros Hi. exact (TT_o_M_site_o_disc_probs_R R I.type rel NumR NumI NumRI_R K K (nat_R_refl K) inv Inv Hi).
Qed.

Lemma invariant_rates_enclosed p P mu Mu :
  rel p P -> option_R R I.type rel mu Mu ->
  list_R R I.type rel (invariant_rates NumR p mu) (invariant_rates NumI P Mu).
Proof.
  intros Hp Hm. exact (TT_o_M_site_o_invariant_rates_R R I.type rel NumR NumI NumRI_R p P Hp mu Mu Hm).
Qed.
Print Assumptions weibull_rates_enclosed.
