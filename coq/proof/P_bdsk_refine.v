(* C09, refinement invariance of the WHOLE birth-death skyline density, any number of epochs:
   cutting one epoch of a skyline pre ++ e :: post in two parts with e's rates (rho = 0 at the
   new boundary, e's rho kept at e's end) leaves log_prob unchanged, for every tree, with and
   without survival conditioning, with and without removal probabilities (the entry of e is
   duplicated).  Model: model/M_bdsk.v at NumR; p/q part: split_solve of proof/P_bdsk.v. *)
From Coq Require Import QArith Reals Qreals List Bool Arith Lra Lia Psatz.
From TT Require Import Num NumR Tree M_bdsk P_bdsk.
Import ListNotations.
Open Scope R_scope.

(* ---- lists, counts, lookups ---- *)
Lemma count_if_app f a b : count_if f (a ++ b) = (count_if f a + count_if f b)%nat.
Proof. induction a as [|x a IH]; cbn [app count_if]; [reflexivity|]. destruct (f x); rewrite IH; reflexivity. Qed.

Lemma count_if_le f l : (count_if f l <= length l)%nat.
Proof. induction l as [|x l IH]; cbn [count_if length]; [lia|]. destruct (f x); lia. Qed.

Lemma count_if_all f l : (forall t, In t l -> f t = true) -> count_if f l = length l.
Proof.
  induction l as [|x l IH]; intros H; cbn [count_if length]; [reflexivity|].
  rewrite (H x (or_introl eq_refl)), IH; [reflexivity|]. intros t Ht. apply H. right. exact Ht.
Qed.

Lemma count_if_none f l : (forall t, In t l -> f t = false) -> count_if f l = O.
Proof.
  induction l as [|x l IH]; intros H; cbn [count_if]; [reflexivity|].
  rewrite (H x (or_introl eq_refl)), IH; [reflexivity|]. intros t Ht. apply H. right. exact Ht.
Qed.

Lemma count_if_lt f l t : In t l -> f t = false -> (count_if f l < length l)%nat.
Proof.
  induction l as [|x l IH]; intros Hin Hf; [destruct Hin|]. cbn [count_if length].
  destruct Hin as [->|Hin].
  - rewrite Hf. pose proof (count_if_le f l). lia.
  - specialize (IH Hin Hf). destruct (f x); lia.
Qed.

Lemma count_if_ext f g l : (forall t, f t = g t) -> count_if f l = count_if g l.
Proof. intros H. induction l as [|x l IH]; cbn [count_if]; [reflexivity|]. rewrite H, IH. reflexivity. Qed.

Lemma lk_app_lt {X} (P Q : list X) i d : (i < length P)%nat -> lk (P ++ Q) i d = lk P i d.
Proof.
  revert i. induction P as [|x P IH]; intros i Hi; cbn [length] in Hi; [lia|].
  destruct i; cbn [app lk]; [reflexivity|]. apply IH. lia.
Qed.

Lemma lk_app_plus {X} (P Q : list X) j d : lk (P ++ Q) (length P + j) d = lk Q j d.
Proof. induction P as [|x P IH]; cbn [app length lk Nat.add]; [reflexivity | exact IH]. Qed.

Lemma lk_app_len {X} (P Q : list X) x d : lk (P ++ x :: Q) (length P) d = x.
Proof. rewrite <- (Nat.add_0_r (length P)), lk_app_plus. reflexivity. Qed.

Lemma lk_app_len_S {X} (P Q : list X) x y d : lk (P ++ x :: y :: Q) (S (length P)) d = y.
Proof. rewrite <- (Nat.add_1_r (length P)), lk_app_plus. reflexivity. Qed.

Lemma combine_app {X Y} (a a' : list X) (b b' : list Y) :
  length a = length b -> combine (a ++ a') (b ++ b') = combine a b ++ combine a' b'.
Proof.
  revert b. induction a as [|x a IH]; intros [|y b] H; cbn [length] in H; try discriminate; cbn [app combine].
  - reflexivity.
  - rewrite IH; [reflexivity|]. lia.
Qed.

Lemma lastq_app l x r d : lastq (l ++ x :: r) d = lastq r x.
Proof. revert d. induction l as [|y l IH]; intros d; cbn [app lastq]; [reflexivity | apply IH]. Qed.

Lemma lastq_in r x : In (lastq r x) (x :: r).
Proof. revert x. induction r as [|y r IH]; intros x; cbn [lastq]; [left; reflexivity|]. right. apply IH. Qed.

Lemma nsum_shift (f g : Q -> R) (h : Q -> bool) (K : R) xs :
  (forall x, f x = g x + (if h x then K else 0)) ->
  nsum NumR (map f xs) = nsum NumR (map g xs) + INR (count_if h xs) * K.
Proof.
  intros H. induction xs as [|x xs IH]; cbn [map nsum count_if add zero NumR].
  - cbn [INR]. lra.
  - rewrite IH, (H x). destruct (h x); [rewrite S_INR|]; lra.
Qed.

(* removal probabilities: the entry of epoch k is duplicated *)
Fixpoint dup_at (k : nat) (rl : list R) : list R :=
  match rl with
  | [] => []
  | x :: r => match k with O => x :: x :: r | S k' => x :: dup_at k' r end
  end.

Lemma lk_dup_le k rl i d : (i <= k)%nat -> lk (dup_at k rl) i d = lk rl i d.
Proof.
  revert rl i. induction k as [|k IH]; intros [|x rl] i Hi; cbn [dup_at lk]; try reflexivity.
  - assert (i = O) by lia. subst i. reflexivity.
  - destruct i; [reflexivity|]. apply IH. lia.
Qed.

Lemma lk_dup_ge k rl i d : (k <= i)%nat -> lk (dup_at k rl) (S i) d = lk rl i d.
Proof.
  revert rl i. induction k as [|k IH]; intros [|x rl] i Hi; cbn [dup_at lk]; try reflexivity.
  destruct i; [lia|]. cbn [lk]. apply IH. lia.
Qed.

(* ---- contiguous skylines: each epoch starts where the previous one ends ---- *)
Fixpoint chain (eps : list (epoch R)) : Prop :=
  match eps with
  | [] => True
  | a :: r => match r with [] => True | b :: _ => Q2R (et1 a) = Q2R (et0 b) end /\ chain r
  end.

Lemma chain_app_r a b : chain (a ++ b) -> chain b.
Proof. induction a as [|x a IH]; cbn [app]; [auto|]. intros [_ H]. apply IH, H. Qed.

Lemma chain_post_ge post e' :
  Forall wf_ep (e' :: post) -> chain (e' :: post) ->
  forall b, In b post -> Q2R (et1 e') <= Q2R (et1 b).
Proof.
  revert e'. induction post as [|b0 r IH]; intros e' Hwf Hch b Hb; [destruct Hb|].
  inversion Hwf as [|? ? _ Hwf']; subst. destruct Hch as [Hj Hch].
  assert (H0 : Q2R (et1 e') <= Q2R (et1 b0)).
  { inversion Hwf' as [|? ? (_ & _ & _ & _ & Ht) _]; subst. lra. }
  destruct Hb as [<-|Hb]; [exact H0|]. specialize (IH b0 Hwf' Hch b Hb). lra.
Qed.

Lemma mono_le x : forall a b, Q2R a <= Q2R b -> Qle_bool b x = true -> Qle_bool a x = true.
Proof. intros a b Hab H. apply Qle_bool_true in H. apply Qle_bool_of_R. lra. Qed.

Lemma mono_lt y : forall a b, Q2R a <= Q2R b -> Qlt_bool b y = true -> Qlt_bool a y = true.
Proof.
  intros a b Hab H. unfold Qlt_bool in *. apply negb_true_iff in H. apply Qle_bool_false in H.
  apply negb_true_iff. apply Qle_bool_of_R_false. lra.
Qed.

Lemma back_cons (a : epoch R) r :
  back NumR (a :: r) = (solve_epoch NumR a (snd (back NumR r)) :: fst (back NumR r),
                        sp (solve_epoch NumR a (snd (back NumR r)))).
Proof. cbn [back]. destruct (back NumR r); reflexivity. Qed.

Lemma log_prob_unfold survival r eps tips ints es e0 s0 es' :
  combine eps (fst (back NumR eps)) = es -> es = (e0, s0) :: es' ->
  log_prob NumR survival r eps tips ints =
  surv_term NumR survival e0 s0
  + births_sum NumR (times_of eps) (length eps) es
      (map (fun h => (lastq (times_of eps) 0 - h)%Q) ints)
  + tips_sum NumR (existsb Qpos_bool tips) (times_of eps) (length eps) eps es r
      (map (fun h => (lastq (times_of eps) 0 - h)%Q) tips)
  + boundary_terms NumR (map (fun h => (lastq (times_of eps) 0 - h)%Q) ints)
      (map (fun h => (lastq (times_of eps) 0 - h)%Q) tips) e0 es'
  + rho_terms NumR (map (fun h => (lastq (times_of eps) 0 - h)%Q) tips) eps
  + removal_part NumR r (map (fun h => (lastq (times_of eps) 0 - h)%Q) tips) e0 es' (length tips).
Proof. intros H1 H2. unfold log_prob. rewrite H1. clear H1. subst es. reflexivity. Qed.

Section Refine.
Variables (l u p : R) (rho t0 c t2 : Q) (post : list (epoch R)).
Hypotheses (Hl : 0 < l) (Hu : 0 < u) (Hp : 0 < p) (Hr : 0 <= Q2R rho <= 1).
Hypotheses (Hc0 : Q2R t0 < Q2R c) (Hc2 : Q2R c < Q2R t2).
Let e  := mkEp l u p rho t0 t2.
Let e1 := mkEp l u p 0%Q t0 c.
Let e2 := mkEp l u p rho c t2.
Hypotheses (Hwfpost : Forall wf_ep post) (Hchpost : chain (e :: post)).
Let pn := snd (back NumR post).
Let lr := fst (back NumR post).
Let s  := solve_epoch NumR e pn.
Let s2 := solve_epoch NumR e2 pn.
Let s1 := solve_epoch NumR e1 (sp s2).
Let A := sA s.
Let B := sB s.
Let B1 := sB s1.
Let delta := Q2R t2 - Q2R c.
Let K := ln (Qf A B delta).
Let Rr := combine post lr.

Lemma rwf1 : wf_ep e1.
Proof. unfold wf_ep, e1; cbn [elam emu epsi erho et0 et1]. rewrite Q2R_0. repeat split; auto; lra. Qed.
Lemma rwf2 : wf_ep e2.
Proof. unfold wf_ep, e2; cbn [elam emu epsi erho et0 et1]. repeat split; auto; lra. Qed.
Lemma rwf0 : wf_ep e.
Proof. unfold wf_ep, e; cbn [elam emu epsi erho et0 et1]. repeat split; auto; lra. Qed.
Lemma pn01 : 0 <= pn <= 1.
Proof. apply back_range, Hwfpost. Qed.

Lemma rHref : refines l u p c t2 s1 s2 s.
Proof. exact (split_solve l u p rho t0 c t2 pn rwf1 rwf2 pn01). Qed.

Lemma rsA1 : sA s1 = A. Proof. apply rHref. Qed.
Lemma rsA2 : sA s2 = A. Proof. apply rHref. Qed.
Lemma rsB2 : sB s2 = B. Proof. apply rHref. Qed.
Lemma rsp1 : sp s1 = sp s. Proof. apply rHref. Qed.

Lemma rsp2_range : 0 <= sp s2 <= 1.
Proof.
  unfold s2. rewrite solve_epoch_R. cbn [sp].
  apply (epoch_facts e2 pn (dur e2) rwf2 pn01 (dur_nonneg e2 rwf2)).
Qed.

Lemma rQ_pos tau : 0 <= tau -> 0 < Qf A B tau.
Proof.
  intros Ht. unfold A, B, s. rewrite solve_epoch_R. cbn [sA sB].
  apply (epoch_facts e pn tau rwf0 pn01 Ht).
Qed.
Lemma rQ1_pos tau : 0 <= tau -> 0 < Qf A B1 tau.
Proof.
  intros Ht. rewrite <- rsA1. unfold B1, s1. rewrite solve_epoch_R. cbn [sA sB].
  apply (epoch_facts e1 (sp s2) tau rwf1 rsp2_range Ht).
Qed.

Lemma rlnq_split tau : 0 <= tau -> ln (Qf A B (tau + delta)) = ln (Qf A B1 tau) + K.
Proof.
  intros Ht. destruct rHref as (_ & E1 & _ & _ & Hf). destruct (Hf tau Ht) as (_ & Hq).
  fold A B in Hq. rewrite E1 in Hq. fold A B1 delta in Hq.
  rewrite <- Hq. unfold K. apply ln_mult. apply rQ1_pos; auto. apply rQ_pos. unfold delta; lra.
Qed.

Lemma rPf_split tau : 0 <= tau -> Pf l u p A B1 tau = Pf l u p A B (tau + delta).
Proof.
  intros Ht. destruct rHref as (_ & E1 & _ & _ & Hf). destruct (Hf tau Ht) as (Hq & _).
  fold A B in Hq. rewrite E1 in Hq. fold A B1 delta in Hq. exact Hq.
Qed.

(* the solved epochs of the cut and of the uncut skyline *)
Lemma back_cut pre :
  Forall wf_ep pre ->
  exists lpre, length lpre = length pre /\
    fst (back NumR (pre ++ e1 :: e2 :: post)) = lpre ++ s1 :: s2 :: lr /\
    fst (back NumR (pre ++ e :: post)) = lpre ++ s :: lr /\
    snd (back NumR (pre ++ e1 :: e2 :: post)) = snd (back NumR (pre ++ e :: post)).
Proof.
  induction pre as [|a pre IH]; intros Hwf.
  - exists []. cbn [app length]. rewrite !back_cons. cbn [fst snd]. fold pn lr. fold s2. fold s1. fold s.
    repeat split. exact rsp1.
  - inversion Hwf as [|? ? _ Hwf']; subst. destruct (IH Hwf') as (lpre & Hlen & E1 & E2 & E3).
    cbn [app]. rewrite !back_cons. cbn [fst snd]. rewrite E1, E2, E3.
    exists (solve_epoch NumR a (snd (back NumR (pre ++ e :: post))) :: lpre).
    cbn [length app]. repeat split. congruence.
Qed.

(* ---- the time grids ---- *)
Definition TL (pre : list (epoch R)) : list Q := et0 (hd e pre) :: map (fun a => et1 a) pre.
Definition TR : list Q := t2 :: map (fun a => et1 a) post.

Lemma times_uncut pre : times_of (pre ++ e :: post) = TL pre ++ TR.
Proof.
  destruct pre as [|a pre]; cbn [app times_of TL hd map]; [reflexivity|].
  rewrite map_app. reflexivity.
Qed.
Lemma times_cut pre : times_of (pre ++ e1 :: e2 :: post) = TL pre ++ c :: TR.
Proof.
  destruct pre as [|a pre]; cbn [app times_of TL hd map]; [reflexivity|].
  rewrite map_app. reflexivity.
Qed.

Lemma len_TL pre : length (TL pre) = S (length pre).
Proof. unfold TL. cbn [length]. rewrite map_length. reflexivity. Qed.
Lemma len_TR : length TR = S (length post).
Proof. unfold TR. cbn [length]. rewrite map_length. reflexivity. Qed.
Lemma len_uncut pre : length (pre ++ e :: post) = (length pre + S (length post))%nat.
Proof. rewrite app_length. reflexivity. Qed.
Lemma len_cut pre : length (pre ++ e1 :: e2 :: post) = S (length pre + S (length post)).
Proof. rewrite app_length. cbn [length]. lia. Qed.

Lemma TR_ge t : In t TR -> Q2R t2 <= Q2R t.
Proof.
  intros [<-|Ht]; [lra|]. apply in_map_iff in Ht. destruct Ht as (b & <- & Hb).
  apply (chain_post_ge post e (Forall_cons _ rwf0 Hwfpost) Hchpost b Hb).
Qed.

Definition Tq : Q := lastq (map (fun a => et1 a) post) t2.
Lemma Tq_uncut pre : lastq (times_of (pre ++ e :: post)) 0%Q = Tq.
Proof. rewrite times_uncut. unfold TR. apply lastq_app. Qed.
Lemma Tq_cut pre : lastq (times_of (pre ++ e1 :: e2 :: post)) 0%Q = Tq.
Proof. rewrite times_cut. unfold TR. rewrite lastq_app. reflexivity. Qed.
Lemma Tq_ge : Q2R t2 <= Q2R Tq.
Proof. apply TR_ge. apply lastq_in. Qed.

(* what is needed of the epochs before the cut one *)
Definition pre_ok (pre : list (epoch R)) : Prop :=
  (forall t, In t (TL pre) -> Q2R t <= Q2R t0) /\
  (pre <> [] -> exists t, In t (TL pre) /\ Q2R t = Q2R t0).

Lemma chain_pre_le pre :
  Forall wf_ep pre -> chain (pre ++ e :: post) ->
  forall a, In a pre -> Q2R (et0 a) <= Q2R t0 /\ Q2R (et1 a) <= Q2R t0.
Proof.
  induction pre as [|a pre IH]; intros Hwf Hch a' Ha; [destruct Ha|].
  inversion Hwf as [|? ? (_ & _ & _ & _ & Hta) Hwf']; subst.
  cbn [app] in Hch. destruct Hch as [Hj Hch].
  assert (H1 : Q2R (et1 a) <= Q2R t0).
  { destruct pre as [|b pre']; cbn [app] in Hj.
    - cbn [et0 e] in Hj. lra.
    - destruct (IH Hwf' Hch b (or_introl eq_refl)). lra. }
  destruct Ha as [<-|Ha]; [lra|]. apply (IH Hwf' Hch a' Ha).
Qed.

Lemma chain_pre_last pre :
  pre <> [] -> chain (pre ++ e :: post) -> exists a, In a pre /\ Q2R (et1 a) = Q2R t0.
Proof.
  induction pre as [|a pre IH]; intros Hne Hch; [congruence|].
  cbn [app] in Hch. destruct Hch as [Hj Hch]. destruct pre as [|b pre'].
  - exists a. split; [left; reflexivity|]. exact Hj.
  - destruct (IH ltac:(discriminate) Hch) as (a' & Ha' & E). exists a'. split; [right; exact Ha' | exact E].
Qed.

Lemma pre_ok_of pre : Forall wf_ep pre -> chain (pre ++ e :: post) -> pre_ok pre.
Proof.
  intros Hwf Hch. split.
  - intros t [<-|Ht].
    + destruct pre as [|a pre']; cbn [hd]; [cbn [et0 e]; lra|]. apply (chain_pre_le _ Hwf Hch a (or_introl eq_refl)).
    + apply in_map_iff in Ht. destruct Ht as (a & <- & Ha). apply (chain_pre_le _ Hwf Hch a Ha).
  - intros Hne. destruct (chain_pre_last pre Hne Hch) as (a & Ha & E). exists (et1 a). split; [|exact E].
    right. apply in_map_iff. exists a. split; [reflexivity | exact Ha].
Qed.

Definition mono (f : Q -> bool) : Prop := forall a b, Q2R a <= Q2R b -> f b = true -> f a = true.
Definition inpre (pre : list (epoch R)) (b : bool) : bool := match pre with [] => true | _ => b end.

(* the searchsorted index shift *)
Lemma idx_split f pre m i i' :
  mono f -> pre_ok pre -> m = (length pre + S (length post))%nat ->
  i = clampi (nsub (count_if f (TL pre ++ TR)) 1) m ->
  i' = clampi (nsub (count_if f (TL pre ++ c :: TR)) 1) (S m) ->
  (f c = false /\ i' = i /\ (i <= length pre)%nat /\ Nat.eqb i (length pre) = inpre pre (f t0))
  \/ (f c = true /\ i' = S i /\ (length pre <= i)%nat).
Proof.
  intros Hm (Hle & Hlast) Hmm Hi Hi'. rewrite !count_if_app in *. cbn [count_if] in Hi'.
  pose proof (len_TL pre) as HlenTL. pose proof len_TR as HlenTR.
  pose proof (count_if_le f (TL pre)) as Ha. pose proof (count_if_le f TR) as Hb.
  destruct (f c) eqn:Hfc; [right|left].
  - assert (Hall : count_if f (TL pre) = S (length pre)).
    { rewrite <- HlenTL. apply count_if_all. intros t Ht. apply (Hm t c); [specialize (Hle t Ht); lra | exact Hfc]. }
    split; [reflexivity|]. subst i i' m. unfold clampi. rewrite !nsub_sub.
    do 2 (match goal with |- context [Nat.ltb ?a ?b] => destruct (Nat.ltb_spec a b) end); lia.
  - assert (Hnone : count_if f TR = O).
    { apply count_if_none. intros t Ht. destruct (f t) eqn:E; auto.
      rewrite (Hm c t) in Hfc; [discriminate | | exact E]. pose proof (TR_ge t Ht). lra. }
    split; [reflexivity|].
    assert (Hchar : (nsub (count_if f (TL pre)) 1 = length pre /\ inpre pre (f t0) = true) \/
                    ((nsub (count_if f (TL pre)) 1 < length pre)%nat /\ inpre pre (f t0) = false)).
    { rewrite nsub_sub. destruct pre as [|a0 pre'].
      - left. cbn [length inpre] in *. split; [lia | reflexivity].
      - cbn [inpre]. destruct (f t0) eqn:Eft0.
        + left. split; [|reflexivity].
          assert (Hall : count_if f (TL (a0 :: pre')) = length (TL (a0 :: pre'))).
          { apply count_if_all. intros t Ht. apply (Hm t t0); [exact (Hle t Ht) | exact Eft0]. }
          rewrite Hall, HlenTL. lia.
        + right. split; [|reflexivity].
          destruct (Hlast ltac:(discriminate)) as (t & Ht & Et).
          assert (Hft : f t = false).
          { destruct (f t) eqn:E; auto. rewrite (Hm t0 t) in Eft0; [discriminate | lra | exact E]. }
          pose proof (count_if_lt f _ t Ht Hft) as Hlt. rewrite HlenTL in Hlt. cbn [length] in *. lia. }
    subst i i' m. rewrite Hnone, Nat.add_0_r. cbn [Nat.add].
    rewrite nsub_sub in Hchar. unfold clampi. rewrite !nsub_sub.
    do 2 (match goal with |- context [Nat.ltb ?a ?b] => destruct (Nat.ltb_spec a b) end);
      destruct Hchar as [[H1 H2]|[H1 H2]]; rewrite H2;
      (split; [lia|]); (split; [lia|]); try (apply Nat.eqb_eq; lia); try (apply Nat.eqb_neq; lia).
Qed.

(* ---- internal nodes ---- *)
Lemma birth_split pre P x m :
  pre_ok pre -> length P = length pre -> m = (length pre + S (length post))%nat ->
  birth_term NumR (TL pre ++ TR) m (P ++ (e, s) :: Rr) x =
  birth_term NumR (TL pre ++ c :: TR) (S m) (P ++ (e1, s1) :: (e2, s2) :: Rr) x
  + (if Qlt_bool x c && inpre pre (Qle_bool t0 x) then K else 0).
Proof.
  intros Hok HP Hm. unfold birth_term, idx_right.
  destruct (idx_split (fun t => Qle_bool t x) pre m _ _ (mono_le x) Hok Hm eq_refl eq_refl)
    as [(Hfc & Hi' & Hik & Hch) | (Hfc & Hi' & Hki)]; cbv beta in Hfc; rewrite Hi';
    set (i := clampi (nsub (count_if (fun t => Qle_bool t x) (TL pre ++ TR)) 1) m) in *;
    unfold Qlt_bool; rewrite Hfc; cbn [negb andb].
  - rewrite <- Hch. destruct (Nat.eqb_spec i (length pre)) as [Eik|Nik].
    + rewrite Eik, <- HP, !lk_app_len. rewrite !log_q_R. cbn [elam e e1 et1 add nln NumR].
      apply Qle_bool_false in Hfc. rewrite rsA1. fold A B B1.
      replace (Q2R t2 - Q2R x) with ((Q2R c - Q2R x) + delta) by (unfold delta; ring).
      rewrite rlnq_split by lra. lra.
    + rewrite !lk_app_lt by lia. rewrite Rplus_0_r. reflexivity.
  - rewrite Rplus_0_r. destruct (Nat.eqb_spec i (length pre)) as [Eik|Nik].
    + rewrite Eik, <- HP, lk_app_len, lk_app_len_S. rewrite !log_q_R. cbn [elam e e2 et1 add nln NumR].
      rewrite rsA2, rsB2. reflexivity.
    + replace i with (length P + S (i - S (length pre)))%nat by lia.
      replace (S (length P + S (i - S (length pre))))%nat with (length P + S (S (i - S (length pre))))%nat by lia.
      rewrite !lk_app_plus. reflexivity.
Qed.

Lemma births_sum_split pre P xs m :
  pre_ok pre -> length P = length pre -> m = (length pre + S (length post))%nat ->
  births_sum NumR (TL pre ++ TR) m (P ++ (e, s) :: Rr) xs =
  births_sum NumR (TL pre ++ c :: TR) (S m) (P ++ (e1, s1) :: (e2, s2) :: Rr) xs
  + INR (count_if (fun x => Qlt_bool x c && inpre pre (Qle_bool t0 x)) xs) * K.
Proof.
  intros Hok HP Hm. unfold births_sum. apply nsum_shift. intros x. apply birth_split; assumption.
Qed.

(* ---- tips ---- *)
Lemma rho_tip_split pre y : is_rho_tip (pre ++ e1 :: e2 :: post) y = is_rho_tip (pre ++ e :: post) y.
Proof.
  unfold is_rho_tip. rewrite !existsb_app. cbn [existsb et1 erho e e1 e2].
  rewrite Qpos_bool_0, andb_false_r. reflexivity.
Qed.

Lemma rho_tip_out pre y :
  pre_ok pre -> is_rho_tip (pre ++ e :: post) y = true ->
  Qle_bool y c && inpre pre (Qlt_bool t0 y) = false.
Proof.
  intros (Hle & _) H. unfold is_rho_tip in H. apply existsb_exists in H.
  destruct H as (a & Ha & H). apply andb_prop in H. destruct H as [H _].
  apply Qeq_bool_eq, Qeq_eqR in H. apply in_app_or in Ha. destruct Ha as [Ha|Ha].
  - destruct pre as [|a0 pre']; [destruct Ha|]. cbn [inpre].
    assert (Q2R (et1 a) <= Q2R t0).
    { apply Hle. right. apply in_map_iff. exists a. split; [reflexivity | exact Ha]. }
    unfold Qlt_bool. rewrite (Qle_bool_of_R y t0) by lra. apply andb_false_r.
  - assert (Q2R t2 <= Q2R (et1 a)).
    { apply TR_ge. destruct Ha as [<-|Ha]; [left; reflexivity|]. right. apply in_map_iff. exists a. split; [reflexivity | exact Ha]. }
    rewrite (Qle_bool_of_R_false y c) by lra. reflexivity.
Qed.

Lemma tip_split pre P r y m :
  pre_ok pre -> length P = length pre -> m = (length pre + S (length post))%nat ->
  tip_term NumR (TL pre ++ TR) m (pre ++ e :: post) (P ++ (e, s) :: Rr) r y =
  tip_term NumR (TL pre ++ c :: TR) (S m) (pre ++ e1 :: e2 :: post) (P ++ (e1, s1) :: (e2, s2) :: Rr)
           (option_map (dup_at (length pre)) r) y
  - (if Qle_bool y c && inpre pre (Qlt_bool t0 y) then K else 0).
Proof.
  intros Hok HP Hm. unfold tip_term. rewrite rho_tip_split.
  destruct (is_rho_tip (pre ++ e :: post) y) eqn:Er.
  - rewrite (rho_tip_out pre y Hok Er). cbn [zero NumR]. lra.
  - cbv zeta. unfold idx_left.
    destruct (idx_split (fun t => Qlt_bool t y) pre m _ _ (mono_lt y) Hok Hm eq_refl eq_refl)
      as [(Hfc & Hi' & Hik & Hch) | (Hfc & Hi' & Hki)]; cbv beta in Hfc; rewrite Hi';
      set (i := clampi (nsub (count_if (fun t => Qlt_bool t y) (TL pre ++ TR)) 1) m) in *;
      unfold Qlt_bool in Hfc.
    + apply negb_false_iff in Hfc. rewrite Hfc. cbn [andb]. rewrite <- Hch.
      apply Qle_bool_true in Hfc.
      destruct (Nat.eqb_spec i (length pre)) as [Eik|Nik].
      * rewrite Eik, <- HP, !lk_app_len. rewrite HP.
        assert (Hq : log_q NumR e s y = log_q NumR e1 s1 y + K).
        { rewrite !log_q_R. cbn [et1 e e1]. rewrite rsA1. fold A B B1.
          replace (Q2R t2 - Q2R y) with ((Q2R c - Q2R y) + delta) by (unfold delta; ring).
          apply rlnq_split. lra. }
        assert (Hpp : p_at NumR e s y = p_at NumR e1 s1 y).
        { rewrite !p_at_R. cbn [et1 elam emu epsi e e1]. rewrite rsA1. fold A B B1.
          replace (Q2R t2 - Q2R y) with ((Q2R c - Q2R y) + delta) by (unfold delta; ring).
          symmetry. apply rPf_split. lra. }
        destruct r as [rl|]; cbn [option_map].
        -- rewrite lk_dup_le by lia. rewrite Hq, Hpp. cbn [epsi e e1 sub NumR]. lra.
        -- rewrite Hq. cbn [epsi e e1 sub NumR]. lra.
      * rewrite !lk_app_lt by lia. rewrite Rminus_0_r.
        destruct r as [rl|]; cbn [option_map]; [rewrite lk_dup_le by lia|]; reflexivity.
    + apply negb_true_iff in Hfc. rewrite Hfc. cbn [andb]. rewrite Rminus_0_r.
      destruct (Nat.eqb_spec i (length pre)) as [Eik|Nik].
      * rewrite Eik, <- HP, lk_app_len, lk_app_len_S. rewrite HP.
        assert (Hq : log_q NumR e s y = log_q NumR e2 s2 y).
        { rewrite !log_q_R. cbn [et1 e e2]. rewrite rsA2, rsB2. reflexivity. }
        assert (Hpp : p_at NumR e s y = p_at NumR e2 s2 y).
        { rewrite !p_at_R. cbn [et1 elam emu epsi e e2]. rewrite rsA2, rsB2. reflexivity. }
        destruct r as [rl|]; cbn [option_map].
        -- rewrite lk_dup_ge by lia. rewrite Hq, Hpp. reflexivity.
        -- rewrite Hq. reflexivity.
      * assert (Hj : exists j, i = (length P + S j)%nat) by (exists (i - S (length pre))%nat; lia).
        destruct Hj as (j & Hj). clearbody i. subst i.
        destruct r as [rl|]; cbn [option_map]; [rewrite lk_dup_ge by lia|];
          replace (S (length P + S j)) with (length P + S (S j))%nat by lia;
          rewrite !lk_app_plus; reflexivity.
Qed.

(* without serially sampled tips every tip sits at the present, after the cut *)
Lemma no_serial_after tips y :
  existsb Qpos_bool tips = false -> In y (map (fun h => (Tq - h)%Q) tips) -> Qle_bool y c = false.
Proof.
  intros Hs Hy. apply in_map_iff in Hy. destruct Hy as (h & <- & Hh).
  assert (Hh0 : Qpos_bool h = false).
  { destruct (Qpos_bool h) eqn:E; auto. rewrite <- Hs. symmetry. apply existsb_exists. exists h. split; assumption. }
  unfold Qpos_bool, Qlt_bool in Hh0. apply negb_false_iff in Hh0. apply Qle_bool_true in Hh0.
  rewrite Q2R_0 in Hh0. apply Qle_bool_of_R_false. rewrite Q2R_minus. pose proof Tq_ge. lra.
Qed.

Lemma tips_sum_split pre P r tips m :
  pre_ok pre -> length P = length pre -> m = (length pre + S (length post))%nat ->
  tips_sum NumR (existsb Qpos_bool tips) (TL pre ++ TR) m (pre ++ e :: post) (P ++ (e, s) :: Rr) r
           (map (fun h => (Tq - h)%Q) tips) =
  tips_sum NumR (existsb Qpos_bool tips) (TL pre ++ c :: TR) (S m) (pre ++ e1 :: e2 :: post)
           (P ++ (e1, s1) :: (e2, s2) :: Rr) (option_map (dup_at (length pre)) r)
           (map (fun h => (Tq - h)%Q) tips)
  - INR (count_if (fun y => Qle_bool y c && inpre pre (Qlt_bool t0 y)) (map (fun h => (Tq - h)%Q) tips)) * K.
Proof.
  intros Hok HP Hm. unfold tips_sum. destruct (existsb Qpos_bool tips) eqn:Es.
  - rewrite (nsum_shift _ (tip_term NumR (TL pre ++ c :: TR) (S m) (pre ++ e1 :: e2 :: post)
                             (P ++ (e1, s1) :: (e2, s2) :: Rr) (option_map (dup_at (length pre)) r))
                        (fun y => Qle_bool y c && inpre pre (Qlt_bool t0 y)) (- K)).
    + ring.
    + intros y. rewrite (tip_split pre P r y m Hok HP Hm).
      destruct (Qle_bool y c && inpre pre (Qlt_bool t0 y)); lra.
  - rewrite count_if_none.
    + cbn [INR zero NumR]. lra.
    + intros y Hy. rewrite (no_serial_after tips y Es Hy). reflexivity.
Qed.

(* ---- lineage counts ---- *)
Lemma count_x_nil xs :
  INR (count_if (fun x => Qlt_bool x c && inpre [] (Qle_bool t0 x)) xs) = INR (count_if (fun x => Qlt_bool x c) xs).
Proof. f_equal. apply count_if_ext. intros x. apply andb_true_r. Qed.

Lemma count_y_nil ys :
  INR (count_if (fun y => Qle_bool y c && inpre [] (Qlt_bool t0 y)) ys) = INR (count_if (fun y => Qle_bool y c) ys).
Proof. f_equal. apply count_if_ext. intros x. apply andb_true_r. Qed.

Lemma count_x_cons a pre' xs :
  INR (count_if (fun x => Qlt_bool x c && inpre (a :: pre') (Qle_bool t0 x)) xs)
  = INR (count_if (fun x => Qlt_bool x c) xs) - INR (count_if (fun x => Qlt_bool x t0) xs).
Proof.
  cbn [inpre].
  assert (H : count_if (fun x => Qlt_bool x c) xs
              = (count_if (fun x => Qlt_bool x c && Qle_bool t0 x) xs + count_if (fun x => Qlt_bool x t0) xs)%nat).
  { unfold Qlt_bool. induction xs as [|x xs IH]; cbn [count_if]; [reflexivity|].
    destruct (Qle_bool t0 x) eqn:E1; destruct (Qle_bool c x) eqn:E2; cbn [negb andb]; try lia.
    exfalso. apply Qle_bool_false in E1. apply Qle_bool_true in E2. lra. }
  rewrite H, plus_INR. lra.
Qed.

Lemma count_y_cons a pre' ys :
  INR (count_if (fun y => Qle_bool y c && inpre (a :: pre') (Qlt_bool t0 y)) ys)
  = INR (count_if (fun y => Qle_bool y c) ys) - INR (count_if (fun y => Qle_bool y t0) ys).
Proof.
  cbn [inpre].
  assert (H : count_if (fun y => Qle_bool y c) ys
              = (count_if (fun y => Qle_bool y c && Qlt_bool t0 y) ys + count_if (fun y => Qle_bool y t0) ys)%nat).
  { unfold Qlt_bool. induction ys as [|y ys IH]; cbn [count_if]; [reflexivity|].
    destruct (Qle_bool y t0) eqn:E1; destruct (Qle_bool y c) eqn:E2; cbn [negb andb]; try lia.
    exfalso. apply Qle_bool_true in E1. apply Qle_bool_false in E2. lra. }
  rewrite H, plus_INR. lra.
Qed.

(* ---- boundary terms ---- *)
Definition nb (xs ys : list Q) (t : Q) : R :=
  INR (count_if (fun x => Qlt_bool x t) xs) + 1 - INR (count_if (fun y => Qle_bool y t) ys).

Lemma ofZ_nb xs ys t :
  ofZ NumR (Z.of_nat (count_if (fun x => Qlt_bool x t) xs) + 1 - Z.of_nat (count_if (fun y => Qle_bool y t) ys))
  = nb xs ys t.
Proof. rewrite ofZ_R, minus_IZR, plus_IZR, <- !INR_IZR_INZ. reflexivity. Qed.

Lemma bt_prev xs ys L : boundary_terms NumR xs ys e2 L = boundary_terms NumR xs ys e L.
Proof. destruct L as [|[a sa] L]; reflexivity. Qed.

Lemma lq_cut : log_q NumR e2 s2 c = K.
Proof. rewrite log_q_R. cbn [et1 e2]. rewrite rsA2, rsB2. reflexivity. Qed.

Lemma lq_t0 : log_q NumR e s t0 = log_q NumR e1 s1 t0 + K.
Proof.
  rewrite !log_q_R. cbn [et1 e e1]. rewrite rsA1. fold A B B1.
  replace (Q2R t2 - Q2R t0) with ((Q2R c - Q2R t0) + delta) by (unfold delta; ring).
  apply rlnq_split. lra.
Qed.

Lemma ln_1m0 : nln NumR (sub NumR (c1 NumR) (ofQ NumR (erho e1))) = 0.
Proof. unfold c1. cbn [erho e1 sub one ofQ nln NumR]. rewrite Q2R_0, Rminus_0_r. apply ln_1. Qed.

Lemma bt_split xs ys L prev :
  boundary_terms NumR xs ys prev (L ++ (e, s) :: Rr) =
  boundary_terms NumR xs ys prev (L ++ (e1, s1) :: (e2, s2) :: Rr) + (nb xs ys t0 - nb xs ys c) * K.
Proof.
  revert prev. induction L as [|[a sa] L IH]; intros prev; cbn [app boundary_terms].
  - change (et0 e2) with c. change (et0 e1) with t0. change (et0 e) with t0.
    rewrite ln_1m0, lq_cut, lq_t0, bt_prev. rewrite !ofZ_nb. cbn [add mul NumR]. ring.
  - rewrite IH. cbn [add NumR]. ring.
Qed.

Lemma bt_nil xs ys :
  boundary_terms NumR xs ys e Rr = boundary_terms NumR xs ys e1 ((e2, s2) :: Rr) - nb xs ys c * K.
Proof.
  cbn [boundary_terms]. change (et0 e2) with c.
  rewrite ln_1m0, lq_cut, bt_prev. rewrite ofZ_nb. cbn [add mul NumR]. ring.
Qed.

(* ---- rho and removal terms ---- *)
Lemma rho_terms_split ys pre :
  rho_terms NumR ys (pre ++ e1 :: e2 :: post) = rho_terms NumR ys (pre ++ e :: post).
Proof.
  induction pre as [|a pre IH]; cbn [app rho_terms].
  - cbn [erho et1 e e1 e2]. rewrite Qpos_bool_0, andb_false_r. cbn [add zero NumR]. lra.
  - rewrite IH. reflexivity.
Qed.

Lemma rem_prev ys L rl : removal_terms NumR ys e2 L rl = removal_terms NumR ys e L rl.
Proof. destruct L as [|[a sa] L], rl; reflexivity. Qed.

Lemma rem_split ys L prev rl :
  removal_terms NumR ys prev (L ++ (e1, s1) :: (e2, s2) :: Rr) (dup_at (length L) rl)
  = removal_terms NumR ys prev (L ++ (e, s) :: Rr) rl.
Proof.
  revert prev rl. induction L as [|[a sa] L IH]; intros prev [|ri rl];
    cbn [app length dup_at removal_terms]; try reflexivity.
  - cbn [erho e1]. rewrite Qpos_bool_0, andb_false_r, rsp1, rem_prev. cbn [add zero NumR]. lra.
  - rewrite IH. reflexivity.
Qed.

Lemma removal_cons r ys a P' n :
  removal_part NumR (option_map (dup_at (S (length P'))) r) ys a (P' ++ (e1, s1) :: (e2, s2) :: Rr) n
  = removal_part NumR r ys a (P' ++ (e, s) :: Rr) n.
Proof.
  destruct r as [[|r0 rl]|]; cbn [option_map dup_at removal_part]; try reflexivity.
  rewrite rem_split. reflexivity.
Qed.

Lemma removal_nil r ys n :
  removal_part NumR (option_map (dup_at O) r) ys e1 ((e2, s2) :: Rr) n = removal_part NumR r ys e Rr n.
Proof.
  destruct r as [[|r0 rl]|]; cbn [option_map dup_at removal_part]; try reflexivity.
  cbn [removal_terms erho e1]. rewrite Qpos_bool_0, andb_false_r, rem_prev. cbn [add zero NumR].
  rewrite Rplus_0_l. reflexivity.
Qed.

(* ---- assembling the density ---- *)
Lemma first_split : 0 <= Q2R c -> first_term NumR e s = first_term NumR e1 s1 + K.
Proof.
  intros Hc. unfold first_term. cbn [et1 e e1 sub zero mul nexp nln ofQ NumR]. rewrite !qform_R, rsA1. fold A B B1.
  rewrite !Rminus_0_r. replace (Q2R t2) with (Q2R c + delta) by (unfold delta; ring).
  apply rlnq_split. exact Hc.
Qed.

Lemma refine_nil survival r tips ints :
  0 <= Q2R c ->
  log_prob NumR survival (option_map (dup_at O) r) ([] ++ e1 :: e2 :: post) tips ints
  = log_prob NumR survival r ([] ++ e :: post) tips ints.
Proof.
  intros Hc.
  assert (Hok : pre_ok []).
  { split; [|congruence]. intros t [<-|[]]. cbn [hd et0 e]. lra. }
  destruct (back_cut [] (Forall_nil _)) as (lpre & Hlen & Hb' & Hb & _).
  destruct lpre as [|? ?]; [|discriminate Hlen]. cbn [app] in Hb, Hb'.
  rewrite (log_prob_unfold survival r ([] ++ e :: post) tips ints ([] ++ (e, s) :: Rr) e s Rr);
    [| cbn [app]; rewrite Hb; reflexivity | reflexivity].
  rewrite (log_prob_unfold survival (option_map (dup_at O) r) ([] ++ e1 :: e2 :: post) tips ints
             ([] ++ (e1, s1) :: (e2, s2) :: Rr) e1 s1 ((e2, s2) :: Rr));
    [| cbn [app]; rewrite Hb'; reflexivity | reflexivity].
  rewrite !Tq_uncut, !Tq_cut, times_uncut, times_cut, len_uncut, len_cut.
  set (xs := map (fun h => (Tq - h)%Q) ints). set (ys := map (fun h => (Tq - h)%Q) tips).
  rewrite (births_sum_split [] [] xs _ Hok eq_refl eq_refl).
  unfold ys. rewrite (tips_sum_split [] [] r tips _ Hok eq_refl eq_refl). fold ys.
  rewrite bt_nil, (rho_terms_split ys []), removal_nil.
  rewrite count_x_nil, count_y_nil.
  assert (Hsurv : surv_term NumR survival e s = surv_term NumR survival e1 s1 + K).
  { unfold surv_term. rewrite (first_split Hc), rsp1. destruct survival; cbn [sub NumR]; lra. }
  rewrite Hsurv. unfold nb. cbn [length]. ring.
Qed.

Lemma refine_cons a pre' survival r tips ints :
  Forall wf_ep (a :: pre') -> chain ((a :: pre') ++ e :: post) ->
  log_prob NumR survival (option_map (dup_at (length (a :: pre'))) r) ((a :: pre') ++ e1 :: e2 :: post) tips ints
  = log_prob NumR survival r ((a :: pre') ++ e :: post) tips ints.
Proof.
  intros Hwf Hch.
  pose proof (pre_ok_of (a :: pre') Hwf Hch) as Hok.
  destruct (back_cut (a :: pre') Hwf) as (lpre & Hlen & Hb' & Hb & _).
  destruct lpre as [|sa lpre']; [discriminate Hlen|].
  assert (HlenP' : length (combine pre' lpre') = length pre').
  { rewrite combine_length. cbn [length] in Hlen. lia. }
  assert (HlenP : length ((a, sa) :: combine pre' lpre') = length (a :: pre')).
  { cbn [length]. rewrite HlenP'. reflexivity. }
  set (P' := combine pre' lpre') in *.
  rewrite (log_prob_unfold survival r ((a :: pre') ++ e :: post) tips ints
             (((a, sa) :: P') ++ (e, s) :: Rr) a sa (P' ++ (e, s) :: Rr));
    [| rewrite Hb; unfold P', Rr; rewrite combine_app by (symmetry; exact Hlen); reflexivity | reflexivity].
  rewrite (log_prob_unfold survival (option_map (dup_at (length (a :: pre'))) r)
             ((a :: pre') ++ e1 :: e2 :: post) tips ints
             (((a, sa) :: P') ++ (e1, s1) :: (e2, s2) :: Rr) a sa (P' ++ (e1, s1) :: (e2, s2) :: Rr));
    [| rewrite Hb'; unfold P', Rr; rewrite combine_app by (symmetry; exact Hlen); reflexivity | reflexivity].
  rewrite !Tq_uncut, !Tq_cut, times_uncut, times_cut, len_uncut, len_cut.
  set (xs := map (fun h => (Tq - h)%Q) ints). set (ys := map (fun h => (Tq - h)%Q) tips).
  rewrite (births_sum_split (a :: pre') ((a, sa) :: P') xs _ Hok HlenP eq_refl).
  unfold ys. rewrite (tips_sum_split (a :: pre') ((a, sa) :: P') r tips _ Hok HlenP eq_refl). fold ys.
  rewrite (bt_split xs ys P' a), (rho_terms_split ys (a :: pre')).
  cbn [length]. rewrite <- HlenP', removal_cons.
  rewrite count_x_cons, count_y_cons.
  unfold nb. ring.
Qed.

End Refine.

(* ---- the statements ---- *)
(* the two parts of epoch e cut at time c: e's rates, rho = 0 at the new boundary c, e's rho stays
   at e's end (the convention of C09_refine2) *)
Definition lower_part (e : epoch R) (c : Q) : epoch R :=
  mkEp (elam e) (emu e) (epsi e) 0%Q (et0 e) c.
Definition upper_part (e : epoch R) (c : Q) : epoch R :=
  mkEp (elam e) (emu e) (epsi e) (erho e) c (et1 e).

(* Refinement invariance of the whole density, any number of epochs before and after the cut one,
   every tree (no hypothesis on tip / node heights: also tips or nodes exactly on the cut), with
   and without survival conditioning, with and without removal probabilities (r' = r with the
   entry of the cut epoch duplicated).  [0 <= c] only matters when the FIRST epoch is cut: the
   first term q_0(0) of the code measures time from the literal origin 0. *)
Theorem refinement_invariance : forall survival r pre e post c tips ints,
  Forall wf_ep (pre ++ e :: post) -> chain (pre ++ e :: post) ->
  Q2R (et0 e) < Q2R c < Q2R (et1 e) -> 0 <= Q2R c ->
  log_prob NumR survival (option_map (dup_at (length pre)) r)
           (pre ++ lower_part e c :: upper_part e c :: post) tips ints
  = log_prob NumR survival r (pre ++ e :: post) tips ints.
Proof.
  intros survival r pre [l u p rho t0 t2] post c tips ints Hwf Hch [Hc0 Hc2] Hc.
  cbn [et0 et1] in Hc0, Hc2. unfold lower_part, upper_part. cbn [elam emu epsi erho et0 et1].
  apply Forall_app in Hwf. destruct Hwf as [Hwfpre Hwf]. inversion Hwf as [|? ? He Hwfpost]; subst.
  destruct He as (Hl & Hu & Hp & Hr & _). cbn [elam emu epsi erho] in Hl, Hu, Hp, Hr.
  pose proof (chain_app_r _ _ Hch) as Hchpost.
  destruct pre as [|a pre'].
  - exact (refine_nil l u p rho t0 c t2 post Hl Hu Hp Hr Hc0 Hc2 Hwfpost Hchpost survival r tips ints Hc).
  - exact (refine_cons l u p rho t0 c t2 post Hl Hu Hp Hr Hc0 Hc2 Hwfpost Hchpost a pre' survival r tips ints Hwfpre Hch).
Qed.
Print Assumptions refinement_invariance.

(* the same with the origin condition of the code (times[0] = 0, or any origin >= 0) instead of 0 <= c *)
Lemma chain_first_le pre e post :
  Forall wf_ep (pre ++ e :: post) -> chain (pre ++ e :: post) -> Q2R (et0 (hd e pre)) <= Q2R (et0 e).
Proof.
  induction pre as [|a pre IH]; intros Hwf Hch; cbn [hd]; [lra|].
  cbn [app] in Hwf, Hch. inversion Hwf as [|? ? (_ & _ & _ & _ & Ha) Hwf']; subst. destruct Hch as [Hj Hch].
  specialize (IH Hwf' Hch). destruct pre as [|b pre']; cbn [app hd] in *; lra.
Qed.

Theorem refinement_invariance_origin : forall survival r pre e post c tips ints,
  Forall wf_ep (pre ++ e :: post) -> chain (pre ++ e :: post) ->
  0 <= Q2R (et0 (hd e pre)) ->
  Q2R (et0 e) < Q2R c < Q2R (et1 e) ->
  log_prob NumR survival (option_map (dup_at (length pre)) r)
           (pre ++ lower_part e c :: upper_part e c :: post) tips ints
  = log_prob NumR survival r (pre ++ e :: post) tips ints.
Proof.
  intros survival r pre e post c tips ints Hwf Hch H0 Hc.
  apply refinement_invariance; auto. pose proof (chain_first_le pre e post Hwf Hch). lra.
Qed.
Print Assumptions refinement_invariance_origin.

(* without removal probabilities, in the form of C09_refinement_invariance_partial *)
Theorem refinement_invariance_None : forall survival pre (l u p : R) (rho t0 c t2 : Q) post tips ints,
  Forall wf_ep (pre ++ mkEp l u p rho t0 t2 :: post) -> chain (pre ++ mkEp l u p rho t0 t2 :: post) ->
  0 <= Q2R (et0 (hd (mkEp l u p rho t0 t2) pre)) ->
  Q2R t0 < Q2R c -> Q2R c < Q2R t2 ->
  log_prob NumR survival None (pre ++ mkEp l u p 0%Q t0 c :: mkEp l u p rho c t2 :: post) tips ints
  = log_prob NumR survival None (pre ++ mkEp l u p rho t0 t2 :: post) tips ints.
Proof.
  intros survival pre l u p rho t0 c t2 post tips ints Hwf Hch H0 Hc0 Hc2.
  exact (refinement_invariance_origin survival None pre (mkEp l u p rho t0 t2) post c tips ints Hwf Hch H0 (conj Hc0 Hc2)).
Qed.
Print Assumptions refinement_invariance_None.

(* the single-epoch case proved before (C09_refine2) is the instance pre = post = [] *)
Corollary refine2_again (l u p : R) (rho c T : Q) survival tips ints :
  0 < l -> 0 < u -> 0 < p -> 0 <= Q2R rho <= 1 -> 0 < Q2R c -> Q2R c < Q2R T ->
  log_prob NumR survival None [mkEp l u p 0%Q 0%Q c; mkEp l u p rho c T] tips ints
  = log_prob NumR survival None [mkEp l u p rho 0%Q T] tips ints.
Proof.
  intros Hl Hu Hp Hr Hc0 HcT.
  apply (refinement_invariance_None survival [] l u p rho 0%Q c T [] tips ints).
  - constructor; [|constructor]. unfold wf_ep; cbn [elam emu epsi erho et0 et1]. rewrite Q2R_0. repeat split; auto; lra.
  - cbn. auto.
  - cbn [hd et0]. rewrite Q2R_0. lra.
  - rewrite Q2R_0. exact Hc0.
  - exact HcT.
Qed.

(* non-vacuity: the three-epoch skyline of C09_example is contiguous, and each of its epochs can be cut *)
Example refine_example_admissible :
  let sk := [mkEp 3 (5/2) 2 0%Q 0%Q 3%Q; mkEp 2 1 (1/2) (1#5)%Q 3%Q (9#2)%Q; mkEp 4 (1/2) 1 (1#100)%Q (9#2)%Q 6%Q] in
  Forall wf_ep sk /\ chain sk.
Proof. split; [exact C09_example | cbn; auto]. Qed.

Example refine_example_middle survival r tips ints :
  log_prob NumR survival (option_map (dup_at 1) r)
    [mkEp 3 (5/2) 2 0%Q 0%Q 3%Q; mkEp 2 1 (1/2) 0%Q 3%Q 4%Q; mkEp 2 1 (1/2) (1#5)%Q 4%Q (9#2)%Q;
     mkEp 4 (1/2) 1 (1#100)%Q (9#2)%Q 6%Q] tips ints
  = log_prob NumR survival r
    [mkEp 3 (5/2) 2 0%Q 0%Q 3%Q; mkEp 2 1 (1/2) (1#5)%Q 3%Q (9#2)%Q; mkEp 4 (1/2) 1 (1#100)%Q (9#2)%Q 6%Q] tips ints.
Proof.
  apply (refinement_invariance survival r [mkEp 3 (5/2) 2 0%Q 0%Q 3%Q] (mkEp 2 1 (1/2) (1#5)%Q 3%Q (9#2)%Q)
           [mkEp 4 (1/2) 1 (1#100)%Q (9#2)%Q 6%Q] 4%Q tips ints).
  - exact C09_example.
  - cbn; auto.
  - cbn [et0 et1]. unfold Q2R; simpl; lra.
  - unfold Q2R; simpl; lra.
Qed.
