(* The standard-library reals as a mathcomp commutative ring (mathcomp 1.15 packed classes).

   eqType      : decidable equality of reals (Req_EM_T, itself a consequence of the real axioms);
   choiceType  : Hilbert's epsilon (Coq.Logic.ClassicalEpsilon, i.e. the standard-library axioms
                 constructive_indefinite_description and classic) plus functional extensionality for
                 the extensionality clause of the choice mixin -- the construction of
                 mathcomp-analysis' Rstruct.v;
   zmodType, ringType, comRingType : the ring laws of Coq.Reals.

   Nothing is declared here: every axiom used is one the standard library declares.  The carrier of
   every structure is literally [R], addition is [Rplus], multiplication is [Rmult], so statements
   over the mathcomp ring unfold to statements over Coq.Reals by conversion. *)
From Coq Require Import Reals ClassicalEpsilon FunctionalExtensionality.
Set Warnings "-notation-overridden,-ambiguous-paths".
From mathcomp Require Import ssreflect ssrfun ssrbool eqtype ssrnat seq choice ssralg.
Set Warnings "notation-overridden,ambiguous-paths".
Set Implicit Arguments.
Unset Strict Implicit.
Unset Printing Implicit Defensive.

Definition eqr (a b : R) : bool := if Req_EM_T a b then true else false.
Lemma eqrP : Equality.axiom eqr.
Proof. by move=> a b; rewrite /eqr; case: (Req_EM_T a b) => H; constructor. Qed.
Definition R_eqMixin := EqMixin eqrP.
Canonical R_eqType := Eval hnf in EqType R R_eqMixin.

Fact inhR : inhabited R.
Proof. exact (inhabits R0). Qed.
Definition pickR (P : pred R) (n : nat) : option R :=
  let x := epsilon inhR (fun y => is_true (P y)) in if P x then Some x else None.
Fact pickR_some (P : pred R) n x : pickR P n = Some x -> P x.
Proof. by rewrite /pickR; case: ifP => // Px [<-]. Qed.
Fact pickR_ex (P : pred R) : (exists x : R, P x) -> exists n, pickR P n.
Proof. by move=> exP; exists 0%N; rewrite /pickR (epsilon_spec inhR (fun y => is_true (P y)) exP). Qed.
Fact pickR_ext (P Q : pred R) : P =1 Q -> pickR P =1 pickR Q.
Proof.
  move=> PEQ n; rewrite /pickR.
  have -> : P = Q by apply: functional_extensionality.
  by [].
Qed.
Definition R_choiceMixin : choiceMixin R := Choice.Mixin pickR_some pickR_ex pickR_ext.
Canonical R_choiceType := Eval hnf in ChoiceType R R_choiceMixin.

Fact RplusA : associative Rplus.
Proof. by move=> x y z; rewrite Rplus_assoc. Qed.
Definition R_zmodMixin := ZmodMixin RplusA Rplus_comm Rplus_0_l Rplus_opp_l.
Canonical R_zmodType := Eval hnf in ZmodType R R_zmodMixin.

Fact RmultA : associative Rmult.
Proof. by move=> x y z; rewrite Rmult_assoc. Qed.
Fact R1_neq_0 : R1 != R0 :> R.
Proof. by apply/eqP; exact: R1_neq_R0. Qed.
Definition R_ringMixin :=
  RingMixin RmultA Rmult_1_l Rmult_1_r Rmult_plus_distr_r Rmult_plus_distr_l R1_neq_0.
Canonical R_ringType := Eval hnf in RingType R R_ringMixin.
Canonical R_comRingType := Eval hnf in ComRingType R Rmult_comm.

(* the operations are the ones of Coq.Reals, by conversion *)
Lemma R_addE (a b : R) : GRing.add a b = Rplus a b.    Proof. by []. Qed.
Lemma R_mulE (a b : R) : GRing.mul a b = Rmult a b.    Proof. by []. Qed.
Lemma R_oppE (a : R) : GRing.opp a = Ropp a.           Proof. by []. Qed.
Lemma R_zeroE : GRing.zero R_zmodType = R0.            Proof. by []. Qed.
Lemma R_oneE : GRing.one R_ringType = R1.              Proof. by []. Qed.

Print Assumptions R_comRingType.
