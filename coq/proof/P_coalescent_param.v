(* Free theorems for the coalescent models: the NumI run of each log_prob encloses its NumR value. *)
From Coq Require Import QArith Reals List.
From Param Require Import Param.
From TT Require Import Num NumR NumI ParamI Tree M_coalescent.

Parametricity Recursive kind qualified.
Parametricity Recursive event qualified.
Parametricity Recursive ival qualified.
Parametricity Recursive constant_q qualified.
Parametricity Recursive exponential_q qualified.
Parametricity Recursive skyride_q qualified.
Parametricity Recursive skygrid_q qualified.
Parametricity Recursive linear_q qualified.
Parametricity Recursive pwexp_q qualified.

Notation event_R := TT_o_M_coalescent_o_event_R.

Lemma qlist_refl (l : list Q) : list_R Q Q Q_R l l.
Proof. apply list_R_refl, Q_R_refl. Qed.

(* Same exact inputs on both sides: the interval run encloses the real-valued model. *)
Lemma constant_enclosed theta tips coals :
  rel (constant_q NumR theta tips coals) (constant_q NumI theta tips coals).
Proof.
  exact (TT_o_M_coalescent_o_constant_q_R R I.type rel NumR NumI NumRI_R theta theta (Q_R_refl _)
           tips tips (qlist_refl _) coals coals (qlist_refl _)).
Qed.
Lemma exponential_enclosed theta g tips coals :
  rel (exponential_q NumR theta g tips coals) (exponential_q NumI theta g tips coals).
Proof.
  exact (TT_o_M_coalescent_o_exponential_q_R R I.type rel NumR NumI NumRI_R theta theta (Q_R_refl _)
           g g (Q_R_refl _) tips tips (qlist_refl _) coals coals (qlist_refl _)).
Qed.
Lemma skyride_enclosed thetas tips coals :
  rel (skyride_q NumR thetas tips coals) (skyride_q NumI thetas tips coals).
Proof.
  exact (TT_o_M_coalescent_o_skyride_q_R R I.type rel NumR NumI NumRI_R thetas thetas (qlist_refl _)
           tips tips (qlist_refl _) coals coals (qlist_refl _)).
Qed.
Lemma skygrid_enclosed thetas grid tips coals :
  rel (skygrid_q NumR thetas grid tips coals) (skygrid_q NumI thetas grid tips coals).
Proof.
  exact (TT_o_M_coalescent_o_skygrid_q_R R I.type rel NumR NumI NumRI_R thetas thetas (qlist_refl _)
           grid grid (qlist_refl _) tips tips (qlist_refl _) coals coals (qlist_refl _)).
Qed.
Lemma linear_enclosed thetas grid tips coals :
  rel (linear_q NumR thetas grid tips coals) (linear_q NumI thetas grid tips coals).
Proof.
  exact (TT_o_M_coalescent_o_linear_q_R R I.type rel NumR NumI NumRI_R thetas thetas (qlist_refl _)
           grid grid (qlist_refl _) tips tips (qlist_refl _) coals coals (qlist_refl _)).
Qed.
Lemma pwexp_enclosed theta growth grid tips coals :
  rel (pwexp_q NumR theta growth grid tips coals) (pwexp_q NumI theta growth grid tips coals).
Proof.
  exact (TT_o_M_coalescent_o_pwexp_q_R R I.type rel NumR NumI NumRI_R theta theta (Q_R_refl _)
           growth growth (qlist_refl _) grid grid (qlist_refl _) tips tips (qlist_refl _)
           coals coals (qlist_refl _)).
Qed.
Print Assumptions pwexp_enclosed.
