(* Volume preservation, any dimension, linear gradients (every Gaussian target), any commutative
   ring: the Jacobian matrices of the two shears are block triangular with identity diagonal
   blocks, so every product of them -- in particular the matrix of the implemented leapfrog map
   kick(h2); L x [drift(h); kick(h)]; kick(-h2) -- has determinant EXACTLY one.
   (mathcomp matrices; H = matrix of the gradient q -> H q, i.e. the precision matrix; M = inverse
   mass matrix; neither needs to be symmetric here.)  For a nonlinear gradient the Jacobian of a kick
   at a point has the same block form with H the Jacobian of the gradient there; that the Jacobian of
   a composition is the product of the Jacobians (chain rule in dimension n) is the classical fact not
   formalised here -- it IS formalised for dimension one in P_leapfrog_jac.v. *)
From mathcomp Require Import all_ssreflect all_algebra.
Set Implicit Arguments.
Unset Strict Implicit.
Unset Printing Implicit Defensive.
Import GRing.Theory.
Local Open Scope ring_scope.

Section ShearDet.
Variable (R : comRingType) (n : nat).
Implicit Types (H M : 'M[R]_n) (c : R) (q p : 'cV[R]_n).

(* Jacobian of (q,p) -> (q, p - c H q)  and of  (q,p) -> (q + c M p, p)  on stacked vectors (q;p) *)
Definition kickJ c H : 'M[R]_(n + n) := block_mx 1%:M 0 (- c *: H) 1%:M.
Definition driftJ c M : 'M[R]_(n + n) := block_mx 1%:M (c *: M) 0 1%:M.

(* they are the matrices of the shears *)
Lemma kickJ_acts c H q p : kickJ c H *m col_mx q p = col_mx q (p - c *: (H *m q)).
Proof.
  rewrite /kickJ mul_block_col !mul1mx mul0mx addr0. congr col_mx.
  by rewrite -scalemxAl scaleNr addrC.
Qed.
Lemma driftJ_acts c M q p : driftJ c M *m col_mx q p = col_mx (q + c *: (M *m p)) p.
Proof. by rewrite /driftJ mul_block_col !mul1mx mul0mx add0r -scalemxAl. Qed.

Lemma kickJ_det c H : \det (kickJ c H) = 1.
Proof. by rewrite /kickJ det_lblock !det1 mulr1. Qed.
Lemma driftJ_det c M : \det (driftJ c M) = 1.
Proof. by rewrite /driftJ det_ublock !det1 mulr1. Qed.

Inductive shear := Kick of R & 'M[R]_n | Drift of R & 'M[R]_n.
Definition shearJ (s : shear) : 'M[R]_(n + n) :=
  match s with Kick c H => kickJ c H | Drift c M => driftJ c M end.
(* matrix of the composition: the first shear of the list is applied first *)
Definition shearsJ (l : seq shear) : 'M[R]_(n + n) := foldr (fun s A => A *m shearJ s) 1%:M l.

Lemma shearsJ_det l : \det (shearsJ l) = 1.
Proof.
  elim: l => [|s l IH] /=; first by rewrite det1.
  rewrite det_mulmx IH mul1r. case: s => c A /=; [exact: kickJ_det | exact: driftJ_det].
Qed.

(* the implemented arrangement, h2 standing for eps/2 *)
Definition leapfrog_shears (h h2 : R) (L : nat) H M : seq shear :=
  Kick h2 H :: flatten (nseq L [:: Drift h M; Kick h H]) ++ [:: Kick (- h2) H].

Lemma leapfrogJ_det h h2 L H M : \det (shearsJ (leapfrog_shears h h2 L H M)) = 1.
Proof. exact: shearsJ_det. Qed.

(* and the matrix does what the shears do, one after the other *)
Definition shear_act (s : shear) (x : 'cV[R]_n * 'cV[R]_n) : 'cV[R]_n * 'cV[R]_n :=
  match s with
  | Kick c H => (x.1, x.2 - c *: (H *m x.1))
  | Drift c M => (x.1 + c *: (M *m x.2), x.2)
  end.
Lemma shearsJ_acts l q p :
  shearsJ l *m col_mx q p =
  col_mx (foldl (fun x s => shear_act s x) (q, p) l).1 (foldl (fun x s => shear_act s x) (q, p) l).2.
Proof.
  elim: l q p => [|s l IH] q p /=; first by rewrite mul1mx.
  rewrite -mulmxA. case: s => c A /=.
  - by rewrite kickJ_acts IH.
  - by rewrite driftJ_acts IH.
Qed.
End ShearDet.
