(* C16: filled in below *)
