(* A simultaneous reordering of the rows and of the columns of a square real matrix does not change its
   determinant -- on the list-of-rows Laplace determinant [ldet] of P_det_def.v.

   Route: [ldet] at NumR is [ldet] at the Num packed from the mathcomp ring structure of R (P_Rring.v),
   because [ldet] only reads the fields zero/one/add/mul/opp; that one is mathcomp's \det
   (ldet_is_det, P_tridet_mc.v); the reordered matrix is row_perm s (col_perm s M); and
   \det (perm_mx s) * \det (perm_mx s^-1) = (-1)^s * (-1)^s = 1.

   Corollary (C07): the Jacobian of the ratio node-height transform with rows and columns ordered by
   NODE INDEX (what autograd builds) has the determinant of the pre-order Jacobian of P_height_det.v, so
   that the reported value is ln |det| of the index-ordered Jacobian too. *)
From Coq Require Import Reals List Lia Lra Arith.
Set Warnings "-notation-overridden,-ambiguous-paths".
From mathcomp Require all_ssreflect all_fingroup all_algebra.
Set Warnings "notation-overridden,ambiguous-paths".
From TT Require Import Num NumR P_det_def P_tridet.
From TT Require P_tridet_mc P_Rring.

(* ------------------------------------------------------------------ ldet reads five fields of Num *)
Section NumExt.
Context {T : Type} (N N' : Num T).
Hypothesis E0 : zero N = zero N'.
Hypothesis E1 : one N = one N'.
Hypothesis Ea : forall a b, add N a b = add N' a b.
Hypothesis Em : forall a b, mul N a b = mul N' a b.
Hypothesis Eo : forall a, opp N a = opp N' a.

Lemma entry_num_ext m i j : entry N m i j = entry N' m i j.
Proof. unfold entry. rewrite E0. reflexivity. Qed.
Lemma sgn_num_ext j : sgn N j = sgn N' j.
Proof. induction j as [|j IH]; cbn [sgn]; [exact E1 | rewrite IH; apply Eo]. Qed.
Lemma nsum_num_ext l : nsum N l = nsum N' l.
Proof. induction l as [|a l IH]; cbn [nsum]; [exact E0 | rewrite IH; apply Ea]. Qed.
Lemma ldet_num_ext : forall n m, ldet N n m = ldet N' n m.
Proof.
  induction n as [|n IH]; intros m; [exact E1|].
  rewrite !ldet_S, nsum_num_ext. f_equal. apply map_ext. intros j.
  rewrite IH, sgn_num_ext, entry_num_ext, !Em. reflexivity.
Qed.
End NumExt.

(* ------------------------------------------------------------------ the mathcomp side *)
Module DetPermMC.
Set Warnings "-notation-overridden,-ambiguous-paths".
Import all_ssreflect all_fingroup all_algebra.
Set Warnings "notation-overridden,ambiguous-paths".
Import P_tridet_mc P_Rring.
Import GRing.Theory.
Local Open Scope ring_scope.

Notation NumRK := (NumK R_comRingType).

Lemma ldetR_ldetK n (m : list (list R)) : ldet NumR n m = ldet NumRK n m.
Proof. by apply: ldet_num_ext. Qed.

Lemma ldetR_is_det n (m : list (list R)) : ldet NumR n m = \det (@mx_of R_comRingType n m).
Proof. by rewrite ldetR_ldetK ldet_is_det. Qed.

(* ldet n m only reads the entries (i, j), i, j < n *)
Lemma ldetR_ext n (m m' : list (list R)) :
  (forall i j, (i < n)%coq_nat -> (j < n)%coq_nat -> entry NumR m i j = entry NumR m' i j) ->
  ldet NumR n m = ldet NumR n m'.
Proof.
  move=> H. rewrite !ldetR_is_det. congr (\det _). apply/matrixP => i j. rewrite !mxE.
  by apply: H; apply/ltP.
Qed.

(* reindexing rows and columns by the same permutation of 'I_n *)
Lemma det_row_col_perm (K : comRingType) n (s : 'S_n) (A : 'M[K]_n) :
  \det (row_perm s (col_perm s A)) = \det A.
Proof.
  rewrite row_permE col_permE !det_mulmx !det_perm odd_permV.
  by rewrite mulrCA -signr_addb addbb expr0 mulr1.
Qed.

Section Perm.
Variables (n : nat) (s : nat -> nat).
Hypothesis s_lt : forall i, (i < n)%coq_nat -> (s i < n)%coq_nat.
Hypothesis s_inj : forall i j, (i < n)%coq_nat -> (j < n)%coq_nat -> s i = s j -> i = j.

Lemma s_ord_proof (i : 'I_n) : (s i < n)%N.
Proof. by apply/ltP; apply: s_lt; apply/ltP. Qed.
Definition s_ord (i : 'I_n) : 'I_n := Ordinal (s_ord_proof i).
Lemma s_ord_inj : injective s_ord.
Proof.
  move=> i j /(congr1 val) /= E. apply: val_inj => /=.
  by apply: s_inj E; apply/ltP.
Qed.
Definition s_perm : 'S_n := perm s_ord_inj.

Lemma mx_of_reindexed (m : list (list R)) :
  @mx_of R_comRingType n (tabulate n (fun i j => entry NumR m (s i) (s j)))
  = row_perm s_perm (col_perm s_perm (@mx_of R_comRingType n m)).
Proof.
  apply/matrixP => i j. rewrite !mxE !permE /=.
  change (entry NumRK) with (entry NumR).
  by rewrite entry_tabulate //; apply/ltP.
Qed.

Lemma ldet_reindexed (m : list (list R)) :
  ldet NumR n (tabulate n (fun i j => entry NumR m (s i) (s j))) = ldet NumR n m.
Proof. by rewrite !ldetR_is_det mx_of_reindexed det_row_col_perm. Qed.
End Perm.
End DetPermMC.

Theorem ldet_simultaneous_permutation : forall (n : nat) (m : list (list R)) (s : nat -> nat),
  (forall i, (i < n)%nat -> (s i < n)%nat) ->
  (forall i j, (i < n)%nat -> (j < n)%nat -> s i = s j -> i = j) ->
  ldet NumR n (tabulate n (fun i j => entryR m (s i) (s j))) = ldet NumR n m.
Proof. intros n m s Hlt Hinj. exact (DetPermMC.ldet_reindexed n s Hlt Hinj m). Qed.


Theorem ldet_ext : forall (n : nat) (m m' : list (list R)),
  (forall i j, (i < n)%nat -> (j < n)%nat -> entryR m i j = entryR m' i j) ->
  ldet NumR n m = ldet NumR n m'.
Proof. exact DetPermMC.ldetR_ext. Qed.

(* ------------------------------------------------------------------ position of a value in a list *)
Fixpoint pos_in (l : list nat) (v : nat) : nat :=
  match l with
  | nil => 0
  | a :: r => if Nat.eqb a v then 0 else S (pos_in r v)
  end.

Lemma pos_in_lt l v : In v l -> (pos_in l v < length l)%nat.
Proof.
  induction l as [|a l IH]; intros H; [destruct H|]. cbn [pos_in length].
  destruct (Nat.eqb_spec a v) as [E|E]; [lia|].
  destruct H as [H|H]; [contradiction|]. specialize (IH H). lia.
Qed.
Lemma nth_pos_in l v d : In v l -> nth (pos_in l v) l d = v.
Proof.
  induction l as [|a l IH]; intros H; [destruct H|]. cbn [pos_in].
  destruct (Nat.eqb_spec a v) as [E|E]; [exact E|].
  destruct H as [H|H]; [contradiction|]. cbn [nth]. apply IH. exact H.
Qed.
Lemma pos_in_inj l u v : In u l -> In v l -> pos_in l u = pos_in l v -> u = v.
Proof.
  intros Hu Hv E. rewrite <- (nth_pos_in l u 0%nat Hu), <- (nth_pos_in l v 0%nat Hv), E. reflexivity.
Qed.
Lemma pos_in_nth l i d : NoDup l -> (i < length l)%nat -> pos_in l (nth i l d) = i.
Proof.
  revert i. induction l as [|a l IH]; intros i Hnd Hi; cbn [length] in Hi; [lia|].
  inversion Hnd as [|? ? Ha Hl]; subst. destruct i as [|i]; cbn [nth pos_in].
  - rewrite Nat.eqb_refl. reflexivity.
  - destruct (Nat.eqb_spec a (nth i l d)) as [E|E].
    + exfalso. apply Ha. rewrite E. apply nth_In. lia.
    + f_equal. apply IH; [exact Hl | lia].
Qed.
Lemma pos_in_app_l a b v : In v a -> pos_in (a ++ b) v = pos_in a v.
Proof.
  induction a as [|y a IH]; intros H; [destruct H|]. cbn [app pos_in].
  destruct (Nat.eqb_spec y v) as [E|E]; [reflexivity|].
  destruct H as [H|H]; [contradiction|]. f_equal. apply IH. exact H.
Qed.
Lemma pos_in_app_r a b v : ~ In v a -> pos_in (a ++ b) v = (length a + pos_in b v)%nat.
Proof.
  induction a as [|y a IH]; intros H; [reflexivity|]. cbn [app pos_in length].
  destruct (Nat.eqb_spec y v) as [E|E]; [exfalso; apply H; left; exact E|].
  cbn [plus]. f_equal. apply IH. intro Hv. apply H. right. exact Hv.
Qed.

(* a duplicate-free list of k numbers of [n, n+k) contains each of them *)
Lemma nodup_range_all (l : list nat) (n : nat) :
  NoDup l -> (forall v, In v l -> (n <= v < n + length l)%nat) ->
  forall r, (r < length l)%nat -> In (n + r)%nat l.
Proof.
  intros Hnd Hr r Hlt.
  assert (Hincl : incl (seq n (length l)) l).
  { apply NoDup_length_incl; [exact Hnd | rewrite seq_length; lia |].
    intros v Hv. apply in_seq. apply Hr. exact Hv. }
  apply Hincl. apply in_seq. lia.
Qed.

(* ------------------------------------------------------------------ C07: the Jacobian by node index *)
Set Warnings "-notation-overridden,-ambiguous-paths".
From Coquelicot Require Import Coquelicot.
Set Warnings "notation-overridden,ambiguous-paths".
From TT Require Import Tree M_height P_height P_height_jac P_height_inv P_transform_det P_height_det.
Import ListNotations.
Open Scope R_scope.

(* the height stored at the internal node of index v (first occurrence in pre-order) *)
Fixpoint hfind (v : nat) (ht : htree R) : option R :=
  match ht with
  | HLeaf _ _ => None
  | HNode i h l r =>
      if Nat.eqb i v then Some h
      else match hfind v l with Some y => Some y | None => hfind v r end
  end.
Definition node_height (v : nat) (ht : htree R) : R :=
  match hfind v ht with Some h => h | None => 0 end.

Section RatioNodeOrder.
Variable n : nat.
Variable times : list R.
Notation fwd := (ratio_fwd NumR n times).
Notation xof := (x_of NumR n).

(* row r <-> internal node n + r, column c <-> parameter x[c] of internal node n + c: the entries are
   those of the pre-order Jacobian at the pre-order positions of these nodes *)
Definition ratio_jacobian_node_order (x : list R) (t : itree) : list (list R) :=
  tabulate (length (ipre t))
    (fun r c => entryR (ratio_jacobian n times x t)
                  (pos_in (ipre t) (n + r)) (pos_in (ipre t) (n + c))).

Theorem ratio_jacobian_node_order_det x t :
  NoDup (ipre t) -> (forall k, In k (ipre t) -> (n <= k < n + length x)%nat) ->
  length (ipre t) = length x ->
  ldet NumR (length (ipre t)) (ratio_jacobian_node_order x t)
  = ldet NumR (length (ipre t)) (ratio_jacobian n times x t).
Proof.
  intros Hnd Hr Hlen. rewrite <- Hlen in Hr.
  pose proof (nodup_range_all _ _ Hnd Hr) as Hall.
  unfold ratio_jacobian_node_order.
  apply (ldet_simultaneous_permutation (length (ipre t)) (ratio_jacobian n times x t)
           (fun r => pos_in (ipre t) (n + r))).
  - intros r Hlt. apply pos_in_lt. apply Hall. exact Hlt.
  - intros r c Hr' Hc' E. apply pos_in_inj in E; [lia | apply Hall; exact Hr' | apply Hall; exact Hc'].
Qed.

(* MAIN: the value reported by the code is ln |det| of the Jacobian ordered by node index *)
Theorem ratio_logdet_is_logabsdet_node_order x i l r :
  let t := INode i l r in
  NoDup (ipre t) -> (forall k, In k (ipre t) -> (n <= k < n + length x)%nat) ->
  length (ipre t) = length x ->
  bound NumR times t < xof x i -> (forall j, In j (ipre l ++ ipre r) -> 0 < xof x j) ->
  ratio_logdet NumR times None t (fwd x None t)
  = ln (Rabs (ldet NumR (length (ipre t)) (ratio_jacobian_node_order x t))).
Proof.
  intros t Hnd Hr Hlen Hb Hx.
  rewrite ratio_jacobian_node_order_det by assumption.
  apply ratio_logdet_is_logabsdet; assumption.
Qed.

(* ---- what the entries are: partial derivatives of the height of node n + r with respect to x[c] ---- *)
Lemma hfind_fwd_notin t : forall x hp v, ~ In v (ipre t) -> hfind v (fwd x hp t) = None.
Proof.
  induction t as [j|j l IHl r IHr]; intros x hp v Hv; [reflexivity|].
  cbn [ratio_fwd]. cbn zeta. cbn [hfind]. cbn [ipre] in Hv.
  destruct (Nat.eqb_spec j v) as [E|E]; [exfalso; apply Hv; left; exact E|].
  rewrite IHl by (intro H; apply Hv; right; apply in_or_app; left; exact H).
  apply IHr. intro H; apply Hv; right; apply in_or_app; right; exact H.
Qed.
Lemma hfind_fwd_in t : forall x hp v, In v (ipre t) ->
  hfind v (fwd x hp t) = Some (nth (pos_in (ipre t) v) (hpre (fwd x hp t)) 0).
Proof.
  induction t as [j|j l IHl r IHr]; intros x hp v Hv; [destruct Hv|].
  cbn [ratio_fwd]. cbn zeta. cbn [hfind hpre ipre pos_in]. cbn [ipre] in Hv.
  destruct (Nat.eqb_spec j v) as [E|E]; [reflexivity|].
  destruct Hv as [Hv|Hv]; [contradiction|]. cbn [nth].
  destruct (in_dec Nat.eq_dec v (ipre l)) as [Hl|Hl].
  - rewrite IHl by exact Hl. rewrite pos_in_app_l by exact Hl.
    rewrite app_nth1 by (rewrite hpre_len; apply pos_in_lt; exact Hl). reflexivity.
  - assert (Hvr : In v (ipre r)) by (apply in_app_or in Hv; destruct Hv; [contradiction|assumption]).
    rewrite hfind_fwd_notin by exact Hl. rewrite IHr by exact Hvr. rewrite pos_in_app_r by exact Hl.
    rewrite app_nth2 by (rewrite hpre_len; lia). rewrite hpre_len.
    replace (length (ipre l) + pos_in (ipre r) v - length (ipre l))%nat with (pos_in (ipre r) v) by lia.
    reflexivity.
Qed.
Lemma node_height_fwd t x hp v : In v (ipre t) ->
  node_height v (fwd x hp t) = nth (pos_in (ipre t) v) (hpre (fwd x hp t)) 0.
Proof. intros Hv. unfold node_height. rewrite hfind_fwd_in by exact Hv. reflexivity. Qed.

Theorem ratio_jacobian_node_order_entry x t r c :
  NoDup (ipre t) -> (forall k, In k (ipre t) -> (n <= k < n + length x)%nat) ->
  length (ipre t) = length x -> (r < length x)%nat -> (c < length x)%nat ->
  entryR (ratio_jacobian_node_order x t) r c
  = Derive (fun s => node_height (n + r) (fwd (upd x c s) None t)) (nth c x 0).
Proof.
  intros Hnd Hr Hlen Hrl Hcl. rewrite <- Hlen in Hr, Hrl, Hcl.
  pose proof (nodup_range_all _ _ Hnd Hr) as Hall.
  pose proof (Hall r Hrl) as Hinr. pose proof (Hall c Hcl) as Hinc.
  unfold ratio_jacobian_node_order. rewrite entry_tabulate by assumption.
  unfold ratio_jacobian. rewrite entry_tabulate by (apply pos_in_lt; assumption).
  unfold ratio_partial, pnode. rewrite (nth_pos_in _ _ 0%nat Hinc).
  replace (n + c - n)%nat with c by lia.
  unfold x_of at 1. rewrite nsub_sub. replace (n + c - n)%nat with c by lia. rewrite lk_nth.
  cbn [zero NumR]. apply Derive_ext. intros s. symmetry. apply node_height_fwd. exact Hinr.
Qed.
End RatioNodeOrder.


(* for the numbering produced by setup_indexes (n taxa, internal nodes n .. 2n-2, n-1 parameters) the
   length hypothesis is derived *)
Lemma indexed_ipre_length tr : length (ipre (index_tree tr)) = (leaves tr - 1)%nat.
Proof.
  unfold index_tree. destruct (index_from tr (leaves tr)) as [it nx] eqn:E. cbn [fst].
  destruct (index_from_seq _ _ _ _ E) as (H1 & H2 & H3).
  rewrite (Permutation.Permutation_length (ipre_perm it)), H3. apply seq_length.
Qed.

Theorem ratio_logdet_is_logabsdet_node_order_indexed times tr x i l r :
  index_tree tr = INode i l r -> length x = (leaves tr - 1)%nat ->
  bound NumR times (INode i l r) < x_of NumR (leaves tr) x i ->
  (forall j, In j (ipre l ++ ipre r) -> 0 < x_of NumR (leaves tr) x j) ->
  ratio_logdet NumR times None (INode i l r) (ratio_fwd NumR (leaves tr) times x None (INode i l r))
  = ln (Rabs (ldet NumR (length x) (ratio_jacobian_node_order (leaves tr) times x (INode i l r)))).
Proof.
  intros E Hlen Hb Hx. destruct (indexed_ipre tr) as [Hnd Hr]. pose proof (indexed_ipre_length tr) as Hl.
  rewrite E in Hnd, Hr, Hl.
  replace (length x) with (length (ipre (INode i l r))) by (rewrite Hl, Hlen; reflexivity).
  apply ratio_logdet_is_logabsdet_node_order; try assumption.
  - rewrite Hlen. exact Hr.
  - rewrite Hl, Hlen. reflexivity.
Qed.

(* non-vacuity: ((0,1),2), times 0, 1/2, 0, ratio 1/2, root height 2 (the example of P_height_det.v).
   Pre-order is (root = node 4, node 3); by node index the rows are (node 3, node 4) and the columns
   (ratio of node 3, root height): the diagonal of the pre-order Jacobian is read in the other order
   and the zero entry moves below the diagonal; the determinant is still 3/2 *)
Example ratio_node_order_example :
  let t := index_tree (Node (Node (Leaf 0) (Leaf 1)) (Leaf 2)) in
  let times := [0; 1/2; 0] in let x := [1/2; 2] in
  entryR (ratio_jacobian_node_order 3 times x t) 0 0 = 3/2
  /\ entryR (ratio_jacobian_node_order 3 times x t) 1 1 = 1
  /\ entryR (ratio_jacobian_node_order 3 times x t) 1 0 = 0
  /\ ldet NumR 2 (ratio_jacobian_node_order 3 times x t) = 3/2.
Proof.
  intros t times x.
  assert (M1 : Rmax 0 (1/2) = 1/2) by (apply Rmax_right; lra).
  assert (M2 : Rmax (1/2) 0 = 1/2) by (apply Rmax_left; lra).
  destruct (indexed_ipre (Node (Node (Leaf 0) (Leaf 1)) (Leaf 2))) as [Hnd Hr].
  assert (E : forall a b, (a <= b < 2)%nat ->
            entryR (ratio_jacobian_node_order 3 times x t) (1 - a) (1 - b)
            = if Nat.eqb a b then nth b [1; 3/2] 0 else 0).
  { intros a b Hab. unfold ratio_jacobian_node_order.
    change (length (ipre t)) with 2%nat. rewrite entry_tabulate by lia.
    replace (pos_in (ipre t) (3 + (1 - a))) with a
      by (destruct a as [|[|a]]; [reflexivity | reflexivity | lia]).
    replace (pos_in (ipre t) (3 + (1 - b))) with b
      by (destruct b as [|[|b]]; [reflexivity | reflexivity | lia]).
    rewrite (ratio_jacobian_entry 3 times x t a b Hnd Hr) by (change (length (ipre t)) with 2%nat; lia).
    destruct (Nat.eqb a b); [|reflexivity]. f_equal.
    cbn -[Rmax Rdiv]. rewrite ?M1, ?M2. f_equal. f_equal. lra. }
  repeat split.
  - exact (E 1%nat 1%nat ltac:(lia)).
  - exact (E 0%nat 0%nat ltac:(lia)).
  - exact (E 0%nat 1%nat ltac:(lia)).
  - change 2%nat with (length (ipre t)).
    rewrite ratio_jacobian_node_order_det; [|exact Hnd|exact Hr|reflexivity].
    exact (proj1 ratio_det_example).
Qed.

Print Assumptions ldet_simultaneous_permutation.
Print Assumptions ratio_jacobian_node_order_entry.
Print Assumptions ratio_logdet_is_logabsdet_node_order.
Print Assumptions ratio_logdet_is_logabsdet_node_order_indexed.
