(* C03: the rescaled array loop of the code computes the model's rescaled recursion [prune_rs], whose
   value C03_rescaled_eq_plain proves equal to the plain log-likelihood.

   Array entries: for each node, the K category partial vectors (already divided by the node's scaler) and
   the sum of the ln scalers recorded in its subtree.  (The code appends the scalers to one list and sums
   their logarithms at the end; the model accumulates the same terms along the tree — the same sum over all
   internal nodes, in another order of additions: a modelling convention, validated by the correspondence.) *)
From Coq Require Import List Arith Lia.
Import ListNotations.
From TT Require Import Num Tree M_like M_rescale M_prune_loop G_prune P_prune_loop.

Section RS.
Context {T : Type} (N : Num T).
Variable sc : list (list T) -> T.

(* the K numerators at a node, each computed by the REGENERATED numerator expression of the rescaled loop
   on the k-th category's array of partials *)
Fixpoint numerators (Ps : list (nat -> mat)) (k : nat) (cats : nat -> list vec) (node lf rt : nat) : list vec :=
  match Ps with
  | [] => []
  | P :: Pr => g_update_rescaled_num N P (fun j => lk (cats j) k []) node lf rt :: numerators Pr (S k) cats node lf rt
  end.

(* what the loop stores at a node: numerators / scaler, and the running sum of ln scalers *)
Definition rs_update (Ps : list (nat -> mat)) (a : nat -> list vec * T) (node lf rt : nat) : list vec * T :=
  let partial := numerators Ps 0 (fun j => fst (a j)) node lf rt in
  let c := sc partial in
  (map (vscale N (div N (one N) c)) partial, add N (nln N c) (add N (snd (a lf)) (snd (a rt)))).

Definition rs_f (Ps : list (nat -> mat)) (node lf rt : nat) (x y : list vec * T) : list vec * T :=
  let partial := zip3 N Ps (fst x) (fst y) lf rt in
  let c := sc partial in
  (map (vscale N (div N (one N) c)) partial, add N (nln N c) (add N (snd x) (snd y))).

Lemma numerators_zip3 : forall Ps k cats node lf rt xs ys,
  length xs = length Ps -> length ys = length Ps ->
  (forall i, i < length Ps -> lk (cats lf) (k + i) [] = lk xs i []) ->
  (forall i, i < length Ps -> lk (cats rt) (k + i) [] = lk ys i []) ->
  numerators Ps k cats node lf rt = zip3 N Ps xs ys lf rt.
Proof.
  induction Ps as [|P Pr IH]; intros k cats node lf rt xs ys Lx Ly Hx Hy; [reflexivity|].
  destruct xs as [|x xr]; [discriminate|]. destruct ys as [|y yr]; [discriminate|].
  cbn [numerators zip3]. f_equal.
  - unfold g_update_rescaled_num. cbv beta.
    assert (Hx0 := Hx 0 ltac:(cbn; lia)). assert (Hy0 := Hy 0 ltac:(cbn; lia)).
    replace (k + 0) with k in Hx0, Hy0 by lia.
    f_equal; f_equal; [exact Hx0 | exact Hy0].
  - apply IH.
    + cbn in Lx. lia.
    + cbn in Ly. lia.
    + intros i Hi. replace (S k + i) with (k + S i) by lia. rewrite Hx by (cbn; lia). reflexivity.
    + intros i Hi. replace (S k + i) with (k + S i) by lia. rewrite Hy by (cbn; lia). reflexivity.
Qed.

(* prune_rs is the generic fold with rs_f, and every entry has one vector per category *)
Lemma recf_is_prune_rs Ps tip t :
  recf (rs_f Ps) (fun i => (map (fun _ => tip i) Ps, zero N)) t = prune_rs N sc Ps tip t
  /\ length (fst (prune_rs N sc Ps tip t)) = length Ps.
Proof.
  induction t as [i|i l [IHl Ll] r [IHr Lr]]; cbn [recf prune_rs].
  - split; [reflexivity | cbn; apply map_length].
  - rewrite IHl, IHr. destruct (prune_rs N sc Ps tip l) as [pl sl]. destruct (prune_rs N sc Ps tip r) as [pr sr].
    cbn [fst snd] in *. unfold rs_f. cbn [fst snd]. split; [reflexivity|].
    rewrite map_length. clear -Ll Lr. revert pl pr Ll Lr. induction Ps as [|P Pr IH]; intros [|x pl] [|y pr] Ll Lr;
      cbn in *; try lia. f_equal. apply IH; lia.
Qed.

Lemma rs_update_is_f Ps a node lf rt :
  length (fst (a lf)) = length Ps -> length (fst (a rt)) = length Ps ->
  rs_update Ps a node lf rt = rs_f Ps node lf rt (a lf) (a rt).
Proof.
  intros Ll Lr. unfold rs_update, rs_f.
  rewrite (numerators_zip3 Ps 0 (fun j => fst (a j)) node lf rt (fst (a lf)) (fst (a rt)) Ll Lr);
    [reflexivity | intros; reflexivity | intros; reflexivity].
Qed.

Lemma rs_f_length Ps node lf rt (x y : list vec * T) :
  length (fst x) = length Ps -> length (fst y) = length Ps -> length (fst (rs_f Ps node lf rt x y)) = length Ps.
Proof.
  intros Lx Ly. unfold rs_f. cbn [fst]. rewrite map_length.
  revert Lx Ly. generalize (fst x) (fst y). induction Ps as [|P Pr IH]; intros [|a xr] [|b yr] Lx Ly;
    cbn in *; try lia. f_equal. apply IH; lia.
Qed.

(* The rescaled loop of the code — [rs_update]: at every node the K numerators given by the REGENERATED
   numerator expression, divided by the scaler, and the ln scaler added to the running sum — leaves at the
   root index exactly what the model's rescaled recursion [prune_rs] computes.  The invariant carried along
   is "one vector per rate category". *)
Theorem rescaled_loop_is_prune_rs Ps tip t (a : nat -> list vec * T) :
  wfi t ->
  (forall i, In i (ileaves t) -> a i = (map (fun _ => tip i) Ps, zero N)) ->
  loop (rs_update Ps) (postorder t) a (iidx t) = prune_rs N sc Ps tip t.
Proof.
  intros Hw Hl.
  rewrite <- (proj1 (recf_is_prune_rs Ps tip t)).
  refine (proj1 (loop_recf (rs_f Ps) (rs_update Ps) (fun e => length (fst e) = length Ps) _ _
                          (fun i => (map (fun _ => tip i) Ps, zero N)) _ t a Hw Hl)).
  - intros. apply rs_f_length; assumption.
  - intros. apply rs_update_is_f; assumption.
  - intros i. cbn. apply map_length.
Qed.
End RS.
