(* Reflection lemmas for the option tables: the boolean tests of M_options.v decide the
   propositions stated in prop/C09.v. *)
From Coq Require Import String List Bool.
Import ListNotations.
From TT Require Import M_options.

Lemma options_ok_sound (l : list (string * string)) :
  options_ok l = true -> Forall (fun p => norm_arg (fst p) = snd p) l.
Proof.
  unfold options_ok. intros H. apply Forall_forall. intros p Hp.
  rewrite forallb_forall in H. apply String.eqb_eq. exact (H p Hp).
Qed.

Lemma defaults_ok_sound (l : list (string * string * string)) :
  defaults_ok l = true ->
  Forall (fun t => match t with (_, json_default, ctor_default) => json_default = ctor_default end) l.
Proof.
  unfold defaults_ok. intros H. apply Forall_forall. intros [[a b] c] Hp.
  rewrite forallb_forall in H. apply String.eqb_eq. exact (H _ Hp).
Qed.

Lemma covered_sound params opts :
  covered params opts = true -> forall p, In p params -> exists k, In (p, k) opts.
Proof.
  unfold covered. intros H p Hp. rewrite forallb_forall in H. specialize (H p Hp).
  apply existsb_exists in H. destruct H as [[a k] [Hin He]]. cbn in He.
  apply String.eqb_eq in He. subst. exists k. exact Hin.
Qed.
