From Coq Require Import QArith Reals List Lra Lia Qreals.
Import ListNotations.
From TT Require Import Num NumR M_site.
Open Scope R_scope.

Fixpoint rsum (l : list R) : R := match l with [] => 0 | x :: r => x + rsum r end.
Lemma nsum_rsum l : nsum NumR l = rsum l.
Proof. induction l as [|x l IH]; simpl; [reflexivity|]. rewrite IH; reflexivity. Qed.

Fixpoint rdot (a b : list R) : R :=
  match a, b with x :: r, y :: s => x * y + rdot r s | _, _ => 0 end.
Lemma ndot_rdot a b : ndot NumR a b = rdot a b.
Proof. revert b; induction a as [|x a IH]; destruct b; simpl; try reflexivity. rewrite IH; reflexivity. Qed.

Definition mu_val (mu : option R) : R := match mu with None => 1 | Some m => m end.

Lemma scale_opt_val mu l : scale_opt NumR mu l = map (fun r => r * mu_val mu) l.
Proof.
  destruct mu; simpl; auto. rewrite <- (map_id l) at 1. apply map_ext. intros; lra.
Qed.

Lemma rdot_map_l f a b c : (forall x, f x = x * c) -> rdot (map f a) b = c * rdot a b.
Proof.
  intros Hf. revert b; induction a as [|x a IH]; destruct b; simpl; try lra.
  rewrite IH, Hf. lra.
Qed.

Lemma rsum_repeat x n : rsum (repeat x n) = INR n * x.
Proof.
  induction n as [|n IH]; [simpl; lra|]. rewrite S_INR. cbn [repeat rsum]. rewrite IH. lra.
Qed.

Lemma ofNat_INR n : ofNat NumR n = INR n.
Proof.
  unfold ofNat; simpl. unfold Q2R; simpl. rewrite <- INR_IZR_INZ. lra.
Qed.

(* ---- the normalisation identity, for ANY raw rates and ANY probabilities ---- *)
Lemma mean_rate_normalise raw probs mu :
  rdot raw probs <> 0 ->
  rdot (normalise NumR raw probs mu) probs = mu_val mu.
Proof.
  intros Hm. unfold normalise. rewrite scale_opt_val, ndot_rdot.
  rewrite (rdot_map_l _ _ _ (mu_val mu)) by reflexivity.
  rewrite (rdot_map_l _ _ _ (/ rdot raw probs)).
  - field; assumption.
  - intros x; simpl; unfold Rdiv; reflexivity.
Qed.

Lemma Forall_map_nonneg f l :
  (forall x, 0 <= x -> 0 <= f x) -> Forall (fun x => 0 <= x) l -> Forall (fun x => 0 <= x) (map f l).
Proof. intros Hf H; induction H; simpl; constructor; auto. Qed.

Lemma rdot_nonneg a b :
  Forall (fun x => 0 <= x) a -> Forall (fun x => 0 <= x) b -> 0 <= rdot a b.
Proof.
  intros Ha; revert b; induction Ha as [|x a Hx Ha IH]; intros b Hb; simpl; [lra|].
  destruct Hb as [|y b Hy Hb]; [lra|]. specialize (IH b Hb). nra.
Qed.

Lemma rates_nonneg_normalise raw probs mu :
  Forall (fun x => 0 <= x) raw -> Forall (fun x => 0 <= x) probs -> 0 <= mu_val mu ->
  rdot raw probs <> 0 ->
  Forall (fun x => 0 <= x) (normalise NumR raw probs mu).
Proof.
  intros Hr Hp Hmu Hm. unfold normalise. rewrite scale_opt_val, ndot_rdot.
  pose proof (rdot_nonneg _ _ Hr Hp) as Hd.
  assert (0 < rdot raw probs) by lra.
  apply Forall_map_nonneg; [intros; nra|].
  apply Forall_map_nonneg; [|assumption].
  intros x Hx; simpl. apply Rle_mult_inv_pos; assumption.
Qed.

(* ---- probabilities ---- *)
Lemma disc_probs_sum K inv : (0 < K)%nat -> rsum (disc_probs NumR K inv) = 1.
Proof.
  intros HK. assert (INR K <> 0) by (apply not_0_INR; lia).
  destruct inv as [p|]; unfold disc_probs; cbn [rsum]; rewrite rsum_repeat, ofNat_INR; simpl; field; auto.
Qed.

Lemma disc_probs_nonneg K inv :
  (0 < K)%nat -> (forall p, inv = Some p -> 0 <= p < 1) ->
  Forall (fun x => 0 <= x) (disc_probs NumR K inv).
Proof.
  intros HK Hp. assert (0 < INR K) by (apply lt_0_INR; lia).
  destruct inv as [p|]; unfold disc_probs.
  - destruct (Hp p eq_refl). constructor; [lra|]. apply Forall_forall; intros x Hx.
    apply repeat_spec in Hx; subst. rewrite ofNat_INR; simpl. apply Rle_mult_inv_pos; lra.
  - apply Forall_forall; intros x Hx. apply repeat_spec in Hx; subst. rewrite ofNat_INR; simpl.
    apply Rle_mult_inv_pos; lra.
Qed.

(* ---- Weibull raw rates are positive (whatever the shape), the invariant one is exactly 0 ---- *)
Lemma weibull_q_pos shape u : 0 < weibull_q NumR shape u.
Proof. unfold weibull_q; simpl. apply exp_pos. Qed.

Lemma weibull_raw_nonneg shape K inv : Forall (fun x => 0 <= x) (weibull_raw NumR shape K inv).
Proof.
  unfold weibull_raw.
  assert (H : Forall (fun x => 0 <= x) (map (weibull_q NumR shape) (quantiles K))).
  { apply Forall_forall; intros x Hx. apply in_map_iff in Hx. destruct Hx as [u [<- _]].
    left; apply weibull_q_pos. }
  destruct inv; [constructor; [simpl; lra|]|]; exact H.
Qed.

Lemma quantiles_from_length K k n : length (quantiles_from K k n) = n.
Proof. revert k; induction n; intros; simpl; auto. Qed.

Lemma rdot_pos_repeat (raw : list R) c :
  0 < c -> raw <> [] -> Forall (fun x => 0 < x) raw -> 0 < rdot raw (repeat c (length raw)).
Proof.
  intros Hc Hne Hr. destruct Hr as [|x raw Hx Hr]; [congruence|]. clear Hne.
  cbn [length repeat rdot].
  assert (0 <= rdot raw (repeat c (length raw))).
  { apply rdot_nonneg.
    - eapply Forall_impl; [|exact Hr]. intros; simpl in *; lra.
    - apply Forall_forall; intros y Hy; apply repeat_spec in Hy; subst; lra. }
  nra.
Qed.

Lemma weibull_mass_pos shape K inv :
  (0 < K)%nat -> (forall p, inv = Some p -> 0 <= p < 1) ->
  0 < rdot (weibull_raw NumR shape K inv) (disc_probs NumR K inv).
Proof.
  intros HK Hp. assert (0 < INR K) by (apply lt_0_INR; lia).
  set (r := map (weibull_q NumR shape) (quantiles K)).
  assert (Hlen : length r = K) by (unfold r, quantiles; rewrite map_length, quantiles_from_length; auto).
  assert (Hpos : Forall (fun x => 0 < x) r).
  { apply Forall_forall; intros x Hx. apply in_map_iff in Hx. destruct Hx as [u [<- _]].
    apply weibull_q_pos. }
  assert (Hne : r <> []) by (intro E; rewrite E in Hlen; simpl in Hlen; lia).
  unfold weibull_raw, disc_probs; fold r. destruct inv as [p|].
  - destruct (Hp p eq_refl). cbn [rdot]. rewrite <- Hlen at 2.
    assert (0 < rdot r (repeat (div NumR (sub NumR (one NumR) p) (ofNat NumR K)) (length r))).
    { apply rdot_pos_repeat; auto. rewrite ofNat_INR; simpl. apply Rdiv_lt_0_compat; lra. }
    simpl in *; lra.
  - rewrite <- Hlen at 2. apply rdot_pos_repeat; auto. rewrite ofNat_INR; simpl.
    apply Rdiv_lt_0_compat; lra.
Qed.

(* ---- exported statements ---- *)
Lemma C05_weibull_l shape K inv mu :
  (0 < K)%nat -> (forall p, inv = Some p -> 0 <= p < 1) -> 0 <= mu_val mu ->
  let rates := weibull_rates NumR shape K inv mu in
  let probs := disc_probs NumR K inv in
  rsum probs = 1 /\ Forall (fun x => 0 <= x) probs /\ Forall (fun x => 0 <= x) rates /\
  rdot rates probs = mu_val mu /\
  (forall p, inv = Some p -> hd 1 rates = 0 /\ hd 0 probs = p).
Proof.
  intros HK Hp Hmu rates probs.
  pose proof (weibull_mass_pos shape K inv HK Hp) as Hm.
  repeat split.
  - apply disc_probs_sum; assumption.
  - apply disc_probs_nonneg; assumption.
  - apply rates_nonneg_normalise;
      [apply weibull_raw_nonneg | apply disc_probs_nonneg; assumption | assumption
      | apply Rgt_not_eq; exact Hm].
  - apply mean_rate_normalise. apply Rgt_not_eq; exact Hm.
  - subst rates. subst inv. unfold weibull_rates, normalise, weibull_raw.
    rewrite scale_opt_val. cbn [map hd]. simpl. unfold Rdiv. lra.
  - subst inv. reflexivity.
Qed.

Lemma C05_invariant_l p mu :
  0 <= p < 1 -> 0 <= mu_val mu ->
  let rates := invariant_rates NumR p mu in
  let probs := invariant_probs NumR p in
  rsum probs = 1 /\ Forall (fun x => 0 <= x) probs /\ Forall (fun x => 0 <= x) rates /\
  rdot rates probs = mu_val mu /\ hd 1 rates = 0 /\ hd 0 probs = p.
Proof.
  intros [Hp0 Hp1] Hmu rates probs. subst rates probs.
  unfold invariant_rates, invariant_probs. rewrite scale_opt_val. simpl.
  assert (0 < / (1 - p)) by (apply Rinv_0_lt_compat; lra).
  repeat split; try lra.
  - constructor; [lra|]. constructor; [lra|constructor].
  - constructor; [nra|]. constructor; [unfold Rdiv; nra|constructor].
  - field; lra.
Qed.

Lemma C05_constant_l mu :
  0 <= mu_val mu ->
  rsum (constant_probs NumR) = 1 /\ rdot (constant_rates NumR mu) (constant_probs NumR) = mu_val mu
  /\ Forall (fun x => 0 <= x) (constant_rates NumR mu).
Proof.
  intros Hmu. destruct mu; simpl in *; repeat split; try lra; (constructor; [lra|constructor]).
Qed.
