(* Lemmas for C04: finite sums, list matrices, rate-matrix builders, normalisation,
   spectral form, Jukes-Cantor closed forms.  Everything over R (instance NumR). *)
From Coq Require Import QArith Reals List Arith Lia Lra Psatz Qreals.
Import ListNotations.
From TT Require Import Num NumR Tree M_subst.
Open Scope R_scope.

(* ------------------------------------------------------------------ finite sums *)
Definition Sum {A} (l : list A) (f : A -> R) : R := nsum NumR (map f l).

Lemma S_nil {A} (f : A -> R) : Sum [] f = 0.
Proof. reflexivity. Qed.
Lemma S_cons {A} x (l : list A) f : Sum (x :: l) f = f x + Sum l f.
Proof. reflexivity. Qed.
Lemma S_ext {A} (l : list A) f g : (forall k, In k l -> f k = g k) -> Sum l f = Sum l g.
Proof.
  induction l as [|x l IH]; intros H; [reflexivity|]. rewrite !S_cons.
  rewrite (H x) by (left; reflexivity). rewrite IH; [reflexivity|]. intros; apply H; right; assumption.
Qed.
Lemma S_plus {A} (l : list A) f g : Sum l (fun k => f k + g k) = Sum l f + Sum l g.
Proof. induction l as [|x l IH]; [rewrite !S_nil; lra|]. rewrite !S_cons, IH. lra. Qed.
Lemma S_scal {A} (l : list A) c f : Sum l (fun k => c * f k) = c * Sum l f.
Proof. induction l as [|x l IH]; [rewrite !S_nil; lra|]. rewrite !S_cons, IH. lra. Qed.
Lemma S_scal_r {A} (l : list A) c f : Sum l (fun k => f k * c) = Sum l f * c.
Proof. induction l as [|x l IH]; [rewrite !S_nil; lra|]. rewrite !S_cons, IH. lra. Qed.
Lemma S_zero {A} (l : list A) : Sum l (fun _ => 0) = 0.
Proof. induction l as [|x l IH]; [reflexivity|]. rewrite S_cons, IH. lra. Qed.
Lemma S_const {A} (l : list A) c : Sum l (fun _ => c) = INR (length l) * c.
Proof.
  induction l as [|x l IH]; [rewrite S_nil; simpl; lra|].
  rewrite S_cons, IH. cbn [length]. rewrite S_INR. lra.
Qed.
Lemma S_opp {A} (l : list A) f : Sum l (fun k => - f k) = - Sum l f.
Proof. induction l as [|x l IH]; [rewrite !S_nil; lra|]. rewrite !S_cons, IH. lra. Qed.
Lemma S_swap {A B} (l : list A) (m : list B) f :
  Sum l (fun i => Sum m (fun j => f i j)) = Sum m (fun j => Sum l (fun i => f i j)).
Proof.
  induction l as [|x l IH].
  - rewrite S_nil. symmetry. apply S_zero.
  - rewrite S_cons, IH. rewrite <- S_plus. apply S_ext. intros; rewrite S_cons; reflexivity.
Qed.
Lemma S_nonneg {A} (l : list A) f : (forall k, In k l -> 0 <= f k) -> 0 <= Sum l f.
Proof.
  induction l as [|x l IH]; intros H; [rewrite S_nil; lra|]. rewrite S_cons.
  assert (0 <= f x) by (apply H; left; reflexivity).
  assert (0 <= Sum l f) by (apply IH; intros; apply H; right; assumption). lra.
Qed.
Lemma S_delta_notin (l : list nat) i f : ~ In i l -> Sum l (fun k => if Nat.eqb k i then f k else 0) = 0.
Proof.
  induction l as [|x l IH]; intros H; [reflexivity|]. rewrite S_cons, IH.
  - destruct (Nat.eqb_spec x i); [|lra]. exfalso; apply H; left; assumption.
  - intro; apply H; right; assumption.
Qed.
Lemma S_delta (l : list nat) i f : NoDup l -> In i l -> Sum l (fun k => if Nat.eqb k i then f k else 0) = f i.
Proof.
  induction 1 as [|x l Hx Hl IH]; intros Hi; [destruct Hi|]. rewrite S_cons.
  destruct Hi as [->|Hi].
  - rewrite Nat.eqb_refl, S_delta_notin by assumption. lra.
  - rewrite IH by assumption. destruct (Nat.eqb_spec x i); [subst; contradiction|lra].
Qed.
Lemma S_mul {A B} (l : list A) (m : list B) f g :
  Sum l f * Sum m g = Sum l (fun i => Sum m (fun j => f i * g j)).
Proof.
  rewrite <- S_scal_r. apply S_ext; intros. rewrite S_scal. reflexivity.
Qed.

Notation Sumn n f := (Sum (seq 0 n) f).
Lemma sum_n_S n f : sum_n NumR n f = Sumn n f.
Proof. reflexivity. Qed.
Lemma Sn_delta n i f : (i < n)%nat -> Sumn n (fun k => if Nat.eqb k i then f k else 0) = f i.
Proof. intros; apply S_delta; [apply seq_NoDup|apply in_seq; lia]. Qed.
Lemma Sn_delta' n i f : (i < n)%nat -> Sumn n (fun k => if Nat.eqb i k then f k else 0) = f i.
Proof.
  intros. rewrite <- (Sn_delta n i f) by assumption. apply S_ext; intros. rewrite Nat.eqb_sym; reflexivity.
Qed.
Lemma Sn_const n c : Sumn n (fun _ => c) = INR n * c.
Proof. rewrite S_const, seq_length; reflexivity. Qed.
Lemma Sn_ext n f g : (forall k, (k < n)%nat -> f k = g k) -> Sumn n f = Sumn n g.
Proof. intros H; apply S_ext; intros k Hk; apply in_seq in Hk; apply H; lia. Qed.

(* ------------------------------------------------------------------ list matrices *)
Notation mkm := (@mk_mat R).
Notation mg := (mget NumR).
Notation vg := (vget NumR).

Lemma lk_map_seq {A} (f : nat -> A) n i d : (i < n)%nat -> lk (map f (seq 0 n)) i d = f i.
Proof.
  intros H. rewrite lk_nth. rewrite nth_indep with (d' := f 0%nat) by (rewrite map_length, seq_length; lia).
  rewrite map_nth. rewrite seq_nth by lia. reflexivity.
Qed.
Lemma mg_mkm n f i j : (i < n)%nat -> (j < n)%nat -> mg (mkm n f) i j = f i j.
Proof.
  intros Hi Hj. unfold mget, mk_mat. rewrite lk_map_seq by assumption. apply lk_map_seq; assumption.
Qed.
Lemma mkm_ext n f g : (forall i j, (i < n)%nat -> (j < n)%nat -> f i j = g i j) -> mkm n f = mkm n g.
Proof.
  intros H. unfold mk_mat. apply map_ext_in. intros i Hi. apply map_ext_in. intros j Hj.
  apply in_seq in Hi, Hj. apply H; lia.
Qed.
Lemma mkm_inj n f g i j : mkm n f = mkm n g -> (i < n)%nat -> (j < n)%nat -> f i j = g i j.
Proof. intros E Hi Hj. rewrite <- (mg_mkm n f i j), <- (mg_mkm n g i j) by assumption. rewrite E; reflexivity. Qed.

Definition wf (n : nat) (A : list (list R)) : Prop := length A = n /\ Forall (fun r => length r = n) A.
Lemma list_as_map {A} (l : list A) d : l = map (fun i => lk l i d) (seq 0 (length l)).
Proof.
  induction l as [|x l IH]; [reflexivity|]. cbn [length seq map lk]. f_equal.
  rewrite <- seq_shift, map_map. exact IH.
Qed.
Lemma wf_mkm n A : wf n A -> A = mkm n (mg A).
Proof.
  intros [Hl Hr]. unfold mk_mat, mget. rewrite (list_as_map A []) at 1. rewrite Hl.
  apply map_ext_in. intros i Hi. apply in_seq in Hi.
  assert (Hn : length (lk A i []) = n).
  { rewrite lk_nth. rewrite Forall_forall in Hr. apply Hr. apply nth_In. lia. }
  rewrite (list_as_map (lk A i []) 0) at 1. rewrite Hn. reflexivity.
Qed.
Lemma mkm_wf n f : wf n (mkm n f).
Proof.
  split; unfold mk_mat; [rewrite map_length, seq_length; reflexivity|].
  apply Forall_forall. intros r Hr. apply in_map_iff in Hr. destruct Hr as [i [<- _]].
  rewrite map_length, seq_length; reflexivity.
Qed.
Lemma vec_as_map n v : length v = n -> v = map (vg v) (seq 0 n).
Proof. intros <-. apply list_as_map. Qed.

(* vector operations on lists written as maps over the same index list *)
Lemma vadd_map {A} (l : list A) f g : vadd NumR (map f l) (map g l) = map (fun k => f k + g k) l.
Proof. induction l as [|x l IH]; [reflexivity|]. cbn [map vadd]. rewrite IH. reflexivity. Qed.
Lemma vmul_map {A} (l : list A) f g : vmul NumR (map f l) (map g l) = map (fun k => f k * g k) l.
Proof. induction l as [|x l IH]; [reflexivity|]. cbn [map vmul]. rewrite IH. reflexivity. Qed.
Lemma repeat_map {A} (l : list A) (c : R) : repeat c (length l) = map (fun _ => c) l.
Proof. induction l as [|x l IH]; [reflexivity|]. cbn. rewrite IH; reflexivity. Qed.

Lemma vec_mat_map (ks js : list nat) a g :
  vec_mat NumR (length js) (map a ks) (map (fun k => map (g k) js) ks)
  = map (fun j => Sum ks (fun k => a k * g k j)) js.
Proof.
  induction ks as [|k ks IH].
  - cbn [map vec_mat]. rewrite repeat_map. reflexivity.
  - cbn [map vec_mat]. rewrite IH. unfold vscale. rewrite map_map, vadd_map.
    apply map_ext. intros j. rewrite S_cons. reflexivity.
Qed.
Lemma mmul_mkm n f g : mmul NumR n (mkm n f) (mkm n g) = mkm n (fun i j => Sumn n (fun k => f i k * g k j)).
Proof.
  unfold mmul, mk_mat. rewrite map_map. apply map_ext. intros i.
  pose proof (vec_mat_map (seq 0 n) (seq 0 n) (f i) g) as H. rewrite seq_length in H. exact H.
Qed.

(* ------------------------------------------------------------------ rate-matrix builders *)
Section Builders.
Variables (n : nat) (r : nat -> nat -> R) (pi : list R).
Let Q := q_of_R NumR n r pi.

Lemma qe_diag i : q_entry NumR n r pi i i = - Sumn n (fun k => if Nat.eqb k i then 0 else r i k * vg pi k).
Proof. unfold q_entry. rewrite Nat.eqb_refl. reflexivity. Qed.
Lemma qe_off i j : i <> j -> q_entry NumR n r pi i j = r i j * vg pi j.
Proof. intros H. unfold q_entry. destruct (Nat.eqb_spec i j); [contradiction|reflexivity]. Qed.

Lemma q_row_sum i : (i < n)%nat -> Sumn n (fun j => q_entry NumR n r pi i j) = 0.
Proof.
  intros Hi.
  set (o := fun k => if Nat.eqb k i then 0 else r i k * vg pi k).
  rewrite (S_ext _ _ (fun j => o j + (if Nat.eqb j i then - Sumn n o else 0))).
  - rewrite S_plus. rewrite (Sn_delta n i (fun _ => - Sumn n o)) by assumption. lra.
  - intros j _. unfold o. destruct (Nat.eqb_spec j i) as [->|Hji].
    + rewrite qe_diag. lra.
    + rewrite qe_off by congruence. lra.
Qed.

(* rows sum to zero, as a statement about the list of rows *)
Lemma q_rows_sum_zero : Forall (fun row => nsum NumR row = 0) Q.
Proof.
  apply Forall_forall. intros row Hr. unfold Q, q_of_R, mk_mat in Hr.
  apply in_map_iff in Hr. destruct Hr as [i [<- Hi]]. apply in_seq in Hi.
  apply (q_row_sum i). lia.
Qed.

Lemma q_entry_mg i j : (i < n)%nat -> (j < n)%nat -> mg Q i j = q_entry NumR n r pi i j.
Proof. intros; unfold Q, q_of_R; apply mg_mkm; assumption. Qed.

Lemma vg_nonneg (v : list R) k : Forall (fun x => 0 <= x) v -> 0 <= vg v k.
Proof.
  intros H. unfold vget. revert k. induction H as [|x v Hx Hv IH]; intros k; cbn [lk NumR zero]; [lra|].
  destruct k; auto.
Qed.

Lemma q_offdiag_nonneg :
  (forall i j, 0 <= r i j) -> Forall (fun x => 0 <= x) pi ->
  forall i j, (i < n)%nat -> (j < n)%nat -> i <> j -> 0 <= mg Q i j.
Proof.
  intros Hr Hp i j Hi Hj Hij. rewrite q_entry_mg, qe_off by assumption.
  apply Rmult_le_pos; [apply Hr|apply vg_nonneg; assumption].
Qed.

Lemma q_diag_nonpos :
  (forall i j, 0 <= r i j) -> Forall (fun x => 0 <= x) pi ->
  forall i, (i < n)%nat -> mg Q i i <= 0.
Proof.
  intros Hr Hp i Hi. rewrite q_entry_mg, qe_diag by assumption.
  assert (0 <= Sumn n (fun k => if Nat.eqb k i then 0 else r i k * vg pi k)); [|lra].
  apply S_nonneg. intros k _. destruct (Nat.eqb k i); [lra|].
  apply Rmult_le_pos; [apply Hr|apply vg_nonneg; assumption].
Qed.

Lemma q_detailed_balance :
  (forall i j, r i j = r j i) ->
  forall i j, (i < n)%nat -> (j < n)%nat -> vg pi i * mg Q i j = vg pi j * mg Q j i.
Proof.
  intros Hs i j Hi Hj. destruct (Nat.eq_dec i j) as [->|Hij]; [reflexivity|].
  rewrite !q_entry_mg, !qe_off by (assumption || congruence). rewrite (Hs i j). ring.
Qed.

Lemma q_pi_stationary :
  (forall i j, r i j = r j i) ->
  forall j, (j < n)%nat -> Sumn n (fun i => vg pi i * mg Q i j) = 0.
Proof.
  intros Hs j Hj.
  rewrite (Sn_ext n _ (fun i => vg pi j * q_entry NumR n r pi j i)).
  - rewrite S_scal, q_row_sum by assumption. lra.
  - intros i Hi. rewrite q_detailed_balance by assumption. rewrite q_entry_mg by assumption. reflexivity.
Qed.
End Builders.

(* the exchangeability functions of the concrete builders *)
Lemma r_sym_symm n rates mapping i j : r_sym NumR n rates mapping i j = r_sym NumR n rates mapping j i.
Proof.
  unfold r_sym. destruct (Nat.ltb_spec i j), (Nat.ltb_spec j i); try reflexivity; lia.
Qed.
Lemma r_emp_symm n rates i j : r_emp NumR n rates i j = r_emp NumR n rates j i.
Proof.
  unfold r_emp. destruct (Nat.ltb_spec i j), (Nat.ltb_spec j i); try reflexivity; lia.
Qed.
Lemma r_mg94_symm table trip k a b i j : r_mg94 NumR table trip k a b i j = r_mg94 NumR table trip k a b j i.
Proof.
  unfold r_mg94. destruct (Nat.ltb_spec i j), (Nat.ltb_spec j i); try reflexivity; lia.
Qed.
Lemma r_sym_nonneg n rates mapping i j : Forall (fun x => 0 <= x) rates -> 0 <= r_sym NumR n rates mapping i j.
Proof.
  intros H. unfold r_sym. destruct (Nat.ltb i j); [apply vg_nonneg; assumption|].
  destruct (Nat.ltb j i); [apply vg_nonneg; assumption|]. cbn; lra.
Qed.
Lemma r_nonsym_nonneg n rates mapping i j : Forall (fun x => 0 <= x) rates -> 0 <= r_nonsym NumR n rates mapping i j.
Proof.
  intros H. unfold r_nonsym. destruct (Nat.ltb i j); [apply vg_nonneg; assumption|].
  destruct (Nat.ltb j i); [apply vg_nonneg; assumption|]. cbn; lra.
Qed.
Lemma r_emp_nonneg n rates i j : Forall (fun x => 0 <= x) rates -> 0 <= r_emp NumR n rates i j.
Proof.
  intros H. unfold r_emp. destruct (Nat.ltb i j); [apply vg_nonneg; assumption|].
  destruct (Nat.ltb j i); [apply vg_nonneg; assumption|]. cbn; lra.
Qed.
Lemma mg94_factor_nonneg trip aa k a b i j :
  0 <= k -> 0 <= a -> 0 <= b -> 0 <= mg94_factor NumR trip aa k a b i j.
Proof.
  intros Hk Ha Hb. unfold mg94_factor. cbn [mul one NumR].
  destruct (Nat.eqb _ 1); [|lra].
  destruct (is_transition _); destruct (Nat.eqb (lk aa i 0%nat) (lk aa j 0%nat));
    repeat apply Rmult_le_pos; lra.
Qed.
Lemma r_mg94_nonneg table trip k a b i j :
  0 <= k -> 0 <= a -> 0 <= b -> 0 <= r_mg94 NumR table trip k a b i j.
Proof.
  intros Hk Ha Hb. unfold r_mg94. destruct (Nat.ltb i j); [apply mg94_factor_nonneg; assumption|].
  destruct (Nat.ltb j i); [apply mg94_factor_nonneg; assumption|]. cbn; lra.
Qed.

(* ------------------------------------------------------------------ normalisation *)
Lemma lk_map {A B} (f : A -> B) (l : list A) i d d' : d' = f d -> lk (map f l) i d' = f (lk l i d).
Proof. intros ->. revert i; induction l as [|x l IH]; intros [|i]; cbn; auto. Qed.
Lemma mg_mdiv Q c i j : mg (mdiv NumR Q c) i j = mg Q i j / c.
Proof.
  unfold mget, mdiv.
  rewrite (lk_map (map (fun x : R => div NumR x c)) Q i [] []) by reflexivity.
  rewrite (lk_map (fun x : R => div NumR x c) (lk Q i []) j (zero NumR) (zero NumR)).
  - reflexivity.
  - cbn. unfold Rdiv. ring.
Qed.
Lemma norm_mdiv n Q pi c : norm NumR n (mdiv NumR Q c) pi = norm NumR n Q pi / c.
Proof.
  unfold norm. rewrite !sum_n_S.
  rewrite (S_ext _ (fun i => mul NumR (mg (mdiv NumR Q c) i i) (vg pi i))
                   (fun i => / c * (mul NumR (mg Q i i) (vg pi i)))).
  - rewrite S_scal. cbn [opp NumR]. unfold Rdiv. ring.
  - intros i _. rewrite mg_mdiv. cbn [mul NumR]. unfold Rdiv. ring.
Qed.
Lemma normalised_unit n Q pi :
  norm NumR n Q pi <> 0 -> norm NumR n (normalised NumR n Q pi) pi = 1.
Proof. intros H. unfold normalised. rewrite norm_mdiv. field. exact H. Qed.

(* normalising keeps the structure *)
Lemma mdiv_rows_sum_zero Q c : Forall (fun row => nsum NumR row = 0) Q ->
  Forall (fun row => nsum NumR row = 0) (mdiv NumR Q c).
Proof.
  intros H. unfold mdiv. apply Forall_forall. intros row Hr. apply in_map_iff in Hr.
  destruct Hr as [row0 [<- Hin]]. rewrite Forall_forall in H. specialize (H row0 Hin).
  change (Sum row0 (fun x => div NumR x c) = 0). cbn [div NumR]. unfold Rdiv.
  rewrite S_scal_r. change (Sum row0 (fun x => x)) with (nsum NumR (map (fun x => x) row0)).
  rewrite map_id, H. ring.
Qed.

(* ------------------------------------------------------------------ spectral form *)
Set Warnings "-ambiguous-paths".
From Coquelicot Require Import Coquelicot.
Set Warnings "ambiguous-paths".

Lemma is_derive_S {A} (l : list A) (f : A -> R -> R) (d : A -> R) x :
  (forall k, In k l -> is_derive (f k) x (d k)) ->
  is_derive (fun t => Sum l (fun k => f k t)) x (Sum l d).
Proof.
  induction l as [|a l IH]; intros H.
  - apply (is_derive_ext (fun _ => 0)); [intros; reflexivity|]. rewrite S_nil. apply @is_derive_const.
  - apply (is_derive_ext (fun t => f a t + Sum l (fun k => f k t))); [intros; rewrite S_cons; reflexivity|].
    rewrite S_cons. apply @is_derive_plus.
    + apply H; left; reflexivity.
    + apply IH; intros; apply H; right; assumption.
Qed.

Lemma mident_mkm n : mident NumR n = mkm n (fun i j => if Nat.eqb i j then 1 else 0).
Proof. reflexivity. Qed.

Section Spectral.
Variables (n : nat) (A B : list (list R)) (lam : list R).
Hypothesis HA : wf n A.
Hypothesis HB : wf n B.
Hypothesis Hl : length lam = n.
Let a := mg A.
Let b := mg B.
Let l := vg lam.

Definition pf (t : R) (i j : nat) : R := Sumn n (fun k => a i k * exp (l k * t) * b k j).

Lemma scale_cols_mkm (g : R -> R) :
  map (fun row => vmul NumR row (map g lam)) A = mkm n (fun i k => a i k * g (l k)).
Proof.
  rewrite (wf_mkm n A HA) at 1. unfold mk_mat. rewrite map_map. apply map_ext. intros i.
  rewrite (vec_as_map n lam Hl) at 1. rewrite map_map, vmul_map. reflexivity.
Qed.

Lemma p_spectral_mkm t : p_spectral NumR n A lam B t = mkm n (pf t).
Proof.
  unfold p_spectral. rewrite (scale_cols_mkm (fun x => nexp NumR (mul NumR x t))).
  rewrite (wf_mkm n B HB) at 1. rewrite mmul_mkm. reflexivity.
Qed.

Lemma AlamB_mkm :
  mmul NumR n (map (fun row => vmul NumR row lam) A) B = mkm n (fun i j => Sumn n (fun k => a i k * l k * b k j)).
Proof.
  replace (map (fun row => vmul NumR row lam) A)
    with (map (fun row => vmul NumR row (map (fun x : R => x) lam)) A) by (rewrite map_id; reflexivity).
  rewrite (scale_cols_mkm (fun x => x)).
  rewrite (wf_mkm n B HB) at 1. rewrite mmul_mkm. reflexivity.
Qed.

Hypothesis HAB : mmul NumR n A B = mident NumR n.
Hypothesis HBA : mmul NumR n B A = mident NumR n.

Lemma ab_delta i j : (i < n)%nat -> (j < n)%nat -> Sumn n (fun k => a i k * b k j) = if Nat.eqb i j then 1 else 0.
Proof.
  intros Hi Hj. pose proof HAB as H. rewrite (wf_mkm n A HA), (wf_mkm n B HB), mmul_mkm, mident_mkm in H.
  exact (mkm_inj _ _ _ i j H Hi Hj).
Qed.
Lemma ba_delta i j : (i < n)%nat -> (j < n)%nat -> Sumn n (fun k => b i k * a k j) = if Nat.eqb i j then 1 else 0.
Proof.
  intros Hi Hj. pose proof HBA as H. rewrite (wf_mkm n A HA), (wf_mkm n B HB), mmul_mkm, mident_mkm in H.
  exact (mkm_inj _ _ _ i j H Hi Hj).
Qed.

Lemma spectral_P0 : p_spectral NumR n A lam B 0 = mident NumR n.
Proof.
  rewrite p_spectral_mkm, mident_mkm. apply mkm_ext. intros i j Hi Hj.
  rewrite <- ab_delta by assumption. unfold pf. apply S_ext. intros k _.
  rewrite Rmult_0_r, exp_0. ring.
Qed.

Lemma spectral_semigroup s t :
  mmul NumR n (p_spectral NumR n A lam B s) (p_spectral NumR n A lam B t) = p_spectral NumR n A lam B (s + t).
Proof.
  rewrite !p_spectral_mkm, mmul_mkm. apply mkm_ext. intros i j Hi Hj. unfold pf.
  (* expand the product of sums, bring the contracted index inside *)
  rewrite (S_ext _ _ (fun m => Sumn n (fun k => Sumn n (fun q =>
            (a i k * exp (l k * s) * b k m) * (a m q * exp (l q * t) * b q j)))))
    by (intros; apply S_mul).
  rewrite S_swap.
  apply Sn_ext. intros k Hk.
  rewrite S_swap.
  rewrite (Sn_ext n _ (fun q => (a i k * exp (l k * s) * exp (l q * t) * b q j) * (if Nat.eqb k q then 1 else 0))).
  - rewrite (Sn_ext n _ (fun q => if Nat.eqb k q then a i k * exp (l k * s) * exp (l q * t) * b q j else 0)).
    + rewrite Sn_delta' by assumption. rewrite Rmult_plus_distr_l, exp_plus. ring.
    + intros q _. destruct (Nat.eqb k q); ring.
  - intros q Hq. rewrite <- (ba_delta k q) by assumption. rewrite <- S_scal. apply S_ext. intros m _. ring.
Qed.

(* generator: if A diag(lam) B = Q then P'(0) = Q entrywise *)
Lemma spectral_generator Q :
  mmul NumR n (map (fun row => vmul NumR row lam) A) B = Q ->
  forall i j, (i < n)%nat -> (j < n)%nat ->
  is_derive (fun t => mg (p_spectral NumR n A lam B t) i j) 0 (mg Q i j).
Proof.
  intros HQ i j Hi Hj. rewrite <- HQ, AlamB_mkm, mg_mkm by assumption.
  apply (is_derive_ext (fun t => pf t i j)).
  - intros t. rewrite p_spectral_mkm, mg_mkm by assumption. reflexivity.
  - unfold pf. apply is_derive_S. intros k _.
    auto_derive; [trivial|]. rewrite Rmult_0_r, exp_0. ring.
Qed.

(* continuity in t (needed by the uniqueness theorem of the matrix exponential) *)
Lemma spectral_continuous i j t : (i < n)%nat -> (j < n)%nat ->
  continuous (fun t => mg (p_spectral NumR n A lam B t) i j) t.
Proof.
  intros Hi Hj. apply (continuous_ext (fun t => pf t i j)).
  - intros u. rewrite p_spectral_mkm, mg_mkm by assumption. reflexivity.
  - apply (ex_derive_continuous (fun t => pf t i j)). exists (Sumn n (fun k => a i k * (l k * exp (l k * t)) * b k j)).
    unfold pf. apply is_derive_S. intros k _. auto_derive; [trivial|]. ring.
Qed.

(* rows of P(t) sum to one when the rows of Q = A diag(lam) B sum to zero *)
Lemma spectral_rows_sum_one :
  (forall i, (i < n)%nat -> Sumn n (fun j => Sumn n (fun k => a i k * l k * b k j)) = 0) ->
  forall t i, (i < n)%nat -> Sumn n (fun j => mg (p_spectral NumR n A lam B t) i j) = 1.
Proof.
  intros HQ t i Hi.
  set (beta := fun k => Sumn n (fun j => b k j)).
  assert (Hlb : forall m, (m < n)%nat -> l m * beta m = 0).
  { intros m Hm.
    assert (Hrow : forall i0, (i0 < n)%nat -> Sumn n (fun k => a i0 k * (l k * beta k)) = 0).
    { intros i0 Hi0. etransitivity; [|exact (HQ i0 Hi0)].
      rewrite (S_swap (seq 0 n) (seq 0 n) (fun j k => a i0 k * l k * b k j)).
      apply S_ext. intros k _. unfold beta. rewrite <- !S_scal. apply S_ext; intros; ring. }
    assert (E : Sumn n (fun i0 => b m i0 * Sumn n (fun k => a i0 k * (l k * beta k))) = 0).
    { rewrite (Sn_ext n _ (fun _ => 0)) by (intros i0 Hi0; rewrite Hrow by assumption; ring). apply S_zero. }
    rewrite (Sn_ext n _ (fun i0 => Sumn n (fun k => (l k * beta k) * (b m i0 * a i0 k)))) in E
      by (intros; rewrite <- S_scal; apply S_ext; intros; ring).
    rewrite S_swap in E.
    rewrite (Sn_ext n _ (fun k => if Nat.eqb m k then l k * beta k else 0)) in E.
    - rewrite Sn_delta' in E by assumption. exact E.
    - intros k Hk. rewrite S_scal, ba_delta by assumption. destruct (Nat.eqb m k); ring. }
  rewrite (Sn_ext n _ (fun j => pf t i j)) by (intros; rewrite p_spectral_mkm, mg_mkm by assumption; reflexivity).
  unfold pf. rewrite S_swap.
  rewrite (Sn_ext n _ (fun k => a i k * beta k)).
  - unfold beta. rewrite (Sn_ext n _ (fun k => Sumn n (fun j => a i k * b k j))) by (intros; rewrite S_scal; reflexivity).
    rewrite S_swap. rewrite (Sn_ext n _ (fun j => if Nat.eqb i j then 1 else 0)) by (intros; apply ab_delta; assumption).
    rewrite (Sn_delta' n i (fun _ => 1)) by assumption. reflexivity.
  - intros k Hk. rewrite S_scal. replace (Sumn n (b k)) with (beta k) by reflexivity.
    destruct (Req_dec (l k) 0) as [E|E].
    + rewrite E, Rmult_0_l, exp_0. ring.
    + assert (beta k = 0) as ->; [|ring].
      specialize (Hlb k Hk). apply Rmult_integral in Hlb. destruct Hlb; [contradiction|assumption].
Qed.
End Spectral.

(* ------------------------------------------------------------------ symmetrisation *)
Section Symmetrise.
Variables (n : nat) (Q : list (list R)) (pi : list R).
Hypothesis Hpos : forall i, (i < n)%nat -> 0 < vg pi i.

Lemma symmetrised_entry i j : (i < n)%nat -> (j < n)%nat ->
  mg (symmetrised NumR n Q pi) i j = sqrt (vg pi i) * mg Q i j / sqrt (vg pi j).
Proof. intros; unfold symmetrised; rewrite mg_mkm by assumption; reflexivity. Qed.

(* Smat = sqrt(pi) Q sqrt(pi)^-1 is symmetric exactly when detailed balance holds *)
Lemma symmetrised_symmetric_iff :
  (forall i j, (i < n)%nat -> (j < n)%nat ->
     mg (symmetrised NumR n Q pi) i j = mg (symmetrised NumR n Q pi) j i) <->
  (forall i j, (i < n)%nat -> (j < n)%nat -> vg pi i * mg Q i j = vg pi j * mg Q j i).
Proof.
  split; intros H i j Hi Hj; specialize (H i j Hi Hj).
  - rewrite !symmetrised_entry in H by assumption.
    pose proof (sqrt_lt_R0 _ (Hpos i Hi)) as Si. pose proof (sqrt_lt_R0 _ (Hpos j Hj)) as Sj.
    rewrite <- (sqrt_sqrt (vg pi i)) by (left; auto). rewrite <- (sqrt_sqrt (vg pi j)) by (left; auto).
    apply (f_equal (fun x => x * (sqrt (vg pi i) * sqrt (vg pi j)))) in H.
    field_simplify in H; [|lra|lra]. lra.
  - rewrite !symmetrised_entry by assumption.
    pose proof (sqrt_lt_R0 _ (Hpos i Hi)) as Si. pose proof (sqrt_lt_R0 _ (Hpos j Hj)) as Sj.
    rewrite <- (sqrt_sqrt (vg pi i)) in H by (left; auto). rewrite <- (sqrt_sqrt (vg pi j)) in H by (left; auto).
    apply (Rmult_eq_reg_r (sqrt (vg pi i) * sqrt (vg pi j))); [|apply Rgt_not_eq; apply Rmult_lt_0_compat; assumption].
    field_simplify; [|lra|lra]. lra.
Qed.

(* from an eigendecomposition Smat = V diag(lam) W, W = V^-1, the code's factors
   A = sqrt(pi)^-1 V and B = W sqrt(pi) are mutually inverse and A diag(lam) B = Q *)
Variables (V W : list (list R)) (lam : list R).
Hypothesis HQ : wf n Q.
Hypothesis HV : wf n V.
Hypothesis HW : wf n W.
Hypothesis Hl : length lam = n.
Hypothesis HVW : mmul NumR n V W = mident NumR n.
Hypothesis HWV : mmul NumR n W V = mident NumR n.
Hypothesis Heig : mmul NumR n (map (fun row => vmul NumR row lam) V) W = symmetrised NumR n Q pi.
Let A := spectral_A NumR n V pi.
Let B := spectral_B NumR n W pi.

Lemma factors_wf : wf n A /\ wf n B.
Proof. split; apply mkm_wf. Qed.

Lemma factors_AB : mmul NumR n A B = mident NumR n.
Proof.
  unfold A, B, spectral_A, spectral_B. rewrite mmul_mkm, mident_mkm. apply mkm_ext. intros i j Hi Hj.
  pose proof (ab_delta n V W HV HW HVW i j Hi Hj) as E.
  pose proof (sqrt_lt_R0 _ (Hpos i Hi)) as Si. pose proof (sqrt_lt_R0 _ (Hpos j Hj)) as Sj.
  rewrite (S_ext _ _ (fun k => (sqrt (vg pi j) / sqrt (vg pi i)) * (mg V i k * mg W k j))).
  - rewrite S_scal, E. destruct (Nat.eqb_spec i j) as [->|]; [field; lra|ring].
  - intros k _. cbn [div mul nsqrt NumR]. field. lra.
Qed.

Lemma factors_BA : mmul NumR n B A = mident NumR n.
Proof.
  unfold A, B, spectral_A, spectral_B. rewrite mmul_mkm, mident_mkm. apply mkm_ext. intros i j Hi Hj.
  rewrite <- (ba_delta n V W HV HW HWV i j Hi Hj).
  apply Sn_ext. intros k Hk. pose proof (sqrt_lt_R0 _ (Hpos k Hk)) as Sk.
  cbn [div mul nsqrt NumR]. field. lra.
Qed.

Lemma factors_generate_Q :
  mmul NumR n (map (fun row => vmul NumR row lam) A) B = Q.
Proof.
  destruct factors_wf as [HAw HBw].
  rewrite (AlamB_mkm n A B lam HAw HBw Hl). rewrite (wf_mkm n Q HQ) at 1. apply mkm_ext. intros i j Hi Hj.
  pose proof Heig as E. rewrite (AlamB_mkm n V W lam HV HW Hl) in E.
  assert (E2 := f_equal (fun M => mg M i j) E). cbn beta in E2.
  rewrite mg_mkm, symmetrised_entry in E2 by assumption.
  pose proof (sqrt_lt_R0 _ (Hpos i Hi)) as Si. pose proof (sqrt_lt_R0 _ (Hpos j Hj)) as Sj.
  unfold A, B, spectral_A, spectral_B.
  rewrite (Sn_ext n _ (fun k => (sqrt (vg pi j) / sqrt (vg pi i)) * (mg V i k * vg lam k * mg W k j))).
  - rewrite S_scal, E2. field. lra.
  - intros k Hk. rewrite !mg_mkm by assumption. cbn [div mul nsqrt NumR]. field. lra.
Qed.
End Symmetrise.

(* ------------------------------------------------------------------ bundled statements *)
(* a rate matrix: rows sum to zero, off-diagonal entries non-negative *)
Definition rate_matrix (n : nat) (Q : list (list R)) : Prop :=
  List.Forall (fun row => nsum NumR row = 0) Q /\
  (forall i j, (i < n)%nat -> (j < n)%nat -> i <> j -> 0 <= mg Q i j).
(* reversible w.r.t. pi: detailed balance and stationarity *)
Definition reversible (n : nat) (Q : list (list R)) (pi : list R) : Prop :=
  (forall i j, (i < n)%nat -> (j < n)%nat -> vg pi i * mg Q i j = vg pi j * mg Q j i) /\
  (forall j, (j < n)%nat -> Sumn n (fun i => vg pi i * mg Q i j) = 0).

Lemma builder_rate_matrix n r pi :
  (forall i j, 0 <= r i j) -> List.Forall (fun x => 0 <= x) pi -> rate_matrix n (q_of_R NumR n r pi).
Proof. intros Hr Hp. split; [apply q_rows_sum_zero|apply q_offdiag_nonneg; assumption]. Qed.
Lemma builder_reversible n r pi :
  (forall i j, r i j = r j i) -> reversible n (q_of_R NumR n r pi) pi.
Proof. intros Hs. split; [apply q_detailed_balance|apply q_pi_stationary]; assumption. Qed.

Lemma S_pos {A} (l : list A) f k0 :
  (forall k, In k l -> 0 <= f k) -> In k0 l -> 0 < f k0 -> 0 < Sum l f.
Proof.
  induction l as [|x l IH]; intros H Hin Hk; [destruct Hin|]. rewrite S_cons.
  destruct Hin as [->|Hin].
  - assert (0 <= Sum l f) by (apply S_nonneg; intros; apply H; right; assumption). lra.
  - assert (0 <= f x) by (apply H; left; reflexivity).
    assert (0 < Sum l f) by (apply IH; auto; intros; apply H; right; assumption). lra.
Qed.

(* on the open domain (positive exchangeabilities and frequencies, at least two states) the
   normalising constant is positive *)
Lemma builder_norm_pos n r pi :
  (2 <= n)%nat -> (forall i j, (i < n)%nat -> (j < n)%nat -> i <> j -> 0 < r i j) ->
  (forall i, (i < n)%nat -> 0 < vg pi i) -> 0 < M_subst.norm NumR n (q_of_R NumR n r pi) pi.
Proof.
  intros Hn Hr Hp. unfold M_subst.norm. rewrite sum_n_S. cbn [opp NumR]. rewrite <- S_opp.
  assert (T : forall i, (i < n)%nat ->
              0 <= Sumn n (fun k => if Nat.eqb k i then 0 else r i k * vg pi k)).
  { intros i Hi. apply S_nonneg. intros k Hk. apply in_seq in Hk. destruct (Nat.eqb_spec k i); [lra|].
    apply Rlt_le, Rmult_lt_0_compat; [apply Hr; (lia || congruence)|apply Hp; lia]. }
  apply (S_pos _ _ 0%nat).
  - intros i Hi. apply in_seq in Hi. rewrite q_entry_mg, qe_diag by lia. cbn [mul NumR].
    specialize (T i ltac:(lia)). specialize (Hp i ltac:(lia)). nra.
  - apply in_seq; lia.
  - rewrite q_entry_mg, qe_diag by lia. cbn [mul NumR].
    assert (0 < Sumn n (fun k => if Nat.eqb k 0 then 0 else r 0%nat k * vg pi k)).
    { apply (S_pos _ _ 1%nat).
      - intros k Hk. apply in_seq in Hk. destruct (Nat.eqb_spec k 0); [lra|].
        apply Rlt_le, Rmult_lt_0_compat; [apply Hr; lia|apply Hp; lia].
      - apply in_seq; lia.
      - cbn [Nat.eqb]. apply Rmult_lt_0_compat; [apply Hr; lia|apply Hp; lia]. }
    specialize (Hp 0%nat ltac:(lia)). nra.
Qed.

(* dividing by a positive constant keeps a (reversible) rate matrix one *)
Lemma mdiv_rate_matrix n Q c : 0 < c -> rate_matrix n Q -> rate_matrix n (mdiv NumR Q c).
Proof.
  intros Hc [H1 H2]. split; [apply mdiv_rows_sum_zero; assumption|].
  intros i j Hi Hj Hij. rewrite mg_mdiv. apply Rmult_le_pos; [apply H2; assumption|].
  left; apply Rinv_0_lt_compat; assumption.
Qed.
Lemma mdiv_reversible n Q pi c : reversible n Q pi -> reversible n (mdiv NumR Q c) pi.
Proof.
  intros [H1 H2]. split.
  - intros i j Hi Hj. rewrite !mg_mdiv. unfold Rdiv. rewrite <- !Rmult_assoc, (H1 i j Hi Hj). reflexivity.
  - intros j Hj. rewrite (S_ext _ _ (fun i => (vg pi i * mg Q i j) * / c)).
    + rewrite S_scal_r, (H2 j Hj). ring.
    + intros i _. rewrite mg_mdiv. unfold Rdiv. ring.
Qed.

(* SymmetricSubstitutionModel.p_t / EmpiricalSubstitutionModel.p_t: for ANY exact eigendecomposition
   V diag(lam) V^-1 of the symmetrised matrix, the formula
   (sqrt_pi_inv V) diag(exp(lam t)) (V^-1 sqrt_pi) is a semigroup with P(0) = I whose generator is Q,
   and its rows sum to one when the rows of Q sum to zero. *)
Lemma symmetric_p_t n Q pi V W lam :
  (forall i, (i < n)%nat -> 0 < vg pi i) -> wf n Q -> wf n V -> wf n W -> length lam = n ->
  mmul NumR n V W = mident NumR n -> mmul NumR n W V = mident NumR n ->
  mmul NumR n (map (fun row => vmul NumR row lam) V) W = symmetrised NumR n Q pi ->
  let P := p_spectral NumR n (spectral_A NumR n V pi) lam (spectral_B NumR n W pi) in
  P 0 = mident NumR n /\
  (forall s t, mmul NumR n (P s) (P t) = P (s + t)) /\
  (forall i j, (i < n)%nat -> (j < n)%nat -> is_derive (fun t => mg (P t) i j) 0 (mg Q i j)) /\
  (forall i j t, (i < n)%nat -> (j < n)%nat -> continuous (fun t => mg (P t) i j) t) /\
  (List.Forall (fun row => nsum NumR row = 0) Q ->
   forall t i, (i < n)%nat -> Sumn n (fun j => mg (P t) i j) = 1).
Proof.
  intros Hp HQ HV HW Hl HVW HWV He P.
  destruct (factors_wf n pi V W) as [HAw HBw].
  pose proof (factors_AB n pi Hp V W HV HW HVW) as HAB.
  pose proof (factors_BA n pi Hp V W HV HW HWV) as HBA.
  pose proof (factors_generate_Q n Q pi Hp V W lam HQ HV HW Hl He) as HG.
  split; [apply spectral_P0; assumption|].
  split; [intros; apply spectral_semigroup; assumption|].
  split; [intros; apply spectral_generator; assumption|].
  split; [intros; apply spectral_continuous; assumption|].
  intros Hrows t i Hi. apply spectral_rows_sum_one; try assumption.
  intros i0 Hi0.
  pose proof HG as E. rewrite (AlamB_mkm n _ _ lam HAw HBw Hl) in E.
  rewrite <- E in Hrows. rewrite Forall_forall in Hrows. unfold Sum at 1.
  apply Hrows. unfold mk_mat. apply in_map_iff. exists i0. split; [reflexivity|apply in_seq; lia].
Qed.
