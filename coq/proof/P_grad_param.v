(* C12: free theorems of the density models at the dual-number instance: the NumD run encloses
   the derivative (w.r.t. one real variable through which every input may depend) of the
   real-valued reading of the SAME model term. *)
From Coq Require Import QArith Reals List.
From Coquelicot Require Import Coquelicot.
From Param Require Import Param.
From TT Require Import Num NumR NumI ParamI NumD ParamD Tree M_like M_height M_site P_like_param P_height_param P_site_param.

(* tree likelihood: every input (frequencies, matrices per category and node, proportions, pattern
   weights and tip vectors) is a function of the variable; the dual run encloses value and derivative *)
Lemma loglik_derivative_enclosed x0 S freqs Freqs Ps PS props Props t pats Pats :
  list_R _ _ (relD x0) freqs Freqs ->
  list_R _ _ (fun P P' => forall j j', nat_R j j' -> list_R _ _ (list_R _ _ (relD x0)) (P j) (P' j')) Ps PS ->
  list_R _ _ (relD x0) props Props ->
  list_R _ _ (P_like_param.Coq_o_Init_o_Datatypes_o_prod_R _ _ (relD x0) _ _
                (fun tp tp' => forall i i', nat_R i i' -> list_R _ _ (relD x0) (tp i) (tp' i'))) pats Pats ->
  relD x0 (loglik NumF S freqs Ps props t pats) (loglik NumD S Freqs PS Props t Pats).
Proof.
  intros Hf HP Hp Hpat.
  exact (TT_o_M_like_o_loglik_R (R -> R) dual (relD x0) NumF NumD (NumFD_R x0) S S (nat_R_refl S) freqs Freqs Hf
           Ps PS HP props Props Hp t t (itree_R_refl' t) pats Pats Hpat).
Qed.

(* log-Jacobian of the ratio node-height transform as a function of the ratios / root height *)
Lemma ratio_logdet_derivative_enclosed x0 n times Times x X t :
  list_R _ _ (relD x0) times Times -> list_R _ _ (relD x0) x X ->
  relD x0 (ratio_logdet NumF times None t (ratio_fwd NumF n times x None t))
          (ratio_logdet NumD Times None t (ratio_fwd NumD n Times X None t)).
Proof.
  intros Ht Hx.
  apply (TT_o_M_height_o_ratio_logdet_R (R -> R) dual (relD x0) NumF NumD (NumFD_R x0) times Times Ht
           None None (Coq_o_Init_o_Datatypes_o_option_R_None_R _ _ _) t t (itree_R_refl t)).
  apply (TT_o_M_height_o_ratio_fwd_R (R -> R) dual (relD x0) NumF NumD (NumFD_R x0) n n (nat_R_refl n) times Times Ht
           x X Hx None None (Coq_o_Init_o_Datatypes_o_option_R_None_R _ _ _) t t (itree_R_refl t)).
Qed.

(* Weibull site rates as a function of the shape (and invariant proportion, relative rate) *)
Lemma weibull_rates_derivative_enclosed x0 shape Shape K inv Inv mu Mu :
  relD x0 shape Shape -> option_R _ _ (relD x0) inv Inv -> option_R _ _ (relD x0) mu Mu ->
  list_R _ _ (relD x0) (weibull_rates NumF shape K inv mu) (weibull_rates NumD Shape K Inv Mu).
Proof.
  intros Hs Hi Hm.
  exact (TT_o_M_site_o_weibull_rates_R (R -> R) dual (relD x0) NumF NumD (NumFD_R x0) shape Shape Hs K K
           (nat_R_refl K) inv Inv Hi mu Mu Hm).
Qed.
Print Assumptions loglik_derivative_enclosed.
