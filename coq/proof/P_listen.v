(* P_listen — proofs about M_listen: a wired graph never serves a stale cache and never raises. *)
From Coq Require Import List Arith Bool PeanoNat Lia.
Import ListNotations.
From TT Require Import M_listen.

(* ------------------------------------------------------------------ small facts *)
Lemma flag_eqb_refl : forall a, flag_eqb a a = true.
Proof. intros [a b]. unfold flag_eqb. simpl. now rewrite !Nat.eqb_refl. Qed.

Lemma flag_eqb_eq : forall a b, flag_eqb a b = true <-> a = b.
Proof.
  intros [a1 a2] [b1 b2]. unfold flag_eqb. simpl. rewrite andb_true_iff, !Nat.eqb_eq.
  split; [intros [-> ->]; reflexivity | intros H; inversion H; auto].
Qed.

Lemma memf_app : forall a l1 l2, memf a (l1 ++ l2) = memf a l1 || memf a l2.
Proof. intros. unfold memf. apply existsb_app. Qed.

Lemma memf_remf_other : forall a b l, flag_eqb b a = false -> memf a (remf b l) = memf a l.
Proof.
  intros a b l H. induction l as [|c l IH]; simpl; auto.
  destruct (flag_eqb b c) eqn:E; simpl.
  - apply flag_eqb_eq in E. subst c.
    assert (flag_eqb a b = false).
    { destruct (flag_eqb a b) eqn:E2; auto. apply flag_eqb_eq in E2. subst. rewrite flag_eqb_refl in H. discriminate. }
    rewrite H0. simpl. exact IH.
  - now rewrite IH.
Qed.

Lemma nth_flag_lt : forall g n fl, s_flag (get_slot g n) = Some fl -> n < nslots g.
Proof.
  intros g n fl H. unfold get_slot, nslots in *.
  destruct (Nat.lt_ge_cases n (length (g_slots g))); auto.
  rewrite nth_overflow in H by lia. discriminate.
Qed.

Lemma nth_deps_lt : forall g n d, In d (s_deps (get_slot g n)) -> n < nslots g.
Proof.
  intros g n d H. unfold get_slot, nslots in *.
  destruct (Nat.lt_ge_cases n (length (g_slots g))); auto.
  rewrite nth_overflow in H by lia. inversion H.
Qed.

Lemma nth_leaf_lt : forall g n, s_leaf (get_slot g n) = true -> n < nslots g.
Proof.
  intros g n H. unfold get_slot, nslots in *.
  destruct (Nat.lt_ge_cases n (length (g_slots g))); auto.
  rewrite nth_overflow in H by lia. discriminate.
Qed.

Lemma deps_lt : forall g, topo g = true -> forall n d, In d (s_deps (get_slot g n)) -> d < n.
Proof.
  intros g T n d H. pose proof (nth_deps_lt _ _ _ H) as Hn.
  unfold topo in T. rewrite forallb_forall in T.
  specialize (T n). rewrite in_seq in T. specialize (T ltac:(lia)).
  rewrite forallb_forall in T. apply Nat.ltb_lt. auto.
Qed.

(* ------------------------------------------------------------------ the specification value *)
Lemma fresh_stable : forall g v, topo g = true ->
  forall f1 f2 n, n < f1 -> n < f2 -> fresh f1 g v n = fresh f2 g v n.
Proof.
  intros g v T. induction f1 as [|f1 IH]; intros f2 n H1 H2; [lia|].
  destruct f2 as [|f2]; [lia|]. simpl.
  destruct (s_leaf (get_slot g n)); auto.
  f_equal. apply map_ext_in. intros d Hd.
  pose proof (deps_lt g T n d Hd). apply IH; lia.
Qed.

Lemma fresh_S : forall f g v n,
  fresh (S f) g v n = if s_leaf (get_slot g n) then VLeaf (s_owner (get_slot g n)) (v (s_owner (get_slot g n)))
                      else VNode n (map (fresh f g v) (s_deps (get_slot g n))).
Proof. reflexivity. Qed.

Lemma freshN_eq : forall g v, topo g = true -> forall n,
  freshN g v n = if s_leaf (get_slot g n) then VLeaf (s_owner (get_slot g n)) (v (s_owner (get_slot g n)))
                 else VNode n (map (freshN g v) (s_deps (get_slot g n))).
Proof.
  intros g v T n. unfold freshN at 1. rewrite fresh_S.
  destruct (s_leaf (get_slot g n)); auto.
  f_equal. apply map_ext_in. intros d Hd.
  pose proof (deps_lt g T n d Hd). pose proof (nth_deps_lt g n d Hd).
  unfold freshN. apply fresh_stable; auto; lia.
Qed.

Lemma fresh_bump_unread : forall g p fuel v n,
  reads fuel g n p = false -> fresh fuel g (bump v p) n = fresh fuel g v n.
Proof.
  intros g p. induction fuel as [|f IH]; intros v n H; simpl in *; auto.
  destruct (s_leaf (get_slot g n)).
  - unfold bump, upd. rewrite H. reflexivity.
  - f_equal. apply map_ext_in. intros d Hd. apply IH.
    destruct (reads f g d p) eqn:E; auto.
    assert (existsb (fun d0 => reads f g d0 p) (s_deps (get_slot g n)) = true).
    { apply existsb_exists. exists d. auto. }
    congruence.
Qed.

Lemma freshN_bump_all_unread : forall g ls v n,
  (forall l, In l ls -> readsN g n l = false) ->
  freshN g (bump_all ls v) n = freshN g v n.
Proof.
  intros g ls. induction ls as [|l ls IH]; intros v n H; simpl; auto.
  rewrite IH by (intros; apply H; right; auto).
  unfold freshN. apply fresh_bump_unread. apply H. left; auto.
Qed.

(* ------------------------------------------------------------------ evaluation through the caches *)
Lemma flags_inj_neq : forall g, flags_inj g = true -> forall i j fi fj,
  i <> j -> s_flag (get_slot g i) = Some fi -> s_flag (get_slot g j) = Some fj ->
  flag_eqb (s_owner (get_slot g i), fi) (s_owner (get_slot g j), fj) = false.
Proof.
  intros g F i j fi fj Hne Hi Hj.
  pose proof (nth_flag_lt _ _ _ Hi). pose proof (nth_flag_lt _ _ _ Hj).
  unfold flags_inj in F. rewrite forallb_forall in F.
  specialize (F i). rewrite in_seq in F. specialize (F ltac:(lia)).
  rewrite forallb_forall in F. specialize (F j). rewrite in_seq in F. specialize (F ltac:(lia)).
  apply orb_true_iff in F. destruct F as [F|F].
  - apply Nat.eqb_eq in F. contradiction.
  - unfold same_flag in F. rewrite Hi, Hj in F. now apply negb_true_iff in F.
Qed.

Definition eval_good (g : graph) (ev : state -> nat -> state * val * list nat) (bound : nat) : Prop :=
  forall s n, n < bound -> inv g s ->
    match ev s n with (s', v, _) => v = freshN g (ver s) n /\ ver s' = ver s /\ inv g s' end.

Lemma eval_deps_good : forall g ev bound, eval_good g ev bound ->
  forall ds s0 vs lg, (forall d, In d ds -> d < bound) -> inv g s0 ->
    match eval_deps ev ds (s0, vs, lg) with
    | (s1, vs1, _) => vs1 = vs ++ map (freshN g (ver s0)) ds /\ ver s1 = ver s0 /\ inv g s1
    end.
Proof.
  intros g ev bound G. induction ds as [|d ds IH]; intros s0 vs lg Hb Hi.
  - simpl. rewrite app_nil_r. auto.
  - unfold eval_deps in *. simpl.
    pose proof (G s0 d (Hb d (or_introl eq_refl)) Hi) as Gd.
    destruct (ev s0 d) as [[s' v] l]. destruct Gd as (Hv & Hver & Hinv).
    specialize (IH s' (vs ++ [v]) (lg ++ l) (fun x hx => Hb x (or_intror hx)) Hinv).
    destruct (fold_left _ ds (s', vs ++ [v], lg ++ l)) as [[s1 vs1] lg1].
    destruct IH as (E1 & E2 & E3). repeat split; auto.
    + rewrite E1, Hver, Hv, <- app_assoc. reflexivity.
    + congruence.
Qed.

Lemma store_good : forall g, topo g = true -> flags_inj g = true ->
  forall n s s1 vs lg,
    s_leaf (get_slot g n) = false ->
    vs = map (freshN g (ver s)) (s_deps (get_slot g n)) -> ver s1 = ver s -> inv g s1 ->
    match store (get_slot g n) n (s1, vs, lg) with
    | (s', v, _) => v = freshN g (ver s) n /\ ver s' = ver s /\ inv g s'
    end.
Proof.
  intros g T F n s s1 vs lg Hleaf Hvs Hver Hinv. unfold store.
  assert (Hv : VNode n vs = freshN g (ver s) n).
  { rewrite (freshN_eq g (ver s) T n), Hleaf, Hvs. reflexivity. }
  destruct (s_flag (get_slot g n)) as [fl|] eqn:Efl.
  - repeat split; auto. intros k fk Hk Hfk Hclean. simpl in *.
    destruct (Nat.eq_dec k n) as [->|Hne].
    + unfold upd. rewrite Nat.eqb_refl. rewrite Hver. exact Hv.
    + unfold upd. replace (k =? n) with false by (symmetry; now apply Nat.eqb_neq).
      pose proof (flags_inj_neq g F n k fl fk (fun e => Hne (eq_sym e)) Efl Hfk) as Hd.
      rewrite memf_remf_other in Hclean by exact Hd.
      apply (Hinv k fk Hk Hfk Hclean).
  - repeat split; auto.
Qed.

Lemma eval_correct : forall g, topo g = true -> flags_inj g = true ->
  forall fuel, eval_good g (eval fuel g) fuel.
Proof.
  intros g T F. induction fuel as [|f IH]; intros s n Hn Hi; [lia|].
  simpl. destruct (s_leaf (get_slot g n)) eqn:Eleaf.
  - rewrite (freshN_eq g (ver s) T n), Eleaf. auto.
  - assert (Hrec : match store (get_slot g n) n (eval_deps (eval f g) (s_deps (get_slot g n)) (s, [], [])) with
                   | (s', v, _) => v = freshN g (ver s) n /\ ver s' = ver s /\ inv g s' end).
    { pose proof (eval_deps_good g (eval f g) f IH (s_deps (get_slot g n)) s [] []) as D.
      assert (Hb : forall d, In d (s_deps (get_slot g n)) -> d < f).
      { intros d Hd. pose proof (deps_lt g T n d Hd). lia. }
      specialize (D Hb Hi).
      destruct (eval_deps (eval f g) (s_deps (get_slot g n)) (s, [], [])) as [[s1 vs1] lg1].
      destruct D as (E1 & E2 & E3). apply store_good; auto. }
    destruct (s_flag (get_slot g n)) as [fl|] eqn:Efl; auto.
    destruct (memf (s_owner (get_slot g n), fl) (dirty s)) eqn:Em; auto.
    repeat split; auto. apply (Hi n fl (nth_flag_lt _ _ _ Efl) Efl Em).
Qed.

Lemma evalN_correct : forall g, topo g = true -> flags_inj g = true ->
  forall s n, n < nslots g -> inv g s ->
    match evalN g s n with (s', v, _) => v = freshN g (ver s) n /\ ver s' = ver s /\ inv g s' end.
Proof. intros g T F s n Hn Hi. unfold evalN. apply (eval_correct g T F (S (nslots g))); auto. Qed.

(* ------------------------------------------------------------------ what `wired` gives *)
Lemma list_eqb_eq : forall a b, list_eqb a b = true -> a = b.
Proof.
  induction a as [|x a IH]; intros [|y b] H; auto; unfold list_eqb in H; simpl in H; try discriminate.
  apply andb_true_iff in H. destruct H as [Hl H]. apply andb_true_iff in H. destruct H as [Hxy H].
  apply Nat.eqb_eq in Hxy. subst y. f_equal. apply IH. unfold list_eqb. now rewrite Hl, H.
Qed.

Lemma is_leaf_lt : forall g o, is_leaf g o = true -> o < nobjs g.
Proof.
  intros g o H. unfold is_leaf, get_obj, nobjs in *.
  destruct (Nat.lt_ge_cases o (length (g_objs g))); auto.
  rewrite nth_overflow in H by lia. discriminate.
Qed.

Lemma is_param_lt : forall g o, is_param g o = true -> o < nobjs g.
Proof.
  intros g o H. unfold is_param, get_obj, nobjs in *.
  destruct (Nat.lt_ge_cases o (length (g_objs g))); auto.
  rewrite nth_overflow in H by lia. discriminate.
Qed.

Lemma wired_parts : forall g, wired g = true ->
  topo g = true /\ flags_inj g = true /\
  (forall o, is_leaf g o = true -> leaf_ok g o = true) /\
  (forall o, is_param g o = true -> fire_ok g o = true /\ plan_ok g o = true).
Proof.
  intros g W. unfold wired in W. apply andb_true_iff in W. destruct W as [W W3].
  apply andb_true_iff in W. destruct W as [W1 W2]. rewrite forallb_forall in W3.
  repeat split; auto.
  - intros o Ho. specialize (W3 o). rewrite in_seq in W3.
    specialize (W3 ltac:(pose proof (is_leaf_lt g o Ho); lia)).
    apply andb_true_iff in W3. destruct W3 as [A _]. rewrite Ho in A. exact A.
  - specialize (W3 o). rewrite in_seq in W3.
    specialize (W3 ltac:(pose proof (is_param_lt g o H); lia)).
    apply andb_true_iff in W3. destruct W3 as [_ B]. rewrite H in B. simpl in B.
    apply andb_true_iff in B. tauto.
  - specialize (W3 o). rewrite in_seq in W3.
    specialize (W3 ltac:(pose proof (is_param_lt g o H); lia)).
    apply andb_true_iff in W3. destruct W3 as [_ B]. rewrite H in B. simpl in B.
    apply andb_true_iff in B. tauto.
Qed.

Lemma leaf_ok_spec : forall g l, leaf_ok g l = true -> exists m, fire g l = Ok m /\ covers g l m = true.
Proof. intros g l H. unfold leaf_ok in H. destruct (fire g l); try discriminate. eauto. Qed.

Lemma covers_spec : forall g p m, covers g p m = true ->
  forall n fl, n < nslots g -> s_flag (get_slot g n) = Some fl -> readsN g n p = true ->
    memf (s_owner (get_slot g n), fl) m = true.
Proof.
  intros g p m C n fl Hn Hfl Hr. unfold covers in C. rewrite forallb_forall in C.
  specialize (C n). rewrite in_seq in C. specialize (C ltac:(lia)). simpl in C.
  rewrite Hfl, Hr in C. exact C.
Qed.

(* ------------------------------------------------------------------ updates *)
(* inside an assignment: a clean cache holds the fresh value unless it reads a leaf that has been
   changed and not yet notified (pend) *)
Definition inv_pend (g : graph) (pend : list nat) (s : state) : Prop :=
  forall n fl, n < nslots g -> s_flag (get_slot g n) = Some fl ->
               memf (s_owner (get_slot g n), fl) (dirty s) = false ->
               (forall l, In l pend -> readsN g n l = false) ->
               cache s n = freshN g (ver s) n.

Lemma inv_pend_nil : forall g s, inv_pend g [] s <-> inv g s.
Proof.
  intros g s. split; intros H n fl Hn Hf Hc.
  - apply (H n fl Hn Hf Hc). intros l [].
  - intros _. apply (H n fl Hn Hf Hc).
Qed.

Lemma safe_sound : forall g, wired g = true -> forall p pend s,
  inv_pend g pend s -> (forall l, In l pend -> is_leaf g l = true) -> safe g pend p = true ->
  exists s', exec_steps g s p = Ok s' /\ inv g s' /\ ver s' = bump_all (bumps p) (ver s).
Proof.
  intros g W. destruct (wired_parts g W) as (T & F & WL & WP).
  induction p as [|st p IH]; intros pend s Hi Hl Hs; simpl in Hs.
  - destruct pend; try discriminate. exists s. simpl. repeat split; auto. now apply inv_pend_nil.
  - destruct st as [l|o|o f|n].
    + (* bump *)
      apply andb_true_iff in Hs. destruct Hs as [Lf Hs].
      destruct (IH (l :: pend) (mkState (upd (ver s) l (S (ver s l))) (dirty s) (cache s))) as (s' & E & I' & V); auto.
      * intros n fl Hn Hf Hc Hr. simpl in *.
        change (upd (ver s) l (S (ver s l))) with (bump (ver s) l).
        unfold freshN. rewrite fresh_bump_unread by (apply Hr; left; reflexivity).
        apply (Hi n fl Hn Hf Hc). intros x Hx. apply Hr. right. exact Hx.
      * intros x [<-|Hx]; auto.
      * exists s'. simpl. repeat split; auto.
    + (* notification *)
      apply andb_true_iff in Hs. destruct Hs as [Fo Hs].
      unfold fire_ok in Fo. destruct (fire g o) as [m| |] eqn:Ef; try discriminate.
      destruct (IH (filter (fun x => negb (x =? o)) pend) (mkState (ver s) (m ++ dirty s) (cache s))) as (s' & E & I' & V); auto.
      * intros n fl Hn Hf Hc Hr. simpl in *.
        rewrite memf_app in Hc. apply orb_false_iff in Hc. destruct Hc as [Hm Hd].
        apply (Hi n fl Hn Hf Hd). intros l Hin.
        destruct (Nat.eq_dec l o) as [->|Hne].
        -- destruct (readsN g n o) eqn:Er; auto.
           destruct (leaf_ok_spec g o (WL o (Hl o Hin))) as (m' & Em' & Cm').
           rewrite Ef in Em'. inversion Em'; subst m'.
           pose proof (covers_spec g o m Cm' n fl Hn Hf Er). congruence.
        -- apply Hr. apply filter_In. split; auto. apply negb_true_iff. now apply Nat.eqb_neq.
      * intros x Hx. apply filter_In in Hx. apply Hl. tauto.
      * exists s'. simpl. rewrite Ef. repeat split; auto.
    + (* a setter marks its own cache dirty *)
      destruct (IH pend (mkState (ver s) ((o, f) :: dirty s) (cache s))) as (s' & E & I' & V); auto.
      * intros n fl Hn Hf Hc Hr. simpl in *. apply orb_false_iff in Hc. destruct Hc as [_ Hd].
        apply (Hi n fl Hn Hf Hd Hr).
      * exists s'. simpl. repeat split; auto.
    + (* a read inside the setter *)
      destruct pend; try discriminate.
      apply andb_true_iff in Hs. destruct Hs as [Hn Hs]. apply Nat.ltb_lt in Hn.
      pose proof (evalN_correct g T F s n Hn (proj1 (inv_pend_nil g s) Hi)) as Ev.
      simpl. destruct (evalN g s n) as [[s1 v] lg]. destruct Ev as (_ & Hver & Hi1).
      assert (Hnil0 : forall l : nat, In l [] -> is_leaf g l = true) by (intros l []).
      destruct (IH [] s1 (proj2 (inv_pend_nil g s1) Hi1) Hnil0 Hs) as (s' & E & I' & V).
      exists s'. repeat split; auto. rewrite V, Hver. reflexivity.
Qed.

Lemma step_sound : forall g, wired g = true -> forall s o, inv g s -> op_ok g o = true ->
  exists s' out, step g s o = Ok (s', out) /\ inv g s' /\
                 ver s' = fst (spec_step g (ver s) o) /\
                 option_map fst out = snd (spec_step g (ver s) o).
Proof.
  intros g W s o Hi Hok. destruct (wired_parts g W) as (T & F & WL & WP).
  pose proof (proj2 (inv_pend_nil g s) Hi) as Hi0.
  assert (Hnil : forall l : nat, In l [] -> is_leaf g l = true) by (intros l []).
  destruct o as [o|o|o|n]; simpl in Hok.
  - (* assignment *)
    destruct (WP o Hok) as [_ PO]. unfold plan_ok in PO.
    destruct (assign_plan g o) as [p| |] eqn:Ep; try discriminate.
    apply andb_true_iff in PO. destruct PO as [P1 P2]. apply list_eqb_eq in P1.
    destruct (safe_sound g W p [] s Hi0 Hnil P2) as (s' & E & Hi' & V).
    exists s', None. unfold step. simpl. rewrite Ep, E. repeat split; auto.
    simpl. rewrite V, P1. reflexivity.
  - (* in-place change, then notification *)
    assert (Sf : safe g [] [PBump o; PFire o] = true).
    { simpl. rewrite Hok, Nat.eqb_refl. simpl.
      destruct (leaf_ok_spec g o (WL o Hok)) as (m & Em & _). unfold fire_ok. now rewrite Em. }
    destruct (safe_sound g W _ [] s Hi0 Hnil Sf) as (s' & E & Hi' & V).
    exists s', None. unfold step. simpl op_plan. cbv iota beta. rewrite E. repeat split; auto.
  - (* notification alone *)
    assert (Sf : safe g [] [PFire o] = true).
    { simpl. destruct (WP o Hok) as [Fo _]. now rewrite Fo. }
    destruct (safe_sound g W _ [] s Hi0 Hnil Sf) as (s' & E & Hi' & V).
    exists s', None. unfold step. simpl op_plan. cbv iota beta. rewrite E. repeat split; auto.
  - (* evaluation *)
    apply Nat.ltb_lt in Hok.
    pose proof (evalN_correct g T F s n Hok Hi) as Ev. unfold step.
    destruct (evalN g s n) as [[s' v] lg]. destruct Ev as (Hv & Hver & Hi').
    exists s', (Some (v, lg)). repeat split; auto. simpl. now rewrite Hv.
Qed.

(* THE theorem: on a wired graph, from any state satisfying the invariant, every finite history of
   updates through the parameter interface interleaved with evaluations runs without raising, and every
   evaluation returns the value recomputed from the leaves (the cache-free specification). *)
Lemma wired_sound_l : forall g, wired g = true -> forall ops s, inv g s ->
  forallb (op_ok g) ops = true ->
  exists s', run g s ops = Ok (s', spec_run g (ver s) ops) /\ inv g s'.
Proof.
  intros g W. induction ops as [|o ops IH]; intros s Hi Hok.
  - exists s. simpl. auto.
  - simpl in Hok. apply andb_true_iff in Hok. destruct Hok as [Ho Hops].
    destruct (step_sound g W s o Hi Ho) as (s1 & out & Es & Hi1 & V1 & O1).
    destruct (IH s1 Hi1 Hops) as (s2 & Er & Hi2).
    exists s2. split; auto. simpl. rewrite Es, Er.
    destruct (spec_step g (ver s) o) as [v' so] eqn:Esp. simpl in V1, O1. rewrite V1.
    destruct out as [[v lg]|]; simpl in O1; rewrite <- O1; reflexivity.
Qed.

Lemma init_inv_l : forall g d, inv g (init g d).
Proof. intros g d n fl _ _ _. reflexivity. Qed.

(* corollary for graphs as built: caches that are clean after construction hold the constructed value *)
Lemma wired_sound_init_l : forall g d ops, wired g = true -> forallb (op_ok g) ops = true ->
  exists s', run g (init g d) ops = Ok (s', spec_run g (fun _ => 0) ops).
Proof.
  intros g d ops W Hok. destruct (wired_sound_l g W ops (init g d) (init_inv_l g d) Hok) as (s' & E & _).
  exists s'. exact E.
Qed.

(* the cascade does not depend on the state: whether an update raises and which flags it sets is a
   function of the graph alone (this is why `wired` can be decided once per graph) *)
Lemma update_state_independent_l : forall g p s1 s2,
  match exec_steps g s1 p, exec_steps g s2 p with
  | Ok _, Ok _ => True
  | Raised a, Raised b => a = b
  | Fuel, Fuel => True
  | _, _ => False
  end.
Proof.
  intros g. induction p as [|st p IH]; intros s1 s2; simpl; auto.
  destruct st as [l|o|o f|n]; simpl; try apply IH.
  - destruct (fire g o); auto. apply IH.
  - destruct (evalN g s1 n) as [[a1 b1] c1]. destruct (evalN g s2 n) as [[a2 b2] c2]. apply IH.
Qed.

(* necessity, on the smallest graph: a listener whose handler ignores the event serves a stale value *)
Definition tiny (h : list hstmt) : graph :=
  mkGraph [mkCls [HRaise] [HRaise] [SBump; SFireSelf] []; mkCls h h [SRaise] [3]]
          [mkObj 0 KLeaf [1] [] 0; mkObj 1 KOther [] [] 1]
          [mkSlot 0 None true []; mkSlot 1 (Some 3) false [0]].

Lemma tiny_wired_l : wired (tiny [HSet 3; HFire EvM]) = true.
Proof. vm_compute. reflexivity. Qed.

Lemma tiny_pass_not_wired_l : wired (tiny []) = false /\
  exists s' outs, run (tiny []) (init (tiny []) [(1, 3)]) [OEval 1; OAssign 0; OEval 1] = Ok (s', outs) /\
                  outs <> spec_run (tiny []) (fun _ => 0) [OEval 1; OAssign 0; OEval 1].
Proof.
  split; [vm_compute; reflexivity|].
  eexists. eexists. split; [vm_compute; reflexivity|]. vm_compute. discriminate.
Qed.

Lemma tiny_raise_not_wired_l : wired (tiny [HRaise]) = false /\
  run (tiny [HRaise]) (init (tiny [HRaise]) [(1, 3)]) [OAssign 0] = Raised 1.
Proof. split; vm_compute; reflexivity. Qed.
