(* Free theorems: the NumI run of the sufficient-statistics terms encloses their NumR value; the
   coalescent counts (exact data) are the same list on both sides. *)
From Coq Require Import QArith Reals List.
From Param Require Import Param.
From TT Require Import Num NumR NumI ParamI Tree M_coalescent M_gmrf M_suffstat.

Parametricity Recursive kind qualified.
Parametricity Recursive event qualified.
Parametricity Recursive ival qualified.
Parametricity Recursive skyride_ss_q qualified.
Parametricity Recursive skygrid_ss_q qualified.
Parametricity Recursive skygrid_counts_q qualified.
Parametricity Recursive skyride_rec_q qualified.
Parametricity Recursive skygrid_rec_q qualified.
Parametricity Recursive const_integrated_q qualified.

Lemma qlist_refl'' (l : list Q) : list_R Q Q Q_R l l.
Proof. apply list_R_refl, Q_R_refl. Qed.
Lemma nat_R_eq a b : nat_R a b -> a = b.
Proof. induction 1; congruence. Qed.
Lemma natlist_R_eq (a b : list nat) : list_R nat nat nat_R a b -> a = b.
Proof. induction 1 as [|x y Hxy l m Hlm IH]; [reflexivity|]. apply nat_R_eq in Hxy. congruence. Qed.

Lemma skyride_ss_enclosed tips coals :
  list_R R I.type rel (skyride_ss_q NumR tips coals) (skyride_ss_q NumI tips coals).
Proof.
  exact (TT_o_M_suffstat_o_skyride_ss_q_R R I.type rel NumR NumI NumRI_R
           tips tips (qlist_refl'' _) coals coals (qlist_refl'' _)).
Qed.
Lemma skygrid_ss_enclosed grid tips coals :
  list_R R I.type rel (skygrid_ss_q NumR grid tips coals) (skygrid_ss_q NumI grid tips coals).
Proof.
  exact (TT_o_M_suffstat_o_skygrid_ss_q_R R I.type rel NumR NumI NumRI_R
           grid grid (qlist_refl'' _) tips tips (qlist_refl'' _) coals coals (qlist_refl'' _)).
Qed.
Lemma skygrid_counts_same grid tips coals :
  skygrid_counts_q NumR grid tips coals = skygrid_counts_q NumI grid tips coals.
Proof.
  apply natlist_R_eq.
  exact (TT_o_M_suffstat_o_skygrid_counts_q_R R I.type rel NumR NumI NumRI_R
           grid grid (qlist_refl'' _) tips tips (qlist_refl'' _) coals coals (qlist_refl'' _)).
Qed.
Lemma skyride_rec_enclosed thetas tips coals :
  rel (skyride_rec_q NumR thetas tips coals) (skyride_rec_q NumI thetas tips coals).
Proof.
  exact (TT_o_M_suffstat_o_skyride_rec_q_R R I.type rel NumR NumI NumRI_R thetas thetas (qlist_refl'' _)
           tips tips (qlist_refl'' _) coals coals (qlist_refl'' _)).
Qed.
Lemma skygrid_rec_enclosed thetas grid tips coals :
  rel (skygrid_rec_q NumR thetas grid tips coals) (skygrid_rec_q NumI thetas grid tips coals).
Proof.
  exact (TT_o_M_suffstat_o_skygrid_rec_q_R R I.type rel NumR NumI NumRI_R thetas thetas (qlist_refl'' _)
           grid grid (qlist_refl'' _) tips tips (qlist_refl'' _) coals coals (qlist_refl'' _)).
Qed.
Lemma const_integrated_enclosed alpha beta ga Ga gm Gm tips coals :
  rel ga Ga -> rel gm Gm ->
  rel (const_integrated_q NumR alpha beta ga gm tips coals)
      (const_integrated_q NumI alpha beta Ga Gm tips coals).
Proof.
  intros Ha Hm.
  exact (TT_o_M_suffstat_o_const_integrated_q_R R I.type rel NumR NumI NumRI_R
           alpha alpha (Q_R_refl _) beta beta (Q_R_refl _) ga Ga Ha gm Gm Hm
           tips tips (qlist_refl'' _) coals coals (qlist_refl'' _)).
Qed.
