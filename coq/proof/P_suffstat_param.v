(* Free theorems: the NumI run of the sufficient-statistics terms encloses their NumR value. *)
From Coq Require Import QArith Reals List.
From Param Require Import Param.
From TT Require Import Num NumR NumI ParamI Tree M_coalescent M_gmrf M_suffstat.

Parametricity Recursive kind qualified.
Parametricity Recursive event qualified.
Parametricity Recursive ival qualified.
Parametricity Recursive skyride_ss_q qualified.
Parametricity Recursive skygrid_ss_q qualified.
Parametricity Recursive skygrid_counts_q qualified.
Parametricity Recursive skyride_rec_q qualified.
Parametricity Recursive skygrid_rec_q qualified.
Parametricity Recursive const_integrated_q qualified.
Check TT_o_M_suffstat_o_skygrid_counts_q_R.
Check TT_o_M_suffstat_o_const_integrated_q_R.
