(* Proofs for C20, sufficient statistics: regrouping the interval terms of the piecewise-constant
   coalescent log densities by their running mark count reproduces the log density from the
   published (sufficient statistics, coalescent counts). *)
From Coq Require Import QArith Reals List Lra Lia Qreals Arith.
Import ListNotations.
From TT Require Import Num NumR Tree M_coalescent M_gmrf M_suffstat.
Open Scope R_scope.

Lemma ofNat_INR' n : ofNat NumR n = INR n.
Proof. unfold ofNat; cbn [ofQ NumR]. unfold Q2R; simpl. rewrite <- INR_IZR_INZ. lra. Qed.

Lemma nsum_cons' x l : nsum NumR (x :: l) = x + nsum NumR l.
Proof. reflexivity. Qed.
Lemma nsum_map_zero {A} (l : list A) : nsum NumR (map (fun _ => 0) l) = 0.
Proof. induction l as [|a l IH]; cbn [map]; rewrite ?nsum_cons', ?IH; [reflexivity|lra]. Qed.
Lemma nsum_map_add {A} (f g : A -> R) l :
  nsum NumR (map (fun j => f j + g j) l) = nsum NumR (map f l) + nsum NumR (map g l).
Proof. induction l as [|a l IH]; cbn [map]; rewrite ?nsum_cons', ?IH; [cbn; lra|lra]. Qed.
Lemma nsum_map_ext {A} (f g : A -> R) l :
  (forall a, In a l -> f a = g a) -> nsum NumR (map f l) = nsum NumR (map g l).
Proof. intros H. f_equal. apply map_ext_in. exact H. Qed.
Lemma nsum_map_div {A} (f : A -> R) l c :
  nsum NumR (map (fun a => f a / c) l) = nsum NumR (map f l) / c.
Proof. induction l as [|a l IH]; cbn [map]; rewrite ?nsum_cons', ?IH; [cbn; lra|lra]. Qed.

(* sum over j of an indicator picks its index *)
Lemma nsum_indicator (g : nat -> R) k : forall n s,
  (s <= k < s + n)%nat ->
  nsum NumR (map (fun j => if Nat.eqb k j then g j else 0) (seq s n)) = g k.
Proof.
  induction n as [|n IH]; intros s H; [lia|].
  cbn [seq map]. rewrite nsum_cons'. destruct (Nat.eqb k s) eqn:E.
  - apply Nat.eqb_eq in E; subst s.
    rewrite (nsum_map_ext _ (fun _ => 0)), nsum_map_zero; [lra|].
    intros j Hj. apply in_seq in Hj. destruct (Nat.eqb k j) eqn:E'; [apply Nat.eqb_eq in E'; lia|reflexivity].
  - apply Nat.eqb_neq in E. rewrite IH by lia. lra.
Qed.

(* regrouping: sum over items of f(item, key item) = sum over groups of the group's items *)
Lemma regroup {A} (key : A -> nat) (f : A -> nat -> R) (l : list A) (G : nat) :
  Forall (fun a => (key a < G)%nat) l ->
  nsum NumR (map (fun a => f a (key a)) l) =
  nsum NumR (map (fun j => nsum NumR (map (fun a => if Nat.eqb (key a) j then f a j else 0) l)) (seq 0 G)).
Proof.
  induction 1 as [|a l Ha Hl IH].
  - cbn [map nsum]. rewrite nsum_map_zero. reflexivity.
  - cbn [map]. rewrite nsum_cons', IH.
    rewrite (nsum_map_ext
      (fun j => nsum NumR ((if Nat.eqb (key a) j then f a j else 0) ::
                           map (fun a0 => if Nat.eqb (key a0) j then f a0 j else 0) l))
      (fun j => (if Nat.eqb (key a) j then f a j else 0) +
                nsum NumR (map (fun a0 => if Nat.eqb (key a0) j then f a0 j else 0) l)))
      by (intros; apply nsum_cons').
    rewrite nsum_map_add, (nsum_indicator (f a) (key a)) by lia. reflexivity.
Qed.

(* zipping a list indexed by 0..n-1 with the thetas = indexing the thetas *)
Lemma zipw_seq (f : R -> R -> R) : forall (thetas : list R) (g : nat -> R),
  zipw f (map g (seq 0 (length thetas))) thetas =
  map (fun j => f (g j) (lk thetas j 0)) (seq 0 (length thetas)).
Proof.
  induction thetas as [|th thetas IH]; intros g; [reflexivity|].
  cbn [length seq map zipw lk]. f_equal.
  rewrite <- seq_shift, !map_map. rewrite IH. reflexivity.
Qed.
Lemma count_terms_seq : forall (thetas : list R) (c : nat -> nat),
  count_terms NumR (map c (seq 0 (length thetas))) thetas =
  map (fun j => INR (c j) * ln (lk thetas j 0)) (seq 0 (length thetas)).
Proof.
  induction thetas as [|th thetas IH]; intros c; [reflexivity|].
  cbn [length seq map count_terms lk]. rewrite ofNat_INR'. f_equal.
  rewrite <- seq_shift, !map_map. rewrite IH. reflexivity.
Qed.

(* coalescent events of group j, counted *)
Lemma group_count_sum (key : ival R -> nat) (ivs : list (ival R)) (j : nat) (L : R) :
  nsum NumR (map (fun iv => if Nat.eqb (key iv) j then (if ends_coal iv then L else 0) else 0) ivs) =
  INR (group_count key ivs j) * L.
Proof.
  unfold group_count. induction ivs as [|iv ivs IH]; [cbn; lra|].
  cbn [map filter]. rewrite nsum_cons', IH.
  destruct (ends_coal iv), (Nat.eqb (key iv) j); cbn [length]; rewrite ?S_INR; lra.
Qed.

Lemma csum_ends_coal (lnN : ival R -> R) ivs :
  csum NumR lnN ivs = nsum NumR (map (fun iv => if ends_coal iv then lnN iv else 0) ivs).
Proof.
  unfold csum. f_equal. apply map_ext. intros iv. unfold ends_coal. destruct (i_end iv); reflexivity.
Qed.
Lemma ksum_ss_term (th : ival R -> R) ivs :
  ksum NumR (fun iv => div NumR (dur NumR iv) (th iv)) ivs =
  nsum NumR (map (fun iv => ss_term NumR iv / th iv) ivs).
Proof.
  unfold ksum. f_equal. apply map_ext. intros iv. unfold ss_term.
  destruct (i_zero iv); cbn [zero mul div NumR]; unfold Rdiv; lra.
Qed.

(* ---- for ANY list of intervals, any grouping key with values below G, thetas of length G ---- *)
Lemma suffstats_any_intervals (key : ival R -> nat) (ivs : list (ival R)) (thetas : list R) :
  Forall (fun iv => (key iv < length thetas)%nat) ivs ->
  lp NumR (fun iv => div NumR (dur NumR iv) (lk thetas (key iv) 0))
          (fun iv => nln NumR (lk thetas (key iv) 0)) ivs =
  reconstruct NumR (map (group_sum NumR key ivs) (seq 0 (length thetas)))
                   (map (group_count key ivs) (seq 0 (length thetas))) thetas.
Proof.
  intros Hk. unfold lp, reconstruct. rewrite zipw_seq, count_terms_seq.
  cbn [sub opp NumR]. f_equal; [f_equal|].
  - rewrite ksum_ss_term.
    rewrite (regroup key (fun iv j => ss_term NumR iv / lk thetas j 0) ivs (length thetas) Hk).
    apply nsum_map_ext. intros j _. unfold group_sum. cbn [div NumR].
    rewrite <- nsum_map_div. apply nsum_map_ext. intros iv _.
    destruct (Nat.eqb (key iv) j); cbn [zero NumR]; lra.
  - rewrite csum_ends_coal. cbn [nln NumR].
    rewrite (regroup key (fun iv j => if ends_coal iv then ln (lk thetas j 0) else 0) ivs (length thetas) Hk).
    apply nsum_map_ext. intros j _. apply group_count_sum.
Qed.

(* ---- the intervals of a sorted event list: bounds on the running counts ---- *)
Lemma count_kind_cons {T} f (e : event T) l : count_kind f (e :: l) = (f (ekind e) + count_kind f l)%nat.
Proof. reflexivity. Qed.
Lemma count_kind_insert {T} f (e : event T) l : count_kind f (insert_ev e l) = (f (ekind e) + count_kind f l)%nat.
Proof.
  induction l as [|x l IH]; [reflexivity|]. cbn [insert_ev]. destruct (Qle_bool (ekey e) (ekey x)).
  - reflexivity.
  - rewrite !count_kind_cons, IH. lia.
Qed.
Lemma count_kind_sort {T} f (l : list (event T)) : count_kind f (sort_ev l) = count_kind f l.
Proof. induction l as [|e l IH]; [reflexivity|]. cbn [sort_ev]. rewrite count_kind_insert, count_kind_cons, IH. reflexivity. Qed.

Lemma walk_ig_bound {T} (l : list (event T)) : forall pk pt k g c,
  Forall (fun iv => (i_g iv <= g + count_kind isgrid l)%nat) (walk pk pt k g c l).
Proof.
  induction l as [|e r IH]; intros; cbn [walk]; constructor.
  - cbn [i_g]. lia.
  - eapply Forall_impl; [|apply IH]. intros iv H. rewrite count_kind_cons. cbn beta in H |- *. lia.
Qed.
Lemma intervals_ig_bound {T} (s : list (event T)) :
  Forall (fun iv => (i_g iv < S (count_kind isgrid s))%nat) (intervals s).
Proof.
  destruct s as [|e r]; [constructor|]. unfold intervals.
  eapply Forall_impl; [|apply walk_ig_bound]. intros iv H. cbn beta in H |- *. lia.
Qed.

Definition tip0 {T} (N : Num T) : event T := mkEv 0%Q (zero N) Tip.
(* the root (a coalescent event) is the last of the sorted events *)
Definition root_last {T} (N : Num T) (evs : list (event T)) : Prop :=
  ekind (last (sort_ev evs) (tip0 N)) = Coal.

Lemma last_coal_count {T} (d : event T) (l : list (event T)) :
  ekind d = Tip -> ekind (last l d) = Coal -> (1 <= count_kind iscoal l)%nat.
Proof.
  intros Hd. induction l as [|e r IH]; intros H; [cbn in H; congruence|].
  rewrite count_kind_cons. destruct r as [|e' r'].
  - cbn [last] in H. rewrite H. cbn. lia.
  - specialize (IH H). lia.
Qed.
Lemma walk_ic_bound {T} (d : event T) (l : list (event T)) : forall pk pt k g c,
  ekind d = Tip -> ekind (last l d) = Coal ->
  Forall (fun iv => (i_c iv < c + count_kind iscoal l)%nat) (walk pk pt k g c l).
Proof.
  induction l as [|e r IH]; intros pk pt k g c Hd H; cbn [walk]; constructor.
  - cbn [i_c]. pose proof (last_coal_count d (e :: r) Hd H). lia.
  - destruct r as [|e' r']; [constructor|].
    eapply Forall_impl; [|apply IH; [exact Hd | exact H]].
    intros iv Hiv. rewrite (count_kind_cons _ e). cbn beta in Hiv |- *. lia.
Qed.
Lemma intervals_ic_bound {T} (N : Num T) (s : list (event T)) :
  ekind (last s (tip0 N)) = Coal ->
  Forall (fun iv => (i_c iv < count_kind iscoal s)%nat) (intervals s).
Proof.
  intros H. destruct s as [|e r]; [constructor|]. unfold intervals.
  eapply Forall_impl; [|apply (walk_ic_bound (tip0 N)); [reflexivity | exact H]].
  intros iv Hiv. cbn beta in Hiv |- *. lia.
Qed.

(* ---- skygrid: PiecewiseConstantCoalescentGrid ---- *)
Lemma skygrid_suffstats_l thetas evs :
  length thetas = S (count_kind isgrid evs) ->
  skygrid_lp NumR thetas evs =
  reconstruct NumR (skygrid_ss NumR evs) (skygrid_counts evs) thetas.
Proof.
  intros HL. unfold skygrid_lp, skygrid_ss, skygrid_counts. rewrite <- HL.
  change (zero NumR) with 0.
  apply suffstats_any_intervals. rewrite HL, <- (count_kind_sort isgrid evs). apply intervals_ig_bound.
Qed.

(* ---- skyride: PiecewiseConstantCoalescent (every group holds exactly one coalescent event) ---- *)
Lemma count_terms_ones : forall thetas : list R,
  nsum NumR (count_terms NumR (repeat 1%nat (length thetas)) thetas) = nsum NumR (map (nln NumR) thetas).
Proof.
  induction thetas as [|th thetas IH]; [reflexivity|].
  cbn [length repeat count_terms map]. rewrite !nsum_cons', IH, ofNat_INR'. cbn [mul nln NumR INR]. lra.
Qed.
Lemma skyride_suffstats_l thetas evs :
  length thetas = count_kind iscoal evs -> root_last NumR evs ->
  skyride_lp NumR thetas evs =
  reconstruct NumR (skyride_ss NumR evs) (skyride_counts evs) thetas.
Proof.
  intros HL Hroot. unfold skyride_lp, skyride_ss, skyride_counts, reconstruct. rewrite <- HL.
  rewrite count_terms_ones, zipw_seq. change (zero NumR) with 0.
  cbn [sub opp NumR]. f_equal. f_equal.
  rewrite ksum_ss_term.
  assert (Hk : Forall (fun iv => (i_c iv < length thetas)%nat) (intervals (sort_ev evs))).
  { rewrite HL, <- (count_kind_sort iscoal evs). apply (intervals_ic_bound NumR). exact Hroot. }
  rewrite (regroup i_c (fun iv j => ss_term NumR iv / lk thetas j 0) _ (length thetas) Hk).
  apply nsum_map_ext. intros j _. unfold group_sum. cbn [div NumR].
  rewrite <- nsum_map_div. apply nsum_map_ext. intros iv _.
  destruct (Nat.eqb (i_c iv) j); cbn [zero NumR]; lra.
Qed.

(* ---- constant coalescent through its statistic ---- *)
Lemma constant_lp_stat_l theta evs :
  constant_lp NumR theta evs = const_value NumR (count_kind iscoal evs) (const_stat NumR evs) theta.
Proof.
  unfold constant_lp, const_value, const_stat. f_equal. f_equal.
  rewrite (ksum_ss_term (fun _ => theta)), nsum_map_div. cbn [div NumR]. reflexivity.
Qed.
