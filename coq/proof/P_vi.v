(* Lemmas for C14: tightness of the variational objectives at the exact posterior (all sample
   counts, by list induction) and the Bayes-constant identities of the conjugate pairs. *)
From Coq Require Import QArith Reals List Lra Lia Qreals.
Import ListNotations.
From TT Require Import Num NumR M_vi.
Open Scope R_scope.

(* ------------------------------------------------------------------ generic list facts *)

Lemma vi_ofNat_INR n : ofNat NumR n = INR n.
Proof. unfold ofNat; simpl. unfold Q2R; simpl. rewrite <- INR_IZR_INZ. lra. Qed.

Lemma nsum_repeat c n : nsum NumR (repeat c n) = INR n * c.
Proof.
  induction n as [|n IH]; [simpl; lra|]. rewrite S_INR. cbn [repeat nsum]. rewrite IH.
  cbn [add NumR]. lra.
Qed.

Lemma nsum_app a b : nsum NumR (a ++ b) = nsum NumR a + nsum NumR b.
Proof.
  induction a as [|x a IH]; cbn [app nsum add zero NumR]; [lra|]. rewrite IH. lra.
Qed.

Lemma nmean_repeat c n : (0 < n)%nat -> nmean NumR (repeat c n) = c.
Proof.
  intros Hn. unfold nmean. rewrite nsum_repeat, repeat_length, vi_ofNat_INR.
  cbn [div NumR]. assert (0 < INR n) by (apply lt_0_INR; lia). field. lra.
Qed.

Lemma zipwith_const {A B} (f : A -> B -> R) c la lb :
  Forall2 (fun a b => f a b = c) la lb -> zipwith f la lb = repeat c (length la).
Proof. induction 1 as [|a b la lb H _ IH]; cbn; [reflexivity|]. rewrite H, IH. reflexivity. Qed.

Lemma zipwith_length {A B C} (f : A -> B -> C) la lb :
  length la = length lb -> length (zipwith f la lb) = length la.
Proof.
  revert lb; induction la as [|a la IH]; destruct lb; cbn; intros H; try discriminate; auto.
Qed.

(* "lp_s - lq_s = c for every sample index s" *)
Definition tight (c : R) (lp lq : list R) : Prop := Forall2 (fun p q => p - q = c) lp lq.
(* the same for a [S,K] table: every row non-empty *)
Definition tight2 (c : R) (lpp lqq : list (list R)) : Prop :=
  Forall2 (fun rp rq => rp <> [] /\ tight c rp rq) lpp lqq.

Lemma logw_tight c lp lq : tight c lp lq -> logw NumR lp lq = repeat c (length lp).
Proof. intros H. unfold logw. apply zipwith_const. exact H. Qed.

Lemma tight_map {A} (lp lq : A -> R) c zs :
  (forall z, lp z - lq z = c) -> tight c (map lp zs) (map lq zs).
Proof. intros H. induction zs; cbn; constructor; auto. Qed.

Lemma tight2_map {A} (lp lq : A -> R) c (zss : list (list A)) :
  (forall z, lp z - lq z = c) -> Forall (fun r => r <> []) zss ->
  tight2 c (map (map lp) zss) (map (map lq) zss).
Proof.
  intros H Hne. induction Hne as [|r zss Hr _ IH]; cbn; constructor; auto.
  split; [destruct r; cbn; congruence | apply tight_map; exact H].
Qed.

Lemma length_pos {A} (l : list A) : l <> [] -> (0 < length l)%nat.
Proof. destruct l; cbn; [congruence | lia]. Qed.

(* ------------------------------------------------------------------ max / logsumexp *)

Lemma fold_max_repeat c n : fold_left Rmax (repeat c n) c = c.
Proof.
  induction n as [|n IH]; cbn; [reflexivity|]. rewrite Rmax_left by lra. exact IH.
Qed.

Lemma maxl_repeat c n : maxl NumR (repeat c (S n)) = c.
Proof. cbn [repeat maxl nmax NumR]. apply fold_max_repeat. Qed.

Lemma map_repeat {A B} (f : A -> B) x n : map f (repeat x n) = repeat (f x) n.
Proof. induction n; cbn; congruence. Qed.

Lemma lse_repeat c n : lse NumR (repeat c (S n)) = c + ln (INR (S n)).
Proof.
  unfold lse. rewrite maxl_repeat, map_repeat, nsum_repeat.
  cbn [add sub nexp nln NumR]. replace (c - c) with 0 by lra. rewrite exp_0, Rmult_1_r.
  reflexivity.
Qed.

(* logsumexp with the max shift is ln (sum exp) on every non-empty list *)
Fixpoint sumexp (l : list R) : R := match l with [] => 0 | x :: r => exp x + sumexp r end.
Lemma sumexp_pos l : l <> [] -> 0 < sumexp l.
Proof.
  destruct l as [|x l]; [congruence|]. intros _. revert x.
  induction l as [|y l IH]; intros x; cbn [sumexp].
  - pose proof (exp_pos x); lra.
  - pose proof (exp_pos x). specialize (IH y). cbn [sumexp] in IH. lra.
Qed.
Lemma sumexp_shift m l :
  nsum NumR (map (fun x => nexp NumR (sub NumR x m)) l) = exp (- m) * sumexp l.
Proof.
  induction l as [|x l IH]; cbn [map nsum sumexp zero add NumR]; [lra|].
  rewrite IH. cbn [nexp sub NumR]. unfold Rminus. rewrite exp_plus. lra.
Qed.
Lemma lse_spec l : l <> [] -> lse NumR l = ln (sumexp l).
Proof.
  intros Hne. unfold lse. rewrite sumexp_shift. cbn [add nln NumR].
  rewrite ln_mult; [| apply exp_pos | apply sumexp_pos; exact Hne]. rewrite ln_exp. lra.
Qed.

(* ------------------------------------------------------------------ tightness, shape [S] *)

Lemma tight_elbo_l c lp lq : lp <> [] -> tight c lp lq -> elbo NumR lp lq = c.
Proof.
  intros Hne H. unfold elbo. rewrite (logw_tight c) by exact H.
  apply nmean_repeat, length_pos, Hne.
Qed.

Lemma tight_iw_row c lp lq : lp <> [] -> tight c lp lq -> iw_row NumR lp lq = c.
Proof.
  intros Hne H. unfold iw_row. rewrite (logw_tight c) by exact H.
  destruct lp as [|p lp]; [congruence|]. cbn [length]. rewrite lse_repeat, vi_ofNat_INR.
  cbn [sub nln NumR]. lra.
Qed.

Lemma tight_vr_l alpha c lp lq :
  Q2R alpha <> 1 -> lp <> [] -> tight c lp lq -> vr NumR alpha lp lq = c.
Proof.
  intros Ha Hne H. unfold vr. rewrite (logw_tight c) by exact H.
  destruct lp as [|p lp]; [congruence|]. cbn [length].
  rewrite map_repeat, repeat_length, lse_repeat, vi_ofNat_INR.
  cbn [sub mul div one ofQ nln NumR]. field. lra.
Qed.

Lemma npow_one n : npow NumR 1 n = 1.
Proof. unfold npow. cbn [nexp nln mul ofQ NumR]. rewrite ln_1, Rmult_0_r, exp_0. reflexivity. Qed.

Lemma tight_cubo_l n c lp lq :
  Q2R n <> 0 -> lp <> [] -> tight c lp lq -> cubo NumR n lp lq = c.
Proof.
  intros Hn Hne H. unfold cubo. rewrite (logw_tight c) by exact H.
  destruct lp as [|p lp]; [congruence|]. cbn [length].
  rewrite maxl_repeat, map_repeat.
  replace (nexp NumR (sub NumR c c)) with 1
    by (cbn [nexp sub NumR]; replace (c - c) with 0 by lra; symmetry; apply exp_0).
  rewrite npow_one, nmean_repeat by lia.
  cbn [add div nln ofQ NumR]. rewrite ln_1. field. exact Hn.
Qed.

Lemma tight_klpq_l c lp lq : lp <> [] -> tight c lp lq -> klpq NumR lp lq = c.
Proof.
  intros Hne H. unfold klpq. rewrite (logw_tight c) by exact H.
  destruct lp as [|p lp]; [congruence|]. cbn [length].
  rewrite lse_repeat, map_repeat, nsum_repeat.
  cbn [mul sub nexp NumR].
  assert (Hp : 0 < INR (S (length lp))) by (apply lt_0_INR; lia).
  replace (c - (c + ln (INR (S (length lp))))) with (- ln (INR (S (length lp)))) by lra.
  rewrite exp_Ropp, exp_ln by exact Hp. field. lra.
Qed.

(* ------------------------------------------------------------------ tightness, shape [S,K] *)

Lemma rows_const (f : list R -> list R -> R) c lpp lqq :
  (forall rp rq, rp <> [] -> tight c rp rq -> f rp rq = c) ->
  tight2 c lpp lqq -> zipwith f lpp lqq = repeat c (length lpp).
Proof.
  intros Hf H. apply zipwith_const.
  induction H as [|rp rq lpp lqq [Hne Ht] _ IH]; constructor; auto.
Qed.

Lemma tight_elbo_multi_l c lpp lqq :
  lpp <> [] -> tight2 c lpp lqq -> elbo_multi NumR lpp lqq = c.
Proof.
  intros Hne H. unfold elbo_multi. rewrite (rows_const _ c) by (auto using tight_iw_row).
  apply nmean_repeat, length_pos, Hne.
Qed.

Lemma tight_vr_multi_l alpha c lpp lqq :
  Q2R alpha <> 1 -> lpp <> [] -> tight2 c lpp lqq -> vr_multi NumR alpha lpp lqq = c.
Proof.
  intros Ha Hne H. unfold vr_multi. rewrite (rows_const _ c) by (auto using tight_vr_l).
  apply nmean_repeat, length_pos, Hne.
Qed.

Lemma tight_klpq_multi_l c lpp lqq :
  lpp <> [] -> tight2 c lpp lqq -> klpq_multi NumR lpp lqq = c.
Proof.
  intros Hne H. unfold klpq_multi. rewrite (rows_const _ c) by (auto using tight_klpq_l).
  apply nmean_repeat, length_pos, Hne.
Qed.

Lemma tight2_concat c lpp lqq : tight2 c lpp lqq -> tight c (concat lpp) (concat lqq).
Proof.
  induction 1 as [|rp rq lpp lqq [_ Hr] _ IH]; cbn [concat]; [constructor|].
  apply Forall2_app; assumption.
Qed.

Lemma tight2_concat_ne c lpp lqq : lpp <> [] -> tight2 c lpp lqq -> concat lpp <> [].
Proof.
  intros Hne H. destruct H as [|rp rq lpp lqq [Hr _] _]; [congruence|].
  cbn [concat]. destruct rp; [congruence|]. cbn. congruence.
Qed.

Lemma tight_cubo_multi_l n c lpp lqq :
  Q2R n <> 0 -> lpp <> [] -> tight2 c lpp lqq -> cubo_multi NumR n lpp lqq = c.
Proof.
  intros Hn Hne H. unfold cubo_multi. apply tight_cubo_l; [exact Hn| |].
  - eapply tight2_concat_ne; eauto.
  - apply tight2_concat; exact H.
Qed.

(* ------------------------------------------------------------------ analytic-entropy ELBO *)

Lemma nsum_tight c lp lq :
  tight c lp lq -> nsum NumR lp = INR (length lp) * c + nsum NumR lq.
Proof.
  induction 1 as [|p q lp lq H _ IH]; [cbn; lra|].
  cbn [length nsum add NumR]. rewrite S_INR, IH. lra.
Qed.

Lemma tight_length c lp lq : tight c lp lq -> length lp = length lq.
Proof. induction 1; cbn; congruence. Qed.

(* elbo_entropy = c + (mean_s lq_s + H): the bracket is the Monte-Carlo error of the entropy *)
Lemma elbo_entropy_identity_l c lp lq h :
  lp <> [] -> tight c lp lq ->
  elbo_entropy NumR lp h = c + (nmean NumR lq + h).
Proof.
  intros Hne H. unfold elbo_entropy, nmean.
  rewrite (nsum_tight c lp lq H), <- (tight_length c lp lq H), vi_ofNat_INR.
  cbn [add div NumR]. assert (0 < INR (length lp)) by (apply lt_0_INR, length_pos, Hne).
  field. lra.
Qed.

Lemma elbo_entropy_tight_iff_l c lp lq h :
  lp <> [] -> tight c lp lq ->
  (elbo_entropy NumR lp h = c <-> nmean NumR lq = - h).
Proof.
  intros Hne H. rewrite (elbo_entropy_identity_l c lp lq h Hne H). split; intros; lra.
Qed.

(* ------------------------------------------------------------------ why the mean hides the
   [S] - [S,1] -> [S,S] broadcast: the mean over the whole table equals the paired ELBO     *)

Lemma nsum_map_sub_l p lq :
  nsum NumR (map (fun q => sub NumR p q) lq) = INR (length lq) * p - nsum NumR lq.
Proof.
  induction lq as [|q lq IH]; [cbn; lra|].
  cbn [map nsum length]. rewrite S_INR, IH. cbn [add sub NumR]. lra.
Qed.

Lemma cross_sum lp lq :
  nsum NumR (concat (cross_logw NumR lp lq))
  = INR (length lq) * nsum NumR lp - INR (length lp) * nsum NumR lq.
Proof.
  unfold cross_logw. induction lp as [|p lp IH]; [cbn; lra|].
  cbn [map concat length]. rewrite nsum_app, IH, nsum_map_sub_l, S_INR.
  cbn [nsum add NumR]. lra.
Qed.

Lemma cross_length lp lq :
  length (concat (cross_logw NumR lp lq)) = (length lp * length lq)%nat.
Proof.
  unfold cross_logw. induction lp as [|p lp IH]; [reflexivity|].
  cbn [map concat length]. rewrite app_length, map_length, IH. lia.
Qed.

Lemma logw_sum lp lq :
  length lp = length lq -> nsum NumR (logw NumR lp lq) = nsum NumR lp - nsum NumR lq.
Proof.
  revert lq; induction lp as [|p lp IH]; destruct lq as [|q lq]; cbn [length]; intros H;
    try discriminate; [cbn; lra|].
  unfold logw in *. cbn [zipwith nsum add sub NumR]. rewrite IH by lia. lra.
Qed.

Lemma elbo_cross_hidden_l lp lq :
  lp <> [] -> length lp = length lq -> elbo_cross NumR lp lq = elbo NumR lp lq.
Proof.
  intros Hne Hl. unfold elbo_cross, elbo, nmean.
  rewrite cross_sum, cross_length, logw_sum by exact Hl.
  unfold logw. rewrite zipwith_length by exact Hl. rewrite !vi_ofNat_INR, <- Hl, mult_INR.
  cbn [div NumR]. assert (0 < INR (length lp)) by (apply lt_0_INR, length_pos, Hne).
  field. lra.
Qed.

(* ------------------------------------------------------------------ Bayes constants *)

Ltac numr := cbn [add sub mul div opp one zero nln nexp NumR].

Lemma sum_exp_lpdf z xs :
  nsum NumR (map (exp_lpdf NumR z) xs) = INR (length xs) * ln z - z * nsum NumR xs.
Proof.
  induction xs as [|x xs IH]; [cbn; lra|].
  cbn [map nsum length]. rewrite S_INR, IH. unfold exp_lpdf. numr. lra.
Qed.

Lemma bayes_constant_ge_l a b lga lgan xs z :
  ge_lp NumR a b lga xs z - ge_lq NumR a b lgan xs z = ge_logml NumR a b lga lgan xs.
Proof.
  unfold ge_lp, ge_lq, ge_logml, gamma_lpdf, nlen. rewrite sum_exp_lpdf, vi_ofNat_INR.
  numr. ring.
Qed.

Lemma sum_poisson_lpmf z ks lgs :
  length ks = length lgs ->
  nsum NumR (zipwith (poisson_lpmf NumR z) ks lgs)
  = nsum NumR ks * ln z - INR (length ks) * z - nsum NumR lgs.
Proof.
  revert lgs; induction ks as [|k ks IH]; destruct lgs as [|g lgs]; cbn [length]; intros H;
    try discriminate; [cbn; lra|].
  cbn [zipwith nsum]. rewrite S_INR, IH by lia. unfold poisson_lpmf. numr. lra.
Qed.

Lemma bayes_constant_gp_l a b lga lgas ks lgs z :
  length ks = length lgs ->
  gp_lp NumR a b lga ks lgs z - gp_lq NumR a b lgas ks z = gp_logml NumR a b lga lgas ks lgs.
Proof.
  intros Hl. unfold gp_lp, gp_lq, gp_logml, gamma_lpdf, nlen.
  rewrite sum_poisson_lpmf by exact Hl. rewrite vi_ofNat_INR. numr. ring.
Qed.

Lemma sum_normal_lpdf k z sigma xs :
  sigma <> 0 ->
  nsum NumR (map (normal_lpdf NumR k z sigma) xs)
  = - (nsum NumR (map (nsq NumR) xs) - 2 * z * nsum NumR xs + INR (length xs) * (z * z))
      / (2 * (sigma * sigma)) - INR (length xs) * (ln sigma + k).
Proof.
  intros Hs. induction xs as [|x xs IH]; [cbn; field; exact Hs|].
  cbn [map nsum length]. rewrite S_INR, IH. unfold normal_lpdf, nsq, ntwo. numr. field. exact Hs.
Qed.

(* posterior of the normal-normal pair *)
Definition nn_post (m0 s0 sigma m1 s1 : R) (xs : list R) : Prop :=
  s1 * s1 = s0 * s0 * (sigma * sigma) / (sigma * sigma + INR (length xs) * (s0 * s0)) /\
  m1 = (m0 * (sigma * sigma) + s0 * s0 * nsum NumR xs)
       / (sigma * sigma + INR (length xs) * (s0 * s0)).

Lemma nn_den_pos s0 sigma n : sigma <> 0 -> 0 < sigma * sigma + INR n * (s0 * s0).
Proof.
  intros Hs. assert (0 < sigma * sigma) by nra. assert (0 <= INR n) by apply pos_INR.
  assert (0 <= s0 * s0) by nra. nra.
Qed.

Lemma bayes_constant_nn_l k m0 s0 sigma m1 s1 xs z :
  sigma <> 0 -> s0 <> 0 -> nn_post m0 s0 sigma m1 s1 xs ->
  nn_lp NumR k m0 s0 sigma xs z - nn_lq NumR k m1 s1 z = nn_logml NumR k m0 s0 sigma m1 s1 xs.
Proof.
  intros Hs H0 [Hv Hm].
  pose proof (nn_den_pos s0 sigma (length xs) Hs) as Hd.
  unfold nn_lp, nn_lq, nn_logml, nlen. rewrite sum_normal_lpdf by exact Hs.
  rewrite vi_ofNat_INR. unfold normal_lpdf, nsq, ntwo. numr.
  rewrite Hv. rewrite Hm.
  set (n := INR (length xs)) in *. set (sx := nsum NumR xs). set (sxx := nsum NumR (map _ xs)).
  field. repeat split; lra.
Qed.

Lemma bayes_constant_bb_l a b lB lBpost n k lC z :
  bb_lp NumR a b lB n k lC z - bb_lq NumR a b lBpost n k z = bb_logml NumR lB lBpost lC.
Proof. unfold bb_lp, bb_lq, bb_logml, binom_lpmf, beta_lpdf. numr. ring. Qed.

(* --- the same through constraining transforms with their Jacobian terms *)

Lemma bayes_constant_ge_exp_l a b lga lgan xs u :
  ge_exp_lp NumR a b lga xs u - ge_exp_lq NumR a b lgan xs u = ge_logml NumR a b lga lgan xs.
Proof.
  unfold ge_exp_lp, ge_exp_lq. numr.
  rewrite <- (bayes_constant_ge_l a b lga lgan xs (exp u)). cbn [nexp NumR]. ring.
Qed.

Lemma bayes_constant_bb_sig_l a b lB lBpost n k lC u :
  bb_sig_lp NumR a b lB n k lC u - bb_sig_lq NumR a b lBpost n k u = bb_logml NumR lB lBpost lC.
Proof.
  unfold bb_sig_lp, bb_sig_lq. numr.
  rewrite <- (bayes_constant_bb_l a b lB lBpost n k lC (sigmoid_of NumR u)). ring.
Qed.

Lemma nn_aff_lq_eq k m1 s1 loc scale ascale u :
  scale <> 0 -> 0 < s1 -> 0 < ascale -> ascale * ascale = scale * scale ->
  nn_aff_lq NumR k m1 s1 loc scale ascale u
  = nn_lq NumR k m1 s1 (loc + scale * u) + ln ascale.
Proof.
  intros Hsc Hs1 Has Hsq. unfold nn_aff_lq, nn_lq, normal_lpdf, nsq, ntwo. numr.
  assert (Hln : ln (s1 / ascale) = ln s1 - ln ascale).
  { unfold Rdiv. rewrite ln_mult; [|lra|apply Rinv_0_lt_compat; lra]. rewrite ln_Rinv by lra. lra. }
  rewrite Hln.
  replace (s1 / ascale * (s1 / ascale)) with (s1 * s1 / (scale * scale))
    by (rewrite <- Hsq; field; lra).
  assert (Hq : (u - (m1 - loc) / scale) * (u - (m1 - loc) / scale)
               / ((1 + 1) * (s1 * s1 / (scale * scale)))
             = (loc + scale * u - m1) * (loc + scale * u - m1) / ((1 + 1) * (s1 * s1))).
  { field. split; lra. }
  rewrite Hq. lra.
Qed.

Lemma bayes_constant_nn_aff_l k m0 s0 sigma m1 s1 loc scale ascale xs u :
  sigma <> 0 -> s0 <> 0 -> nn_post m0 s0 sigma m1 s1 xs ->
  scale <> 0 -> 0 < s1 -> 0 < ascale -> ascale * ascale = scale * scale ->
  nn_aff_lp NumR k m0 s0 sigma loc scale (ln ascale) xs u
  - nn_aff_lq NumR k m1 s1 loc scale ascale u
  = nn_logml NumR k m0 s0 sigma m1 s1 xs.
Proof.
  intros Hs H0 Hp Hsc Hs1 Has Hsq.
  rewrite nn_aff_lq_eq by assumption. unfold nn_aff_lp. numr.
  rewrite <- (bayes_constant_nn_l k m0 s0 sigma m1 s1 xs (loc + scale * u) Hs H0 Hp). ring.
Qed.

Lemma lnn_lp_eq k m0 s0 sigma xs u :
  lnn_lp NumR k m0 s0 sigma xs u = nn_lp NumR k m0 s0 sigma xs u.
Proof.
  unfold lnn_lp, nn_lp, lognormal_lpdf, exp_ladj. cbn [nexp nln NumR]. rewrite ln_exp.
  numr. ring.
Qed.

Lemma bayes_constant_lnn_l k m0 s0 sigma m1 s1 xs u :
  sigma <> 0 -> s0 <> 0 -> nn_post m0 s0 sigma m1 s1 xs ->
  lnn_lp NumR k m0 s0 sigma xs u - nn_lq NumR k m1 s1 u = nn_logml NumR k m0 s0 sigma m1 s1 xs.
Proof. intros. rewrite lnn_lp_eq. apply bayes_constant_nn_l; assumption. Qed.

(* ------------------------------------------------------------------ objective o density:
   whatever the latent type A and the densities, a constant log ratio makes every objective
   return that constant, for every list of draws                                           *)

Definition all_exact (c : R) (lp lq : list R) : Prop :=
  elbo NumR lp lq = c /\
  (forall alpha, Q2R alpha <> 1 -> vr NumR alpha lp lq = c) /\
  (forall n, Q2R n <> 0 -> cubo NumR n lp lq = c) /\
  klpq NumR lp lq = c.

Definition all_exact2 (c : R) (lpp lqq : list (list R)) : Prop :=
  elbo_multi NumR lpp lqq = c /\
  (forall alpha, Q2R alpha <> 1 -> vr_multi NumR alpha lpp lqq = c) /\
  (forall n, Q2R n <> 0 -> cubo_multi NumR n lpp lqq = c) /\
  klpq_multi NumR lpp lqq = c.

Lemma exact_at_posterior_l {A} (lp lq : A -> R) c :
  (forall z, lp z - lq z = c) ->
  (forall zs, zs <> [] -> all_exact c (map lp zs) (map lq zs)) /\
  (forall zss, zss <> [] -> Forall (fun r => r <> []) zss ->
               all_exact2 c (map (map lp) zss) (map (map lq) zss)).
Proof.
  intros H. split.
  - intros zs Hne. assert (Hm : map lp zs <> []) by (destruct zs; cbn; congruence).
    pose proof (tight_map lp lq c zs H) as Ht. repeat split.
    + apply tight_elbo_l; assumption.
    + intros; apply tight_vr_l; assumption.
    + intros; apply tight_cubo_l; assumption.
    + apply tight_klpq_l; assumption.
  - intros zss Hne Hr. assert (Hm : map (map lp) zss <> []) by (destruct zss; cbn; congruence).
    pose proof (tight2_map lp lq c zss H Hr) as Ht. repeat split.
    + apply tight_elbo_multi_l; assumption.
    + intros; apply tight_vr_multi_l; assumption.
    + intros; apply tight_cubo_multi_l; assumption.
    + apply tight_klpq_multi_l; assumption.
Qed.

Lemma exact_gamma_exponential_l a b lga lgan xs zs :
  zs <> [] ->
  all_exact (ge_logml NumR a b lga lgan xs)
            (map (ge_lp NumR a b lga xs) zs) (map (ge_lq NumR a b lgan xs) zs).
Proof.
  revert zs. exact (proj1 (exact_at_posterior_l _ _ _ (bayes_constant_ge_l a b lga lgan xs))).
Qed.
