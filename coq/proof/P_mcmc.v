(* C15 — lemmas about the MCMC model (model/M_mcmc.v) at the real-number instance.
   Part A: invariants of every run (induction over the list of iterations).
   Part B: Hastings ratios (densities derived from the sampling statements).
   Part C: direction of tuning, over the getters / setters regenerated from the sources. *)
From Coq Require Import QArith Reals List Bool Arith Lia Lra Qreals.
From Coquelicot Require Import Coquelicot.
Import ListNotations.
From TT Require Import Num NumR Tree G_tuning M_mcmc.
Open Scope R_scope.

(* ======================================================================================== *)
(* Part A — runs                                                                             *)
(* ======================================================================================== *)

Definition Rltb (a b : R) : bool := if Rlt_dec a b then true else false.

Lemma Rltb_true a b : Rltb a b = true <-> a < b.
Proof. unfold Rltb; destruct (Rlt_dec a b); split; intros; auto; discriminate. Qed.

(* the evaluation oracles of an iteration are faithful to the target [pi]: what the
   implementation computes when MCMC.run / the logger call the joint model IS the target at the
   current parameter values (no stale cache: property C11, made an explicit hypothesis) *)
Definition faithful (pi : list R -> ext R) (d : draws R) : Prop :=
  (forall x, d_eval d x = pi x) /\ (forall x, d_evlog d x = pi x).

Definition rec_density_ok (pi : list R -> ext R) (r : rec R) : Prop :=
  pi (r_before r) = Fin (r_lj_before r) /\
  (r_hast r <> NonFin -> r_dens r = pi (r_prop r)) /\
  pi (r_after r) = Fin (r_lj_after r) /\
  r_logx r = r_after r /\ r_logp r = pi (r_logx r) /\ r_logp r = Fin (r_lj_after r).

(* min(1, exp(change in log density + log Hastings ratio)), 0 when something is not finite *)
Definition mh_prob (lj : R) (h dens : ext R) : R :=
  match h, dens with
  | Fin hv, Fin p' => Rmin 1 (exp ((p' - lj) + hv))
  | _, _ => 0
  end.

Definition rec_accept_ok (r : rec R) : Prop :=
  r_ap r = mh_prob (r_lj_before r) (r_hast r) (r_dens r) /\
  (r_acc r = true <->
   (exists hv p', r_hast r = Fin hv /\ r_dens r = Fin p' /\
                  r_u r < Rmin 1 (exp ((p' - r_lj_before r) + hv)))).

Definition rec_restore_ok (r : rec R) : Prop :=
  (r_acc r = false -> r_after r = r_before r /\ r_lj_after r = r_lj_before r) /\
  (r_acc r = true -> r_after r = r_prop r /\ r_dens r = Fin (r_lj_after r)).

Lemma nmin_Rmin a b : nmin NumR a b = Rmin a b.
Proof.
  unfold nmin; cbn [opp nmax NumR]. unfold Rmax, Rmin.
  destruct (Rle_dec (- a) (- b)); destruct (Rle_dec a b); lra.
Qed.

Lemma exp_Rmin0 a : exp (Rmin 0 a) = Rmin 1 (exp a).
Proof.
  unfold Rmin. destruct (Rle_dec 0 a) as [H|H].
  - rewrite exp_0. destruct (Rle_dec 1 (exp a)) as [H1|H1]; [reflexivity|].
    exfalso. apply H1. rewrite <- exp_0. destruct H as [H|H].
    + left. apply exp_increasing. exact H.
    + subst. right. reflexivity.
  - destruct (Rle_dec 1 (exp a)) as [H1|H1]; [|reflexivity].
    exfalso. assert (a < 0) as Ha by lra. apply exp_increasing in Ha. rewrite exp_0 in Ha. lra.
Qed.

Lemma mh_spec lj h dens u :
  let r := mh NumR Rltb lj h dens u in
  fst (fst r) = mh_prob lj h dens /\
  (snd (fst r) = true <->
   exists hv p', h = Fin hv /\ dens = Fin p' /\ u < Rmin 1 (exp ((p' - lj) + hv))) /\
  (snd (fst r) = false -> snd r = lj) /\ (snd (fst r) = true -> dens = Fin (snd r)).
Proof.
  unfold mh, mh_prob. destruct h as [hv|]; [destruct dens as [p'|]|]; cbn [fst snd].
  - cbn [add sub zero nexp NumR]. rewrite nmin_Rmin, exp_Rmin0.
    split; [reflexivity|]. split; [|split].
    + rewrite Rltb_true. split.
      * intros H. exists hv, p'. auto.
      * intros (hv' & p'' & E1 & E2 & H). injection E1 as <-. injection E2 as <-. exact H.
    + intros ->. reflexivity.
    + intros ->. reflexivity.
  - split; [reflexivity|]. split; [|split]; try discriminate; auto.
    split; [discriminate|]. intros (? & ? & _ & E & _). discriminate.
  - split; [reflexivity|]. split; [|split]; try discriminate; auto.
    split; [discriminate|]. intros (? & ? & E & _). discriminate.
Qed.

Lemma step_ok pi cfgs st d :
  pi (c_x st) = Fin (c_lj st) -> faithful pi d ->
  let sr := step NumR Rltb cfgs st d in
  pi (c_x (fst sr)) = Fin (c_lj (fst sr)) /\
  rec_density_ok pi (snd sr) /\ rec_accept_ok (snd sr) /\ rec_restore_ok (snd sr) /\
  r_before (snd sr) = c_x st /\ r_lj_before (snd sr) = c_lj st /\
  r_after (snd sr) = c_x (fst sr) /\ r_lj_after (snd sr) = c_lj (fst sr).
Proof.
  intros Hinv [Hev Hlog]. unfold step.
  destruct (propose NumR _ _ (c_x st) d) as [x' h].
  set (dens := match h with Fin _ => d_eval d x' | NonFin => NonFin end).
  pose proof (mh_spec (c_lj st) h dens (d_uacc d)) as M.
  destruct (mh NumR Rltb (c_lj st) h dens (d_uacc d)) as [[ap a] lj']. cbn [fst snd] in M.
  destruct M as (Hap & Hacc & Hrej & Hac).
  cbn [fst snd c_x c_lj r_before r_lj_before r_prop r_hast r_dens r_u r_ap r_acc r_after r_lj_after
       r_logx r_logp].
  assert (Hd : h <> NonFin -> dens = pi x').
  { intros Hh. unfold dens. destruct h; [apply Hev | congruence]. }
  assert (Hnew : pi (if a then x' else c_x st) = Fin lj').
  { destruct a.
    - specialize (Hac eq_refl). rewrite <- Hac. symmetry. apply Hd.
      destruct Hacc as [Hacc _]. destruct (Hacc eq_refl) as (hv & _ & -> & _). discriminate.
    - rewrite (Hrej eq_refl). exact Hinv. }
  split; [exact Hnew|].
  split.
  { unfold rec_density_ok.
    cbn [r_before r_lj_before r_prop r_hast r_dens r_after r_lj_after r_logx r_logp].
    repeat split; auto; try (rewrite Hlog; exact Hnew). }
  split.
  { unfold rec_accept_ok. cbn [r_ap r_lj_before r_hast r_dens r_acc r_u]. split; assumption. }
  split.
  { unfold rec_restore_ok. cbn [r_acc r_after r_before r_lj_after r_lj_before r_prop r_dens].
    split; intros ->; auto. }
  repeat split; reflexivity.
Qed.

Lemma run_ok pi cfgs ds : forall st,
  pi (c_x st) = Fin (c_lj st) -> List.Forall (faithful pi) ds ->
  let sr := run NumR Rltb cfgs st ds in
  pi (c_x (fst sr)) = Fin (c_lj (fst sr)) /\
  List.Forall (fun r => rec_density_ok pi r /\ rec_accept_ok r /\ rec_restore_ok r) (snd sr).
Proof.
  induction ds as [|d ds IH]; intros st Hinv Hf.
  - cbn. split; [assumption | constructor].
  - inversion Hf as [|? ? Hd Hds]; subst.
    pose proof (step_ok pi cfgs st d Hinv Hd) as S.
    cbn [run]. destruct (step NumR Rltb cfgs st d) as [st1 rc].
    cbn [fst snd] in S. destruct S as (H1 & Hden & Hacc & Hres & _).
    specialize (IH st1 H1 Hds).
    destruct (run NumR Rltb cfgs st1 ds) as [st2 t]. cbn [fst snd] in *.
    destruct IH as [IH1 IH2]. split; [exact IH1|]. constructor; auto.
Qed.

(* the invariant does not depend on how moves are decided: it holds for ANY decision function *)
Lemma carried_any_dec pi dec cfgs ds : forall st,
  pi (c_x st) = Fin (c_lj st) -> List.Forall (faithful pi) ds ->
  let sr := run NumR dec cfgs st ds in
  pi (c_x (fst sr)) = Fin (c_lj (fst sr)) /\
  List.Forall (fun r => pi (r_before r) = Fin (r_lj_before r) /\
                   (r_hast r <> NonFin -> r_dens r = pi (r_prop r)) /\
                   pi (r_after r) = Fin (r_lj_after r)) (snd sr).
Proof.
  induction ds as [|d ds IH]; intros st Hinv Hf.
  - cbn. split; [assumption | constructor].
  - inversion Hf as [|? ? [Hev Hlog] Hds]; subst. cbn [run].
    assert (S : pi (c_x (fst (step NumR dec cfgs st d))) = Fin (c_lj (fst (step NumR dec cfgs st d))) /\
                (let r := snd (step NumR dec cfgs st d) in
                 pi (r_before r) = Fin (r_lj_before r) /\
                 (r_hast r <> NonFin -> r_dens r = pi (r_prop r)) /\
                 pi (r_after r) = Fin (r_lj_after r))).
    { unfold step. destruct (propose NumR _ _ (c_x st) d) as [x' h].
      unfold mh. destruct h as [hv|].
      - rewrite Hev. destruct (pi x') as [p'|] eqn:E.
        + cbn [fst snd c_x c_lj r_before r_lj_before r_hast r_dens r_prop r_after r_lj_after].
          destruct (dec (d_uacc d) _); repeat split; auto.
        + cbn [fst snd c_x c_lj r_before r_lj_before r_hast r_dens r_prop r_after r_lj_after].
          repeat split; auto.
      - cbn [fst snd c_x c_lj r_before r_lj_before r_hast r_dens r_prop r_after r_lj_after].
        repeat split; auto. intros H; congruence. }
    destruct (step NumR dec cfgs st d) as [st1 rc]. cbn [fst snd] in S. destruct S as [S1 S2].
    specialize (IH st1 S1 Hds). destruct (run NumR dec cfgs st1 ds) as [st2 t]. cbn [fst snd] in *.
    destruct IH as [IH1 IH2]. split; [exact IH1 | constructor; auto].
Qed.

(* consecutive records are chained: the state after iteration i is the state before i+1 *)
Fixpoint chained (x : list R) (lj : R) (t : list (rec R)) : Prop :=
  match t with
  | [] => True
  | r :: t' => r_before r = x /\ r_lj_before r = lj /\ chained (r_after r) (r_lj_after r) t'
  end.

Lemma run_chained dec cfgs ds : forall st,
  chained (c_x st) (c_lj st) (snd (run NumR dec cfgs st ds)).
Proof.
  induction ds as [|d ds IH]; intros st; cbn [run]; [exact I|].
  assert (S : r_before (snd (step NumR dec cfgs st d)) = c_x st /\
              r_lj_before (snd (step NumR dec cfgs st d)) = c_lj st /\
              r_after (snd (step NumR dec cfgs st d)) = c_x (fst (step NumR dec cfgs st d)) /\
              r_lj_after (snd (step NumR dec cfgs st d)) = c_lj (fst (step NumR dec cfgs st d))).
  { unfold step. destruct (propose NumR _ _ (c_x st) d) as [x' h].
    destruct (mh NumR dec (c_lj st) h _ (d_uacc d)) as [[ap a] lj']. cbn. auto. }
  destruct (step NumR dec cfgs st d) as [st1 rc]. cbn [fst snd] in S.
  destruct S as (S1 & S2 & S3 & S4).
  specialize (IH st1). destruct (run NumR dec cfgs st1 ds) as [st2 t]. cbn [snd chained] in *.
  rewrite S3, S4. auto.
Qed.

(* unfolded readings of the per-record predicates *)
Lemma accept_unfolded (r : rec R) :
  rec_accept_ok r ->
  (r_acc r = true <->
   exists hv p', r_hast r = Fin hv /\ r_dens r = Fin p' /\
                 r_u r < Rmin 1 (exp ((p' - r_lj_before r) + hv))) /\
  ((r_hast r = NonFin \/ r_dens r = NonFin) -> r_acc r = false /\ r_ap r = 0).
Proof.
  intros [Hap Hacc]. split; [exact Hacc|]. intros H. split.
  - destruct (r_acc r) eqn:E; [|reflexivity]. destruct Hacc as [Hacc _].
    destruct (Hacc eq_refl) as (hv & p' & E1 & E2 & _). destruct H as [H|H]; congruence.
  - rewrite Hap. unfold mh_prob. destruct H as [-> | ->]; [reflexivity|]. destruct (r_hast r); reflexivity.
Qed.
Lemma restore_unfolded (r : rec R) :
  rec_restore_ok r -> r_acc r = false -> r_after r = r_before r /\ r_lj_after r = r_lj_before r.
Proof. intros [H _] E. exact (H E). Qed.
Lemma model_scaler_hastings_l (cfg : opcfg R) os x d : k_kind cfg = KScaler ->
  snd (propose NumR cfg os x d) = Fin (opp NumR (nln NumR (scaler_s NumR (o_field os) (d_u d)))).
Proof. intros H. unfold propose. rewrite H. reflexivity. Qed.
Lemma model_sliding_hastings_l (cfg : opcfg R) os x d : k_kind cfg = KSliding ->
  snd (propose NumR cfg os x d) = Fin 0.
Proof. intros H. unfold propose. rewrite H. reflexivity. Qed.

(* for the non-vacuity example: a draw u = 0 accepts any finite proposal, u = 1 rejects *)
Lemma step_accepts_u0 cfgs st d x' hv p' :
  propose NumR (lk cfgs (d_op d) (default_cfg NumR)) (lk (c_ops st) (d_op d) (default_op NumR)) (c_x st) d
    = (x', Fin hv) ->
  d_eval d x' = Fin p' -> d_uacc d = 0 ->
  r_acc (snd (step NumR Rltb cfgs st d)) = true /\ r_after (snd (step NumR Rltb cfgs st d)) = x'.
Proof.
  intros Hp He Hu. unfold step. rewrite Hp, He, Hu. unfold mh.
  assert (E : Rltb 0 (nexp NumR (nmin NumR (zero NumR) (add NumR (sub NumR p' (c_lj st)) hv))) = true).
  { apply Rltb_true. cbn [nexp NumR]. apply exp_pos. }
  rewrite E. cbn [snd r_acc r_after]. auto.
Qed.
Lemma step_rejects_u1 cfgs st d :
  d_uacc d = 1 ->
  r_acc (snd (step NumR Rltb cfgs st d)) = false /\ r_after (snd (step NumR Rltb cfgs st d)) = c_x st.
Proof.
  intros Hu. unfold step. destruct (propose NumR _ _ (c_x st) d) as [x' h]. rewrite Hu. unfold mh.
  destruct h as [hv|]; [|cbn; auto]. destruct (d_eval d x') as [p'|]; [|cbn; auto].
  assert (E : Rltb 1 (nexp NumR (nmin NumR (zero NumR) (add NumR (sub NumR p' (c_lj st)) hv))) = false).
  { unfold Rltb. destruct (Rlt_dec _ _) as [r|]; [|reflexivity]. exfalso.
    cbn [nexp zero NumR] in r. rewrite nmin_Rmin, exp_Rmin0 in r.
    pose proof (Rmin_l 1 (exp (add NumR (sub NumR p' (c_lj st)) hv))). lra. }
  rewrite E. cbn [snd r_acc r_after]. auto.
Qed.

(* restoration needs no hypothesis at all: any decision function, any oracles *)
Lemma step_restores dec cfgs st d :
  let r := snd (step NumR dec cfgs st d) in
  (r_acc r = false -> r_after r = r_before r /\ r_lj_after r = r_lj_before r) /\
  (r_acc r = true -> r_after r = r_prop r /\ r_dens r = Fin (r_lj_after r)).
Proof.
  unfold step. destruct (propose NumR _ _ (c_x st) d) as [x' h]. unfold mh.
  destruct h as [hv|].
  - destruct (d_eval d x') as [p'|].
    + cbn [snd r_acc r_after r_before r_lj_after r_lj_before r_prop r_dens].
      destruct (dec (d_uacc d) _); split; intros E; try discriminate; auto.
    + cbn. split; intros E; try discriminate; auto.
  - cbn. split; intros E; try discriminate; auto.
Qed.

Lemma run_restores dec cfgs ds : forall st,
  List.Forall (fun r => (r_acc r = false -> r_after r = r_before r /\ r_lj_after r = r_lj_before r) /\
                        (r_acc r = true -> r_after r = r_prop r /\ r_dens r = Fin (r_lj_after r)))
              (snd (run NumR dec cfgs st ds)).
Proof.
  induction ds as [|d ds IH]; intros st; cbn [run]; [constructor|].
  pose proof (step_restores dec cfgs st d) as S.
  destruct (step NumR dec cfgs st d) as [st1 rc]. cbn [snd] in S.
  specialize (IH st1). destruct (run NumR dec cfgs st1 ds) as [st2 t]. cbn [snd] in *.
  constructor; assumption.
Qed.

Lemma run_logged pi cfgs ds st :
  pi (c_x st) = Fin (c_lj st) -> List.Forall (faithful pi) ds ->
  List.Forall (fun r => r_logx r = r_after r /\ r_logp r = pi (r_logx r) /\ r_logp r = Fin (r_lj_after r))
              (snd (run NumR Rltb cfgs st ds)).
Proof.
  intros H0 Hf. destruct (run_ok pi cfgs ds st H0 Hf) as [_ H].
  eapply Forall_impl; [|exact H]. intros r [(_ & _ & _ & A & B & C) _]. auto.
Qed.

(* ln form of the accept test (the form quoted in the design):  ln u < min(0, D + H) *)
Lemma accept_ln_form u a : 0 < u -> (u < Rmin 1 (exp a) <-> ln u < Rmin 0 a).
Proof.
  intros Hu. rewrite <- exp_Rmin0. split; intros H.
  - rewrite <- (ln_exp (Rmin 0 a)). apply ln_increasing; assumption.
  - rewrite <- (exp_ln u Hu). apply exp_increasing. exact H.
Qed.

(* ======================================================================================== *)
(* Part B — Hastings ratios                                                                  *)
(* ======================================================================================== *)

(* --- ScalerOperator: x' = s x, s = a + u (1/a - a), u ~ U(0,1), 0 < a < 1, x > 0 --------- *)

Lemma scaler_window a : 0 < a < 1 -> 0 < / a - a.
Proof.
  intros [H0 H1]. assert (1 < / a). { rewrite <- Rinv_1. apply Rinv_lt_contravar; lra. } lra.
Qed.

Lemma scaler_s_range a u : 0 < a < 1 -> 0 < u < 1 ->
  a < scaler_s NumR a u < / a.
Proof.
  intros Ha [Hu0 Hu1]. pose proof (scaler_window a Ha) as W.
  unfold scaler_s; cbn [add mul sub div one NumR]. unfold Rdiv. rewrite Rmult_1_l. nra.
Qed.

(* the event {proposal <= t} in terms of the uniform draw: P(x' <= t) = (t/x - a)/(1/a - a) *)
Definition scale_cdf (a x t : R) : R := (t / x - a) / (/ a - a).
Lemma affine_event a D x u t : 0 < D -> 0 < x -> ((a + u * D) * x <= t <-> u <= (t / x - a) / D).
Proof.
  intros HD Hx. rewrite <- (Rle_div_r u _ D HD). rewrite (Rle_div_r (a + u * D) t x Hx). split; lra.
Qed.
Lemma scaler_event a x u t : 0 < a < 1 -> 0 < x ->
  (scaler_s NumR a u * x <= t <-> u <= scale_cdf a x t).
Proof.
  intros Ha Hx. pose proof (scaler_window a Ha) as W.
  unfold scaler_s, scale_cdf; cbn [add mul sub div one NumR]. unfold Rdiv at 1. rewrite Rmult_1_l.
  apply affine_event; assumption.
Qed.

(* density of the proposal = derivative of that distribution function *)
Definition scale_density (a x : R) : R := / (x * (/ a - a)).
Lemma scale_density_derive a x t : 0 < a < 1 -> 0 < x ->
  is_derive (scale_cdf a x) t (scale_density a x).
Proof.
  intros Ha Hx. pose proof (scaler_window a Ha) as W.
  unfold scale_cdf, scale_density. remember (/ a - a) as D eqn:ED. clear ED.
  auto_derive; [exact I|]. field. split; lra.
Qed.

(* the reverse move x' -> x is a scaling by 1/s, which lies in the same window (so the reverse
   density is the positive one) *)
Lemma scaler_reverse_in_window a s : 0 < a < 1 -> a < s < / a -> a < / s < / a.
Proof.
  intros [Ha0 Ha1] [Hs0 Hs1]. split.
  - rewrite <- (Rinv_inv a) at 1. apply Rinv_lt_contravar; [|exact Hs1].
    apply Rmult_lt_0_compat; [lra | apply Rinv_0_lt_compat; lra].
  - apply Rinv_lt_contravar; [|exact Hs0]. apply Rmult_lt_0_compat; lra.
Qed.

Lemma hastings_scaler_l a u x :
  0 < a < 1 -> 0 < u < 1 -> 0 < x ->
  let s := scaler_s NumR a u in
  let x' := s * x in
  (a < / s < / a) /\ x = / s * x' /\
  opp NumR (nln NumR s) = ln (scale_density a x' / scale_density a x).
Proof.
  intros Ha Hu Hx s x'. pose proof (scaler_s_range a u Ha Hu) as Hs. fold s in Hs.
  pose proof (scaler_window a Ha) as W.
  assert (0 < s) by lra.
  split; [apply scaler_reverse_in_window; assumption|].
  split; [unfold x'; field; lra|].
  cbn [opp nln NumR]. unfold scale_density, x'. clearbody s.
  remember (/ a - a) as D eqn:ED. clear ED.
  replace (/ (s * x * D) / / (x * D)) with (/ s) by (field; repeat split; lra).
  rewrite ln_Rinv; [reflexivity | assumption].
Qed.

(* --- SlidingWindowOperator: x' = x + w (u - 1/2), u ~ U(0,1), w > 0 ---------------------- *)
Definition slide_cdf (w x t : R) : R := (t - x) / w + / 2.
Lemma sliding_event w x u t : 0 < w ->
  (x + sliding_shift NumR w u <= t <-> u <= slide_cdf w x t).
Proof.
  intros Hw. unfold sliding_shift, slide_cdf; cbn [mul sub ofQ NumR].
  replace (Q2R (1 # 2)) with (/ 2) by (unfold Q2R; simpl; lra).
  rewrite <- (Rplus_0_l ((t - x) / w + / 2)).
  replace (0 + ((t - x) / w + / 2)) with ((t - x + w / 2) / w) by (field; lra).
  rewrite <- (Rle_div_r u _ w Hw). split; lra.
Qed.
Definition slide_density (w : R) : R := / w.
Lemma slide_density_derive w x t : 0 < w -> is_derive (slide_cdf w x) t (slide_density w).
Proof.
  intros Hw. unfold slide_cdf, slide_density. auto_derive; [exact I|]. field. lra.
Qed.
Lemma sliding_shift_range w u : 0 < w -> 0 < u < 1 ->
  - (w / 2) < sliding_shift NumR w u < w / 2.
Proof.
  intros Hw Hu. unfold sliding_shift; cbn [mul sub ofQ NumR].
  replace (Q2R (1 # 2)) with (/ 2) by (unfold Q2R; simpl; lra). nra.
Qed.

Lemma hastings_sliding_l w u x :
  0 < w -> 0 < u < 1 ->
  let x' := x + sliding_shift NumR w u in
  (* the reverse move is inside the window centred at x' ... *)
  (- (w / 2) < x - x' < w / 2) /\
  (* ... and the code's Hastings term (0) is the log ratio of the two (equal) densities *)
  zero NumR = ln (slide_density w / slide_density w).
Proof.
  intros Hw Hu x'. pose proof (sliding_shift_range w u Hw Hu) as S. split.
  - unfold x'. lra.
  - cbn [zero NumR]. unfold slide_density.
    replace (/ w / / w) with 1 by (field; lra). symmetry. apply ln_1.
Qed.

(* --- oracle operators: Hastings = difference of the two log terms ------------------------ *)
Lemma hastings_log_ratio b f : sub NumR b f = ln (exp b / exp f).
Proof.
  cbn [sub NumR]. unfold Rdiv. rewrite <- exp_Ropp, <- exp_plus, ln_exp. reflexivity.
Qed.

(* HMC: log-density change + (K0 - K1) = H0 - H1 with H = -log density + K *)
Lemma hmc_full_hamiltonian lp0 lp1 k0 k1 :
  (lp1 - lp0) + sub NumR k0 k1 = (- lp0 + k0) - (- lp1 + k1).
Proof. cbn [sub NumR]. ring. Qed.

(* --- block operator: proposal of the precision ------------------------------------------- *)
(* multiplier m of the precision: with probability L/(L + 2 ln s) uniform on (1/s, s)
   (L = s - 1/s), otherwise s^(2u-1); s > 1 *)
Definition prec_cdf (s t : R) : R :=
  let L := s - / s in
  (L / (L + 2 * ln s)) * ((t - / s) / L) + (2 * ln s / (L + 2 * ln s)) * ((ln t / ln s + 1) / 2).
Definition prec_density (s t : R) : R := (1 + / t) / ((s - / s) + 2 * ln s).

Lemma block_len_pos s : 1 < s -> 0 < s - / s /\ 0 < ln s.
Proof.
  intros Hs. split.
  - assert (/ s < 1). { rewrite <- Rinv_1. apply Rinv_lt_contravar; lra. } lra.
  - rewrite <- ln_1. apply ln_increasing; lra.
Qed.

Lemma prec_uniform_event s u t : 1 < s ->
  (prec_mult_uniform NumR s u <= t <-> u <= (t - / s) / (s - / s)).
Proof.
  intros Hs. destruct (block_len_pos s Hs) as [L _].
  unfold prec_mult_uniform; cbn [add mul sub div one NumR]. unfold Rdiv at 1 2. rewrite !Rmult_1_l.
  rewrite <- (Rle_div_r u _ (s - / s) L). split; lra.
Qed.

Lemma prec_loguniform_event s u t : 1 < s -> 0 < t ->
  (prec_mult_loguniform NumR s u <= t <-> u <= (ln t / ln s + 1) / 2).
Proof.
  intros Hs Ht. destruct (block_len_pos s Hs) as [_ Hl].
  unfold prec_mult_loguniform; cbn [nexp mul sub ofQ one nln NumR].
  replace (Q2R 2) with 2 by (unfold Q2R; simpl; lra).
  split; intros H.
  - assert ((2 * u - 1) * ln s <= ln t) as H1.
    { destruct H as [H|H].
      - left. rewrite <- (ln_exp ((2 * u - 1) * ln s)). apply ln_increasing; [apply exp_pos | exact H].
      - right. rewrite <- H, ln_exp. reflexivity. }
    assert (2 * u - 1 <= ln t / ln s).
    { apply Rmult_le_reg_r with (ln s); [exact Hl|].
      replace (ln t / ln s * ln s) with (ln t) by (field; lra). exact H1. }
    lra.
  - assert (2 * u - 1 <= ln t / ln s) as H1 by lra.
    apply Rmult_le_compat_r with (r := ln s) in H1; [|lra].
    replace (ln t / ln s * ln s) with (ln t) in H1 by (field; lra).
    rewrite <- (exp_ln t Ht). destruct H1 as [H1|H1].
    + left. apply exp_increasing. exact H1.
    + right. rewrite H1. reflexivity.
Qed.

Lemma prec_density_derive s t : 1 < s -> 0 < t ->
  is_derive (prec_cdf s) t (prec_density s t).
Proof.
  intros Hs Ht. destruct (block_len_pos s Hs) as [L Hl].
  unfold prec_cdf, prec_density. cbv zeta.
  remember (s - / s) as L0 eqn:E0. remember (ln s) as ls eqn:E1. remember (/ s) as si eqn:E2.
  clear E0 E1 E2. auto_derive.
  - repeat split; lra.
  - field. repeat split; lra.
Qed.

(* precision' = m * precision has density f(precision'/precision)/precision; the reverse move
   divides by m; the ratio of reverse to forward density is exactly 1, so the block operator is
   right not to add a term for the precision *)
Lemma hastings_precision_l s m tau : 1 < s -> 0 < m -> 0 < tau ->
  let tau' := m * tau in
  let fwd := prec_density s (tau' / tau) / tau in
  let bwd := prec_density s (tau / tau') / tau' in
  0 < fwd /\ ln (bwd / fwd) = 0.
Proof.
  intros Hs Hm Ht tau' fwd bwd. destruct (block_len_pos s Hs) as [L Hl].
  assert (Hf : 0 < fwd).
  { unfold fwd, prec_density, tau'.
    replace (m * tau / tau) with m by (field; lra).
    apply Rdiv_lt_0_compat; [|lra]. apply Rdiv_lt_0_compat; [|lra].
    assert (0 < / m) by (apply Rinv_0_lt_compat; lra). lra. }
  split; [exact Hf|].
  replace (bwd / fwd) with 1; [apply ln_1|].
  unfold bwd, fwd, prec_density, tau'.
  assert (HC : 0 < s - / s + 2 * ln s) by lra.
  remember (s - / s + 2 * ln s) as C0 eqn:EC. clear EC.
  field. repeat split; lra.
Qed.

(* ======================================================================================== *)
(* Part C — direction of tuning                                                              *)
(* ======================================================================================== *)

Lemma Q2R_1 : Q2R (1 # 1) = 1. Proof. unfold Q2R; simpl; lra. Qed.
Lemma Q2R_2 : Q2R (2 # 1) = 2. Proof. unfold Q2R; simpl; lra. Qed.

Lemma ofNat_R n : ofNat NumR n = INR n.
Proof.
  unfold ofNat; cbn [ofQ NumR]. unfold Q2R, inject_Z; cbn [Qnum Qden].
  rewrite <- INR_IZR_INZ. lra.
Qed.

(* Robbins-Monro step regenerated from MCMCOperator.tune: moves the adaptable parameter up
   exactly when the acceptance probability is above target *)
Lemma tune_step_up v ap tgt n : tgt <= ap -> v <= MCMCOperator_tune NumR v ap tgt n.
Proof.
  intros H. unfold MCMCOperator_tune; cbn [add div sub ofQ NumR]. rewrite Q2R_2, ofNat_R.
  pose proof (pos_INR n). assert (0 <= (ap - tgt) / (2 + INR n)).
  { apply Rmult_le_pos; [lra|]. left. apply Rinv_0_lt_compat. lra. } lra.
Qed.
Lemma tune_step_up_strict v ap tgt n : tgt < ap -> v < MCMCOperator_tune NumR v ap tgt n.
Proof.
  intros H. unfold MCMCOperator_tune; cbn [add div sub ofQ NumR]. rewrite Q2R_2, ofNat_R.
  pose proof (pos_INR n). assert (0 < (ap - tgt) / (2 + INR n)).
  { apply Rdiv_lt_0_compat; lra. } lra.
Qed.
Lemma tune_step_down v ap tgt n : ap <= tgt -> MCMCOperator_tune NumR v ap tgt n <= v.
Proof.
  intros H. unfold MCMCOperator_tune; cbn [add div sub ofQ NumR]. rewrite Q2R_2, ofNat_R.
  pose proof (pos_INR n). assert (0 <= (tgt - ap) / (2 + INR n)).
  { apply Rmult_le_pos; [lra|]. left. apply Rinv_0_lt_compat. lra. }
  unfold Rdiv in *. lra.
Qed.

(* the proposal spread of each operator as a function of its tuned field *)
Definition spread (k : kind) (s : R) : R :=
  match k with
  | KScaler => / s - s          (* width of the window U(s, 1/s) of the multiplier *)
  | KSliding => s               (* width of the sliding window *)
  | KDirichlet => / s           (* inverse concentration of Dirichlet(scaler * x) *)
  | KBlock => s - / s           (* width of the window (1/s, s) of the precision multiplier *)
  | KHmc => s                   (* leapfrog step size *)
  end.
Definition dom (k : kind) (s : R) : Prop :=
  match k with
  | KScaler => 0 < s < 1
  | KSliding | KDirichlet | KHmc => 0 < s
  | KBlock => 1 <= s
  end.

(* per class: setter after getter is the identity on the domain, the setter lands in the domain,
   and spread o setter is non-decreasing *)
Lemma exp_le a b : a <= b -> exp a <= exp b.
Proof. intros [H|H]; [left; apply exp_increasing; exact H | subst; right; reflexivity]. Qed.

Lemma scaler_set_get s : 0 < s < 1 -> ScalerOperator_set NumR (ScalerOperator_get NumR s) = s.
Proof.
  intros [H0 H1]. unfold ScalerOperator_set, ScalerOperator_get; cbn [div add sub nexp nln ofQ NumR].
  rewrite Q2R_1. assert (1 < / s). { rewrite <- Rinv_1. apply Rinv_lt_contravar; lra. }
  rewrite exp_ln; [|unfold Rdiv; lra]. field. lra.
Qed.
Lemma scaler_set_dom v : 0 < ScalerOperator_set NumR v < 1.
Proof.
  unfold ScalerOperator_set; cbn [div add nexp ofQ NumR]. rewrite Q2R_1.
  pose proof (exp_pos v). split.
  - apply Rdiv_lt_0_compat; lra.
  - apply Rmult_lt_reg_r with (exp v + 1); [lra|]. unfold Rdiv. rewrite Rmult_assoc, Rinv_l; lra.
Qed.
Lemma scaler_spread_mono v1 v2 : v1 <= v2 ->
  spread KScaler (ScalerOperator_set NumR v1) <= spread KScaler (ScalerOperator_set NumR v2).
Proof.
  intros H. unfold spread, ScalerOperator_set; cbn [div add nexp ofQ NumR]. rewrite Q2R_1.
  pose proof (exp_pos v1). pose proof (exp_pos v2). pose proof (exp_le _ _ H).
  unfold Rdiv. rewrite !Rmult_1_l, !Rinv_inv.
  assert (/ (exp v2 + 1) <= / (exp v1 + 1)). { apply Rinv_le_contravar; lra. } lra.
Qed.

Lemma sliding_set_get s : 0 < s -> SlidingWindowOperator_set NumR (SlidingWindowOperator_get NumR s) = s.
Proof. intros H. unfold SlidingWindowOperator_set, SlidingWindowOperator_get; cbn [nexp nln NumR]. apply exp_ln; exact H. Qed.
Lemma sliding_set_dom v : 0 < SlidingWindowOperator_set NumR v.
Proof. unfold SlidingWindowOperator_set; cbn [nexp NumR]. apply exp_pos. Qed.
Lemma sliding_spread_mono v1 v2 : v1 <= v2 ->
  spread KSliding (SlidingWindowOperator_set NumR v1) <= spread KSliding (SlidingWindowOperator_set NumR v2).
Proof. intros H. unfold spread, SlidingWindowOperator_set; cbn [nexp NumR]. apply exp_le; exact H. Qed.

Lemma hmc_set_get s : 0 < s -> HMCOperator_set NumR (HMCOperator_get NumR s) = s.
Proof. intros H. unfold HMCOperator_set, HMCOperator_get; cbn [nexp nln NumR]. apply exp_ln; exact H. Qed.
Lemma hmc_set_dom v : 0 < HMCOperator_set NumR v.
Proof. unfold HMCOperator_set; cbn [nexp NumR]. apply exp_pos. Qed.
Lemma hmc_spread_mono v1 v2 : v1 <= v2 ->
  spread KHmc (HMCOperator_set NumR v1) <= spread KHmc (HMCOperator_set NumR v2).
Proof. intros H. unfold spread, HMCOperator_set; cbn [nexp NumR]. apply exp_le; exact H. Qed.

Lemma block_set_get s : 1 <= s ->
  GMRFPiecewiseCoalescentBlockUpdatingOperator_set NumR (GMRFPiecewiseCoalescentBlockUpdatingOperator_get NumR s) = s.
Proof.
  intros H. unfold GMRFPiecewiseCoalescentBlockUpdatingOperator_set,
    GMRFPiecewiseCoalescentBlockUpdatingOperator_get; cbn [add mul sub nsqrt ofQ NumR].
  rewrite Q2R_1, sqrt_sqrt; lra.
Qed.
Lemma block_get_nonneg s : 0 <= GMRFPiecewiseCoalescentBlockUpdatingOperator_get NumR s.
Proof. unfold GMRFPiecewiseCoalescentBlockUpdatingOperator_get; cbn [nsqrt NumR]. apply sqrt_pos. Qed.
Lemma block_set_dom v : 1 <= GMRFPiecewiseCoalescentBlockUpdatingOperator_set NumR v.
Proof.
  unfold GMRFPiecewiseCoalescentBlockUpdatingOperator_set; cbn [add mul ofQ NumR]. rewrite Q2R_1. nra.
Qed.
(* 1 + v^2 is monotone only for v >= 0, which the getter guarantees (sqrt >= 0) *)
Lemma block_spread_mono v1 v2 : 0 <= v1 -> v1 <= v2 ->
  spread KBlock (GMRFPiecewiseCoalescentBlockUpdatingOperator_set NumR v1) <=
  spread KBlock (GMRFPiecewiseCoalescentBlockUpdatingOperator_set NumR v2).
Proof.
  intros H0 H. unfold spread, GMRFPiecewiseCoalescentBlockUpdatingOperator_set; cbn [add mul ofQ NumR].
  rewrite Q2R_1. assert (1 + v1 * v1 <= 1 + v2 * v2) by nra.
  assert (/ (1 + v2 * v2) <= / (1 + v1 * v1)). { apply Rinv_le_contravar; nra. } lra.
Qed.

Lemma dirichlet_spec_set_get s : 0 < s -> dirichlet_set_spec NumR (dirichlet_get_spec NumR s) = s.
Proof.
  intros H. unfold dirichlet_set_spec, dirichlet_get_spec; cbn [nexp nln opp NumR].
  rewrite Ropp_involutive. apply exp_ln; exact H.
Qed.
Lemma dirichlet_spec_set_dom v : 0 < dirichlet_set_spec NumR v.
Proof. unfold dirichlet_set_spec; cbn [nexp opp NumR]. apply exp_pos. Qed.
Lemma dirichlet_spec_spread_mono v1 v2 : v1 <= v2 ->
  spread KDirichlet (dirichlet_set_spec NumR v1) <= spread KDirichlet (dirichlet_set_spec NumR v2).
Proof.
  intros H. unfold spread, dirichlet_set_spec; cbn [nexp opp NumR].
  rewrite <- !exp_Ropp, !Ropp_involutive. apply exp_le; exact H.
Qed.

(* the model's tuning step, all operator kinds *)
Lemma setf_getf k s : dom k s -> setf NumR k (getf NumR k s) = s.
Proof.
  destruct k; cbn [dom setf getf]; intros H.
  - apply scaler_set_get; exact H.
  - apply sliding_set_get; exact H.
  - apply dirichlet_spec_set_get; exact H.
  - apply block_set_get; exact H.
  - apply hmc_set_get; exact H.
Qed.
Lemma setf_dom k v : dom k (setf NumR k v).
Proof.
  destruct k; cbn [dom setf].
  - apply scaler_set_dom. - apply sliding_set_dom. - apply dirichlet_spec_set_dom.
  - apply block_set_dom. - apply hmc_set_dom.
Qed.
Lemma spread_mono k s v2 : dom k s -> getf NumR k s <= v2 ->
  spread k (setf NumR k (getf NumR k s)) <= spread k (setf NumR k v2).
Proof.
  destruct k; cbn [dom setf getf]; intros Hd H.
  - apply scaler_spread_mono; exact H.
  - apply sliding_spread_mono; exact H.
  - apply dirichlet_spec_spread_mono; exact H.
  - apply block_spread_mono; [apply block_get_nonneg | exact H].
  - apply hmc_spread_mono; exact H.
Qed.

Lemma tuning_direction_l (cfg : opcfg R) (os : opstate R) ap :
  k_tuner cfg = TBase -> dom (k_kind cfg) (o_field os) -> k_target cfg <= ap ->
  let os' := tune NumR cfg os ap in
  dom (k_kind cfg) (o_field os') /\
  spread (k_kind cfg) (o_field os) <= spread (k_kind cfg) (o_field os').
Proof.
  intros Ht Hd Hap. unfold tune. rewrite Ht. cbn [o_field]. split; [apply setf_dom|].
  rewrite <- (setf_getf _ _ Hd) at 1. apply spread_mono; [exact Hd|]. apply tune_step_up; exact Hap.
Qed.

(* the other direction, for completeness: acceptance below target never widens the proposal.
   (For the block operator the adaptable parameter sqrt(scaler-1) may be pushed below 0, where
   1 + v^2 grows again: excluded by the guard 0 <= new value.) *)
Lemma spread_mono_down k s v1 : dom k s -> v1 <= getf NumR k s -> (k = KBlock -> 0 <= v1) ->
  spread k (setf NumR k v1) <= spread k (setf NumR k (getf NumR k s)).
Proof.
  destruct k; cbn [dom setf getf]; intros Hd H Hb.
  - apply scaler_spread_mono; exact H.
  - apply sliding_spread_mono; exact H.
  - apply dirichlet_spec_spread_mono; exact H.
  - apply block_spread_mono; [apply Hb; reflexivity | exact H].
  - apply hmc_spread_mono; exact H.
Qed.

Lemma tuning_direction_down_l (cfg : opcfg R) (os : opstate R) ap :
  k_tuner cfg = TBase -> dom (k_kind cfg) (o_field os) -> ap <= k_target cfg ->
  (k_kind cfg = KBlock ->
   0 <= MCMCOperator_tune NumR (getf NumR KBlock (o_field os)) ap (k_target cfg) (o_count os)) ->
  spread (k_kind cfg) (o_field (tune NumR cfg os ap)) <= spread (k_kind cfg) (o_field os).
Proof.
  intros Ht Hd Hap Hb. unfold tune. rewrite Ht. cbn [o_field].
  rewrite <- (setf_getf _ _ Hd) at 2. apply spread_mono_down; [exact Hd | apply tune_step_down; exact Hap |].
  intros E. rewrite E in *. apply Hb. reflexivity.
Qed.

(* strictness, needed to call the shipped Dirichlet re-parameterisation a defect *)
Lemma dirichlet_log_exp_is_timid s ap tgt n : 0 < s -> tgt < ap ->
  let s' := exp (MCMCOperator_tune NumR (ln s) ap tgt n) in
  s < s' /\ / s' < / s.
Proof.
  intros Hs Hap s'. assert (s < s').
  { unfold s'. rewrite <- (exp_ln s Hs) at 1. apply exp_increasing. apply tune_step_up_strict; exact Hap. }
  split; [assumption|]. apply Rinv_lt_contravar; [|assumption]. apply Rmult_lt_0_compat; lra.
Qed.

(* the Dirichlet operator as shipped (regenerated getter / setter), conditional on the three facts
   a correct re-parameterisation has; the harness tries to discharge them on every run *)
Lemma tuning_direction_dirichlet_code_l :
  (forall v1 v2, v1 <= v2 -> / DirichletOperator_set NumR v1 <= / DirichletOperator_set NumR v2) ->
  (forall s, 0 < s -> DirichletOperator_set NumR (DirichletOperator_get NumR s) = s) ->
  forall s ap tgt n, 0 < s -> tgt <= ap ->
  / s <= / DirichletOperator_set NumR (MCMCOperator_tune NumR (DirichletOperator_get NumR s) ap tgt n).
Proof.
  intros Hmono Hid s ap tgt n Hs Hap. rewrite <- (Hid s Hs) at 1. apply Hmono. apply tune_step_up; exact Hap.
Qed.

(* tactics used by the per-run obligations about the regenerated Dirichlet expressions *)
Ltac dirichlet_unfold :=
  unfold DirichletOperator_set, DirichletOperator_get;
  cbn [nexp nln opp div mul sub add ofQ NumR]; rewrite ?Q2R_1.
Ltac dirichlet_mono_tac :=
  let v1 := fresh "v1" in let v2 := fresh "v2" in let H := fresh "H" in
  intros v1 v2 H; dirichlet_unfold;
  first
    [ (* exp (-v) *)
      rewrite <- !exp_Ropp, ?Ropp_involutive; apply exp_le; lra
    | (* 1 / exp v  or  / exp v *)
      unfold Rdiv; rewrite ?Rmult_1_l, ?Rinv_inv; apply exp_le; lra
    | (* exp (-1 * v) and similar *)
      rewrite <- !exp_Ropp; apply exp_le; lra ].
Ltac dirichlet_id_tac :=
  let s := fresh "s" in let H := fresh "H" in
  intros s H; dirichlet_unfold;
  first
    [ rewrite Ropp_involutive; apply exp_ln; exact H
    | rewrite <- exp_Ropp, Ropp_involutive; apply exp_ln; exact H
    | unfold Rdiv; rewrite ?Rmult_1_l; rewrite ln_Rinv by exact H; rewrite exp_Ropp, exp_ln by exact H; rewrite Rinv_inv; reflexivity
    | unfold Rdiv; rewrite ?Rmult_1_l; rewrite ln_Rinv by exact H; rewrite Ropp_involutive; apply exp_ln; exact H
    | unfold Rdiv; rewrite ?Rmult_1_l; rewrite exp_ln by exact H; apply Rinv_inv
    | unfold Rdiv; rewrite ?Rmult_1_l; rewrite exp_Ropp; rewrite exp_ln by exact H; apply Rinv_inv ].

(* HMC step-size adaptors (hmc/adaptation.py), over the regenerated update expressions *)
Lemma tuning_direction_adaptive_l (cfg : opcfg R) (os : opstate R) ap tgt :
  k_tuner cfg = TAdaptive tgt -> 0 < o_field os -> tgt <= ap ->
  0 < o_field (tune NumR cfg os ap) /\ o_field os <= o_field (tune NumR cfg os ap).
Proof.
  intros Ht Hs Hap. unfold tune. rewrite Ht. cbn [o_field].
  unfold AdaptiveStepSize_new; cbn [nexp nln add div sub ofQ NumR]. rewrite Q2R_2, ofNat_R.
  split; [apply exp_pos|].
  rewrite <- (exp_ln (o_field os) Hs) at 1. apply exp_le.
  pose proof (pos_INR (S (o_count os))).
  assert (0 <= (ap - tgt) / (2 + INR (S (o_count os)))).
  { apply Rmult_le_pos; [lra|]. left. apply Rinv_0_lt_compat. lra. }
  lra.
Qed.

Lemma tuning_dual_monotone_l (cfg : opcfg R) (os : opstate R) ap1 ap2 delta t0 mu gamma :
  k_tuner cfg = TDual delta t0 mu gamma -> 0 < gamma -> 0 <= t0 -> ap1 <= ap2 ->
  o_field (tune NumR cfg os ap1) <= o_field (tune NumR cfg os ap2).
Proof.
  intros Ht Hg H0 Hap. unfold tune. rewrite Ht. cbn [o_field].
  unfold DualAveragingStepSize_step, DualAveraging_x, DualAveragingStepSize_statistic;
    cbn [nexp nsqrt add sub mul div ofQ NumR]. rewrite Q2R_1, ofNat_R.
  apply exp_le.
  set (c := INR (S (o_count os))).
  assert (Hc : 0 < c) by (unfold c; apply lt_0_INR; lia).
  set (eta := 1 / (c + t0)).
  assert (He : 0 < eta) by (unfold eta; apply Rdiv_lt_0_compat; lra).
  pose proof (sqrt_pos c) as Hsq.
  assert (Hgi : 0 < / gamma) by (apply Rinv_0_lt_compat; exact Hg).
  set (A1 := (1 - eta) * o_aux os + eta * (delta - ap1)).
  set (A2 := (1 - eta) * o_aux os + eta * (delta - ap2)).
  assert (A2 <= A1) by (unfold A1, A2; nra).
  assert (A2 * sqrt c <= A1 * sqrt c) by nra.
  unfold Rdiv. assert (A2 * sqrt c * / gamma <= A1 * sqrt c * / gamma) by nra. lra.
Qed.

(* ======================================================================================== *)
(* non-vacuity example (restated in prop/C15.v)                                              *)
(* ======================================================================================== *)
Definition ex_pi (x : list R) : ext R := Fin (- (lk x 0%nat 0 + lk x 1%nat 0 * lk x 1%nat 0)).
Definition ex_cfgs : list (opcfg R) :=
  [mkCfg KScaler (1/4) TBase [[0%nat]]; mkCfg KSliding (1/4) TBase [[1%nat]]].
Definition ex_draw (k : nat) (u ua : R) : draws R :=
  mkDraws k u 0 0 [] 0 0 true ex_pi ua ex_pi.
Definition ex_ds : list (draws R) := [ex_draw 0 (1/2) 0; ex_draw 1 1 1; ex_draw 1 (1/4) 0].
Definition ex_st : chain R := mkChain [1; 0] (-1) [mkOp (1/2) 0 0 0 0; mkOp 1 0 0 0 0].
Lemma C15_example_l :
  ex_pi (c_x ex_st) = Fin (c_lj ex_st) /\ List.Forall (faithful ex_pi) ex_ds /\
  (let r := snd (step NumR Rltb ex_cfgs ex_st (ex_draw 0 (1/2) 0)) in
   r_acc r = true /\ r_after r <> r_before r) /\
  (let r := snd (step NumR Rltb ex_cfgs ex_st (ex_draw 1 1 1)) in
   r_acc r = false /\ r_after r = r_before r).
Proof.
  split; [|split; [|split]].
  - unfold ex_pi, ex_st; cbn [c_x c_lj lk]. f_equal. lra.
  - repeat constructor.
  - cbv zeta.
    destruct (step_accepts_u0 ex_cfgs ex_st (ex_draw 0 (1/2) 0)
                [1 * scaler_s NumR (1/2) (1/2); 0]
                (opp NumR (nln NumR (scaler_s NumR (1/2) (1/2))))
                (- (lk [1 * scaler_s NumR (1/2) (1/2); 0] 0%nat 0 +
                    lk [1 * scaler_s NumR (1/2) (1/2); 0] 1%nat 0 * lk [1 * scaler_s NumR (1/2) (1/2); 0] 1%nat 0)))
      as [H1 H2]; try reflexivity.
    split; [exact H1|]. rewrite H2.
    assert (Eb : r_before (snd (step NumR Rltb ex_cfgs ex_st (ex_draw 0 (1 / 2) 0))) = [1; 0]).
    { unfold step. destruct (propose NumR _ _ _ _). destruct (mh NumR Rltb _ _ _ _) as [[? ?] ?]. reflexivity. }
    rewrite Eb. intros E. injection E as E.
    unfold scaler_s in E; cbn [add mul sub div one NumR] in E. lra.
  - cbv zeta. destruct (step_rejects_u1 ex_cfgs ex_st (ex_draw 1 1 1) eq_refl) as [H1 H2].
    split; [exact H1|]. rewrite H2.
    unfold step. destruct (propose NumR _ _ _ _). destruct (mh NumR Rltb _ _ _ _) as [[? ?] ?]. reflexivity.
Qed.
