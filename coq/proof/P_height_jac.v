(* Jacobian structure of the ratio node-height transform, for every topology:
   heights are multi-affine in the ratios; the Jacobian is triangular in pre-order and its diagonal
   is h_parent(i) - b_i, the quantity whose logarithm the code sums. *)
From Coq Require Import QArith Reals List Lra Lia Arith.
Import ListNotations.
From TT Require Import Num NumR Tree M_height P_height.
Open Scope R_scope.

Section Jac.
Variable n : nat.
Variable times : list R.

(* the height of a node depends only on the parameters of the nodes of ITS subtree and on its
   parent's height: parameters of other nodes do not enter (zero entries of the Jacobian) *)
Lemma ratio_fwd_local t : forall hp x x',
  (forall i, In i (ipre t) -> x_of NumR n x i = x_of NumR n x' i) ->
  ratio_fwd NumR n times x hp t = ratio_fwd NumR n times x' hp t.
Proof.
  induction t as [i|i l IHl r IHr]; intros hp x x' H; cbn [ratio_fwd]; [reflexivity|].
  rewrite (H i) by (cbn; auto).
  rewrite (IHl _ x x') by (intros j Hj; apply H; cbn; right; apply in_or_app; auto).
  rewrite (IHr _ x x') by (intros j Hj; apply H; cbn; right; apply in_or_app; auto).
  reflexivity.
Qed.

(* diagonal: the height of a non-root internal node is affine in its own ratio with slope
   (parent height - bound), the parent height not depending on that ratio *)
Lemma ratio_fwd_diagonal i l r hp x :
  hh (ratio_fwd NumR n times x (Some hp) (INode i l r))
  = bound NumR times (INode i l r) + x_of NumR n x i * (hp - bound NumR times (INode i l r)).
Proof. reflexivity. Qed.

(* the reported log-determinant is the sum over non-root internal nodes of ln(diagonal entry) *)
Fixpoint diag_entries (hpar : option R) (t : itree) (ht : htree R) : list R :=
  match t, ht with
  | INode _ l r, HNode i h hl hr =>
      match hpar with
      | None => []
      | Some hp => [hp - Rmax (bound NumR times l) (bound NumR times r)]
      end ++ diag_entries (Some h) l hl ++ diag_entries (Some h) r hr
  | _, _ => []
  end.
Fixpoint rsumR (l : list R) : R := match l with [] => 0 | x :: r => x + rsumR r end.
Lemma rsumR_app a b : rsumR (a ++ b) = rsumR a + rsumR b.
Proof. induction a as [|x a IH]; cbn; [lra|]. rewrite IH; lra. Qed.

Lemma ratio_logdet_is_sum_ln_diag t : forall hp ht,
  ratio_logdet NumR times hp t ht = rsumR (map ln (diag_entries hp t ht)).
Proof.
  induction t as [i|i l IHl r IHr]; intros hp [j h|j h hl hr]; cbn [ratio_logdet diag_entries map rsumR];
    try reflexivity.
  rewrite !map_app, !rsumR_app, <- IHl, <- IHr.
  destruct hp as [hp|]; cbn [map rsumR app add nln sub nmax zero NumR]; lra.
Qed.
End Jac.
