(* Rooted binary trees as torchtree indexes them (tree_model.py: setup_indexes,
   update_traversals): a leaf carries the position of its taxon in the Taxa list; internal nodes
   are numbered n, n+1, ... in post-order (children left to right), so the root is 2n-2. *)
From Coq Require Import List Arith.
Import ListNotations.

(* Paramcoq-friendly arithmetic/lookup: a variable that is matched is never returned in a
   branch (Nat.sub and List.nth do that, and then the plugin asks for interactive obligations). *)
Fixpoint nsub (a b : nat) : nat :=
  match a with O => O | S a' => match b with O => S a' | S b' => nsub a' b' end end.
Lemma nsub_sub a b : nsub a b = a - b.
Proof. revert b; induction a as [|a IH]; intros [|b]; cbn; auto. Qed.
Fixpoint lk {T} (l : list T) (k : nat) (d : T) : T :=
  match l with nil => d | x :: r => match k with O => x | S k' => lk r k' d end end.
Lemma lk_nth {T} (l : list T) k d : lk l k d = nth k l d.
Proof. revert k; induction l as [|x l IH]; intros [|k]; cbn; auto. Qed.

Inductive tree := Leaf (i : nat) | Node (l r : tree).
Inductive itree := ILeaf (i : nat) | INode (i : nat) (l r : itree).

Fixpoint index_from (t : tree) (next : nat) : itree * nat :=
  match t with
  | Leaf i => (ILeaf i, next)
  | Node l r =>
      match index_from l next with
      | (il, n1) => match index_from r n1 with
                    | (ir, n2) => (INode n2 il ir, S n2)
                    end
      end
  end.

Fixpoint leaves (t : tree) : nat :=
  match t with Leaf _ => 1 | Node l r => leaves l + leaves r end.

Definition index_tree (t : tree) : itree := fst (index_from t (leaves t)).

Definition iidx (t : itree) : nat := match t with ILeaf i => i | INode i _ _ => i end.

(* update_traversals: post-order triples (node, left, right) for the pruning loop *)
Fixpoint postorder (t : itree) : list (nat * nat * nat) :=
  match t with
  | ILeaf _ => []
  | INode i l r => postorder l ++ postorder r ++ [(i, iidx l, iidx r)]
  end.

(* TimeTreeModel.update_traversals: pre-order (parent, child) pairs *)
Fixpoint preorder (t : itree) : list (nat * nat) :=
  match t with
  | ILeaf _ => []
  | INode i l r => (i, iidx l) :: preorder l ++ (i, iidx r) :: preorder r
  end.

Fixpoint ileaves (t : itree) : list nat :=
  match t with ILeaf i => [i] | INode _ l r => ileaves l ++ ileaves r end.
Fixpoint iinternals (t : itree) : list nat :=   (* post-order *)
  match t with ILeaf _ => [] | INode i l r => iinternals l ++ iinternals r ++ [i] end.

(* insertion of (key, value) pairs sorted by key; used to lay results out by node index *)
Fixpoint insert_by_key {A} (k : nat) (v : A) (l : list (nat * A)) : list (nat * A) :=
  match l with
  | [] => [(k, v)]
  | (k', v') :: r => if k <=? k' then (k, v) :: (k', v') :: r else (k', v') :: insert_by_key k v r
  end.
Fixpoint sort_by_key {A} (l : list (nat * A)) : list (nat * A) :=
  match l with [] => [] | (k, v) :: r => insert_by_key k v (sort_by_key r) end.
