(* Parametricity tie between the NumR and NumI instances:
   the free theorem of a polymorphic model says its NumI run encloses its NumR value. *)
From Coq Require Import QArith ZArith Reals Qreals List Lra.
From Param Require Import Param.
From Interval Require Import Specific_bigint Specific_ops Float_full Interval Xreal Basic Float.
From TT Require Import Num NumR NumI.

Parametricity Recursive Num qualified.
Parametricity Recursive Q qualified.
Parametricity Recursive list qualified.
Parametricity Recursive nat qualified.
Parametricity Recursive option qualified.
Parametricity Recursive bool qualified.

Definition rel (r : R) (i : I.type) : Type := contains (I.convert i) (Xreal r).

Notation Num_R := TT_o_Num_o_Num_R.
Notation Q_R := Coq_o_QArith_o_QArith_base_o_Q_R.
Notation Z_R := Coq_o_Numbers_o_BinNums_o_Z_R.
Notation positive_R := Coq_o_Numbers_o_BinNums_o_positive_R.
Notation list_R := Coq_o_Init_o_Datatypes_o_list_R.
Notation nat_R := Coq_o_Init_o_Datatypes_o_nat_R.
Notation option_R := Coq_o_Init_o_Datatypes_o_option_R.
Notation bool_R := Coq_o_Init_o_Datatypes_o_bool_R.

Lemma positive_R_eq a b : positive_R a b -> a = b.
Proof. induction 1; congruence. Qed.
Lemma Z_R_eq a b : Z_R a b -> a = b.
Proof. destruct 1; try reflexivity; f_equal; apply positive_R_eq; assumption. Qed.
Lemma Q_R_eq a b : Q_R a b -> a = b.
Proof.
  destruct 1 as [n1 n2 Hn d1 d2 Hd]. apply Z_R_eq in Hn. apply positive_R_eq in Hd. congruence.
Qed.
Lemma positive_R_refl a : positive_R a a.
Proof. induction a; constructor; assumption. Qed.
Lemma Z_R_refl a : Z_R a a.
Proof. destruct a; constructor; apply positive_R_refl. Qed.
Lemma Q_R_refl a : Q_R a a.
Proof. destruct a; constructor; [apply Z_R_refl | apply positive_R_refl]. Qed.
Lemma nat_R_refl a : nat_R a a.
Proof. induction a; constructor; assumption. Qed.
Lemma bool_R_refl a : bool_R a a.
Proof. destruct a; constructor. Qed.
Lemma list_R_refl {A} (RA : A -> A -> Type) (l : list A) :
  (forall x, RA x x) -> list_R A A RA l l.
Proof. intros H; induction l; constructor; auto. Qed.
Lemma list_R_map {A B} (RA : A -> B -> Type) (f : A -> B) (l : list A) :
  (forall x, RA x (f x)) -> list_R A B RA l (map f l).
Proof. intros H; induction l; simpl; constructor; auto. Qed.

Lemma rel_fromZ z : rel (IZR z) (I.fromZ prec z).
Proof. exact (I.fromZ_correct prec z). Qed.

Lemma rel_ofQ q : rel (Q2R q) (iofQ q).
Proof.
  unfold rel, iofQ, Q2R, Rdiv.
  pose proof (I.div_correct prec _ _ _ _ (I.fromZ_correct prec (Qnum q))
                (I.fromZ_correct prec (Zpos (Qden q)))) as H.
  cbv beta iota delta [Xbind2 Xdiv'] in H.
  rewrite is_zero_false in H; [exact H|].
  intro E. apply eq_IZR_R0 in E. discriminate.
Qed.

Lemma NumRI_R : Num_R R I.type rel NumR NumI.
Proof.
  constructor.
  - exact (rel_fromZ 0).
  - exact (rel_fromZ 1).
  - intros a A Ha b B Hb. exact (I.add_correct prec A B (Xreal a) (Xreal b) Ha Hb).
  - intros a A Ha b B Hb. exact (I.sub_correct prec A B (Xreal a) (Xreal b) Ha Hb).
  - intros a A Ha b B Hb. exact (I.mul_correct prec A B (Xreal a) (Xreal b) Ha Hb).
  - intros a A Ha b B Hb. unfold rel.
    pose proof (I.div_correct prec A B (Xreal a) (Xreal b) Ha Hb) as H.
    cbv beta iota delta [Xbind2 Xdiv'] in H. cbn [div NumR NumI].
    destruct (is_zero b) eqn:E.
    + (* division by zero: Interval answers NaN, which contains everything *)
      revert H. destruct (I.convert (I.div prec A B)); cbn; [intros; exact I | intros []].
    + exact H.
  - intros a A Ha. exact (I.neg_correct A (Xreal a) Ha).
  - intros q1 q2 Hq. apply Q_R_eq in Hq. subst. apply rel_ofQ.
  - intros a A Ha. exact (I.exp_correct prec A (Xreal a) Ha).
  - intros a A Ha. unfold rel.
    pose proof (I.ln_correct prec A (Xreal a) Ha) as H.
    cbv beta iota delta [Xbind Xln'] in H. cbn [nln NumR NumI].
    destruct (is_positive a) eqn:E.
    + exact H.
    + revert H. destruct (I.convert (I.ln prec A)); cbn; [intros; exact I | intros []].
  - intros a A Ha. exact (I.sqrt_correct prec A (Xreal a) Ha).
  - intros a A Ha b B Hb. unfold rel. cbn [nmax NumR NumI]. unfold imax.
    replace (Rmax a b) with ((a + b + Rabs (a - b)) * Q2R (1#2))%R.
    + apply (I.mul_correct prec _ _ (Xreal _) (Xreal _)); [|apply rel_ofQ].
      apply (I.add_correct prec _ _ (Xreal _) (Xreal _)).
      * exact (I.add_correct prec A B (Xreal a) (Xreal b) Ha Hb).
      * apply (I.abs_correct _ (Xreal _)).
        exact (I.sub_correct prec A B (Xreal a) (Xreal b) Ha Hb).
    + unfold Q2R; simpl. unfold Rmax, Rabs.
      destruct (Rle_dec a b); destruct (Rcase_abs (a - b)); lra.
Qed.
Print Assumptions NumRI_R.
