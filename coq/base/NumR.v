From Coq Require Import QArith Reals Qreals.
From TT Require Import Num.
Open Scope R_scope.
Definition NumR : Num R :=
  mkNum R 0 1 Rplus Rminus Rmult Rdiv Ropp Q2R exp ln sqrt Rmax.
