(* Parametricity tie between NumQ (exact run) and NumR (theorems):
   whenever the rational run is defined, its value IS the real value of the same model term. *)
From Coq Require Import QArith ZArith Reals Qreals List Lra.
From Bignums Require Import BigQ.
From Param Require Import Param.
From TT Require Import Num NumR NumQ ParamI.

Definition relq (r : R) (a : qo) : Type :=
  match a with Some q => Q2R (BigQ.to_Q q) = r | None => True end.

Lemma NumRQ_R : Num_R R qo relq NumR NumQ.
Proof.
  constructor.
  - unfold relq; cbn [zero NumQ]. rewrite (Qeq_eqR _ _ BigQ.spec_0). unfold Q2R; cbn; lra.
  - unfold relq; cbn [one NumQ]. rewrite (Qeq_eqR _ _ BigQ.spec_1). unfold Q2R; cbn; lra.
  - intros a [x|] Ha b [y|] Hb; unfold relq in *; cbn [add NumR NumQ q2] in *; auto.
    rewrite (Qeq_eqR _ _ (BigQ.spec_add_norm x y)), Q2R_plus. congruence.
  - intros a [x|] Ha b [y|] Hb; unfold relq in *; cbn [sub NumR NumQ q2] in *; auto.
    rewrite (Qeq_eqR _ _ (BigQ.spec_sub_norm x y)), Q2R_minus. congruence.
  - intros a [x|] Ha b [y|] Hb; unfold relq in *; cbn [mul NumR NumQ q2] in *; auto.
    rewrite (Qeq_eqR _ _ (BigQ.spec_mul_norm x y)), Q2R_mult. congruence.
  - intros a [x|] Ha b [y|] Hb; unfold relq in *; cbn [div NumR NumQ qdivo] in *; auto.
    destruct (BigQ.eq_bool y BigQ.zero) eqn:E; auto.
    rewrite BigQ.spec_eq_bool in E. apply Qeq_bool_neq in E.
    rewrite (Qeq_eqR _ _ (BigQ.spec_div_norm x y)).
    rewrite Q2R_div; [congruence|].
    intro H. apply E. rewrite H. symmetry. apply BigQ.spec_0.
  - intros a [x|] Ha; unfold relq in *; cbn [opp NumR NumQ q1] in *; auto.
    rewrite (Qeq_eqR _ _ (BigQ.spec_opp x)), Q2R_opp. congruence.
  - intros p q Hq. apply Q_R_eq in Hq. subst. unfold relq; cbn [ofQ NumR NumQ].
    apply Qeq_eqR. rewrite BigQ.spec_red. apply BigQ.spec_of_Q.
  - intros a x Ha. exact I.
  - intros a x Ha. exact I.
  - intros a x Ha. exact I.
  - intros a [x|] Ha b [y|] Hb; unfold relq in *; cbn [nmax NumR NumQ qmaxo] in *; auto. subst.
    rewrite BigQ.spec_compare. unfold Rmax.
    destruct (BigQ.to_Q x ?= BigQ.to_Q y)%Q eqn:E.
    + apply Qeq_alt in E. apply Qeq_eqR in E. destruct (Rle_dec _ _); lra.
    + apply Qlt_alt in E. apply Qlt_Rlt in E. destruct (Rle_dec _ _); lra.
    + apply Qgt_alt in E. apply Qlt_Rlt in E. destruct (Rle_dec _ _); lra.
Qed.
Print Assumptions NumRQ_R.
