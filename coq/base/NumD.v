(* Verified forward-mode automatic differentiation.
   NumF : Num (R -> R)         pointwise operations: a model term at NumF is the model as a
                               FUNCTION of one real variable (every input is a function of it);
   NumD : Num (I.type*I.type)  dual numbers over intervals (value, derivative), the derivative
                               being NaN ("no claim") wherever differentiability is not certain
                               (division by an interval touching 0, ln/sqrt of a non-positive
                               enclosure, max at a possible tie).
   relD x0 f (v,d): v encloses f x0, and d is NaN or encloses THE derivative of f at x0.
   NumFD_R : Num_R relD NumF NumD, so the Paramcoq free theorem of any polymorphic model says: its
   dual-number run encloses the derivative of its real-valued reading. *)
From Coq Require Import QArith ZArith Reals Qreals List Lra.
From Coquelicot Require Import Coquelicot.
From Interval Require Import Specific_bigint Specific_ops Float_full Interval Xreal Basic Float.
From TT Require Import Num NumR NumI ParamI.

Definition NumF : Num (R -> R) :=
  mkNum (R -> R) (fun _ => 0%R) (fun _ => 1%R)
        (fun f g x => (f x + g x)%R) (fun f g x => (f x - g x)%R) (fun f g x => (f x * g x)%R)
        (fun f g x => (f x / g x)%R) (fun f x => (- f x)%R) (fun q _ => Q2R q)
        (fun f x => exp (f x)) (fun f x => ln (f x)) (fun f x => sqrt (f x))
        (fun f g x => Rmax (f x) (g x)).

Definition dual := (I.type * I.type)%type.
Definition guard_pos (a : I.type) (d : I.type) : I.type :=
  match I.sign_strict a with Xgt => d | _ => I.nai end.
Definition guard_nonzero (a : I.type) (d : I.type) : I.type :=
  match I.sign_strict a with Xgt => d | Xlt => d | _ => I.nai end.

Definition dadd (a b : dual) : dual := (I.add prec (fst a) (fst b), I.add prec (snd a) (snd b)).
Definition dsub (a b : dual) : dual := (I.sub prec (fst a) (fst b), I.sub prec (snd a) (snd b)).
Definition dmul (a b : dual) : dual :=
  (I.mul prec (fst a) (fst b), I.add prec (I.mul prec (snd a) (fst b)) (I.mul prec (fst a) (snd b))).
Definition ddiv (a b : dual) : dual :=
  (I.div prec (fst a) (fst b),
   guard_nonzero (fst b)
     (I.div prec (I.sub prec (I.mul prec (snd a) (fst b)) (I.mul prec (fst a) (snd b))) (I.sqr prec (fst b)))).
Definition dopp (a : dual) : dual := (I.neg (fst a), I.neg (snd a)).
Definition dconst (q : Q) : dual := (iofQ q, I.fromZ prec 0).
Definition dexp (a : dual) : dual := (I.exp prec (fst a), I.mul prec (snd a) (I.exp prec (fst a))).
Definition dln (a : dual) : dual := (I.ln prec (fst a), guard_pos (fst a) (I.div prec (snd a) (fst a))).
Definition dsqrt (a : dual) : dual :=
  (I.sqrt prec (fst a),
   guard_pos (fst a) (I.div prec (snd a) (I.mul prec (I.fromZ prec 2) (I.sqrt prec (fst a))))).
Definition dmax (a b : dual) : dual :=
  (imax (fst a) (fst b),
   (* a' + 0*b' : NaN as soon as either derivative is unknown (continuity of both sides is needed) *)
   match I.sign_strict (I.sub prec (fst a) (fst b)) with
   | Xgt => I.add prec (snd a) (I.mul prec (I.fromZ prec 0) (snd b))
   | Xlt => I.add prec (snd b) (I.mul prec (I.fromZ prec 0) (snd a))
   | _ => I.nai
   end).

Definition NumD : Num dual :=
  mkNum dual (dconst 0) (dconst 1) dadd dsub dmul ddiv dopp dconst dexp dln dsqrt dmax.

(* independent variable and constants *)
Definition dvar (q : Q) : dual := (iofQ q, I.fromZ prec 1).
Definition show_d (a : dual) := (show_i (fst a) ++ show_i (snd a))%list.

Definition cont (i : I.type) (r : R) : Prop := contains (I.convert i) (Xreal r).
(* the derivative component encloses an extended real X: NaN = no claim, a real = THE derivative *)
Definition dstat (x0 : R) (f : R -> R) (d : I.type) : Prop :=
  exists X, contains (I.convert d) X /\ match X with Xnan => True | Xreal f' => is_derive f x0 f' end.
Definition relD (x0 : R) (f : R -> R) (a : dual) : Prop := cont (fst a) (f x0) /\ dstat x0 f (snd a).
