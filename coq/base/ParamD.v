From Coq Require Import QArith ZArith Reals Qreals List Lra.
From Coquelicot Require Import Coquelicot.
From Interval Require Import Specific_bigint Specific_ops Float_full Interval Xreal Basic Float.
From TT Require Import Num NumR NumI ParamI NumD.

Lemma nai_stat x0 f : dstat x0 f I.nai.
Proof. exists Xnan. rewrite I.nai_correct. split; exact I. Qed.

Lemma guard_pos_stat x0 f a d r :
  cont a r -> (0 < r -> dstat x0 f d)%R -> dstat x0 f (guard_pos a d).
Proof.
  intros Ha H. unfold guard_pos. pose proof (I.sign_strict_correct a) as S.
  destruct (I.sign_strict a); try apply nai_stat.
  apply H. destruct (S _ Ha) as [_ Hp]. exact Hp.
Qed.
Lemma guard_nonzero_stat x0 f a d r :
  cont a r -> (r <> 0 -> dstat x0 f d)%R -> dstat x0 f (guard_nonzero a d).
Proof.
  intros Ha H. unfold guard_nonzero. pose proof (I.sign_strict_correct a) as S.
  destruct (I.sign_strict a); try apply nai_stat; apply H; destruct (S _ Ha) as [_ Hp]; cbn in Hp; lra.
Qed.

Lemma cont_div A B a b : cont A a -> cont B b -> cont (I.div prec A B) (a / b).
Proof.
  intros Ha Hb. unfold cont.
  pose proof (I.div_correct prec A B (Xreal a) (Xreal b) Ha Hb) as H.
  cbv beta iota delta [Xbind2 Xdiv'] in H.
  destruct (is_zero b) eqn:E; [|exact H].
  revert H. destruct (I.convert (I.div prec A B)); cbn; [intros; exact I | intros []].
Qed.
Lemma cont_ln A a : cont A a -> cont (I.ln prec A) (ln a).
Proof.
  intros Ha. unfold cont. pose proof (I.ln_correct prec A (Xreal a) Ha) as H.
  cbv beta iota delta [Xbind Xln'] in H.
  destruct (is_positive a) eqn:E; [exact H|].
  revert H. destruct (I.convert (I.ln prec A)); cbn; [intros; exact I | intros []].
Qed.

Lemma cont_q0 : cont (iofQ 0) 0.
Proof. pose proof (rel_ofQ 0) as H. unfold rel in H. replace (Q2R 0) with 0%R in H by (unfold Q2R; cbn; lra). exact H. Qed.
Lemma cont_q1 : cont (iofQ 1) 1.
Proof. pose proof (rel_ofQ 1) as H. unfold rel in H. replace (Q2R 1) with 1%R in H by (unfold Q2R; cbn; lra). exact H. Qed.

Lemma cont_max A B a b : cont A a -> cont B b -> cont (imax A B) (Rmax a b).
Proof.
  intros Ha Hb. unfold cont, imax.
  replace (Rmax a b) with ((a + b + Rabs (a - b)) * Q2R (1#2))%R.
  - apply (I.mul_correct prec _ _ (Xreal _) (Xreal _)); [|apply rel_ofQ].
    apply (I.add_correct prec _ _ (Xreal _) (Xreal _)).
    + exact (I.add_correct prec A B (Xreal a) (Xreal b) Ha Hb).
    + apply (I.abs_correct _ (Xreal _)). exact (I.sub_correct prec A B (Xreal a) (Xreal b) Ha Hb).
  - unfold Q2R; simpl. unfold Rmax, Rabs. destruct (Rle_dec a b); destruct (Rcase_abs (a - b)); lra.
Qed.

(* where f > g at x0 and both are continuous there, max f g coincides with f near x0 *)
Lemma max_locally_left (f g : R -> R) x0 :
  continuous f x0 -> continuous g x0 -> (g x0 < f x0)%R ->
  locally x0 (fun y => f y = Rmax (f y) (g y)).
Proof.
  intros Cf Cg Hlt.
  assert (Ch : continuous (fun y => minus (f y) (g y)) x0).
  { apply (continuous_minus (V:=R_NormedModule)); assumption. }
  assert (L : locally x0 (fun y => (0 < minus (f y) (g y))%R)).
  { apply (Ch (fun z => (0 < z)%R)). apply (open_gt 0). unfold minus, plus, opp; cbn. lra. }
  revert L. apply filter_imp. intros y Hy. unfold minus, plus, opp in Hy; cbn in Hy.
  rewrite Rmax_left; [reflexivity|lra].
Qed.

Lemma NumFD_R x0 : Num_R (R -> R) dual (relD x0) NumF NumD.
Proof.
  constructor.
  - (* zero *) split; [exact cont_q0|]. exists (Xreal 0). split; [exact (I.fromZ_correct prec 0)|].
    apply (is_derive_const (V:=R_NormedModule)).
  - split; [exact cont_q1|]. exists (Xreal 0). split; [exact (I.fromZ_correct prec 0)|].
    apply (is_derive_const (V:=R_NormedModule)).
  - (* add *) intros f [A A'] [Hf (Xa & Ca & Da)] g [B B'] [Hg (Xb & Cb & Db)]. cbn [fst snd] in *.
    split; cbn [fst snd add NumF NumD dadd].
    + exact (I.add_correct prec A B (Xreal (f x0)) (Xreal (g x0)) Hf Hg).
    + exists (Xadd Xa Xb). split; [apply I.add_correct; assumption|].
      destruct Xa as [|fa], Xb as [|gb]; cbn; trivial.
      apply (is_derive_plus (V:=R_NormedModule)); assumption.
  - (* sub *) intros f [A A'] [Hf (Xa & Ca & Da)] g [B B'] [Hg (Xb & Cb & Db)]. cbn [fst snd] in *.
    split; cbn [fst snd sub NumF NumD dsub].
    + exact (I.sub_correct prec A B (Xreal (f x0)) (Xreal (g x0)) Hf Hg).
    + exists (Xsub Xa Xb). split; [apply I.sub_correct; assumption|].
      destruct Xa as [|fa], Xb as [|gb]; cbn; trivial.
      apply (is_derive_minus (V:=R_NormedModule)); assumption.
  - (* mul *) intros f [A A'] [Hf (Xa & Ca & Da)] g [B B'] [Hg (Xb & Cb & Db)]. cbn [fst snd] in *.
    split; cbn [fst snd mul NumF NumD dmul].
    + exact (I.mul_correct prec A B (Xreal (f x0)) (Xreal (g x0)) Hf Hg).
    + exists (Xadd (Xmul Xa (Xreal (g x0))) (Xmul (Xreal (f x0)) Xb)).
      split; [apply I.add_correct; apply I.mul_correct; assumption|].
      destruct Xa as [|fa], Xb as [|gb]; cbn; trivial.
      evar_last; [apply (is_derive_mult f g x0 fa gb Da Db); intros; apply Rmult_comm|].
      unfold plus, mult; cbn. ring.
  - (* div *) intros f [A A'] [Hf (Xa & Ca & Da)] g [B B'] [Hg (Xb & Cb & Db)]. cbn [fst snd] in *.
    split; cbn [fst snd div NumF NumD ddiv].
    + apply cont_div; assumption.
    + apply (guard_nonzero_stat _ _ _ _ (g x0) Hg). intros Hnz.
      exists (Xdiv (Xsub (Xmul Xa (Xreal (g x0))) (Xmul (Xreal (f x0)) Xb)) (Xsqr (Xreal (g x0)))).
      split.
      * apply I.div_correct; [|apply I.sqr_correct; exact Hg].
        apply I.sub_correct; apply I.mul_correct; assumption.
      * destruct Xa as [|fa], Xb as [|gb]; cbn; trivial.
        unfold Xdiv'. rewrite is_zero_false by (apply Rmult_integral_contrapositive; split; exact Hnz).
        evar_last; [apply (is_derive_div f g x0 fa gb Da Db Hnz)|].
        cbn. unfold Rsqr. field. exact Hnz.
  - (* opp *) intros f [A A'] [Hf (Xa & Ca & Da)]. cbn [fst snd] in *.
    split; cbn [fst snd opp NumF NumD dopp].
    + exact (I.neg_correct A (Xreal (f x0)) Hf).
    + exists (Xneg Xa). split; [apply I.neg_correct; assumption|].
      destruct Xa as [|fa]; cbn; trivial. apply (is_derive_opp (V:=R_NormedModule)); assumption.
  - (* ofQ *) intros p q Hq. apply Q_R_eq in Hq. subst. split; cbn [fst snd ofQ NumF NumD dconst].
    + apply rel_ofQ.
    + exists (Xreal 0). split; [exact (I.fromZ_correct prec 0)|]. apply (is_derive_const (V:=R_NormedModule)).
  - (* exp *) intros f [A A'] [Hf (Xa & Ca & Da)]. cbn [fst snd] in *.
    split; cbn [fst snd nexp NumF NumD dexp].
    + exact (I.exp_correct prec A (Xreal (f x0)) Hf).
    + exists (Xmul Xa (Xexp (Xreal (f x0)))). split; [apply I.mul_correct; [assumption|apply I.exp_correct; exact Hf]|].
      destruct Xa as [|fa]; cbn; trivial.
      evar_last; [apply (is_derive_comp exp f x0 (exp (f x0)) fa); [|exact Da]|].
      * apply is_derive_Reals. apply derivable_pt_lim_exp.
      * unfold scal; cbn. unfold mult; cbn. ring.
  - (* ln *) intros f [A A'] [Hf (Xa & Ca & Da)]. cbn [fst snd] in *.
    split; cbn [fst snd nln NumF NumD dln].
    + apply cont_ln; exact Hf.
    + apply (guard_pos_stat _ _ _ _ (f x0) Hf). intros Hpos.
      exists (Xdiv Xa (Xreal (f x0))). split; [apply I.div_correct; assumption|].
      destruct Xa as [|fa]; cbn; trivial.
      unfold Xdiv'. rewrite is_zero_false by lra.
      evar_last; [apply (is_derive_comp ln f x0 (/ f x0) fa); [|exact Da]|].
      * apply is_derive_Reals. apply derivable_pt_lim_ln. exact Hpos.
      * unfold scal; cbn. unfold mult; cbn. field. lra.
  - (* sqrt *) intros f [A A'] [Hf (Xa & Ca & Da)]. cbn [fst snd] in *.
    split; cbn [fst snd nsqrt NumF NumD dsqrt].
    + exact (I.sqrt_correct prec A (Xreal (f x0)) Hf).
    + apply (guard_pos_stat _ _ _ _ (f x0) Hf). intros Hpos.
      exists (Xdiv Xa (Xmul (Xreal 2) (Xsqrt (Xreal (f x0))))). split.
      * apply I.div_correct; [assumption|]. apply I.mul_correct; [exact (I.fromZ_correct prec 2)|].
        apply I.sqrt_correct; exact Hf.
      * destruct Xa as [|fa]; cbn; trivial.
        assert (Hs : (0 < sqrt (f x0))%R) by (apply sqrt_lt_R0; exact Hpos).
        unfold Xdiv'. rewrite is_zero_false by lra.
        evar_last; [apply (is_derive_comp sqrt f x0 (/ (2 * sqrt (f x0))) fa); [|exact Da]|].
        -- apply is_derive_Reals. apply derivable_pt_lim_sqrt. exact Hpos.
        -- unfold scal; cbn. unfold mult; cbn. field. lra.
  - (* max *) intros f [A A'] [Hf (Xa & Ca & Da)] g [B B'] [Hg (Xb & Cb & Db)]. cbn [fst snd] in *.
    split; cbn [fst snd nmax NumF NumD dmax].
    + apply cont_max; assumption.
    + pose proof (I.sign_strict_correct (I.sub prec A B)) as S.
      pose proof (I.sub_correct prec A B (Xreal (f x0)) (Xreal (g x0)) Hf Hg) as Hsub.
      destruct (I.sign_strict (I.sub prec A B)); try apply nai_stat.
      * (* f < g at x0: max = g near x0 *)
        destruct (S _ Hsub) as [_ Hlt]. cbn in Hlt.
        exists (Xadd Xb (Xmul (Xreal 0) Xa)). split.
        { apply I.add_correct; [exact Cb|]. apply I.mul_correct; [exact (I.fromZ_correct prec 0)|exact Ca]. }
        destruct Xa as [|fa], Xb as [|gb]; cbn; trivial.
        replace (gb + 0 * fa)%R with gb by ring.
        apply (is_derive_ext_loc g); [|exact Db].
        assert (Cf : continuous f x0) by (apply (ex_derive_continuous f); eexists; exact Da).
        assert (Cg : continuous g x0) by (apply (ex_derive_continuous g); eexists; exact Db).
        generalize (max_locally_left g f x0 Cg Cf ltac:(lra)). apply filter_imp.
        intros y Hy. rewrite Rmax_comm. exact Hy.
      * destruct (S _ Hsub) as [_ Hgt]. cbn in Hgt.
        exists (Xadd Xa (Xmul (Xreal 0) Xb)). split.
        { apply I.add_correct; [exact Ca|]. apply I.mul_correct; [exact (I.fromZ_correct prec 0)|exact Cb]. }
        destruct Xa as [|fa], Xb as [|gb]; cbn; trivial.
        replace (fa + 0 * gb)%R with fa by ring.
        apply (is_derive_ext_loc f); [|exact Da].
        assert (Cf : continuous f x0) by (apply (ex_derive_continuous f); eexists; exact Da).
        assert (Cg : continuous g x0) by (apply (ex_derive_continuous g); eexists; exact Db).
        apply (max_locally_left f g x0 Cf Cg). lra.
Qed.
Print Assumptions NumFD_R.
