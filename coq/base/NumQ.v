(* Exact rational instance on [option bigQ] (Bignums rationals on primitive 63-bit integers,
   normalising operations): [None] = undefined (division by zero, or a transcendental function,
   which has no rational value). *)
From Coq Require Import QArith List.
From Bignums Require Import BigQ.
Import ListNotations.
From TT Require Import Num.

Definition qo := option bigQ.
Definition q1 (f : bigQ -> bigQ) (a : qo) : qo := match a with Some x => Some (f x) | None => None end.
Definition q2 (f : bigQ -> bigQ -> bigQ) (a b : qo) : qo :=
  match a, b with Some x, Some y => Some (f x y) | _, _ => None end.
Definition qdivo (a b : qo) : qo :=
  match a, b with
  | Some x, Some y => if BigQ.eq_bool y BigQ.zero then None else Some (BigQ.div_norm x y)
  | _, _ => None
  end.
Definition qmaxo (a b : qo) : qo :=
  match a, b with
  | Some x, Some y => Some (match BigQ.compare x y with Gt => x | _ => y end)
  | _, _ => None
  end.
Definition NumQ : Num qo :=
  mkNum qo (Some BigQ.zero) (Some BigQ.one) (q2 BigQ.add_norm) (q2 BigQ.sub_norm) (q2 BigQ.mul_norm)
        qdivo (q1 BigQ.opp)
        (fun q => Some (BigQ.red (BigQ.of_Q q))) (fun _ => None) (fun _ => None) (fun _ => None) qmaxo.

Definition sq (q : Q) : qo := Some (BigQ.red (BigQ.of_Q q)).

(* harness output: [tag; numerator; denominator] as bigZ (printed natively; converting big
   numbers to Z inside the VM is slow) *)
From Bignums Require Import BigZ BigN.
Definition show_q (a : qo) : list bigZ :=
  match a with
  | Some x => match BigQ.red x with
              | BigQ.Qz z => [BigZ.one; z; BigZ.one]
              | BigQ.Qq n d => [BigZ.one; n; BigZ.Pos d]
              end
  | None => [BigZ.zero; BigZ.zero; BigZ.one]
  end.
