(* Exact rational instance.  Transcendentals are unavailable: they return the flag value
   [qerr] and runs that touch them are reported as "model undefined" by the harness
   (models run at NumQ never call them). Results are normalised with Qred. *)
From Coq Require Import QArith.
From TT Require Import Num.
Definition qerr : Q := (-987654321 # 1).
Definition qadd a b := Qred (a + b).
Definition qsub a b := Qred (a - b).
Definition qmul a b := Qred (a * b).
Definition qdiv a b := Qred (a / b).
Definition NumQ : Num Q :=
  mkNum Q 0 1 qadd qsub qmul qdiv Qopp (fun q => Qred q)
        (fun _ => qerr) (fun _ => qerr) (fun _ => qerr).
