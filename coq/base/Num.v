(* Numeric interface shared by every numerical model.  One polymorphic model term is
   used at R (theorems), Q (exact runs) and I.type (verified interval runs). *)
From Coq Require Import QArith Reals List.
Import ListNotations.

Record Num (T : Type) := mkNum {
  zero : T; one : T;
  add : T -> T -> T; sub : T -> T -> T; mul : T -> T -> T; div : T -> T -> T;
  opp : T -> T;
  ofQ : Q -> T;
  nexp : T -> T; nln : T -> T; nsqrt : T -> T;
  nmax : T -> T -> T }.

Arguments zero {T} _. Arguments one {T} _.
Arguments add {T} _ _ _. Arguments sub {T} _ _ _. Arguments mul {T} _ _ _.
Arguments div {T} _ _ _. Arguments opp {T} _ _. Arguments ofQ {T} _ _.
Arguments nexp {T} _ _. Arguments nln {T} _ _. Arguments nsqrt {T} _ _. Arguments nmax {T} _ _ _.

Definition ofZ {T} (N : Num T) (z : Z) : T := ofQ N (inject_Z z).
Definition ofNat {T} (N : Num T) (n : nat) : T := ofQ N (inject_Z (Z.of_nat n)).

Fixpoint nsum {T} (N : Num T) (l : list T) : T :=
  match l with [] => zero N | x :: r => add N x (nsum N r) end.

Fixpoint nprod {T} (N : Num T) (l : list T) : T :=
  match l with [] => one N | x :: r => mul N x (nprod N r) end.

Fixpoint ndot {T} (N : Num T) (a b : list T) : T :=
  match a, b with
  | x :: r, y :: s => add N (mul N x y) (ndot N r s)
  | _, _ => zero N
  end.
