(* A tiny file-system model for the checkpoint-write protocol (C18).
   A directory holds at most the three names the protocol touches.  A file is either a
   [Complete v] (fully written and closed image of version v) or [Partial v] (opened with
   truncation for version v and not yet closed: any strict prefix may be on disk).
   Primitive, individually atomic steps: open-with-truncate, close, rename, remove.
   A crash may happen between any two primitives (partial writes between open and close do
   not change the abstract state: the file stays [Partial]). *)
From Coq Require Import List Arith Bool.
Import ListNotations.

Inductive fname := FName | FOld | FNew.
Inductive content := Complete (v : nat) | Partial (v : nat).
Record dir := mkDir { dname : option content; dold : option content; dnew : option content }.

Definition dget (d : dir) (f : fname) : option content :=
  match f with FName => dname d | FOld => dold d | FNew => dnew d end.
Definition dset (d : dir) (f : fname) (c : option content) : dir :=
  match f with
  | FName => mkDir c (dold d) (dnew d)
  | FOld => mkDir (dname d) c (dnew d)
  | FNew => mkDir (dname d) (dold d) c
  end.

Inductive bexp :=
| BTrue | BFalse | BOverwrite | BSafely | BExists (f : fname)
| BNot (b : bexp) | BOr (a b : bexp) | BAnd (a b : bexp).

Inductive stmt :=
| SWrite (f : fname)                 (* with open(f,'w') as fp: json.dump(...) *)
| SRename (f g : fname)              (* os.rename / os.replace *)
| SRemove (f : fname)                (* os.remove *)
| SIf (b : bexp) (t e : list stmt).

Record flags := mkFlags { overwrite : bool; safely : bool }.

Fixpoint beval (fl : flags) (d : dir) (b : bexp) : bool :=
  match b with
  | BTrue => true | BFalse => false
  | BOverwrite => overwrite fl | BSafely => safely fl
  | BExists f => match dget d f with Some _ => true | None => false end
  | BNot a => negb (beval fl d a)
  | BOr a c => beval fl d a || beval fl d c
  | BAnd a c => beval fl d a && beval fl d c
  end.

(* Result of running with a budget of primitive steps: the directory, the remaining budget
   ([None] = the crash happened / an OS error aborted the call). *)
Definition st := (dir * option nat)%type.

Definition prim (k : option nat) (d : dir) (f : dir -> option dir) : st :=
  match k with
  | None => (d, None)
  | Some O => (d, None)                          (* crash before this primitive *)
  | Some (S k') => match f d with
                   | Some d' => (d', Some k')
                   | None => (d, None)           (* OS error: exception aborts the call *)
                   end
  end.

Definition do_rename (f g : fname) (d : dir) : option dir :=
  match dget d f with
  | Some c => Some (dset (dset d g (Some c)) f None)
  | None => None
  end.
Definition do_remove (f : fname) (d : dir) : option dir :=
  match dget d f with Some _ => Some (dset d f None) | None => None end.

Section Exec.
Variable fl : flags.
Variable v : nat.

(* [exec_stmt] and [exec_block] by mutual structural recursion on the program *)
Fixpoint exec_stmt (s : stmt) (x : st) {struct s} : st :=
  let exec_block := fix exec_block (p : list stmt) (x : st) {struct p} : st :=
    match p with
    | [] => x
    | s :: r => exec_block r (exec_stmt s x)
    end in
  match x with
  | (d, None) => (d, None)
  | (d, Some k) =>
    match s with
    | SWrite f =>
        match prim (Some k) d (fun d => Some (dset d f (Some (Partial v)))) with
        | (d1, Some k1) => prim (Some k1) d1 (fun d => Some (dset d f (Some (Complete v))))
        | r => r
        end
    | SRename f g => prim (Some k) d (do_rename f g)
    | SRemove f => prim (Some k) d (do_remove f)
    | SIf b t e => if beval fl d b then exec_block t (d, Some k) else exec_block e (d, Some k)
    end
  end.

Fixpoint exec_block (p : list stmt) (x : st) : st :=
  match p with
  | [] => x
  | s :: r => exec_block r (exec_stmt s x)
  end.
End Exec.

(* one call of save_parameters writing version v, crashing after k primitives *)
Definition run_write (prog : list stmt) (fl : flags) (d : dir) (v k : nat) : dir :=
  fst (exec_block fl v prog (d, Some k)).

(* a history: consecutive (possibly interrupted) writes of versions v0+1, v0+2, ... *)
Fixpoint run_history (prog : list stmt) (fl : flags) (d : dir) (v : nat) (ks : list nat) : dir :=
  match ks with
  | [] => d
  | k :: r => run_history prog fl (run_write prog fl d (S v) k) (S v) r
  end.

(* ---- the property ---- *)
Definition is_complete_ge (c : nat) (o : option content) : bool :=
  match o with Some (Complete v) => c <=? v | _ => false end.
Definition not_truncated (o : option content) : bool :=
  match o with Some (Partial _) => false | _ => true end.
(* [good c d]: a complete checkpoint at least as recent as the last good one [c] survives under
   one of the three names, and the checkpoint name itself is not a truncated file. *)
Definition good (c : nat) (d : dir) : bool :=
  (is_complete_ge c (dname d) || is_complete_ge c (dold d) || is_complete_ge c (dnew d))
  && not_truncated (dname d).

(* harness output encoding: per file [tag; version] with tag 0 absent, 1 complete, 2 partial *)
From Coq Require Import ZArith.
Definition show_c (o : option content) : list Z :=
  match o with
  | None => [0; 0]%Z
  | Some (Complete v) => [1%Z; Z.of_nat v]
  | Some (Partial v) => [2%Z; Z.of_nat v]
  end.
Definition show_dir (d : dir) : list Z := show_c (dname d) ++ show_c (dold d) ++ show_c (dnew d).
