(* Verified interval instance (Interval library, pure-Z radix-2 floats, 120 bits). *)
From Coq Require Import QArith ZArith Reals List.
Import ListNotations.
From Interval Require Import Specific_stdz Specific_ops Float_full Interval Xreal Basic Float.
From TT Require Import Num.
Module F := SpecificFloat StdZRadix2.
Module I := FloatIntervalFull F.
Definition prec := F.PtoP 120.
Definition iofQ (q : Q) : I.type :=
  I.div prec (I.fromZ prec (Qnum q)) (I.fromZ prec (Zpos (Qden q))).
Definition NumI : Num I.type :=
  mkNum I.type (I.fromZ prec 0) (I.fromZ prec 1)
        (I.add prec) (I.sub prec) (I.mul prec) (I.div prec) (I.neg) iofQ
        (I.exp prec) (I.ln prec) (I.sqrt prec).
(* Output format for the harness: [tag; m_lo; e_lo; m_hi; e_hi], tag 1 = bounded, 0 = other *)
Definition show_f (f : F.type) : list Z :=
  match f with
  | Specific_ops.Float m e => [1%Z; m; e]
  | _ => [0%Z; 0%Z; 0%Z]
  end.
Definition show_i (i : I.type) : list Z :=
  match i with
  | Float.Ibnd l u => (show_f l ++ show_f u)%list
  | _ => [0%Z;0%Z;0%Z;0%Z;0%Z;0%Z]
  end.
