(* Verified interval instance (Interval library, BigZ radix-2 floats on primitive 63-bit
   integers, 100 bits). *)
From Coq Require Import QArith ZArith Reals List.
Import ListNotations.
From Bignums Require Import BigZ.
From Interval Require Import Specific_bigint Specific_ops Float_full Interval Xreal Basic Float.
From TT Require Import Num.
Module F := SpecificFloat BigIntRadix2.
Module I := FloatIntervalFull F.
Definition prec := F.PtoP 100.
Definition iofQ (q : Q) : I.type :=
  I.div prec (I.fromZ prec (Qnum q)) (I.fromZ prec (Zpos (Qden q))).
(* max(a,b) = (a + b + |a - b|) / 2 *)
Definition imax (a b : I.type) : I.type :=
  I.mul prec (I.add prec (I.add prec a b) (I.abs (I.sub prec a b))) (iofQ (1#2)).
Definition NumI : Num I.type :=
  mkNum I.type (I.fromZ prec 0) (I.fromZ prec 1)
        (I.add prec) (I.sub prec) (I.mul prec) (I.div prec) (I.neg) iofQ
        (I.exp prec) (I.ln prec) (I.sqrt prec) imax.
(* Output format for the harness: [tag; m_lo; e_lo; tag; m_hi; e_hi] as bigZ, tag 1 = finite bound *)
Definition show_f (f : F.type) : list bigZ :=
  match f with
  | Specific_ops.Float m e => [BigZ.one; m; e]
  | _ => [BigZ.zero; BigZ.zero; BigZ.zero]
  end.
Definition show_i (i : I.type) : list bigZ :=
  match i with
  | Float.Ibnd l u => (show_f l ++ show_f u)%list
  | _ => [BigZ.zero; BigZ.zero; BigZ.zero; BigZ.zero; BigZ.zero; BigZ.zero]
  end.
