#!/bin/sh
# dev tool: seedimport.sh C05 [round]  -> copies /tmp/seed_out<round>/C05/{patch,demo,meta}_{A,B} into /verif/seeded/
# round 1 (default): C05_A, C05_B;  round 2: C05_C, C05_D;  round 3: C05_E, C05_F
P=$1; R=${2:-1}
SRC=/tmp/seed_out; [ "$R" = "2" ] && SRC=/tmp/seed_out2; [ "$R" = "3" ] && SRC=/tmp/seed_out3; [ "$R" = "4" ] && SRC=/tmp/seed_out4; [ "$R" = "5" ] && SRC=/tmp/seed_out5
for v in A B; do
  [ -f $SRC/$P/patch_$v.diff ] || continue
  t=$v; [ "$R" = "2" ] && { [ $v = A ] && t=C || t=D; }; [ "$R" = "3" ] && { [ $v = A ] && t=E || t=F; }; [ "$R" = "4" ] && { [ $v = A ] && t=G || t=H; }; [ "$R" = "5" ] && { [ $v = A ] && t=I || t=J; }
  d=/verif/seeded/${P}_$t; mkdir -p $d
  cp $SRC/$P/patch_$v.diff $d/patch.diff
  cp $SRC/$P/demo_$v.py $d/demo.py
  /venv/bin/python - "$P" "$v" "$SRC" "$t" "$R" <<'PY'
import json,sys
P,v,SRC,t,R=sys.argv[1:6]
try: m=json.load(open(f"{SRC}/{P}/meta_{v}.json"))
except Exception as e: m={"summary":f"(meta unreadable: {e})"}
m["property"]=P; m["round"]=int(R); m["origin"]="fresh sub-agent given only the property text and a scratch worktree"
json.dump(m,open(f"/verif/seeded/{P}_{t}/meta.json","w"),indent=1)
PY
done
ls /verif/seeded | grep $P | tr '\n' ' '; echo
