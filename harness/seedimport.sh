#!/bin/sh
# dev tool: seedimport.sh C05  -> copies /tmp/seed_out/C05/{patch,demo,meta}_{A,B} into /verif/seeded/C05_{A,B}/
P=$1
for v in A B; do
  [ -f /tmp/seed_out/$P/patch_$v.diff ] || continue
  d=/verif/seeded/${P}_$v; mkdir -p $d
  cp /tmp/seed_out/$P/patch_$v.diff $d/patch.diff
  cp /tmp/seed_out/$P/demo_$v.py $d/demo.py
  /venv/bin/python - "$P" "$v" <<'PY'
import json,sys
P,v=sys.argv[1:3]
try: m=json.load(open(f"/tmp/seed_out/{P}/meta_{v}.json"))
except Exception as e: m={"summary":f"(meta unreadable: {e})"}
m["property"]=P; m["origin"]="fresh sub-agent given only the property text and a scratch worktree"
json.dump(m,open(f"/verif/seeded/{P}_{v}/meta.json","w"),indent=1)
PY
done
ls /verif/seeded | grep $P
