#!/bin/sh
# usage: applyfix.sh <patch-file> "<commit message starting with fix:>"
set -e
cd /repo
git apply --3way "$1" 2>/dev/null || git apply "$1"
git add -A
git commit -q -m "$2"
git log --oneline -1
