#!/venv/bin/python
"""Development tool (NOT a registered check): validate a seeded mutant and run the checks against it.

usage: seedtest.py <seed-id> [--props C01,C11] [--tier quick]
  /verif/seeded/<seed-id>/ must hold patch.diff, demo.py (exit 0 on the unchanged tree, non-zero on the
  mutant) and meta.json (key `property`).  The mutant is applied in a scratch worktree of /repo under
  /tmp (never in /repo), validated (test suite still passes, demo passes on /repo and fails on the
  mutant), then `VERIF_REPO=<worktree> ./check <prop>` is run for the property it breaks (and any extra
  ones asked for).  The outcome is written back into meta.json under `verif`.  The worktree and the
  private Coq copy (_work/alt/<hash>) are removed afterwards.
"""
import argparse
import hashlib
import json
import os
import shutil
import subprocess
import sys
import time

PY = "/venv/bin/python"


def sh(cmd, timeout=3600, cwd=None, env=None):
    e = dict(os.environ)
    e.pop("VERIF_REPO", None)
    if env:
        e.update(env)
    t0 = time.time()
    try:
        p = subprocess.run(cmd, cwd=cwd, env=e, stdout=subprocess.PIPE, stderr=subprocess.STDOUT,
                           timeout=timeout, text=True)
        return p.returncode, p.stdout, round(time.time() - t0, 1)
    except subprocess.TimeoutExpired as ex:
        out = ex.stdout if isinstance(ex.stdout, str) else (ex.stdout or b"").decode("utf8", "replace")
        return 124, (out or "") + "\n[timeout]", round(time.time() - t0, 1)


def main():
    ap = argparse.ArgumentParser()
    ap.add_argument("sid")
    ap.add_argument("--props")
    ap.add_argument("--tier", default="quick")
    ap.add_argument("--skip-validate", action="store_true")
    ap.add_argument("--seed", help="VERIF_SEED for the check (default: the check's own default seed); the outcome is "
                                   "recorded under verif.checks_seed_<n> and does not replace the default-seed result")
    ap.add_argument("--root", default="/verif/seeded",
                    help="/verif/benign for the behaviour-preserving changes (the checks must stay silent)")
    a = ap.parse_args()
    d = f"{a.root}/{a.sid}"
    meta = json.load(open(f"{d}/meta.json"))
    props = a.props.split(",") if a.props else [meta["property"]]
    tag = "b_" if a.root.endswith("benign") else ""
    wt = f"/tmp/wt_seed_{tag}{a.sid}" + (f"_s{a.seed}" if a.seed else "")
    subprocess.run(["git", "-C", "/repo", "worktree", "remove", "--force", wt],
                   stdout=subprocess.DEVNULL, stderr=subprocess.DEVNULL)
    rc, out, _ = sh(["git", "-C", "/repo", "worktree", "add", "--detach", wt, "HEAD"])
    if rc:
        print(out)
        return 2
    # run the checks from a snapshot of /verif, so that editing the harness meanwhile cannot disturb them
    snap = f"/tmp/vsnap_{tag}{a.sid}" + (f"_s{a.seed}" if a.seed else "")
    shutil.rmtree(snap, ignore_errors=True)
    subprocess.run(["rsync", "-a", "--exclude", "_work", "--exclude", "seeded", "--exclude", "replays",
                    "--exclude", "evidence", "--exclude", ".git", "/verif/", snap + "/"], check=True)
    res = dict(repo_head=subprocess.run(["git", "-C", "/repo", "rev-parse", "--short", "HEAD"],
                                        capture_output=True, text=True).stdout.strip(),
               at=time.strftime("%Y-%m-%dT%H:%M:%S"))
    try:
        rc, out, _ = sh(["git", "-C", wt, "apply", f"{d}/patch.diff"])
        res["applies"] = rc == 0
        if rc:
            print("patch does not apply:\n" + out)
            meta["verif"] = res
            json.dump(meta, open(f"{d}/meta.json", "w"), indent=1)
            return 2
        if not a.skip_validate:
            rc, out, dt = sh([PY, "-m", "pytest", "-q", "-p", "no:cacheprovider", "--timeout=900"], cwd=wt)
            res["tests_with_mutant"] = out.strip().split("\n")[-1][-80:]
            res["tests_pass"] = rc == 0
            rc0, out0, _ = sh([PY, f"{d}/demo.py"], cwd="/tmp", env=dict(PYTHONPATH="/repo", PYTHONHASHSEED="0"),
                              timeout=900)
            rc1, out1, _ = sh([PY, f"{d}/demo.py"], cwd="/tmp", env=dict(PYTHONPATH=wt, PYTHONHASHSEED="0"),
                              timeout=900)
            res["demo_on_repo_exit"] = rc0
            res["demo_on_mutant_exit"] = rc1
            res["demo_on_mutant_tail"] = out1.strip()[-400:]
            if a.root.endswith("benign"):       # a behaviour-preserving change: the demo passes on both trees
                res["valid"] = bool(res["tests_pass"] and rc0 == 0 and rc1 == 0)
            else:
                res["valid"] = bool(res["tests_pass"] and rc0 == 0 and rc1 != 0)
            print(f"[{a.sid}] tests: {res['tests_with_mutant']} | demo repo={rc0} mutant={rc1} | valid={res['valid']}")
        checks = {}
        for p in props:
            env = dict(VERIF_REPO=wt, VERIF_ROOT=snap)
            if a.seed:
                env["VERIF_SEED"] = a.seed
            rc, out, dt = sh([snap + "/check", p, "--tier", a.tier], cwd=snap, env=env, timeout=5400)
            viol = [ln for ln in out.split("\n") if ln.startswith("VIOLATION")]
            detail = [ln.strip() for ln in out.split("\n") if ln.strip().startswith("violation ")]
            checks[p] = dict(exit=rc, wall_s=dt, violations=len(viol),
                             no_failing_input_found=sum("no-failing-input-found" in v for v in viol),
                             first=[x[:300] for x in detail[:4]])
            print(f"[{a.sid}] check {p}: exit={rc} violations={len(viol)} ({dt}s)")
            for x in detail[:4]:
                print("    " + x[:220])
            if rc not in (0, 1):
                print(out[-1500:])
        res["checks"] = checks
        res["caught_by"] = sorted(p for p, c in checks.items() if c["exit"] == 1 and c["violations"] > 0)
    finally:
        subprocess.run(["git", "-C", "/repo", "worktree", "remove", "--force", wt],
                       stdout=subprocess.DEVNULL, stderr=subprocess.DEVNULL)
        shutil.rmtree(snap, ignore_errors=True)
    old = meta.get("verif", {})
    if a.seed:          # a supplementary run under another seed: recorded beside the main result
        old[f"checks_seed_{a.seed}"] = res.get("checks", {})
        meta["verif"] = old
        json.dump(meta, open(f"{d}/meta.json", "w"), indent=1)
        return 0
    if a.skip_validate:
        for k in ("tests_with_mutant", "tests_pass", "demo_on_repo_exit", "demo_on_mutant_exit",
                  "demo_on_mutant_tail", "valid"):
            if k in old:
                res[k] = old[k]
    if "checks" in old:
        merged = dict(old["checks"])
        merged.update(res["checks"])
        res["checks"] = merged
        res["caught_by"] = sorted(p for p, c in merged.items() if c["exit"] == 1 and c["violations"] > 0)
    meta["verif"] = res
    json.dump(meta, open(f"{d}/meta.json", "w"), indent=1)
    return 0


if __name__ == "__main__":
    sys.exit(main())
