"""T10: regenerate the bodies of the shipped element-wise / cumulative transforms
(torchtree/distributions/transforms.py) as Coq terms over the vocabulary of model/M_transform.v.

For each of CumSumTransform, CumSumExpTransform, SoftPlusTransform, CumSumSoftPlusTransform, LogTransform the three
methods `_call(self, x)`, `_inverse(self, y)`, `log_abs_det_jacobian(self, x, y)` must consist of local
assignments `name = <expr>` (read by substitution) followed by one `return <expr>` over this expression language;
calls of module-level helper functions of the same file are inlined (anything else raises
TranslateError: fail-closed):

    x, y, locals                      vectors (the last dimension of the tensor)
    e.cumsum(-1)                      cumsum
    e.exp() / torch.exp(e)            element-wise exp         e.log() / torch.log(e)     element-wise ln
    torch.expm1(e)                    element-wise exp(.) - 1  softplus(e)                element-wise ln(1 + exp .)
    -e                                negation (vector or scalar)
    e + c, c + e, e - c               with a numeric literal c, element-wise
    e.sum(-1)                         the sum of a vector (a scalar)
    torch.cat((a[..., :1], a[..., 1:] - a[..., :-1]), -1)     first element, then successive differences
    torch.zeros(x.shape[:-1], ...)    the scalar zero (one per batch element)

proof/P_transform_gen.v proves that the regenerated definitions are the model's `*_fwd`, `*_inv`, `*_logdet`.
"""
import ast
import os
from fractions import Fraction

CLASSES = ["CumSumTransform", "CumSumExpTransform", "SoftPlusTransform", "CumSumSoftPlusTransform", "LogTransform"]
METHODS = [("_call", ["self", "x"], "call"), ("_inverse", ["self", "y"], "inverse"),
           ("log_abs_det_jacobian", ["self", "x", "y"], "ldj")]
VEC, SCAL = "list T", "T"


class TranslateError(Exception):
    pass


def _fail(node, msg):
    raise TranslateError(f"{msg}: line {getattr(node, 'lineno', '?')}: {ast.unparse(node)[:160]}")


def _q(v):
    f = Fraction(v).limit_denominator(10 ** 9) if isinstance(v, float) else Fraction(v)
    if isinstance(v, float) and float(f) != v:
        raise TranslateError(f"literal {v!r} is not a small rational")
    return f"(ofQ N ({f.numerator}#{f.denominator}))"


def _is_num(n):
    return isinstance(n, ast.Constant) and isinstance(n.value, (int, float)) and not isinstance(n.value, bool)


def _is_minus1(n):
    return ast.unparse(n) == "-1"


def _slice_kind(n):
    """a[..., :1] -> (a, 'head'); a[..., 1:] -> (a, 'tail'); a[..., :-1] -> (a, 'init')"""
    if not (isinstance(n, ast.Subscript) and isinstance(n.slice, ast.Tuple) and len(n.slice.elts) == 2):
        return None
    e0, e1 = n.slice.elts
    if not (isinstance(e0, ast.Constant) and e0.value is Ellipsis and isinstance(e1, ast.Slice) and e1.step is None):
        return None
    lo = ast.unparse(e1.lower) if e1.lower is not None else ""
    hi = ast.unparse(e1.upper) if e1.upper is not None else ""
    kind = {("", "1"): "head", ("1", ""): "tail", ("", "-1"): "init"}.get((lo, hi))
    return (n.value, kind) if kind else None


# symbolic values: (coq term, VEC | SCAL)  or  (coq term of the vector a, 'head' | 'tail' | 'init' | 'adjdiff')
# -- the last four stand for a[..., :1], a[..., 1:], a[..., :-1] and a[..., 1:] - a[..., :-1]; they are only
#    meaningful inside the torch.cat((head, adjdiff), -1) pattern
def _expr(n, env, helpers, depth=0):
    """-> (coq term, type)"""
    def ev(m):
        return _expr(m, env, helpers, depth)
    if isinstance(n, ast.Name):
        if n.id in env:
            return env[n.id]
        _fail(n, "unknown name")
    sk = _slice_kind(n)
    if sk:
        t, ty = ev(sk[0])
        if ty == VEC:
            return t, sk[1]
        _fail(n, "slice of something that is not a vector")
    if isinstance(n, ast.UnaryOp) and isinstance(n.op, ast.USub):
        t, ty = ev(n.operand)
        if ty == VEC:
            return f"(map (opp N) {t})", VEC
        if ty == SCAL:
            return f"(opp N {t})", SCAL
        _fail(n, "negation of a slice")
    if isinstance(n, ast.BinOp) and isinstance(n.op, (ast.Add, ast.Sub)):
        op = "add" if isinstance(n.op, ast.Add) else "sub"
        if _is_num(n.right):
            t, ty = ev(n.left)
            c = _q(n.right.value)
            if ty == VEC:
                return f"(map (fun v => {op} N v {c}) {t})", VEC
            if ty == SCAL:
                return f"({op} N {t} {c})", SCAL
        elif _is_num(n.left) and op == "add":
            t, ty = ev(n.right)
            c = _q(n.left.value)
            if ty == VEC:
                return f"(map (fun v => add N {c} v) {t})", VEC
            if ty == SCAL:
                return f"(add N {c} {t})", SCAL
        elif op == "sub":
            a, ta = ev(n.left)
            b, tb = ev(n.right)
            if ta == "tail" and tb == "init" and a == b:
                return a, "adjdiff"
        _fail(n, "sum / difference of two tensors outside the recognised patterns")
    if isinstance(n, ast.Call):
        f = n.func
        fn = ast.unparse(f)
        if isinstance(f, ast.Name) and f.id in helpers:
            return _call_helper(n, env, helpers, depth)
        # method calls on an expression
        if isinstance(f, ast.Attribute) and fn not in ("torch.exp", "torch.log", "torch.expm1", "torch.cat", "torch.zeros"):
            recv, ty = ev(f.value)
            if f.attr == "cumsum" and len(n.args) == 1 and _is_minus1(n.args[0]) and not n.keywords and ty == VEC:
                return f"(cumsum N {recv})", VEC
            if f.attr == "sum" and len(n.args) == 1 and _is_minus1(n.args[0]) and not n.keywords and ty == VEC:
                return f"(nsum N {recv})", SCAL
            if f.attr in ("exp", "log") and not n.args and not n.keywords and ty == VEC:
                return f"(map ({'nexp' if f.attr == 'exp' else 'nln'} N) {recv})", VEC
            _fail(n, "unrecognised method")
        if fn in ("torch.exp", "torch.log", "torch.expm1", "softplus") and len(n.args) == 1 and not n.keywords:
            t, ty = ev(n.args[0])
            if ty != VEC:
                _fail(n, "element-wise function of something that is not a vector")
            g = {"torch.exp": "(nexp N)", "torch.log": "(nln N)",
                 "torch.expm1": "(fun v => sub N (nexp N v) (one N))", "softplus": "(softplus N)"}[fn]
            return f"(map {g} {t})", VEC
        if fn == "torch.cat" and len(n.args) == 2 and _is_minus1(n.args[1]) and not n.keywords:
            parts = n.args[0]
            if isinstance(parts, ast.Name) and parts.id in env and isinstance(env[parts.id], list):
                vals = env[parts.id]
            elif isinstance(parts, ast.Tuple):
                vals = [ev(x) for x in parts.elts]
            else:
                vals = None
            if vals and len(vals) == 2 and vals[0][1] == "head" and vals[1][1] == "adjdiff" and vals[0][0] == vals[1][0]:
                return f"(first_then_diffs {vals[0][0]})", VEC
            _fail(n, "torch.cat outside the first-element / successive-differences pattern")
        if fn == "torch.zeros" and n.args and ast.unparse(n.args[0]) in ("x.shape[:-1]", "y.shape[:-1]") and \
                len(n.args) == 1 and all(k.arg in ("dtype", "device") for k in n.keywords):
            return "(zero N)", SCAL
    _fail(n, "unrecognised expression")


def _body(fn, env, helpers, depth):
    """local assignments `name = <expr>` (bound by substitution) followed by one `return <expr>`"""
    body = [s for s in fn.body if not (isinstance(s, ast.Expr) and isinstance(s.value, ast.Constant))]
    if not body or not isinstance(body[-1], ast.Return) or body[-1].value is None:
        _fail(fn, "the function does not end with `return <expr>`")
    env = dict(env)
    for s in body[:-1]:
        if isinstance(s, ast.AnnAssign) and isinstance(s.target, ast.Name) and s.value is not None:
            nm, val = s.target.id, s.value
        elif isinstance(s, ast.Assign) and len(s.targets) == 1 and isinstance(s.targets[0], ast.Name):
            nm, val = s.targets[0].id, s.value
        else:
            _fail(s, "only `name = <expr>` may precede the return")
        if nm in env:
            _fail(s, "a name is bound twice")
        if isinstance(val, ast.Tuple):           # a tuple of pieces, for torch.cat(<name>, -1)
            env[nm] = [_expr(x, env, helpers, depth) for x in val.elts]
        else:
            env[nm] = _expr(val, env, helpers, depth)
    return _expr(body[-1].value, env, helpers, depth)


def _call_helper(call, env, helpers, depth):
    fn = helpers[call.func.id]
    if depth > 3:
        _fail(call, "helper calls nested too deeply")
    a = fn.args
    if a.vararg or a.kwarg or a.kwonlyargs or a.posonlyargs or a.defaults or fn.decorator_list or call.keywords \
            or len(call.args) != len(a.args):
        _fail(call, "unsupported helper signature / call")
    bound = {p.arg: _expr(x, env, helpers, depth) for p, x in zip(a.args, call.args)}
    return _body(fn, bound, helpers, depth + 1)


def _method(cls, name, args, tag, helpers):
    fns = [m for m in cls.body if isinstance(m, ast.FunctionDef) and m.name == name]
    if len(fns) != 1:
        raise TranslateError(f"{cls.name}.{name} not found")
    fn = fns[0]
    if [a.arg for a in fn.args.args] != args or fn.args.vararg or fn.args.kwarg or fn.args.kwonlyargs or fn.decorator_list:
        _fail(fn, "unexpected signature")
    env = {a: (a, VEC) for a in args[1:]}
    t, ty = _body(fn, env, helpers, 0)
    if ty not in (VEC, SCAL):
        _fail(fn, "the method returns a slice")
    params = " ".join(args[1:])
    return f"Definition g_{cls.name}_{tag} ({params} : list T) : {ty} :=\n  {t}."


def translate(path=None):
    path = path or os.path.join(os.environ.get("VERIF_REPO", "/repo"), "torchtree/distributions/transforms.py")
    tree = ast.parse(open(path).read())
    imp = [ast.unparse(s) for s in tree.body if isinstance(s, (ast.Import, ast.ImportFrom))]
    if "from torch.nn.functional import softplus" not in imp or "import torch" not in imp:
        raise TranslateError("`softplus` / `torch` are not the imported torch functions")
    for s in tree.body:      # nothing at module level may rebind the names the expressions use
        if isinstance(s, (ast.Assign, ast.FunctionDef)) and any(
                nm in ("softplus", "torch") for nm in ([s.name] if isinstance(s, ast.FunctionDef) else
                                                       [ast.unparse(t) for t in s.targets])):
            _fail(s, "softplus / torch rebound at module level")
    helpers = {}
    for n in tree.body:
        if isinstance(n, ast.FunctionDef):
            if n.name in helpers:
                _fail(n, "function defined twice")
            helpers[n.name] = n
    out = ["(* GENERATED by harness/translate/t10_transforms.py from torchtree/distributions/transforms.py — do not edit *)",
           "From Coq Require Import QArith List.", "Import ListNotations.", "From TT Require Import Num M_transform.", "",
           "Section Gen.", "Context {T : Type} (N : Num T).", "",
           "(* torch.cat((a[..., :1], a[..., 1:] - a[..., :-1]), -1) *)",
           "Definition first_then_diffs (a : list T) : list T :=",
           "  match a with [] => [] | a0 :: r => a0 :: diffs N a0 r end.", ""]
    for cn in CLASSES:
        cls = [n for n in tree.body if isinstance(n, ast.ClassDef) and n.name == cn]
        if len(cls) != 1:
            raise TranslateError(f"class {cn} not found")
        bases = [ast.unparse(b) for b in cls[0].bases]
        if bases != ["Transform"]:
            raise TranslateError(f"class {cn} derives from {bases}, not from torch's Transform")
        names = [m.name for m in cls[0].body if isinstance(m, ast.FunctionDef)]
        extra = set(names) - {m[0] for m in METHODS} - {"__init__"}
        if extra & {"__call__", "inv", "_inv_call", "forward"}:
            raise TranslateError(f"class {cn} overrides {sorted(extra)}")
        for name, args, tag in METHODS:
            out.append(_method(cls[0], name, args, tag, helpers))
        out.append("")
    out.append("End Gen.")
    return "\n".join(out) + "\n"


if __name__ == "__main__":
    print(translate())
