"""T8: regenerate the pruning recursions of torchtree/evolution/tree_likelihood.py as Coq terms.

For each of
    calculate_treelikelihood_discrete            (tip partials)
    calculate_treelikelihood_tip_states_discrete (tip states)
    calculate_treelikelihood_discrete_rescaled / _discrete_safe / _tip_states_discrete_rescaled
the translator reads, from the source as it is now,
  * the loop `for node, left, right in post_indexing:` and what it stores into `partials[node]`,
  * the expression that is returned,
and writes them as Gallina definitions over the combinators of model/M_like.v (one rate category and
one site pattern: `@` on [.., S, S] x [S, N] acts column by column and category by category, which is
the broadcasting convention of torch.matmul — modelled, validated by the C01 correspondence).

Fail-closed: anything that is not one of the recognised shapes raises TranslateError.
"""
import ast
import os


class TranslateError(Exception):
    pass


def _fail(node, msg):
    raise TranslateError(f"{msg}: line {getattr(node, 'lineno', '?')}: {ast.unparse(node)[:200]}")


def _is_name(n, name=None):
    return isinstance(n, ast.Name) and (name is None or n.id == name)


def _mats_index(n, which):
    """mats[..., X, :, :, :]  (or mat_tips[..., X, :, :, Y]) -> (X, Y or None)"""
    if not (isinstance(n, ast.Subscript) and _is_name(n.value, which) and isinstance(n.slice, ast.Tuple)):
        return None
    el = n.slice.elts
    if len(el) != 5 or not (isinstance(el[0], ast.Constant) and el[0].value is Ellipsis) or not _is_name(el[1]):
        _fail(n, f"unexpected indexing of {which}")
    full = lambda s: isinstance(s, ast.Slice) and s.lower is None and s.upper is None and s.step is None
    if not (full(el[2]) and full(el[3])):
        _fail(n, f"unexpected indexing of {which}")
    if full(el[4]):
        return el[1].id, None
    return el[1].id, el[4]


def _expr(n, env):
    """vector-valued expression of the loop body -> Coq term"""
    if isinstance(n, ast.Name) and n.id in env:
        return env[n.id]
    if isinstance(n, ast.BinOp) and isinstance(n.op, ast.Mult):
        return f"(vmul N {_expr(n.left, env)} {_expr(n.right, env)})"
    if isinstance(n, ast.BinOp) and isinstance(n.op, ast.MatMult):
        m = _mats_index(n.left, "mats")
        if m is None or m[1] is not None:
            _fail(n, "left operand of @ is not mats[..., X, :, :, :]")
        return f"(matvec N (mats {m[0]}) {_expr(n.right, env)})"
    if isinstance(n, ast.Subscript) and _is_name(n.value, "partials") and _is_name(n.slice):
        return f"(partials {n.slice.id})"
    m = _mats_index(n, "mat_tips")
    if m is not None and m[1] is not None:
        # mat_tips[..., X, :, :, partials[X]]: the column of the augmented matrix selected by the tip state
        y = m[1]
        if not (isinstance(y, ast.Subscript) and _is_name(y.value, "partials") and _is_name(y.slice, m[0])):
            _fail(n, "tip-state column is not selected by partials[same node]")
        return f"(tipcol (mats {m[0]}) (states {m[0]}))"
    _fail(n, "unrecognised expression in the pruning loop")


def _find_loop(fn):
    loops = [s for s in fn.body if isinstance(s, ast.For)]
    if len(loops) != 1:
        _fail(fn, "expected exactly one loop")
    lp = loops[0]
    if not (_is_name(lp.iter, "post_indexing") and isinstance(lp.target, ast.Tuple)
            and [e.id for e in lp.target.elts if isinstance(e, ast.Name)] == ["node", "left", "right"]):
        _fail(lp, "loop is not `for node, left, right in post_indexing`")
    return lp


def _return_shape(fn):
    """torch.sum(torch.log(freqs @ torch.sum(props * partials[post_indexing[-1][0]], -3)) * weights, -1)"""
    rets = [s for s in fn.body if isinstance(s, ast.Return)]
    if len(rets) != 1:
        _fail(fn, "expected exactly one return")
    want = ("torch.sum(torch.log(freqs @ torch.sum(props * partials[post_indexing[-1][0]], -3)) * weights, -1)")
    got = ast.unparse(rets[0].value)
    if got != want:
        _fail(rets[0], "unexpected return expression")
    # sum over sites of weight * ln( freqs . sum over categories of props * root partial )
    return "RSumSites (RMul (RLog (RDot RFreqs (RSumCats (RMul RProps (RPartials RRootOfLastTriple))))) RWeights)"


def _return_shape_rescaled(fn):
    rets = [s for s in fn.body if isinstance(s, ast.Return)]
    if len(rets) != 1:
        _fail(fn, "expected exactly one return")
    want = ("torch.sum((torch.log(freqs @ torch.sum(props * partials[post_indexing[-1][0]], dim=-3)) + "
            "torch.cat(scalers, -2).log().sum(dim=-2).unsqueeze(-2)) * weights, dim=-1)")
    got = ast.unparse(rets[0].value)
    if got != want:
        _fail(rets[0], "unexpected return expression of the rescaled recursion")
    # sum over sites of weight * ( ln(freqs . sum_k props_k partials[root]_k) + sum over rescaled nodes of ln scaler )
    return ("RSumSites (RMul (RAdd (RLog (RDot RFreqs (RSumCats (RMul RProps (RPartials RRootOfLastTriple))))) "
            "RSumLogScalers) RWeights)")


def _rescaled_body(stmts, where):
    """partial = <update>; scaler, _ = torch.max(partial.view(...), -2, keepdim=True); scalers.append(scaler);
    partials[node] = partial / scaler.unsqueeze(-2)   -> Coq term of <update>"""
    if len(stmts) < 4:
        _fail(where, "rescaled loop body too short")
    a, b, c, d = stmts[:4]
    if not (isinstance(a, ast.Assign) and ast.unparse(a.targets[0]) == "partial"):
        _fail(a, "expected `partial = ...`")
    want_b = "scaler, _ = torch.max(partial.view(*partial.shape[:-3], -1, *partial.shape[-1:]), -2, keepdim=True)"
    if ast.unparse(b) != want_b:
        _fail(b, "unexpected scaler (expected the maximum over categories x states, per site)")
    if ast.unparse(c) != "scalers.append(scaler)":
        _fail(c, "the scaler is not recorded")
    if ast.unparse(d) != "partials[node] = partial / scaler.unsqueeze(-2)":
        _fail(d, "the stored partial is not partial / scaler")
    return _expr(a.value, {}), stmts[4:]


def _tip_states_prelude(fn):
    """tip_count and the augmented matrices of the tip-state variant"""
    src = [ast.unparse(s) for s in fn.body if isinstance(s, ast.Assign)]
    want = ["tip_count = len(post_indexing) + 1",
            "mat_tips = torch.cat((mats[..., :tip_count, :, :, :], "
            "torch.ones(mats[..., :tip_count, :, :, :].shape[:-1] + (1,))), -1)"]
    if src != want:
        raise TranslateError(f"unexpected set-up of the tip-state recursion: {src}")


def translate(path=None):
    path = path or os.path.join(os.environ.get("VERIF_REPO", "/repo"), "torchtree/evolution/tree_likelihood.py")
    tree = ast.parse(open(path).read())
    fns = {n.name: n for n in tree.body if isinstance(n, ast.FunctionDef)}
    out = ["(* GENERATED by harness/translate/t8_prune.py from torchtree/evolution/tree_likelihood.py — do not edit *)",
           "From Coq Require Import List Arith.", "Import ListNotations.",
           "From TT Require Import Num Tree M_like M_prune_loop.", "",
           "Section Gen.", "Context {T : Type} (N : Num T).", ""]
    # ---- tip partials
    f = fns.get("calculate_treelikelihood_discrete")
    if f is None:
        raise TranslateError("calculate_treelikelihood_discrete not found")
    lp = _find_loop(f)
    if len(lp.body) != 1 or not isinstance(lp.body[0], ast.Assign):
        _fail(lp, "loop body is not a single assignment")
    a = lp.body[0]
    if not (len(a.targets) == 1 and isinstance(a.targets[0], ast.Subscript)
            and _is_name(a.targets[0].value, "partials") and _is_name(a.targets[0].slice, "node")):
        _fail(a, "the loop does not assign partials[node]")
    out += ["(* partials[node] = ... of calculate_treelikelihood_discrete *)",
            "Definition g_update (mats : nat -> mat (T:=T)) (partials : nat -> vec (T:=T)) (node left right : nat) : vec (T:=T) :=",
            "  " + _expr(a.value, {}) + ".", "",
            "Definition g_return : rshape := " + _return_shape(f) + ".", ""]
    # ---- rescaled recursion (tip partials): every node is divided by its scaler
    f = fns.get("calculate_treelikelihood_discrete_rescaled")
    if f is None:
        raise TranslateError("calculate_treelikelihood_discrete_rescaled not found")
    if [ast.unparse(s_) for s_ in f.body if isinstance(s_, ast.Assign)] != ["scalers = []"]:
        _fail(f, "unexpected set-up of the rescaled recursion")
    lp = _find_loop(f)
    num, rest = _rescaled_body(lp.body, lp)
    if rest:
        _fail(lp, "unexpected statements after the rescaled update")
    out += ["(* numerator of partials[node] = partial / scaler in calculate_treelikelihood_discrete_rescaled *)",
            "Definition g_update_rescaled_num (mats : nat -> mat (T:=T)) (partials : nat -> vec (T:=T)) (node left right : nat) : vec (T:=T) :=",
            "  " + num + ".", "",
            "Definition g_return_rescaled : rshape := " + _return_shape_rescaled(f) + ".", ""]
    # ---- the evaluation that detects the underflow: only nodes below the threshold (or above a rescaled node)
    f = fns.get("calculate_treelikelihood_discrete_safe")
    if f is None:
        raise TranslateError("calculate_treelikelihood_discrete_safe not found")
    if [ast.unparse(s_) for s_ in f.body if isinstance(s_, ast.Assign)] != \
            ["scalers = []", "rescaled = [False] * (post_indexing[-1][0] + 1)"]:
        _fail(f, "unexpected set-up of the safe recursion")
    lp = _find_loop(f)
    if not (len(lp.body) == 1 and isinstance(lp.body[0], ast.If) and not lp.body[0].orelse):
        _fail(lp, "the safe loop is not a single conditional")
    cond = ast.unparse(lp.body[0].test)
    want_cond = ("rescaled[left] or rescaled[right] or torch.any(torch.max(partials[node], -2, keepdim=True)[0] < threshold)")
    if cond != want_cond:
        _fail(lp.body[0], "unexpected condition for rescaling a node")
    num2, rest = _rescaled_body(lp.body[0].body, lp.body[0])
    if [ast.unparse(s_) for s_ in rest] != ["rescaled[node] = True"]:
        _fail(lp.body[0], "the rescaled node is not marked")
    out += ["(* the same for calculate_treelikelihood_discrete_safe (applied to the nodes it decides to rescale) *)",
            "Definition g_update_safe_num (mats : nat -> mat (T:=T)) (partials : nat -> vec (T:=T)) (node left right : nat) : vec (T:=T) :=",
            "  " + num2 + ".", "",
            "Definition g_return_safe : rshape := " + _return_shape_rescaled(f) + ".", ""]
    # ---- tip states
    f = fns.get("calculate_treelikelihood_tip_states_discrete")
    if f is None:
        raise TranslateError("calculate_treelikelihood_tip_states_discrete not found")
    _tip_states_prelude(f)
    lp = _find_loop(f)
    if len(lp.body) != 3:
        _fail(lp, "tip-state loop body is not (if left) (if right) (assignment)")
    sides = {}
    for st, side in zip(lp.body[:2], ("left", "right")):
        if not (isinstance(st, ast.If) and ast.unparse(st.test) == f"{side} < tip_count"
                and len(st.body) == 1 and len(st.orelse) == 1
                and isinstance(st.body[0], ast.Assign) and isinstance(st.orelse[0], ast.Assign)
                and ast.unparse(st.body[0].targets[0]) == f"p_{side}"
                and ast.unparse(st.orelse[0].targets[0]) == f"p_{side}"):
            _fail(st, f"unexpected branch for the {side} child")
        sides[side] = (f"(if Nat.ltb {side} tip_count then {_expr(st.body[0].value, {})} "
                       f"else {_expr(st.orelse[0].value, {})})")
    a = lp.body[2]
    if not (isinstance(a, ast.Assign) and ast.unparse(a.targets[0]) == "partials[node]"):
        _fail(a, "the tip-state loop does not assign partials[node]")
    body = _expr(a.value, {"p_left": sides["left"], "p_right": sides["right"]})
    # ---- tip states, rescaled: the same two branches, then partial / scaler
    fr = fns.get("calculate_treelikelihood_tip_states_discrete_rescaled")
    if fr is None:
        raise TranslateError("calculate_treelikelihood_tip_states_discrete_rescaled not found")
    src = [ast.unparse(s_) for s_ in fr.body if isinstance(s_, ast.Assign)]
    want = ["tip_count = len(post_indexing) + 1",
            "mat_tips = torch.cat((mats[..., :tip_count, :, :, :], "
            "torch.ones(mats[..., :tip_count, :, :, :].shape[:-1] + (1,))), -1)", "scalers = []"]
    if src != want:
        raise TranslateError(f"unexpected set-up of the rescaled tip-state recursion: {src}")
    lpr = _find_loop(fr)
    if len(lpr.body) != 6:
        _fail(lpr, "rescaled tip-state loop body is not (if left) (if right) partial scaler append store")
    sides_r = {}
    for st, side in zip(lpr.body[:2], ("left", "right")):
        if not (isinstance(st, ast.If) and ast.unparse(st.test) == f"{side} < tip_count"
                and len(st.body) == 1 and len(st.orelse) == 1
                and isinstance(st.body[0], ast.Assign) and isinstance(st.orelse[0], ast.Assign)
                and ast.unparse(st.body[0].targets[0]) == f"p_{side}"
                and ast.unparse(st.orelse[0].targets[0]) == f"p_{side}"):
            _fail(st, f"unexpected branch for the {side} child (rescaled tip states)")
        sides_r[side] = (f"(if Nat.ltb {side} tip_count then {_expr(st.body[0].value, {})} "
                         f"else {_expr(st.orelse[0].value, {})})")
    pa = lpr.body[2]
    if not (isinstance(pa, ast.Assign) and ast.unparse(pa.targets[0]) == "partial"):
        _fail(pa, "expected `partial = ...`")
    body_r = _expr(pa.value, {"p_left": sides_r["left"], "p_right": sides_r["right"]})
    # the remaining three statements are checked by _rescaled_body (the first one is re-read there)
    _num_ignored, rest_r = _rescaled_body([ast.parse("partial = partials[node]").body[0]] + lpr.body[3:], lpr)
    if rest_r:
        _fail(lpr, "unexpected statements after the rescaled tip-state update")
    out += ["(* partials[node] = p_left * p_right of calculate_treelikelihood_tip_states_discrete;",
            "   [states i] = the tip state stored in partials[i] for i < tip_count, [tipcol M s] = column s of M",
            "   augmented with a last column of ones *)",
            "Definition g_update_states (S tip_count : nat) (mats : nat -> mat (T:=T)) (states : nat -> nat)",
            "    (partials : nat -> vec (T:=T)) (node left right : nat) : vec (T:=T) :=",
            "  let tipcol := tip_message_state N S in", "  " + body + ".", "",
            "Definition g_return_states : rshape := " + _return_shape(f) + ".", "",
            "(* numerator of partials[node] = partial / scaler in calculate_treelikelihood_tip_states_discrete_rescaled *)",
            "Definition g_update_states_rescaled_num (S tip_count : nat) (mats : nat -> mat (T:=T)) (states : nat -> nat)",
            "    (partials : nat -> vec (T:=T)) (node left right : nat) : vec (T:=T) :=",
            "  let tipcol := tip_message_state N S in", "  " + body_r + ".", "",
            "Definition g_return_states_rescaled : rshape := " + _return_shape_rescaled(fr) + ".", "",
            "End Gen."]
    return "\n".join(out) + "\n"


if __name__ == "__main__":
    print(translate())
