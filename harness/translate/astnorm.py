"""Shared reading aid for the translators: leading local bindings of a straight-line block are read by substitution.

`inline_locals([a = E1; b = E2(a); <stmt using a, b>])` -> `[<stmt with E1, E2(E1) in place of a, b>]`.
Only LEADING `name = <expr>` statements are eliminated (so nothing can be mutated between the binding and the use),
a name must be bound once, and an expression that is substituted more than once must not contain a call (a call
may draw a random number or have an effect: evaluating it twice is not the same program)."""
import ast


class _Subst(ast.NodeTransformer):
    def __init__(self, name, expr):
        self.name, self.expr, self.n = name, expr, 0

    def visit_Name(self, n):
        if n.id == self.name and isinstance(n.ctx, ast.Load):
            self.n += 1
            return ast.copy_location(ast.parse(ast.unparse(self.expr), mode="eval").body, n)
        return n


def _stores(stmts, name):
    return sum(1 for s in stmts for n in ast.walk(s)
               if isinstance(n, ast.Name) and n.id == name and isinstance(n.ctx, (ast.Store, ast.Del)))


def inline_locals(stmts):
    stmts = list(stmts)
    while len(stmts) > 1:
        s = stmts[0]
        if isinstance(s, ast.Assign) and len(s.targets) == 1 and isinstance(s.targets[0], ast.Name):
            name, val = s.targets[0].id, s.value
        elif isinstance(s, ast.AnnAssign) and isinstance(s.target, ast.Name) and s.value is not None:
            name, val = s.target.id, s.value
        else:
            break
        if _stores(stmts[1:], name):
            break
        uses = sum(1 for t in stmts[1:] for n in ast.walk(t)
                   if isinstance(n, ast.Name) and n.id == name and isinstance(n.ctx, ast.Load))
        if uses > 1 and any(isinstance(n, ast.Call) for n in ast.walk(val)):
            break
        rest = []
        for t in stmts[1:]:
            t2 = _Subst(name, val).visit(ast.parse(ast.unparse(t)).body[0])
            ast.fix_missing_locations(t2)
            rest.append(t2)
        stmts = rest
    return stmts
