"""Shared reading aid for the translators: leading local bindings of a straight-line block are read by substitution.

`inline_locals([a = E1; b = E2(a); <stmt using a, b>])` -> `[<stmt with E1, E2(E1) in place of a, b>]`.
Only LEADING `name = <expr>` statements are eliminated (so nothing can be mutated between the binding and the use),
a name must be bound once, and an expression that is substituted more than once must not contain a call (a call
may draw a random number or have an effect: evaluating it twice is not the same program)."""
import ast


class _Subst(ast.NodeTransformer):
    def __init__(self, name, expr):
        self.name, self.expr, self.n = name, expr, 0

    def visit_Name(self, n):
        if n.id == self.name and isinstance(n.ctx, ast.Load):
            self.n += 1
            return ast.copy_location(ast.parse(ast.unparse(self.expr), mode="eval").body, n)
        return n


def _stores(stmts, name):
    return sum(1 for s in stmts for n in ast.walk(s)
               if isinstance(n, ast.Name) and n.id == name and isinstance(n.ctx, (ast.Store, ast.Del)))


def inline_locals(stmts):
    stmts = list(stmts)
    while len(stmts) > 1:
        s = stmts[0]
        if isinstance(s, ast.Assign) and len(s.targets) == 1 and isinstance(s.targets[0], ast.Name):
            name, val = s.targets[0].id, s.value
        elif isinstance(s, ast.AnnAssign) and isinstance(s.target, ast.Name) and s.value is not None:
            name, val = s.target.id, s.value
        else:
            break
        if _stores(stmts[1:], name):
            break
        uses = sum(1 for t in stmts[1:] for n in ast.walk(t)
                   if isinstance(n, ast.Name) and n.id == name and isinstance(n.ctx, ast.Load))
        if uses > 1 and any(isinstance(n, ast.Call) for n in ast.walk(val)):
            break
        rest = []
        for t in stmts[1:]:
            t2 = _Subst(name, val).visit(ast.parse(ast.unparse(t)).body[0])
            ast.fix_missing_locations(t2)
            rest.append(t2)
        stmts = rest
    return stmts


# ----------------------------------------------------------------------------------------------------------------------
# Python-level values bound just before the last statement: index names and tuples of pieces

class _SubstMany(ast.NodeTransformer):
    def __init__(self, env):
        self.env = env

    def visit_Name(self, n):
        if isinstance(n.ctx, ast.Load) and n.id in self.env:
            return ast.copy_location(ast.parse(ast.unparse(self.env[n.id]), mode="eval").body, n)
        return n


class _FoldTuples(ast.NodeTransformer):
    """(a, b) + (c, d) -> (a, b, c, d)"""

    def visit_BinOp(self, n):
        self.generic_visit(n)
        if isinstance(n.op, ast.Add) and isinstance(n.left, ast.Tuple) and isinstance(n.right, ast.Tuple):
            return ast.copy_location(ast.Tuple(elts=n.left.elts + n.right.elts, ctx=ast.Load()), n)
        return n


def _python_binding(s):
    """`a, b, c = range(3)` -> {a: 0, b: 1, c: 2};  `row = (e1, e2)` / `row = other + (e3,)` / `k = 3` -> {name: value}
    else None.  Only values that Python itself holds (integers, tuples): what a tuple CONTAINS is evaluated where the
    tuple is written, so such a binding may be moved only across other bindings of this kind."""
    if not (isinstance(s, ast.Assign) and len(s.targets) == 1):
        return None
    t, v = s.targets[0], s.value
    if isinstance(t, ast.Tuple) and all(isinstance(x, ast.Name) for x in t.elts) and isinstance(v, ast.Call) \
            and isinstance(v.func, ast.Name) and v.func.id == "range" and len(v.args) == 1 and not v.keywords \
            and isinstance(v.args[0], ast.Constant) and v.args[0].value == len(t.elts):
        return {x.id: ast.Constant(value=i) for i, x in enumerate(t.elts)}
    if isinstance(t, ast.Name):
        if isinstance(v, ast.Tuple) or (isinstance(v, ast.Constant) and isinstance(v.value, int)
                                         and not isinstance(v.value, bool)):
            return {t.id: v}
        if isinstance(v, ast.BinOp) and isinstance(v.op, ast.Add):      # tuple concatenation, decided after folding
            return {t.id: v}
    return None


def fold_tail_bindings(stmts):
    """stmts = prefix + [python-level bindings]* + [last]  ->  prefix + [last with the bindings substituted and tuple
    concatenations folded].  The bindings must form the unbroken run of statements just before the last one."""
    stmts = list(stmts)
    if len(stmts) < 2:
        return stmts
    i = len(stmts) - 1
    while i > 0 and _python_binding(stmts[i - 1]) is not None:
        i -= 1
    env = {}
    for s in stmts[i:-1]:
        b = _python_binding(s)
        for name, val in b.items():
            if name in env:
                return stmts                      # bound twice: leave the block alone
            val = _FoldTuples().visit(_SubstMany(env).visit(ast.parse(ast.unparse(val), mode="eval").body))
            if isinstance(val, ast.BinOp):        # a sum that did not fold into a tuple: not a python-level value
                return stmts
            env[name] = val
    if not env:
        return stmts
    last = _FoldTuples().visit(_SubstMany(env).visit(ast.parse(ast.unparse(stmts[-1])).body[0]))
    ast.fix_missing_locations(last)
    return stmts[:i] + [last]


def inline_tail_locals(stmts):
    """prefix + [name = <expr>]* + [last]  ->  prefix + [last with the names substituted]  (see inline_locals)"""
    stmts = list(stmts)
    i = len(stmts) - 1
    while i > 0 and ((isinstance(stmts[i - 1], ast.Assign) and len(stmts[i - 1].targets) == 1
                      and isinstance(stmts[i - 1].targets[0], ast.Name))
                     or (isinstance(stmts[i - 1], ast.AnnAssign) and isinstance(stmts[i - 1].target, ast.Name)
                         and stmts[i - 1].value is not None)):
        i -= 1
    return stmts[:i] + inline_locals(stmts[i:])
