"""T2: regenerate the closed arithmetic fragments of the substitution models into coq/gen/G_subst.v.

Units (all fail-closed: anything not recognised raises TranslateError):
  * nucleotide.py  HKY.q, GTR.q      -> the 16 entry expressions inside torch.cat(...) as ring
                                        expressions over kappa / r0..r5 / pi0..pi3
  * nucleotide.py  JC69.p_t, JC69.q, JC69.__init__ (frequencies)
  * general.py     GeneralJC69.p_t, GeneralJC69.q, GeneralJC69.__init__ (frequencies)
  * amino_acid.py  LG / WAG rate and frequency tables (exact value of every literal)
  * datatype.py    CodonDataType.GENETIC_CODE_TABLES / CODON_TRIPLETS (character codes)
Shape-only operations (unsqueeze / expand / repeat / reshape, `.shape` arithmetic) are skipped:
batching is covered by the correspondence check, not by the translator."""
import ast

from harness.translate.astnorm import fold_tail_bindings
import os
from fractions import Fraction


class TranslateError(Exception):
    pass


SHAPE_METHODS = {"unsqueeze", "expand", "repeat"}


def _repo():
    return os.environ.get("VERIF_REPO", "/repo").rstrip("/")


def qlit(x):
    f = Fraction(x)
    n, d = f.numerator, f.denominator
    return f"(({n})#{d})%Q" if n < 0 else f"({n}#{d})%Q"


def _is_self_attr(e, names=None):
    return isinstance(e, ast.Attribute) and isinstance(e.value, ast.Name) and e.value.id == "self" \
        and (names is None or e.attr in names)


def _is_shape_expr(e):
    """expressions that only compute shapes / sizes (never tensor values)"""
    if isinstance(e, ast.Constant):
        return isinstance(e.value, int)
    if isinstance(e, ast.Tuple):
        return all(_is_shape_expr(x) for x in e.elts)
    if isinstance(e, ast.BinOp) and isinstance(e.op, (ast.Add, ast.Mult, ast.Sub)):
        return _is_shape_expr(e.left) and _is_shape_expr(e.right)
    if isinstance(e, ast.UnaryOp) and isinstance(e.op, ast.USub):
        return _is_shape_expr(e.operand)
    if isinstance(e, ast.Subscript):
        return _is_shape_expr(e.value) and isinstance(e.slice, (ast.Slice, ast.Constant, ast.UnaryOp))
    if isinstance(e, ast.Attribute) and e.attr == "shape":
        return True
    if _is_self_attr(e, {"state_count"}):
        return True
    if isinstance(e, ast.Name):
        return e.id in ("state_count",) or e.id.endswith("_shape")
    if isinstance(e, ast.Call):
        f = e.func
        if isinstance(f, ast.Name) and f.id == "len" and len(e.args) == 1:
            return _is_shape_expr(e.args[0])
        if isinstance(f, ast.Attribute) and f.attr == "dim" and not e.args:
            return True
        if isinstance(f, ast.Attribute) and f.attr == "broadcast_shapes" and isinstance(f.value, ast.Name) \
                and f.value.id == "torch":
            return all(_is_shape_expr(a) for a in e.args)
    return False


class Env:
    """name -> ('scalar', coqvar) | ('vector', prefix) | ('expr', coqvar)"""

    def __init__(self, bases):
        self.bases = bases          # attribute/argument name -> ('scalar'|'vector', coq name)
        self.names = {}
        self.lets = []              # (coqvar, coq expr)

    def copy(self):
        e = Env(self.bases)
        e.names = dict(self.names)
        e.lets = list(self.lets)
        return e


def _strip_shape_ops(e):
    """x.unsqueeze(..).expand(..) / torch.unsqueeze(x, k)  ->  x"""
    while True:
        if isinstance(e, ast.Call) and isinstance(e.func, ast.Attribute) and e.func.attr in SHAPE_METHODS \
                and not _is_torch(e.func.value):
            if not all(_is_shape_expr(a) for a in e.args) or e.keywords:
                raise TranslateError(f"shape method with non-shape argument: {ast.dump(e)}")
            e = e.func.value
            continue
        if isinstance(e, ast.Call) and isinstance(e.func, ast.Attribute) and _is_torch(e.func.value) \
                and e.func.attr == "unsqueeze" and len(e.args) == 2 and _is_shape_expr(e.args[1]):
            e = e.args[0]
            continue
        return e


def _is_torch(e):
    return isinstance(e, ast.Name) and e.id == "torch"


def _base_of(e, env):
    """the tensor an expression aliases (after shape-only operations), or None"""
    e = _strip_shape_ops(e)
    if _is_self_attr(e) and e.attr in env.bases:
        return env.bases[e.attr]
    if isinstance(e, ast.Name):
        if e.id in env.names and env.names[e.id][0] in ("scalar", "vector"):
            return env.names[e.id]
        if e.id in env.bases and e.id not in env.names:
            return env.bases[e.id]
    return None


def tr(e, env):
    """scalar tensor expression -> Coq term over the Num record N"""
    if isinstance(e, ast.Constant):
        if isinstance(e.value, bool) or not isinstance(e.value, (int, float)):
            raise TranslateError(f"constant {e.value!r}")
        return f"(ofQ N {qlit(e.value)})"
    if isinstance(e, ast.UnaryOp) and isinstance(e.op, ast.USub):
        return f"(opp N {tr(e.operand, env)})"
    if isinstance(e, ast.BinOp):
        ops = {ast.Add: "add", ast.Sub: "sub", ast.Mult: "mul", ast.Div: "div"}
        if type(e.op) not in ops:
            raise TranslateError(f"operator {type(e.op).__name__}")
        return f"({ops[type(e.op)]} N {tr(e.left, env)} {tr(e.right, env)})"
    if isinstance(e, ast.Call) and isinstance(e.func, ast.Attribute) and _is_torch(e.func.value) \
            and e.func.attr == "exp" and len(e.args) == 1 and not e.keywords:
        return f"(nexp N {tr(e.args[0], env)})"
    if _is_self_attr(e, {"state_count"}) or (isinstance(e, ast.Name) and e.id == "state_count"
                                               and "state_count" not in env.names):
        return "nn"
    if isinstance(e, ast.Subscript):
        b = _base_of(e.value, env)
        sl = e.slice
        if b and b[0] == "vector" and isinstance(sl, ast.Tuple) and len(sl.elts) == 2 \
                and isinstance(sl.elts[0], ast.Constant) and sl.elts[0].value is Ellipsis \
                and isinstance(sl.elts[1], ast.Constant) and isinstance(sl.elts[1].value, int) \
                and 0 <= sl.elts[1].value < b[2]:
            return f"{b[1]}{sl.elts[1].value}"
        raise TranslateError(f"subscript {ast.dump(e)}")
    if isinstance(e, ast.Name) and e.id in env.names and env.names[e.id][0] == "expr":
        return env.names[e.id][1]
    b = _base_of(e, env)
    if b and b[0] == "scalar":
        return b[1]
    raise TranslateError(f"expression {ast.dump(e)}")


def _body(fn):
    body = list(fn.body)
    if body and isinstance(body[0], ast.Expr) and isinstance(body[0].value, ast.Constant) \
            and isinstance(body[0].value.value, str):
        body = body[1:]
    body = fold_tail_bindings(body)     # index names / tuples of pieces bound just before the return are read through
    return _inline_shape_locals(body)


class _SubstName(ast.NodeTransformer):
    def __init__(self, name, expr):
        self.name, self.expr = name, expr

    def visit_Name(self, n):
        if n.id == self.name and isinstance(n.ctx, ast.Load):
            return ast.copy_location(ast.parse(ast.unparse(self.expr), mode="eval").body, n)
        return n


def _inline_shape_locals(body):
    """`n = self.state_count`, `leading = (1,) * branch_lengths.dim()`: a local bound once to an expression that only
    computes sizes stands for that expression (sizes do not change under the value operations read here)."""
    body = list(body)
    i = 0
    while i < len(body):
        st = body[i]
        if isinstance(st, ast.Assign) and len(st.targets) == 1 and isinstance(st.targets[0], ast.Name) \
                and _is_shape_expr(st.value) and not isinstance(st.value, ast.Name):
            name = st.targets[0].id
            stores = sum(1 for t in body for n in ast.walk(t)
                         if isinstance(n, ast.Name) and n.id == name and isinstance(n.ctx, ast.Store))
            if stores == 1 and not name.endswith("_shape") and name != "state_count":
                rest = []
                for t in body[i + 1:]:
                    t2 = _SubstName(name, st.value).visit(ast.parse(ast.unparse(t)).body[0])
                    ast.fix_missing_locations(t2)
                    rest.append(t2)
                body = body[:i] + rest
                continue
        i += 1
    return body


def _alias_block(stmts, env):
    """a block made only of aliasing / shape assignments; returns the updated env"""
    env = env.copy()
    for st in stmts:
        if not (isinstance(st, ast.Assign) and len(st.targets) == 1 and isinstance(st.targets[0], ast.Name)):
            raise TranslateError(f"statement in alias block: {ast.dump(st)}")
        name = st.targets[0].id
        b = _base_of(st.value, env)
        if b is not None:
            env.names[name] = b
        elif _is_shape_expr(st.value):
            continue
        else:
            raise TranslateError(f"assignment to {name}: {ast.dump(st.value)}")
    return env


def _cat_entries(ret):
    """return torch.cat((e0..e15), -1).reshape(<shape>)  ->  [e0..e15]"""
    v = ret.value
    if not (isinstance(v, ast.Call) and isinstance(v.func, ast.Attribute) and v.func.attr == "reshape"
            and len(v.args) == 1 and _is_shape_expr(v.args[0])):
        raise TranslateError("return is not <cat>.reshape(shape)")
    c = v.func.value
    if not (isinstance(c, ast.Call) and isinstance(c.func, ast.Attribute) and _is_torch(c.func.value)
            and c.func.attr in ("cat", "concat") and len(c.args) == 2 and isinstance(c.args[0], ast.Tuple)
            and isinstance(c.args[1], ast.UnaryOp) and isinstance(c.args[1].op, ast.USub)
            and isinstance(c.args[1].operand, ast.Constant) and c.args[1].operand.value == 1):
        raise TranslateError("return is not torch.cat((...), -1).reshape(...)")
    # the reshape must end in (4, 4)
    shp = v.args[0]
    last = shp.right if isinstance(shp, ast.BinOp) else shp
    if not (isinstance(last, ast.Tuple) and [getattr(x, "value", None) for x in last.elts] == [4, 4]):
        raise TranslateError("reshape target does not end in (4, 4)")
    return c.args[0].elts


def _matrix(entries, n):
    rows = [entries[i * n:(i + 1) * n] for i in range(n)]
    return "[" + ";\n   ".join("[" + "; ".join(r) + "]" for r in rows) + "]"


def _lets(env):
    return "".join(f"let {v} := {x} in\n  " for v, x in env.lets)


def q_from_cat(fn, bases):
    """HKY.q / GTR.q"""
    env = Env(bases)
    body = _body(fn)
    if not body or not isinstance(body[-1], ast.Return):
        raise TranslateError(f"{fn.name}: last statement is not return")
    for st in body[:-1]:
        if isinstance(st, ast.If):
            # every branch only re-shapes the same tensors: all branches must agree on the aliasing
            branches = []
            cur = st
            while True:
                if not _is_shape_expr_test(cur.test):
                    raise TranslateError(f"{fn.name}: branch on a non-shape condition {ast.dump(cur.test)}")
                branches.append(cur.body)
                if len(cur.orelse) == 1 and isinstance(cur.orelse[0], ast.If):
                    cur = cur.orelse[0]
                    continue
                if not cur.orelse:
                    raise TranslateError(f"{fn.name}: if without else")
                branches.append(cur.orelse)
                break
            envs = [_alias_block(b, env) for b in branches]
            if any(e.names != envs[0].names for e in envs[1:]):
                raise TranslateError(f"{fn.name}: branches alias different tensors")
            env = envs[0]
        else:
            env = _alias_block([st], env)
    entries = _cat_entries(body[-1])
    if len(entries) != 16:
        raise TranslateError(f"{fn.name}: {len(entries)} entries in torch.cat, expected 16")
    return _matrix([tr(e, env) for e in entries], 4)


def _is_shape_expr_test(t):
    if isinstance(t, ast.Compare) and len(t.ops) == 1 and isinstance(t.ops[0], (ast.Eq, ast.NotEq)):
        return _is_shape_expr(t.left) and _is_shape_expr(t.comparators[0])
    return False


def jc69_p(fn):
    env = Env({"branch_lengths": ("scalar", "d")})
    body = _body(fn)
    for st in body[:-1]:
        if not (isinstance(st, ast.Assign) and len(st.targets) == 1 and isinstance(st.targets[0], ast.Name)):
            raise TranslateError(f"JC69.p_t: {ast.dump(st)}")
        name = st.targets[0].id
        b = _base_of(st.value, env)
        if b is not None:
            env.names[name] = b
        else:
            v = f"v_{len(env.lets) + 1}"
            env.lets.append((v, tr(st.value, env)))
            env.names[name] = ("expr", v)
    entries = _cat_entries(body[-1])
    if len(entries) != 16:
        raise TranslateError("JC69.p_t: expected 16 entries")
    return _lets(env) + _matrix([tr(e, env) for e in entries], 4)


def _is_range_n(e):
    return isinstance(e, ast.Call) and isinstance(e.func, ast.Name) and e.func.id == "range" \
        and len(e.args) == 1 and _is_self_attr(e.args[0], {"state_count"})


def _diag_target(t, name, ellipsis):
    if not (isinstance(t, ast.Subscript) and isinstance(t.value, ast.Name) and t.value.id == name
            and isinstance(t.slice, ast.Tuple)):
        return False
    el = list(t.slice.elts)
    if ellipsis:
        if not (el and isinstance(el[0], ast.Constant) and el[0].value is Ellipsis):
            return False
        el = el[1:]
    return len(el) == 2 and _is_range_n(el[0]) and _is_range_n(el[1])


def gjc_p(fn):
    """GeneralJC69.p_t -> (lets, diag expr, offdiag expr)"""
    env = Env({"branch_lengths": ("scalar", "d")})
    body = _body(fn)
    mat = None      # (name, off expr)
    diag = None
    for st in body[:-1]:
        if not (isinstance(st, ast.Assign) and len(st.targets) == 1):
            raise TranslateError(f"GeneralJC69.p_t: {ast.dump(st)}")
        tg = st.targets[0]
        if isinstance(tg, ast.Name):
            b = _base_of(st.value, env)
            if b is not None:
                env.names[tg.id] = b
                continue
            inner = _strip_shape_ops(st.value)
            if inner is not st.value and isinstance(inner, ast.Name) and inner.id in env.names \
                    and env.names[inner.id][0] == "expr":
                # P = b.unsqueeze(-1).repeat(... (n, n)): every entry is b
                if mat is not None:
                    raise TranslateError("GeneralJC69.p_t: two matrices")
                mat = (tg.id, env.names[inner.id][1])
                continue
            v = f"v_{len(env.lets) + 1}"
            env.lets.append((v, tr(st.value, env)))
            env.names[tg.id] = ("expr", v)
        elif mat and _diag_target(tg, mat[0], True):
            inner = _strip_shape_ops(st.value)
            if not (isinstance(inner, ast.Name) and env.names.get(inner.id, ("",))[0] == "expr"):
                raise TranslateError("GeneralJC69.p_t: diagonal value")
            diag = env.names[inner.id][1]
        else:
            raise TranslateError(f"GeneralJC69.p_t: {ast.dump(st)}")
    r = body[-1]
    if not (isinstance(r, ast.Return) and isinstance(r.value, ast.Name) and mat and r.value.id == mat[0] and diag):
        raise TranslateError("GeneralJC69.p_t: return")
    return _lets(env) + f"if isdiag then {diag} else {mat[1]}"


def gjc_q(fn):
    env = Env({})
    body = _body(fn)
    if len(body) != 3:
        raise TranslateError("GeneralJC69.q: expected three statements")
    a, d, r = body
    if not (isinstance(a, ast.Assign) and isinstance(a.targets[0], ast.Name) and isinstance(a.value, ast.Call)
            and isinstance(a.value.func, ast.Attribute) and _is_torch(a.value.func.value)
            and a.value.func.attr == "full" and len(a.value.args) == 2
            and isinstance(a.value.args[0], ast.Tuple) and len(a.value.args[0].elts) == 2
            and all(_is_self_attr(x, {"state_count"}) for x in a.value.args[0].elts)
            and all(k.arg in ("dtype", "device") for k in a.value.keywords)):
        raise TranslateError("GeneralJC69.q: torch.full")
    off = tr(a.value.args[1], env)
    if not (isinstance(d, ast.Assign) and _diag_target(d.targets[0], a.targets[0].id, False)):
        raise TranslateError("GeneralJC69.q: diagonal assignment")
    dg = tr(d.value, env)
    if not (isinstance(r, ast.Return) and isinstance(r.value, ast.Name) and r.value.id == a.targets[0].id):
        raise TranslateError("GeneralJC69.q: return")
    return f"if isdiag then {dg} else {off}"


def jc69_q(fn):
    body = _body(fn)
    if len(body) != 1 or not isinstance(body[0], ast.Return):
        raise TranslateError("JC69.q: expected a single return")
    c = body[0].value
    if not (isinstance(c, ast.Call) and isinstance(c.func, ast.Attribute) and _is_torch(c.func.value)
            and c.func.attr == "tensor" and len(c.args) == 1 and isinstance(c.args[0], ast.List)
            and all(k.arg in ("dtype", "device") for k in c.keywords)):
        raise TranslateError("JC69.q: torch.tensor literal")
    rows = c.args[0].elts
    if len(rows) != 4 or any(not isinstance(r, ast.List) or len(r.elts) != 4 for r in rows):
        raise TranslateError("JC69.q: not 4x4")
    env = Env({})
    return _matrix([tr(e, env) for r in rows for e in r.elts], 4)


def init_freq(fn, count_is_const):
    """self._frequencies = torch.full((k,), expr)  ->  (k or None, expr)"""
    for st in _body(fn):
        if isinstance(st, ast.Assign) and len(st.targets) == 1 and _is_self_attr(st.targets[0], {"_frequencies"}):
            v = st.value
            if not (isinstance(v, ast.Call) and isinstance(v.func, ast.Attribute) and _is_torch(v.func.value)
                    and v.func.attr == "full" and len(v.args) == 2 and isinstance(v.args[0], ast.Tuple)
                    and len(v.args[0].elts) == 1 and not v.keywords):
                raise TranslateError("frequencies are not torch.full((k,), x)")
            k = v.args[0].elts[0]
            if count_is_const:
                if not (isinstance(k, ast.Constant) and k.value == 4):
                    raise TranslateError("JC69 frequencies: length is not 4")
            elif not (isinstance(k, ast.Name) and k.id == "state_count"):
                raise TranslateError("GeneralJC69 frequencies: length is not state_count")
            return tr(v.args[1], Env({}))
    raise TranslateError("no assignment to self._frequencies")


def _class(tree, name):
    c = [n for n in tree.body if isinstance(n, ast.ClassDef) and n.name == name]
    if len(c) != 1:
        raise TranslateError(f"class {name} not found")
    return c[0], {n.name: n for n in c[0].body if isinstance(n, ast.FunctionDef)}


def _meth(meths, cls, name):
    if name not in meths:
        raise TranslateError(f"{cls}.{name} not found")
    return meths[name]


def _float_table(fn, var):
    """var = torch.tensor([literals])  in LG/WAG.__init__"""
    for st in _body(fn):
        if isinstance(st, ast.Assign) and len(st.targets) == 1 and isinstance(st.targets[0], ast.Name) \
                and st.targets[0].id == var:
            v = st.value
            if not (isinstance(v, ast.Call) and isinstance(v.func, ast.Attribute) and _is_torch(v.func.value)
                    and v.func.attr == "tensor" and len(v.args) == 1 and isinstance(v.args[0], ast.List)
                    and not v.keywords):
                raise TranslateError(f"{var}: not torch.tensor([...])")
            out = []
            for x in v.args[0].elts:
                if not (isinstance(x, ast.Constant) and isinstance(x.value, float)):
                    raise TranslateError(f"{var}: non-literal entry")
                out.append(x.value)
            return out
    raise TranslateError(f"{var} not assigned")


def _empirical_calls_super(fn):
    last = _body(fn)[-1]
    ok = isinstance(last, ast.Expr) and isinstance(last.value, ast.Call) and \
        isinstance(last.value.func, ast.Attribute) and last.value.func.attr == "__init__" and \
        [getattr(a, "id", None) for a in last.value.args] == ["id_", "rates", "frequencies"]
    if not ok:
        raise TranslateError("empirical model does not end with super().__init__(id_, rates, frequencies)")


def _str_tuple(cls, name):
    for st in cls.body:
        if isinstance(st, ast.Assign) and len(st.targets) == 1 and isinstance(st.targets[0], ast.Name) \
                and st.targets[0].id == name:
            if not isinstance(st.value, ast.Tuple) or not all(
                    isinstance(x, ast.Constant) and isinstance(x.value, str) for x in st.value.elts):
                raise TranslateError(f"{name} is not a tuple of string literals")
            return [x.value for x in st.value.elts]
    raise TranslateError(f"{name} not found")


def translate(repo=None):
    repo = repo or _repo()
    sm = os.path.join(repo, "torchtree/evolution/substitution_model")
    nuc = ast.parse(open(os.path.join(sm, "nucleotide.py")).read())
    gen = ast.parse(open(os.path.join(sm, "general.py")).read())
    aa = ast.parse(open(os.path.join(sm, "amino_acid.py")).read())
    dt = ast.parse(open(os.path.join(repo, "torchtree/evolution/datatype.py")).read())
    units = []
    out = ["(* GENERATED by harness/translate/t2_subst.py from torchtree/evolution/substitution_model/"
           "{nucleotide,general,amino_acid}.py and torchtree/evolution/datatype.py - do not edit *)",
           "From Coq Require Import QArith List.", "Import ListNotations.", "From TT Require Import Num.", ""]

    _, m = _class(nuc, "HKY")
    for prop, attr in (("kappa", "_kappa"),):
        _check_property(m, "HKY", prop, attr)
    hky = q_from_cat(_meth(m, "HKY", "q"), {"kappa": ("scalar", "kappa"), "frequencies": ("vector", "pi", 4)})
    out.append("Definition hky_q {T} (N : Num T) (kappa pi0 pi1 pi2 pi3 : T) : list (list T) :=\n  " + hky + ".\n")
    units.append("HKY.q")

    _, m = _class(nuc, "GTR")
    _check_property(m, "GTR", "rates", "_rates")
    gtr = q_from_cat(_meth(m, "GTR", "q"), {"rates": ("vector", "r", 6), "frequencies": ("vector", "pi", 4)})
    out.append("Definition gtr_q {T} (N : Num T) (r0 r1 r2 r3 r4 r5 pi0 pi1 pi2 pi3 : T) : list (list T) :=\n  "
               + gtr + ".\n")
    units.append("GTR.q")

    _, m = _class(nuc, "JC69")
    out.append("Definition jc69_p {T} (N : Num T) (d : T) : list (list T) :=\n  "
               + jc69_p(_meth(m, "JC69", "p_t")) + ".\n")
    out.append("Definition jc69_q {T} (N : Num T) : list (list T) :=\n  " + jc69_q(_meth(m, "JC69", "q")) + ".\n")
    out.append("Definition jc69_freq {T} (N : Num T) : list T :=\n  repeat "
               + init_freq(_meth(m, "JC69", "__init__"), True) + " 4%nat.\n")
    _check_property(m, "JC69", "frequencies", "_frequencies")
    units += ["JC69.p_t", "JC69.q", "JC69.frequencies"]

    _, m = _class(gen, "GeneralJC69")
    out.append("(* nn = state_count as a number; isdiag selects the diagonal / off-diagonal entry *)")
    out.append("Definition gjc_p_entry {T} (N : Num T) (nn d : T) (isdiag : bool) : T :=\n  "
               + gjc_p(_meth(m, "GeneralJC69", "p_t")) + ".\n")
    out.append("Definition gjc_q_entry {T} (N : Num T) (nn : T) (isdiag : bool) : T :=\n  "
               + gjc_q(_meth(m, "GeneralJC69", "q")) + ".\n")
    out.append("Definition gjc_freq_entry {T} (N : Num T) (nn : T) : T :=\n  "
               + init_freq(_meth(m, "GeneralJC69", "__init__"), False) + ".\n")
    _check_property(m, "GeneralJC69", "frequencies", "_frequencies")
    units += ["GeneralJC69.p_t", "GeneralJC69.q", "GeneralJC69.frequencies"]

    for name in ("LG", "WAG"):
        _, m = _class(aa, name)
        init = _meth(m, name, "__init__")
        _empirical_calls_super(init)
        fr = _float_table(init, "frequencies")
        rt = _float_table(init, "rates")
        if len(fr) != 20 or len(rt) != 190:
            raise TranslateError(f"{name}: {len(fr)} frequencies, {len(rt)} rates")
        out.append(f"Definition {name.lower()}_freqs : list Q :=\n  [" + "; ".join(qlit(x) for x in fr) + "].")
        out.append(f"Definition {name.lower()}_rates : list Q :=\n  [" + "; ".join(qlit(x) for x in rt) + "].\n")
        units.append(f"{name} tables")

    cls, _ = _class(dt, "CodonDataType")
    tables = _str_tuple(cls, "GENETIC_CODE_TABLES")
    names = _str_tuple(cls, "GENETIC_CODE_NAMES")
    trip = _str_tuple(cls, "CODON_TRIPLETS")
    if len(tables) != len(names) or any(len(t) != 64 for t in tables):
        raise TranslateError("genetic code tables: unexpected sizes")
    if len(trip) < 64 or any(len(t) != 3 for t in trip):
        raise TranslateError("codon triplets: unexpected sizes")
    nl = lambda s: "[" + "; ".join(f"{ord(c)}%nat" for c in s) + "]"
    out.append("(* character codes; one table per genetic code, in the order of GENETIC_CODE_NAMES: "
               + ", ".join(names) + " *)")
    out.append("Definition genetic_code_tables : list (list nat) :=\n  [" + ";\n   ".join(nl(t) for t in tables) + "].")
    out.append("Definition codon_triplets : list (list nat) :=\n  [" + "; ".join(nl(t) for t in trip) + "].\n")
    units.append(f"{len(tables)} genetic code tables + codon triplets")
    return "\n".join(out) + "\n", units, names


def _check_property(meths, cls, prop, attr):
    """`prop` must be a property returning self.<attr>.tensor (or self.<attr> for plain tensors)"""
    fn = _meth(meths, cls, prop)
    body = _body(fn)
    ok = len(body) == 1 and isinstance(body[0], ast.Return)
    if ok:
        v = body[0].value
        ok = _is_self_attr(v, {attr}) or (isinstance(v, ast.Attribute) and v.attr == "tensor"
                                          and _is_self_attr(v.value, {attr}))
    if not ok:
        raise TranslateError(f"{cls}.{prop} is not `return self.{attr}[.tensor]`")


if __name__ == "__main__":
    txt, units, names = translate()
    print(txt[:6000])
    print(units)
