"""T9: regenerate the arithmetic of LeapfrogIntegrator.__call__ (torchtree/inference/hmc/integrator.py) as Coq terms.

The translator checks, statement by statement, that the method has the shape

    params = cat(parameter.tensor.detach().clone() ...); momentum = momentum.clone(); set_tensor(parameters, params)
    U = model(); nan check; U.backward(); dU = -cat(parameter.grad ...); nan check
    momentum = <FIRST>
    for _ in range(self.steps):
        if inverse_mass_matrix.dim() == 1: params = <POS_DIAG>  else: params = <POS_DENSE>
        set_tensor(parameters, params.detach()); U = model(); nan check; U.backward(); dU = -cat(...); nan check
        momentum -= <LOOP>            (or momentum = momentum - <LOOP>)
    for parameter in parameters: parameter.requires_grad = False
    momentum += <LAST>                (or momentum = momentum + <LAST>)
    return momentum

and emits the four arithmetic expressions over the vocabulary of model/M_leapfrog.v (vectors: params, momentum,
dU; scalar: self.step_size; inverse mass matrix: a vector in the first branch, a matrix in the second).  The order of
the statements (position, gradient AT the new position, momentum) is part of what is recognised: anything else
raises TranslateError (fail-closed).  prop/C16.v proves that the integrator assembled from these expressions in that
order is the model's `leapfrog`.
"""
import ast
import os
from fractions import Fraction


class TranslateError(Exception):
    pass


def _fail(node, msg):
    raise TranslateError(f"{msg}: line {getattr(node, 'lineno', '?')}: {ast.unparse(node)[:160]}")


VEC, SCAL, DIAG, DENSE = "vec", "scal", "diag", "dense"


def _q(v):
    f = Fraction(v).limit_denominator(10 ** 9) if isinstance(v, float) else Fraction(v)
    if isinstance(v, float) and float(f) != v:
        raise TranslateError(f"literal {v!r} is not a small rational")
    return f"(ofQ N ({f.numerator}#{f.denominator}))"


def _expr(n, env):
    """-> (coq term, type)"""
    if isinstance(n, ast.Name):
        if n.id in env:
            return env[n.id]
        _fail(n, "unknown name")
    if isinstance(n, ast.Attribute) and ast.unparse(n) == "self.step_size":
        return "eps", SCAL
    if isinstance(n, ast.Constant) and isinstance(n.value, (int, float)) and not isinstance(n.value, bool):
        return _q(n.value), SCAL
    if isinstance(n, ast.UnaryOp) and isinstance(n.op, ast.USub):
        t, ty = _expr(n.operand, env)
        if ty == VEC:
            return f"(vopp N {t})", VEC
        if ty == SCAL:
            return f"(opp N {t})", SCAL
        _fail(n, "negation of a matrix")
    if isinstance(n, ast.BinOp):
        a, ta = _expr(n.left, env)
        b, tb = _expr(n.right, env)
        op = type(n.op)
        if op is ast.MatMult:
            if ta == DENSE and tb == VEC:
                return f"(matvec N {a} {b})", VEC
            _fail(n, "@ is not matrix @ vector")
        if op in (ast.Add, ast.Sub):
            if ta == VEC and tb == VEC:
                return f"({'vadd' if op is ast.Add else 'vsub'} N {a} {b})", VEC
            if ta == SCAL and tb == SCAL:
                return f"({'add' if op is ast.Add else 'sub'} N {a} {b})", SCAL
            _fail(n, "sum of a scalar and a vector")
        if op is ast.Mult:
            if ta == SCAL and tb == SCAL:
                return f"(mul N {a} {b})", SCAL
            if ta == SCAL and tb in (VEC, DIAG):
                return f"(vscale N {a} {b})", VEC if tb == VEC else DIAG
            if ta in (VEC, DIAG) and tb == SCAL:
                return f"(vscale N {b} {a})", VEC if ta == VEC else DIAG
            if {ta, tb} <= {VEC, DIAG}:
                return f"(vmul N {a} {b})", VEC
            _fail(n, "unsupported product")
        if op is ast.Div:
            if ta == SCAL and tb == SCAL:
                return f"(div N {a} {b})", SCAL
            _fail(n, "unsupported division")
    _fail(n, "unrecognised expression")


GRAD_BLOCK = ["U = model()",
              "if torch.isnan(U):\n    raise ValueError('potential energy is NAN')",
              "U.backward()",
              "dU = -torch.cat([parameter.grad for parameter in parameters], -1)",
              "if torch.isnan(dU).any():\n    raise ValueError('gradient of potential energy contains NANs')"]


def _expect(stmts, i, wanted, what):
    got = [ast.unparse(s) for s in stmts[i:i + len(wanted)]]
    if got != wanted:
        raise TranslateError(f"{what}: expected {wanted}, found {got}")
    return i + len(wanted)


def _update(stmt, name, sign, env):
    """`name -= e` / `name = name - e`  (sign '-')  or the '+' forms  -> coq term of e (a vector)"""
    if isinstance(stmt, ast.AugAssign) and isinstance(stmt.target, ast.Name) and stmt.target.id == name and \
            isinstance(stmt.op, ast.Sub if sign == "-" else ast.Add):
        t, ty = _expr(stmt.value, env)
    elif isinstance(stmt, ast.Assign) and len(stmt.targets) == 1 and ast.unparse(stmt.targets[0]) == name and \
            isinstance(stmt.value, ast.BinOp) and isinstance(stmt.value.op, ast.Sub if sign == "-" else ast.Add) and \
            ast.unparse(stmt.value.left) == name:
        t, ty = _expr(stmt.value.right, env)
    else:
        _fail(stmt, f"expected `{name} {sign}= ...`")
    if ty != VEC:
        _fail(stmt, "the increment is not a vector")
    return t


def translate(path=None):
    path = path or os.path.join(os.environ.get("VERIF_REPO", "/repo"), "torchtree/inference/hmc/integrator.py")
    tree = ast.parse(open(path).read())
    cls = [n for n in tree.body if isinstance(n, ast.ClassDef) and n.name == "LeapfrogIntegrator"]
    if len(cls) != 1:
        raise TranslateError("class LeapfrogIntegrator not found")
    fns = [n for n in cls[0].body if isinstance(n, ast.FunctionDef) and n.name == "__call__"]
    if len(fns) != 1:
        raise TranslateError("LeapfrogIntegrator.__call__ not found")
    fn = fns[0]
    if [a.arg for a in fn.args.args] != ["self", "model", "parameters", "momentum", "inverse_mass_matrix"]:
        _fail(fn, "unexpected signature")
    body = [s for s in fn.body if not (isinstance(s, ast.Expr) and isinstance(s.value, ast.Constant))]
    i = 0
    while i < len(body) and isinstance(body[i], ast.Assert):
        i += 1
    i = _expect(body, i, ["params = torch.cat([parameter.tensor.detach().clone() for parameter in parameters], -1)",
                          "momentum = momentum.clone()", "set_tensor(parameters, params)"] + GRAD_BLOCK,
                "set-up and first gradient")
    env = {"momentum": ("p", VEC), "dU": ("dU", VEC), "params": ("q", VEC)}
    # momentum = momentum - eps/2 * dU
    first = _update(body[i], "momentum", "-", env)
    i += 1
    lp = body[i]
    if not (isinstance(lp, ast.For) and ast.unparse(lp.iter) == "range(self.steps)" and not lp.orelse):
        _fail(lp, "expected `for _ in range(self.steps)`")
    i += 1
    lb = lp.body
    br = lb[0]
    if not (isinstance(br, ast.If) and ast.unparse(br.test) == "inverse_mass_matrix.dim() == 1"
            and len(br.body) == 1 and len(br.orelse) == 1):
        _fail(br, "expected the diagonal / dense branch on inverse_mass_matrix.dim() == 1")
    pos = {}
    for tag, st, ty in (("diag", br.body[0], DIAG), ("dense", br.orelse[0], DENSE)):
        if not (isinstance(st, ast.Assign) and ast.unparse(st.targets[0]) == "params"):
            _fail(st, "expected `params = ...`")
        e = dict(env)
        e["inverse_mass_matrix"] = ("d" if ty == DIAG else "m", ty)
        t, tty = _expr(st.value, e)
        if tty != VEC:
            _fail(st, "the new position is not a vector")
        pos[tag] = t
    j = _expect(lb, 1, ["set_tensor(parameters, params.detach())"] + GRAD_BLOCK, "gradient at the new position")
    loop = _update(lb[j], "momentum", "-", env)
    if j + 1 != len(lb):
        _fail(lb[j + 1], "unexpected statement at the end of the loop body")
    i = _expect(body, i, ["for parameter in parameters:\n    parameter.requires_grad = False"], "after the loop")
    last = _update(body[i], "momentum", "+", env)
    i += 1
    i = _expect(body, i, ["return momentum"], "return")
    if i != len(body):
        _fail(body[i], "unexpected trailing statement")
    out = ["(* GENERATED by harness/translate/t9_leapfrog.py from torchtree/inference/hmc/integrator.py — do not edit *)",
           "From Coq Require Import QArith List.", "Import ListNotations.", "From TT Require Import Num M_leapfrog.", "",
           "Section Gen.", "Context {T : Type} (N : Num T).", "Variable eps : T.", "",
           "(* momentum = momentum - <...> before the loop: the increment *)",
           f"Definition g_first (p dU : list T) : list T := {first}.",
           "(* params = <...> inside the loop, diagonal and dense inverse mass matrix *)",
           f"Definition g_position (Minv : mass T) (q p : list T) : list T :=\n  match Minv with Diag d => {pos['diag']} | Dense m => {pos['dense']} end.",
           "(* momentum -= <...> inside the loop, after the gradient at the new position *)",
           f"Definition g_loop (p dU : list T) : list T := {loop}.",
           "(* momentum += <...> after the loop *)",
           f"Definition g_last (p dU : list T) : list T := {last}.", "",
           "End Gen."]
    return "\n".join(out) + "\n"


if __name__ == "__main__":
    print(translate())
