"""T9: regenerate the arithmetic of LeapfrogIntegrator.__call__ (torchtree/inference/hmc/integrator.py) as Coq terms.

The method is READ SYMBOLICALLY (a small abstract interpreter), so that what is recognised is what the code does and
in which order, not how it is spelt: local names are free, the gradient block may be written inline or as a local
closure called twice, the diagonal/dense test may be hoisted out of the loop.  What must happen, in this order:

    q = cat(parameter.tensor.detach().clone() ...); p = momentum.clone(); set_tensor(parameters, q)
    dU = GRAD                      (U = model(); nan check; U.backward(); dU = -cat(parameter.grad ...); nan check)
    p = p - <FIRST>(p, dU)
    for _ in range(self.steps):
        q = <POSITION>(q, p, Minv)          one expression for a 1-d inverse mass matrix, one for a 2-d one
        set_tensor(parameters, q.detach())  the NEW position
        dU = GRAD                           the gradient AT the new position (after that set_tensor, before the update)
        p = p - <LOOP>(p, dU)               with THAT gradient
    for parameter in parameters: parameter.requires_grad = False
    p = p + <LAST>(p, dU)                   with the last gradient
    return p

and the four arithmetic expressions are emitted over the vocabulary of model/M_leapfrog.v (vectors q, p, dU; scalar
self.step_size; inverse mass matrix: a vector in the first branch, a matrix in the second).  Anything else raises
TranslateError (fail-closed).  prop/C16.v proves that the integrator assembled from these expressions in that order is
the model's `leapfrog`.
"""
import ast
import os
from fractions import Fraction


class TranslateError(Exception):
    pass


def _fail(node, msg):
    raise TranslateError(f"{msg}: line {getattr(node, 'lineno', '?')}: {ast.unparse(node)[:160]}")


# ----------------------------------------------------------------------------------------------------------- values
# vector terms are nested tuples: ("sym", name) | ("vadd"|"vsub"|"vmul", a, b) | ("vscale", scalar, v) | ("vopp", v)
#                                 | ("matvec", m, v);   scalar terms: ("eps",) | ("q", Fraction) | ("add"|..., a, b) | ("opp", a)
class Vec:
    def __init__(self, term, role, version=None):
        self.term, self.role, self.version = term, role, version     # role: pos | mom | grad | diag | vec


class Scal:
    def __init__(self, term):
        self.term = term


class Mass:          # the inverse mass matrix before a branch has decided what it is
    pass


class Dense:
    pass


class IsDiag:        # inverse_mass_matrix.dim() == 1
    pass


class LogP:
    def __init__(self, version):
        self.version = version


class Closure:
    def __init__(self, fn):
        self.fn = fn


class Branch:        # a value that depends on IsDiag
    def __init__(self, diag, dense):
        self.diag, self.dense = diag, dense


def _q(v):
    f = Fraction(v).limit_denominator(10 ** 9) if isinstance(v, float) else Fraction(v)
    if isinstance(v, float) and float(f) != v:
        raise TranslateError(f"literal {v!r} is not a small rational")
    return f


def render(t):
    k = t[0]
    if k == "sym":
        return t[1]
    if k == "eps":
        return "eps"
    if k == "q":
        return f"(ofQ N ({t[1].numerator}#{t[1].denominator}))"
    if k in ("vadd", "vsub", "vmul", "add", "sub", "mul", "div"):
        return f"({k} N {render(t[1])} {render(t[2])})"
    if k == "vscale":
        return f"(vscale N {render(t[1])} {render(t[2])})"
    if k in ("vopp", "opp"):
        return f"({k} N {render(t[1])})"
    if k == "matvec":
        return f"(matvec N {render(t[1])} {render(t[2])})"
    raise TranslateError(f"cannot render {t!r}")


def _mentions(t, name):
    return t == ("sym", name) or any(isinstance(x, tuple) and _mentions(x, name) for x in t[1:])


def _role_of_sum(a, b):
    for r in ("pos", "mom"):
        if a.role == r and b.role != r:
            return r
    return "vec"


class Interp:
    def __init__(self):
        self.version = 0           # number of set_tensor calls so far
        self.backward_at = None    # version at which U.backward() was last called
        self.set_terms = []        # the terms written by set_tensor, in order
        self.which = None          # None | "diag" | "dense": the branch being read

    # ------------------------------------------------------------------------------------------------ expressions
    def ev(self, n, env):
        if isinstance(n, ast.Name):
            if n.id not in env:
                _fail(n, "unknown name")
            v = env[n.id]
            if isinstance(v, Branch) and self.which:
                v = v.diag if self.which == "diag" else v.dense
            if isinstance(v, Mass) and self.which:
                v = Vec(("sym", "d"), "diag") if self.which == "diag" else Dense()
            return v
        if isinstance(n, ast.Attribute) and ast.unparse(n) == "self.step_size":
            return Scal(("eps",))
        if isinstance(n, ast.Constant) and isinstance(n.value, (int, float)) and not isinstance(n.value, bool):
            return Scal(("q", _q(n.value)))
        if isinstance(n, ast.UnaryOp) and isinstance(n.op, ast.USub):
            v = self.ev(n.operand, env)
            if isinstance(v, Vec):
                return Vec(("vopp", v.term), "vec")
            if isinstance(v, Scal):
                return Scal(("opp", v.term))
            _fail(n, "negation of something that is neither a vector nor a scalar")
        if isinstance(n, ast.Compare) and ast.unparse(n) == "inverse_mass_matrix.dim() == 1" \
                and isinstance(env.get("inverse_mass_matrix"), Mass):
            return IsDiag()
        if isinstance(n, ast.Call):
            src = ast.unparse(n)
            f = n.func
            if isinstance(f, ast.Name) and isinstance(env.get(f.id), Closure) and not n.args and not n.keywords:
                return self.call_closure(env[f.id], env)
            if src == "model()":
                return LogP(self.version)
            if isinstance(f, ast.Attribute) and f.attr in ("detach", "clone") and not n.args and not n.keywords:
                v = self.ev(f.value, env)
                if isinstance(v, Vec) or (isinstance(v, Branch) and isinstance(v.diag, Vec) and isinstance(v.dense, Vec)):
                    return v
                _fail(n, "detach/clone of something that is not a vector")
            if src == "torch.cat([parameter.tensor.detach().clone() for parameter in parameters], -1)":
                return Vec(("sym", "q"), "pos")
            if src == "-torch.cat([parameter.grad for parameter in parameters], -1)":
                pass
        if isinstance(n, ast.BinOp):
            a, b = self.ev(n.left, env), self.ev(n.right, env)
            if isinstance(a, Branch) or isinstance(b, Branch) or isinstance(a, Mass) or isinstance(b, Mass):
                if self.which:
                    _fail(n, "unresolved branch value")
                out = {}
                for w in ("diag", "dense"):
                    self.which = w
                    try:
                        out[w] = self.ev(n, env)
                    finally:
                        self.which = None
                return Branch(out["diag"], out["dense"])
            op = type(n.op)
            if op is ast.MatMult:
                if isinstance(a, Dense) and isinstance(b, Vec):
                    return Vec(("matvec", ("sym", "m"), b.term), "vec")
                _fail(n, "@ is not matrix @ vector")
            if op in (ast.Add, ast.Sub):
                if isinstance(a, Vec) and isinstance(b, Vec) and "diag" not in (a.role, b.role):
                    return Vec(("vadd" if op is ast.Add else "vsub", a.term, b.term), _role_of_sum(a, b))
                if isinstance(a, Scal) and isinstance(b, Scal):
                    return Scal(("add" if op is ast.Add else "sub", a.term, b.term))
                _fail(n, "sum of a scalar and a vector")
            if op is ast.Mult:
                if isinstance(a, Scal) and isinstance(b, Scal):
                    return Scal(("mul", a.term, b.term))
                if isinstance(a, Scal) and isinstance(b, Vec):
                    return Vec(("vscale", a.term, b.term), "diag" if b.role == "diag" else "vec")
                if isinstance(a, Vec) and isinstance(b, Scal):
                    return Vec(("vscale", b.term, a.term), "diag" if a.role == "diag" else "vec")
                if isinstance(a, Vec) and isinstance(b, Vec):
                    return Vec(("vmul", a.term, b.term), "vec")
                _fail(n, "unsupported product")
            if op is ast.Div:
                if isinstance(a, Scal) and isinstance(b, Scal):
                    return Scal(("div", a.term, b.term))
                _fail(n, "unsupported division")
        _fail(n, "unrecognised expression")

    # ------------------------------------------------------------------------------------------------- statements
    def is_nan_guard(self, s, env):
        if not (isinstance(s, ast.If) and not s.orelse and len(s.body) == 1 and isinstance(s.body[0], ast.Raise)):
            return False
        t = s.test
        if isinstance(t, ast.Call) and ast.unparse(t.func) == "torch.isnan" and len(t.args) == 1 \
                and isinstance(t.args[0], ast.Name) and isinstance(env.get(t.args[0].id), LogP):
            return True
        if isinstance(t, ast.Call) and isinstance(t.func, ast.Attribute) and t.func.attr == "any" and not t.args \
                and isinstance(t.func.value, ast.Call) and ast.unparse(t.func.value.func) == "torch.isnan" \
                and len(t.func.value.args) == 1 and isinstance(t.func.value.args[0], ast.Name):
            v = env.get(t.func.value.args[0].id)
            return isinstance(v, Vec) and v.role == "grad"
        return False

    def stmt(self, s, env, in_closure=False):
        """-> ('return', value) or None; mutates env"""
        if isinstance(s, ast.Expr) and isinstance(s.value, ast.Constant):
            return None
        if isinstance(s, ast.Assert):
            return None
        if isinstance(s, ast.FunctionDef):
            a = s.args
            if a.args or a.vararg or a.kwarg or a.kwonlyargs or s.decorator_list:
                _fail(s, "local function with arguments")
            env[s.name] = Closure(s)
            return None
        if self.is_nan_guard(s, env):
            return None
        if isinstance(s, ast.Return):
            if s.value is None:
                _fail(s, "bare return")
            return ("return", self.ev(s.value, env))
        if isinstance(s, ast.Expr) and isinstance(s.value, ast.Call):
            c = s.value
            src = ast.unparse(c)
            if isinstance(c.func, ast.Name) and c.func.id == "set_tensor" and len(c.args) == 2 and not c.keywords \
                    and ast.unparse(c.args[0]) == "parameters":
                v = self.ev(c.args[1], env)
                if isinstance(v, Branch) and isinstance(v.diag, Vec) and isinstance(v.dense, Vec) \
                        and v.diag.role == v.dense.role == "pos":
                    written = ("branch", v.diag.term, v.dense.term)
                elif isinstance(v, Vec) and v.role == "pos":
                    written = v.term
                else:
                    _fail(s, "set_tensor does not write the position")
                self.version += 1
                self.set_terms.append(written)
                return None
            if isinstance(c.func, ast.Attribute) and c.func.attr == "backward" and not c.args and not c.keywords \
                    and isinstance(c.func.value, ast.Name) and isinstance(env.get(c.func.value.id), LogP):
                if env[c.func.value.id].version != self.version:
                    _fail(s, "backward() on a value computed before the position was written")
                self.backward_at = self.version
                return None
            _fail(s, "unrecognised call")
        if isinstance(s, ast.Assign) and len(s.targets) == 1 and isinstance(s.targets[0], ast.Name):
            name = s.targets[0].id
            if ast.unparse(s.value) == "-torch.cat([parameter.grad for parameter in parameters], -1)":
                if self.backward_at != self.version:
                    _fail(s, "the gradient is read without a backward() at the current position")
                env[name] = Vec(("sym", "dU"), "grad", self.version)
                return None
            env[name] = self.ev(s.value, env)
            return None
        if isinstance(s, ast.AugAssign) and isinstance(s.target, ast.Name) and isinstance(s.op, (ast.Add, ast.Sub)):
            b = ast.BinOp(left=ast.Name(id=s.target.id, ctx=ast.Load()), op=s.op, right=s.value)
            ast.copy_location(b, s)
            ast.fix_missing_locations(b)
            env[s.target.id] = self.ev(b, env)
            return None
        if isinstance(s, ast.If):
            t = self.ev(s.test, env)
            if not isinstance(t, IsDiag) or self.which:
                _fail(s, "a conditional that is not the diagonal / dense test")
            envs = {}
            for w, body in (("diag", s.body), ("dense", s.orelse)):
                if not body:
                    _fail(s, "the diagonal / dense test lacks a branch")
                e = dict(env)
                self.which = w
                try:
                    for st in body:
                        if not (isinstance(st, (ast.Assign, ast.AugAssign))):
                            _fail(st, "only assignments may depend on the shape of the mass matrix")
                        self.stmt(st, e)
                finally:
                    self.which = None
                envs[w] = e
            for k in set(envs["diag"]) | set(envs["dense"]):
                a, b = envs["diag"].get(k), envs["dense"].get(k)
                if a is b:
                    continue
                if not (isinstance(a, Vec) and isinstance(b, Vec) and a.role == b.role):
                    _fail(s, f"`{k}` is not a vector of the same kind in both branches")
                env[k] = Branch(a, b)
            return None
        _fail(s, "unrecognised statement")

    def call_closure(self, c, env):
        local = dict(env)
        for st in c.fn.body:
            r = self.stmt(st, local, in_closure=True)
            if r:
                return r[1]
        _fail(c.fn, "the local function does not return")


def _resolve(v, w):
    return (v.diag if w == "diag" else v.dense) if isinstance(v, Branch) else v


def translate(path=None):
    path = path or os.path.join(os.environ.get("VERIF_REPO", "/repo"), "torchtree/inference/hmc/integrator.py")
    tree = ast.parse(open(path).read())
    cls = [n for n in tree.body if isinstance(n, ast.ClassDef) and n.name == "LeapfrogIntegrator"]
    if len(cls) != 1:
        raise TranslateError("class LeapfrogIntegrator not found")
    fns = [n for n in cls[0].body if isinstance(n, ast.FunctionDef) and n.name == "__call__"]
    if len(fns) != 1:
        raise TranslateError("LeapfrogIntegrator.__call__ not found")
    fn = fns[0]
    if [a.arg for a in fn.args.args] != ["self", "model", "parameters", "momentum", "inverse_mass_matrix"]:
        _fail(fn, "unexpected signature")
    it = Interp()
    env = {"momentum": Vec(("sym", "p"), "mom"), "inverse_mass_matrix": Mass()}
    body = list(fn.body)
    loops = [i for i, s in enumerate(body) if isinstance(s, ast.For) and ast.unparse(s.iter) == "range(self.steps)"]
    if len(loops) != 1 or body[loops[0]].orelse:
        _fail(fn, "expected exactly one `for _ in range(self.steps)`")
    li = loops[0]
    # ---- before the loop
    for s in body[:li]:
        if it.stmt(s, env):
            _fail(s, "return before the loop")
    if it.version != 1 or it.set_terms != [("sym", "q")]:
        _fail(fn, "the starting position is not written into the parameters exactly once before the first gradient")

    def only(role):
        names = [k for k, v in env.items() if isinstance(v, Vec) and v.role == role]
        return names

    moms, grads, poss = only("mom"), only("grad"), only("pos")
    if not grads or any(env[g].version != 1 for g in grads):
        _fail(fn, "no gradient at the starting position before the first momentum update")
    first = None
    for k in moms:
        t = env[k].term
        if t[0] == "vsub" and t[1] == ("sym", "p"):
            first = t[2]
    if first is None or _mentions(first, "q"):
        _fail(fn, "the momentum is not `momentum - <increment>` before the loop")
    # ---- the loop body, read once with the loop-carried values named q, p, dU_old
    lp = body[li]
    assigned = {n.id for st in lp.body for n in ast.walk(st) if isinstance(n, ast.Name) and isinstance(n.ctx, ast.Store)}
    carried = {}
    for k in sorted(assigned & set(env)):
        v = env[k]
        if isinstance(v, Vec) and v.role in ("pos", "mom", "grad"):
            if v.role in carried:
                _fail(lp, f"two loop-carried {v.role} variables")
            carried[v.role] = k
    if set(carried) != {"pos", "mom", "grad"}:
        _fail(lp, "the loop does not update position, momentum and gradient")
    lenv = dict(env)
    lenv[carried["pos"]] = Vec(("sym", "q"), "pos")
    lenv[carried["mom"]] = Vec(("sym", "p"), "mom")
    lenv[carried["grad"]] = Vec(("sym", "dU_old"), "grad", -1)
    v0 = it.version
    nset = len(it.set_terms)
    for s in lp.body:
        if it.stmt(s, lenv):
            _fail(s, "return inside the loop")
    if it.version != v0 + 1:
        _fail(lp, "the new position is not written into the parameters exactly once per step")
    newpos, newmom, newgrad = lenv[carried["pos"]], lenv[carried["mom"]], lenv[carried["grad"]]
    if not (isinstance(newgrad, Vec) and newgrad.version == it.version):
        _fail(lp, "no gradient is computed at the new position")
    pos = {}
    for w in ("diag", "dense"):
        p_ = _resolve(newpos, w)
        if not isinstance(p_, Vec) or _mentions(p_.term, "dU") or _mentions(p_.term, "dU_old"):
            _fail(lp, "the new position is not a function of position, momentum and mass matrix")
        pos[w] = p_.term
    written = it.set_terms[nset]
    it.which = None
    # what set_tensor wrote must be the new position (branch by branch)
    if isinstance(newpos, Branch):
        ok = written == ("branch", newpos.diag.term, newpos.dense.term)
    else:
        ok = written == newpos.term
    if not ok:
        _fail(lp, "what is written into the parameters is not the new position")
    if not (isinstance(newmom, Vec) and newmom.term[0] == "vsub" and newmom.term[1] == ("sym", "p")):
        _fail(lp, "the momentum update is not `momentum - <increment>`")
    loop = newmom.term[2]
    if _mentions(loop, "dU_old") or not _mentions(loop, "dU"):
        _fail(lp, "the momentum is not updated with the gradient at the NEW position")
    # ---- after the loop
    env[carried["pos"]] = Vec(("sym", "q"), "pos")
    env[carried["mom"]] = Vec(("sym", "p"), "mom")
    env[carried["grad"]] = Vec(("sym", "dU"), "grad", it.version)
    rest = body[li + 1:]
    reset = "for parameter in parameters:\n    parameter.requires_grad = False"
    if not rest or ast.unparse(rest[0]) != reset:
        _fail(rest[0] if rest else fn, "after the loop: expected the requires_grad reset")
    ret = None
    for s in rest[1:]:
        r = it.stmt(s, env)
        if r:
            ret = r[1]
            if s is not rest[-1]:
                _fail(s, "statements after the return")
    if it.version != v0 + 1:
        _fail(fn, "the parameters are written after the loop")
    if not (isinstance(ret, Vec) and ret.term[0] == "vadd" and ret.term[1] == ("sym", "p")):
        _fail(fn, "the method does not return `momentum + <increment>`")
    last = ret.term[2]
    if _mentions(last, "q"):
        _fail(fn, "the last increment depends on the position")
    out = ["(* GENERATED by harness/translate/t9_leapfrog.py from torchtree/inference/hmc/integrator.py — do not edit *)",
           "From Coq Require Import QArith List.", "Import ListNotations.", "From TT Require Import Num M_leapfrog.", "",
           "Section Gen.", "Context {T : Type} (N : Num T).", "Variable eps : T.", "",
           "(* momentum = momentum - <...> before the loop: the increment *)",
           f"Definition g_first (p dU : list T) : list T := {render(first)}.",
           "(* params = <...> inside the loop, diagonal and dense inverse mass matrix *)",
           f"Definition g_position (Minv : mass T) (q p : list T) : list T :=\n  match Minv with Diag d => {render(pos['diag'])} | Dense m => {render(pos['dense'])} end.",
           "(* momentum -= <...> inside the loop, after the gradient at the new position *)",
           f"Definition g_loop (p dU : list T) : list T := {render(loop)}.",
           "(* momentum += <...> after the loop *)",
           f"Definition g_last (p dU : list T) : list T := {render(last)}.", "",
           "End Gen."]
    return "\n".join(out) + "\n"


if __name__ == "__main__":
    print(translate())
