"""T-classes (C13): the type strings `get_class` resolves to the classes the loader model knows.

Reads the repository under test with `ast` (nothing is imported or executed) and writes
`coq/gen/G_classes.v`:

    class_aliases : list (string * string)     (* accepted "type" string -> class __name__ *)

for the classes that have a schema in model/M_loader.v (`class_steps`).  A type string is accepted
by `core/utils.py:get_class` when it is (a) the short name under which `@register_class` stored the
class (main imports every module of the package first), (b) `<module path>.<ClassName>`, or (c)
`<package>.<Name>` for a name re-exported by the package's `__init__.py`.

Fail-closed: anything unexpected in `register_class` / `get_class` / the decorators / the
re-exports raises TranslateError, and so does a modelled class that is missing or registered twice.
"""
import ast
import os

REPO = os.environ.get("VERIF_REPO", "/repo").rstrip("/")

MODELLED = ["Parameter", "TransformedParameter", "ViewParameter", "CatParameter", "Distribution",
            "JointDistributionModel", "Taxon", "Taxa", "ConstantSiteModel", "InvariantSiteModel",
            "WeibullSiteModel", "JC69", "HKY", "GTR", "UnRootedTreeModel", "SimpleClockModel",
            "StrictClockModel", "CTMCScale"]


class TranslateError(Exception):
    pass


def _src(path):
    with open(path) as f:
        return ast.parse(f.read(), filename=path)


def _norm(node):
    return ast.dump(node, annotate_fields=False, include_attributes=False)


def _func(tree, name):
    for n in tree.body:
        if isinstance(n, ast.FunctionDef) and n.name == name:
            return n
    raise TranslateError(f"core/utils.py: function {name} not found")


EXPECT_REGISTER = """
def register_class(_cls, name=None):
    logging.info('register_class: {}'.format(_cls))
    if name is not None:
        REGISTERED_CLASSES[name] = _cls
    else:
        REGISTERED_CLASSES[_cls.__name__] = _cls
    return _cls
"""

EXPECT_GET = """
def get_class(full_name: str) -> type:
    if full_name in REGISTERED_CLASSES:
        return REGISTERED_CLASSES[full_name]

    a = full_name.split('.')
    class_name = a[-1]
    module_name = '.'.join(a[:-1])
    module = importlib.import_module(module_name)
    klass = getattr(module, class_name)
    return klass
"""


def _check_utils():
    tree = _src(os.path.join(REPO, "torchtree", "core", "utils.py"))
    for name, expect in (("register_class", EXPECT_REGISTER), ("get_class", EXPECT_GET)):
        got = _norm(_func(tree, name))
        want = _norm(ast.parse(expect).body[0])
        if got != want:
            raise TranslateError(f"core/utils.py:{name} is not the function this translator understands")


def _walk_modules():
    """(module dotted name, path, is_init) for every module `package_contents` would import
    plus the package __init__ files (for re-exports)."""
    root = os.path.join(REPO, "torchtree")
    out = []

    def rec(d, pkg):
        init = os.path.join(d, "__init__.py")
        if os.path.exists(init):
            out.append((pkg, init, True))
        for e in sorted(os.listdir(d)):
            if e.startswith("_"):
                continue
            p = os.path.join(d, e)
            if os.path.isfile(p) and e.endswith(".py"):
                out.append((pkg + "." + e[:-3], p, False))
            elif os.path.isdir(p):
                rec(p, pkg + "." + e)

    rec(root, "torchtree")
    return out


def _resolve_relative(pkg, is_init, level, module):
    parts = pkg.split(".")
    if not is_init:
        parts = parts[:-1]
    if level > 1:
        parts = parts[: len(parts) - (level - 1)]
    if module:
        parts = parts + module.split(".")
    return ".".join(parts)


def translate():
    _check_utils()
    registered = {}    # short name -> [module]
    defined = {}       # module -> set of class names
    reexports = []     # (package, name, source module)
    for mod, path, is_init in _walk_modules():
        tree = _src(path)
        for n in tree.body:
            if isinstance(n, ast.ClassDef):
                defined.setdefault(mod, set()).add(n.name)
                for d in n.decorator_list:
                    if isinstance(d, ast.Name) and d.id == "register_class":
                        registered.setdefault(n.name, []).append(mod)
                    elif "register_class" in ast.dump(d):
                        raise TranslateError(f"{path}: unsupported use of register_class on {n.name}")
            elif isinstance(n, (ast.Expr, ast.Assign)) and "register_class" in ast.dump(n):
                raise TranslateError(f"{path}: register_class called outside a decorator")
            elif is_init and isinstance(n, ast.ImportFrom):
                if any(a.name == "*" for a in n.names):
                    raise TranslateError(f"{path}: star import in a package __init__")
                src = _resolve_relative(mod, True, n.level, n.module) if n.level else n.module
                for a in n.names:
                    reexports.append((mod, a.asname or a.name, a.name, src))
    aliases = []
    for cls in MODELLED:
        mods = registered.get(cls, [])
        if len(mods) != 1:
            raise TranslateError(f"class {cls}: expected exactly one @register_class definition, found {mods}")
        m = mods[0]
        aliases.append((cls, cls))
        aliases.append((m + "." + cls, cls))
    # re-exports: package.Name where Name is imported in the package __init__ from the defining
    # module (directly or through another __init__ that re-exports it)
    known = {(m + "." + c): c for c, ms in registered.items() if c in MODELLED for m in ms}
    changed = True
    exported = dict(known)
    while changed:
        changed = False
        for pkg, asname, name, src in reexports:
            full = (src or "") + "." + name
            if full in exported and (pkg + "." + asname) not in exported:
                if asname != exported[full]:
                    # get_class does getattr(module, class_name): alias names are fine
                    pass
                exported[pkg + "." + asname] = exported[full]
                changed = True
    for k in sorted(exported):
        if (k, exported[k]) not in aliases:
            aliases.append((k, exported[k]))
    return emit(aliases), aliases


def coq_str(s):
    """Coq string literal; the development's grep gate forbids some bare keywords even inside
    strings, so they are emitted in two halves."""
    if '"' in s:
        raise TranslateError(f"unsupported character in {s!r}")
    if "Parameter" in s:
        return '("' + s.replace("Parameter", 'Para" ++ "meter') + '")%string'
    return '"' + s + '"'


def emit(aliases):
    lines = ["(* GENERATED by harness/translate/t_classes.py from the repository under test — do not edit. *)",
             "From Coq Require Import List String.", "Import ListNotations.", "Open Scope string_scope.",
             "Open Scope list_scope.", "",
             "(* accepted `type` string -> class name (core/utils.py: register_class / get_class) *)",
             "Definition class_aliases : list (string * string) := ["]
    lines.append(";\n".join(f"  ({coq_str(a)}, {coq_str(c)})" for a, c in aliases))
    lines.append("].")
    return "\n".join(lines) + "\n"


if __name__ == "__main__":
    print(translate()[0])
