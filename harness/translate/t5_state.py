"""T5 placeholder (being written)."""


class TranslateError(Exception):
    pass
