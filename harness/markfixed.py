"""usage: markfixed.py Cxx <commit> <key-substring> [<key-substring> ...] — marks findings fixed (dev tool, not used by checks)."""
import json, sys
pid, commit, subs = sys.argv[1], sys.argv[2], sys.argv[3:]
fn = f"/verif/known_findings.d/{pid}.json"
d = json.load(open(fn))
n = 0
for f in d["findings"]:
    if f["status"] == "known" and any(s in f["key"] for s in subs):
        f["status"] = "fixed"; f["commit"] = commit
        if not f["what"].startswith("fixed:"):
            f["what"] = f"fixed: property={pid} {commit} " + f["what"]
        n += 1
json.dump(d, open(fn, "w"), indent=1)
print("marked", n)
