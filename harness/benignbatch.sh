#!/bin/sh
# dev tool: run every behaviour-preserving change under /verif/benign that has no result yet (-f: all) through its check
# (the checks must stay silent, or report only `no-failing-input-found` for a translator that no longer recognises the source)
F=$1; PAR=${PAR:-3}
for d in /verif/benign/*/; do
  s=$(basename $d)
  if [ "$F" = "-f" ] || ! grep -q '"checks"' $d/meta.json 2>/dev/null; then echo $s; fi
done | xargs -P $PAR -I{} sh -c '/venv/bin/python /verif/harness/seedtest.py {} --root /verif/benign > /tmp/benign_{}.log 2>&1; tail -3 /tmp/benign_{}.log'
