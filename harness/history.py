"""Same-object histories: evaluate, assign parameters, evaluate again — against a freshly built object.

Every correspondence ties the value of a FRESHLY built object to the Coq model.  A defect that only
shows on the second evaluation of the same object (a cache that is not invalidated, a parameter
corrupted in place, a flag raised in the wrong place) is invisible there.  This helper closes that
gap generically: an object built from a JSON specification is observed, some of its leaf parameters
are given new values of the same domain (assignment of a new tensor; in-place edit followed by assigning
the same tensor object back, as the MCMC operators do; in-place edit followed by the notification), cached
intermediate quantities are read in a random order in between, and the observation is compared with
that of a fresh object built from the same specification with the new values substituted.  The fresh
object is the one the model correspondence speaks about, so by transitivity the history is tied to the
model as well.
"""
import copy
import math

_REG = {}      # id(obj) -> (cls, spec, dic, obj)


def tracked(cls, spec, dic=None):
    """cls.from_json(spec, dic) remembering the specification the object was built from."""
    keep = copy.deepcopy(spec)
    dic = {} if dic is None else dic
    obj = cls.from_json(spec, dic)
    _REG[id(obj)] = (cls, keep, dic, obj)
    if len(_REG) > 4000:
        for k in list(_REG)[:2000]:
            del _REG[k]
    return obj


def _leaf_specs(j, out):
    if isinstance(j, dict):
        t = j.get("type", "")
        if isinstance(t, str) and t.split(".")[-1] == "Parameter" and isinstance(j.get("id"), str) and isinstance(j.get("tensor"), list):
            out[j["id"]] = j
        for v in j.values():
            _leaf_specs(v, out)
    elif isinstance(j, list):
        for v in j:
            _leaf_specs(v, out)


def _perturb(torch, t, rng):
    """new values in the same domain class: simplex rows stay simplex rows, (0,1) stays (0,1), positive
    tensors are multiplied by ONE factor > 1 (order constraints between entries survive), others shift."""
    x = t.detach().clone()
    if not x.is_floating_point() or x.numel() == 0:
        return None
    if not bool(torch.isfinite(x).all()):
        return None
    if x.shape[-1] > 1 and bool((x > 0).all()) and bool(((x.sum(-1) - 1.0).abs() < 1e-9).all()):
        y = x ** rng.uniform(0.6, 1.4)
        return y / y.sum(-1, keepdim=True)
    if bool(((x > 0) & (x < 1)).all()):
        return x ** rng.uniform(0.7, 1.4)
    if bool((x > 0).all()):
        return x * rng.uniform(1.02, 1.6)
    if bool((x >= 0).all()):
        return x * rng.uniform(1.02, 1.6)
    return x + rng.uniform(-0.3, 0.3)


def _flat(v):
    if isinstance(v, (list, tuple)):
        out = []
        for e in v:
            out.extend(_flat(e))
        return out
    return [float(v)]


def same(a, b, rtol=1e-9, atol=1e-12):
    fa, fb = _flat(a), _flat(b)
    if len(fa) != len(fb):
        return False
    for x, y in zip(fa, fb):
        if math.isnan(x) and math.isnan(y):
            continue
        if x == y:
            continue
        if not (math.isfinite(x) and math.isfinite(y)):
            return False
        if abs(x - y) > atol + rtol * max(abs(x), abs(y)):
            return False
    return True


def run(obj, observe, rng, mutable=None, reads=(), steps=2, frozen=()):
    """-> list of findings (dict) — empty when every evaluation in the history equals the fresh one.

    observe(obj) -> nested lists/floats (public observation points only);
    reads: (name, callable obj -> anything) pairs, executed in random positions (cached intermediates);
    mutable: ids of the leaf parameters that may be assigned (default: every leaf in the spec);
    frozen: ids never assigned."""
    import torch
    if id(obj) not in _REG:
        raise KeyError("object was not built through history.tracked")
    cls, spec, dic, _ = _REG[id(obj)]
    spec = copy.deepcopy(spec)
    leaves = {}
    _leaf_specs(spec, leaves)
    ids = [i for i in (mutable if mutable is not None else sorted(leaves))
           if i in leaves and i in dic and i not in frozen]
    findings = []
    if not ids:
        return findings
    trace = []

    def do_reads(p):
        for r in reads:
            name, fn = r if isinstance(r, tuple) else (getattr(r, "__name__", "aux"), r)
            if rng.random() < p:
                try:
                    fn(obj)
                    trace.append(f"read:{name}")
                except Exception:
                    pass
    first = rng.random() < 0.7
    if first:
        observe(obj)
        trace.append("observe")
    else:
        do_reads(0.7)
    for step in range(steps):
        chosen = rng.sample(ids, rng.randint(1, min(2, len(ids))))
        for pid in chosen:
            par = dic[pid]
            new = _perturb(torch, par.tensor, rng)
            if new is None:
                continue
            mode = rng.random()
            if mode < 0.25 and new.shape == par.tensor.shape and not par.tensor.requires_grad:
                # what the MCMC operators do: edit the held tensor in place, assign the SAME object back
                held = par.tensor
                held.copy_(new)
                par.tensor = held
                trace.append("inplace+assign-same-object")
            elif mode < 0.4 and new.shape == par.tensor.shape and not par.tensor.requires_grad:
                # an in-place change followed by the notification
                par.tensor.copy_(new)
                par.fire_parameter_changed()
                trace.append("inplace+fire")
            else:
                par.tensor = new
            leaves[pid]["tensor"] = new.tolist()
            for k in ("full", "full_like", "ones", "zeros", "eye", "arange"):
                leaves[pid].pop(k, None)
            trace.append(f"set:{pid}")
            do_reads(0.3)
        do_reads(0.3)
        try:
            got = observe(obj)
        except Exception as e:
            got = f"raises {type(e).__name__}: {str(e)[:120]}"
        trace.append("observe")
        try:
            fresh_obj = cls.from_json(copy.deepcopy(spec), {})
            want = observe(fresh_obj)
        except Exception as e:   # the perturbed specification itself is not admissible: not a finding
            return findings
        if isinstance(got, str) or not same(got, want):
            findings.append(dict(history=list(trace), step=step, assigned=chosen,
                                 on_same_object=got if isinstance(got, str) else _flat(got)[:8],
                                 fresh_object=_flat(want)[:8], spec=spec))
            return findings
    return findings
