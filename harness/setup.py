"""setup_cmd: regenerate coq/gen from /repo, build the whole Coq development (full .vo), gate."""
import importlib
import os
import pkgutil
import sys

from harness import common as C


def sync_all():
    import harness.props as P
    ok = True
    for m in pkgutil.iter_modules(P.__path__):
        mod = importlib.import_module(f"harness.props.{m.name}")
        if hasattr(mod, "sync"):
            r = mod.sync()
            good = r[0] if isinstance(r, tuple) else bool(r)
            if not good:
                print(f"[setup] sync of {m.name} failed: {r}")
                ok = False
    return ok


def main():
    bad = C.gate()
    if bad:
        print("GATE failed:\n" + "\n".join(bad))
        return 2
    ok = sync_all()
    rc, out, dt = C.sh(["coq_makefile", "-f", "_CoqProject", "-o", "Makefile.coq"], cwd=C.COQ)
    if rc:
        print(out)
        return 2
    rc, out, dt = C.sh(["make", "-f", "Makefile.coq", "-j16"], cwd=C.COQ, timeout=3400)
    print(out[-3000:])
    print(f"[setup] coq build rc={rc} in {dt:.0f}s; sync ok={ok}")
    return 0 if (rc == 0 and ok) else 2


if __name__ == "__main__":
    sys.exit(main())
