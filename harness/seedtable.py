#!/venv/bin/python
"""dev tool: regenerate the table of seeded changes in DESIGN.md (between the SEEDED-TABLE markers)
from /verif/seeded/*/meta.json"""
import glob
import json
import re

rows = []
for f in sorted(glob.glob("/verif/seeded/*/meta.json")):
    sid = f.split("/")[-2]
    m = json.load(open(f))
    v = m.get("verif", {})
    summ = re.sub(r"\s+", " ", (m.get("summary") or "")).strip()
    summ = summ[:230] + ("…" if len(summ) > 230 else "")
    need = re.sub(r"\s+", " ", (m.get("needs_to_manifest") or "")).strip()
    need = need[:200] + ("…" if len(need) > 200 else "")
    ck = v.get("checks", {})
    caught = v.get("caught_by") or []
    how = []
    for p in caught:
        firsts = ck[p].get("first") or []
        key = firsts[0].split(":")[0:4] if firsts else []
        k = ""
        if firsts:
            mm = re.match(r"violation (\S+?):? ", firsts[0] + " ")
            k = mm.group(1).rstrip(":") if mm else ""
        how.append(f"`{p}`" + (f" ({k[:80]})" if k else "") +
                   (" no-failing-input-found" if ck[p].get("no_failing_input_found") and not ck[p]["violations"] - ck[p]["no_failing_input_found"] else ""))
    valid = "yes" if v.get("valid") else ("?" if "valid" not in v else "NO")
    rows.append(f"| {sid} | {summ.replace('|', '/')} | {need.replace('|', '/')} | {valid} | "
                f"{', '.join(how) if how else '**missed**'} |")
table = ("| id | change (as described by its author) | needs, to manifest | valid (tests pass, demo fails only with it) | caught by |\n"
         "|----|----|----|----|----|\n" + "\n".join(rows) + "\n")
p = "/verif/DESIGN.md"
s = open(p).read()
a, b = "<!-- SEEDED-TABLE-BEGIN -->", "<!-- SEEDED-TABLE-END -->"
if a in s:
    s = s[:s.index(a) + len(a)] + "\n" + table + s[s.index(b):]
    open(p, "w").write(s)
n_c = sum(1 for r in rows if "**missed**" not in r)
print(f"{len(rows)} seeded changes, {n_c} caught")
