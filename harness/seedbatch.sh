#!/bin/sh
# dev tool: run seedtest for every seeded mutant that has no result yet (or all with -f); parallelism $PAR (default 2)
cd /verif
PAR=${PAR:-2}
todo=""
for d in seeded/*/; do id=$(basename $d); if [ "$1" = "-f" ] || ! grep -q '"verif"' $d/meta.json; then todo="$todo $id"; fi; done
echo $todo | tr ' ' '\n' | grep . | xargs -P $PAR -I{} sh -c './harness/seedtest.py {} 2>&1 | grep -v "^WARNING" > /tmp/seedtest_{}.log; tail -n 40 /tmp/seedtest_{}.log | grep "^\[" '
