#!/bin/sh
# dev tool: re-run every seeded mutant under another VERIF_SEED (detection must not depend on the luck of one seed)
# usage: seedbatch_seed.sh <seed>   (PAR=n)
cd /verif
S=$1; PAR=${PAR:-4}
ls seeded | xargs -P $PAR -I{} sh -c "./harness/seedtest.py {} --skip-validate --seed $S 2>&1 | grep -v '^WARNING' > /tmp/seedtest_s${S}_{}.log; grep '^\[' /tmp/seedtest_s${S}_{}.log | tail -1"
