"""C18 — crash while writing a checkpoint.  Translator T4 + exhaustive crash-history correspondence."""
import builtins
import itertools
import json
import os
import shutil
import sys
import time

from harness import common as C
from harness.translate import t4_save

PID = "C18"


class Crash(BaseException):
    pass


class _Injector:
    """Wraps open / json chunk writes / close / os.rename / os.remove as seen by
    torchtree.core.parameter_utils and raises Crash just before event number `crash_at`."""

    def __init__(self, mod, crash_at, fault=False):
        self.mod, self.crash_at, self.fault = mod, crash_at, fault
        self.events = []      # kinds, in order
        self.prims_done = 0   # completed primitive steps (model budget k)
        self.chunk_events = []

    def _event(self, kind):
        if self.crash_at is not None and len(self.events) == self.crash_at:
            if self.fault:
                # an I/O FAULT instead of a crash: the call fails with an OSError (disk full, quota, file size
                # limit) and the process goes on
                self.crash_at = None
                import errno
                raise OSError(errno.ENOSPC, "No space left on device (injected)")
            raise Crash(kind)
        self.events.append(kind)

    def open(self, path, mode="r", *a, **kw):
        inj = self
        if "w" not in mode:
            return builtins.open(path, mode, *a, **kw)
        inj._event("open")
        real = builtins.open(path, mode, *a, **kw)   # truncates now
        real.flush()
        inj.prims_done += 1

        class FP:
            """Buffered writer: data reaches the disk only up to what a crash lets through."""

            def __init__(self):
                self.buf = []

            def write(self, s):
                inj._event("chunk")
                self.buf.append(s)
                return len(s)

            def __enter__(self):
                return self

            def __exit__(self, et, ev, tb):
                if et is None:
                    try:
                        inj._event("close")
                    except Crash:
                        # everything was handed to write() but the tail is still buffered: lost
                        data = "".join(self.buf)
                        real.write(data[:-1])
                        real.close()
                        raise
                    real.write("".join(self.buf))
                    real.close()
                    inj.prims_done += 1
                else:
                    # crash between chunks: a strict prefix is on disk
                    real.write("".join(self.buf))
                    real.close()
                return False

        return FP()

    def rename(self, a, b):
        self._event("rename")
        os.rename(a, b)
        self.prims_done += 1

    def replace(self, a, b):
        self._event("rename")
        os.replace(a, b)
        self.prims_done += 1

    def remove(self, a):
        self._event("remove")
        os.remove(a)
        self.prims_done += 1


class _OsProxy:
    def __init__(self, inj):
        self._inj = inj
        self.path = os.path

    def __getattr__(self, k):
        if k in ("rename", "replace", "remove", "unlink"):
            return getattr(self._inj, "remove" if k == "unlink" else k)
        return getattr(os, k)


def _impl():
    import torch  # noqa
    import torchtree.core.parameter_utils as pu
    from torchtree.core.parameter import Parameter
    return pu, Parameter


def _params(Parameter, version):
    import torch
    return [{"id": "run", "type": "X", "iteration": version},
            Parameter("a", torch.tensor([float(version), 1.5, 2.5])),
            Parameter("b", torch.tensor([[0.25, float(version)]]))]


def attempt(pu, Parameter, tmp, files, version, crash_at):
    """Restore `files` into tmp, run one save_parameters(version) crashing before event crash_at.
    Returns (files_after, k_model, n_events, outcome)."""
    for fn in os.listdir(tmp):
        os.remove(os.path.join(tmp, fn))
    for fn, data in files.items():
        with open(os.path.join(tmp, fn), "w") as f:
            f.write(data)
    inj = _Injector(pu, crash_at)
    saved_os = pu.os
    pu.open = inj.open
    pu.os = _OsProxy(inj)
    outcome = "done"
    try:
        pu.save_parameters(os.path.join(tmp, "ckpt.json"), _params(Parameter, version))
    except Crash:
        outcome = "crash"
    except OSError as e:
        outcome = "oserror:" + type(e).__name__
    finally:
        del pu.open
        pu.os = saved_os
    after = {}
    for fn in sorted(os.listdir(tmp)):
        after[fn] = open(os.path.join(tmp, fn)).read()
    k = inj.prims_done if outcome == "crash" else 16
    return after, k, inj.events, outcome


def run_once(pu, Parameter, path, version, crash_at, fault=False):
    """one save_parameters(path) in the directory as it is, crashing (or failing with an OSError) before event crash_at"""
    inj = _Injector(pu, crash_at, fault)
    saved_os = pu.os
    pu.open = inj.open
    pu.os = _OsProxy(inj)
    outcome = "done"
    try:
        import warnings
        with warnings.catch_warnings():
            warnings.simplefilter("ignore")
            pu.save_parameters(path, _params(Parameter, version))
    except Crash:
        outcome = "crash"
    except OSError as e:
        outcome = "oserror:" + type(e).__name__
    finally:
        del pu.open
        pu.os = saved_os
    return inj.events, outcome


def read_dir(tmp):
    """name -> content as a reader would get it by opening the name (a dangling link reads as absent)"""
    out = {}
    for fn in sorted(os.listdir(tmp)):
        pth = os.path.join(tmp, fn)
        if os.path.isdir(pth):
            continue
        try:
            out[fn] = open(pth).read()
        except OSError:
            pass
    return out


def other_states_findings(c0=5):
    """The same property in two situations outside the plain enumeration: (1) the checkpoint name is a SYMBOLIC LINK
    (to a file in a run directory), a crash before every event of one write; (2) an I/O FAULT (OSError) while the new
    file is written, the process surviving: afterwards the last good checkpoint must still be readable under the
    name or its .old / .new sibling, and the name must not be a truncated file."""
    pu, Parameter = _impl()
    tmp = os.path.join(C.WORKROOT, PID, "fs2")
    found = []

    def setup(link):
        shutil.rmtree(tmp, ignore_errors=True)
        os.makedirs(os.path.join(tmp, "store"))
        name = os.path.join(tmp, "ckpt.json")
        if link:
            target = os.path.join(tmp, "store", "real.json")
            run_once(pu, Parameter, target, c0, None)
            os.symlink(target if link == "absolute" else os.path.join("store", "real.json"), name)
        else:
            run_once(pu, Parameter, name, c0, None)
        return name

    n = 0
    for link in ("absolute", "relative"):
        name = setup(link)
        events, _ = run_once(pu, Parameter, name, c0 + 1, None)
        for e in range(len(events)):
            name = setup(link)
            _, oc = run_once(pu, Parameter, name, c0 + 1, e)
            obs, _extra = observe(read_dir(tmp))
            n += 1
            if not good(c0, obs):
                found.append((f"C18:unsafe:symbolic-link:{events[e]}",
                              f"the checkpoint name is a symbolic link ({link}); crash before event {e} ({events[e]}) of "
                              f"the next write: name/old/new = {obs}: the last good checkpoint {c0} cannot be read "
                              f"under the name or its .old / .new sibling",
                              dict(situation="symbolic-link", link=link, crash_event=e, kind=events[e], observed=obs)))
                break
    name = setup(None)
    events, _ = run_once(pu, Parameter, name, c0 + 1, None)
    for e, kind in enumerate(events):
        if kind not in ("open", "chunk", "close"):
            continue
        if kind == "chunk" and e not in crash_choices(events):
            continue
        name = setup(None)
        _, oc = run_once(pu, Parameter, name, c0 + 1, e, fault=True)
        obs, _extra = observe(read_dir(tmp))
        n += 1
        if not good(c0, obs):
            found.append((f"C18:unsafe:io-fault:{kind}",
                          f"an OSError (disk full) at event {e} ({kind}) while the new file is written, the process "
                          f"survives (save_parameters: {oc}): name/old/new = {obs}: the last good checkpoint {c0} is "
                          f"lost or the name is a truncated file",
                          dict(situation="io-fault", fault_event=e, kind=kind, outcome=oc, observed=obs)))
            break
    shutil.rmtree(tmp, ignore_errors=True)
    return found, n


def observe(files):
    """-> list of (tag, version) for name, .old, .new ; tag 0 absent 1 complete 2 truncated"""
    out = []
    for fn in ("ckpt.json", "ckpt.json.old", "ckpt.json.new"):
        if fn not in files:
            out.append((0, 0))
            continue
        try:
            j = json.loads(files[fn])
            v = j[0]["iteration"]
            ok = (j[1]["tensor"][0] == float(v) and j[2]["tensor"][0][1] == float(v) and len(j) == 3)
            out.append((1, v) if ok else (2, 0))
        except Exception:
            out.append((2, 0))
    extra = sorted(set(files) - {"ckpt.json", "ckpt.json.old", "ckpt.json.new"})
    return out, extra


def good(c, obs):
    complete = any(t == 1 and v >= c for t, v in obs)
    return complete and obs[0][0] != 2


def crash_choices(events):
    """Which real crash events to explore for a write that would perform `events`."""
    idx = []
    chunks = [i for i, e in enumerate(events) if e == "chunk"]
    keep_chunks = set()
    if chunks:
        keep_chunks = {chunks[0], chunks[len(chunks) // 2], chunks[-1]}
    for i, e in enumerate(events):
        if e != "chunk" or i in keep_chunks:
            idx.append(i)
    idx.append(len(events))  # no crash: the write completes
    return idx


def enumerate_histories(depth, c0=5):
    pu, Parameter = _impl()
    tmp = os.path.join(C.WORKROOT, PID, "fs")
    shutil.rmtree(tmp, ignore_errors=True)
    os.makedirs(tmp)
    # initial state: an existing complete checkpoint c0 (written by the implementation itself)
    f0, _, _, oc = attempt(pu, Parameter, tmp, {}, c0, None)
    assert oc == "done" and observe(f0)[0][0] == (1, c0), (oc, observe(f0))
    f0 = {"ckpt.json": f0["ckpt.json"]}
    out = []   # (crash_events, ks, obs, extra, outcomes)
    frontier = [((), (), f0, ())]
    for d in range(depth):
        nxt = []
        for ces, ks, files, ocs in frontier:
            version = c0 + d + 1
            _, _, events, _ = attempt(pu, Parameter, tmp, files, version, None)
            for e in crash_choices(events):
                crash_at = None if e == len(events) else e
                after, k, _, oc = attempt(pu, Parameter, tmp, files, version, crash_at)
                rec = (ces + (e,), ks + (k,), after, ocs + (oc,))
                obs, extra = observe(after)
                out.append((rec[0], rec[1], obs, extra, rec[3], events[e] if e < len(events) else "none"))
                nxt.append(rec)
        frontier = nxt
    shutil.rmtree(tmp, ignore_errors=True)
    return out, c0


def sync():
    try:
        txt = t4_save.translate()
    except t4_save.TranslateError as e:
        return False, f"T4 translator: {e}"
    with C.CoqLock():
        C.write_if_changed(os.path.join(C.COQ, "gen", "G_save.v"), txt)
    return True, txt


def run(tier, seed, replay=None):
    rep = C.Report(PID, tier, seed)
    rep.trusted = C.COMMON_TRUSTED + [
        "translator T4 (harness/translate/t4_save.py, python ast, fail-closed)",
        "file-system model base/Fs.v: open-truncate / close / rename / remove are atomic, rename "
        "overwrites atomically (POSIX); durability (fsync) not modelled",
        "fault injector harness/props/c18.py (wraps open/os.rename/os.remove/json chunk writes)"]
    rep.assumptions = ["POSIX rename atomicity", "a crash loses any unflushed tail of an open file"]
    depth = 3 if tier == "quick" else 5
    t0 = time.time()
    if replay:
        # replay one recorded crash history on the real function and report the directory it leaves
        r = json.load(open(replay))["replay"]
        pu, Parameter = _impl()
        tmp = os.path.join(C.WORKROOT, PID, "fs_replay")
        shutil.rmtree(tmp, ignore_errors=True)
        os.makedirs(tmp)
        c0 = r.get("start_version", 5)
        files, _, _, _ = attempt(pu, Parameter, tmp, {}, c0, None)
        files = {"ckpt.json": files["ckpt.json"]}
        for d, e in enumerate(r["crash_events"]):
            _, _, events, _ = attempt(pu, Parameter, tmp, files, c0 + d + 1, None)
            files, k, _, oc = attempt(pu, Parameter, tmp, files, c0 + d + 1, None if e >= len(events) else e)
            C.log(f"[C18 replay] write {d + 1}: crash before event {e} ({oc}) -> {observe(files)[0]}")
        obs, extra = observe(files)
        ok = good(c0, obs) and not extra
        C.log(f"[C18 replay] final directory name/old/new = {obs}: {'property holds' if ok else 'PROPERTY VIOLATED'}")
        if not ok:
            print(f"VIOLATION property={PID} replay={replay}")
        return 0 if ok else 1
    hist, c0 = enumerate_histories(depth)
    rep.timings["impl_enumeration"] = round(time.time() - t0, 2)

    def search():
        for ces, ks, obs, extra, ocs, kind in hist:   # BFS order => shortest first
            if not good(c0, obs) or extra:
                return (f"C18:unsafe-history:{'/'.join(ocs)}:{obs}",
                        f"after crash history (real crash events {list(ces)}, last before '{kind}') "
                        f"directory is name/old/new={obs}: last good checkpoint {c0} lost or name truncated",
                        dict(crash_events=list(ces), start_version=c0, observed=obs, outcomes=list(ocs)))
        return None

    other_fs, n_other = other_states_findings(c0)
    ok_sync, info = sync()
    if not ok_sync:
        rep.proof = dict(obligations=1, discharged=0, axioms={}, theorems=["T4 translation"], ok=False)
        f = search()
        if f:
            rep.violation(*f)
        for g in other_fs:
            rep.violation(*g)
        if not f and not other_fs:
            rep.violation("C18:translator-failed", info, dict(error=info), False)
        return rep.finish()
    proved = C.handle_proof(rep, PID, search)
    for g in other_fs:
        rep.violation(*g)

    # property evaluated directly on every real history (cheap, always on)
    f = search()
    if f:
        rep.violation(*f)

    # correspondence: model state vs real directory after every history
    t0 = time.time()
    distinct = sorted({ks for _, ks, *_ in hist})
    model = {}
    try:
        cases = [f"show_dir (run_history save_prog default_flags (mkDir (Some (Complete {c0}%nat)) None None) "
                 f"{c0}%nat {C.coq_list(ks, C.natlit)})" for ks in distinct]
        res = C.run_cases(PID, "From Coq Require Import List ZArith. Import ListNotations.\n"
                               "From TT Require Import Fs G_save.\nOpen Scope nat_scope.", cases, shard=4000, rtype="Z")
        model = dict(zip(distinct, res))
    except RuntimeError as e:
        if proved:
            rep.violation("C18:model-eval-failed", str(e)[:300], dict(error=str(e)[-2000:]), False)
    rep.timings["model_eval"] = round(time.time() - t0, 2)
    kinds = {}
    mism = 0
    for ces, ks, obs, extra, ocs, kind in hist:
        kinds[kind] = kinds.get(kind, 0) + 1
        inside = any(o == "crash" for o in ocs)
        rep.case(dict(ces=ces), nontrivial=inside and len(ces) >= 1,
                 sample=dict(crash_before_events=list(ces), model_budget=list(ks), real_dir=obs))
        m = model.get(ks)
        if m is None:
            continue
        mobs = [(m[0], m[1]), (m[2], m[3]), (m[4], m[5])]
        same = all(a[0] == b[0] and (a[0] != 1 or a[1] == b[1]) for a, b in zip(obs, mobs))
        if not same and mism == 0:
            mism += 1
            f = search()
            if f:
                rep.violation(*f)
            else:
                rep.violation(f"C18:model-impl-differ", f"history {list(ces)}: impl {obs} vs model {mobs}",
                              dict(crash_events=list(ces), impl=obs, model=mobs,
                                   broken="correspondence Fs.run_history vs save_parameters"), False)
    rep.rule = (f"every sequence of <= {depth} consecutive writes over an existing checkpoint, each crashing "
                "before any file-system primitive (open, 3 representative partial-write points, close, each "
                "rename, remove) or completing; non-trivial = at least one crash strictly inside a write; "
                "distinct = distinct real crash-event sequences")
    rep.exhaustive = True
    rep.extra = dict(traces_validated_against_impl=len(hist), symlink_and_io_fault_situations=n_other, crash_kind_distribution=kinds,
                     distinct_model_histories=len(distinct), history_depth=depth,
                     translator_units=["save_parameters -> gen/G_save.v"])
    return rep.finish()
