"""C20 — smoothing / integrated priors and sufficient statistics match their densities.

Hand models coq/model/M_gmrf.v (GMRF._call, GMRF.precision_matrix, GMRFGammaIntegrated, closed form of
ConstantCoalescentIntegrated) and coq/model/M_suffstat.v (sufficient_statistics of the skyride / skygrid
distributions on the interval machinery of M_coalescent.v); theorems over R in coq/proof/P_gmrf.v and
coq/proof/P_suffstat.v; Paramcoq enclosure theorems in P_gmrf_param.v / P_suffstat_param.v.

Pipeline: prove -> the property evaluated directly on implementation outputs (quadratic form with the
PUBLISHED matrix vs GMRF(); sufficient statistics + counts vs log_prob; integrated forms vs numerical
quadrature of the product of densities) -> correspondence of the NumI run of the model with GMRF(),
precision_matrix(), GMRFGammaIntegrated(), ConstantCoalescentIntegrated, sufficient_statistics().
"""
import json
import math
import random
import time
from fractions import Fraction

from harness import common as C
from harness import history as H
from harness import impl

PID = "C20"
HEADER = ("From Coq Require Import QArith ZArith List. Import ListNotations.\n"
          "From Bignums Require Import BigZ.\n"
          "From TT Require Import Num NumI M_coalescent M_gmrf M_suffstat.\n"
          "Definition L2PI : I.type := ln2pi_of NumI (I.pi prec).\n"
          "Definition shown (l : list nat) : list bigZ := map (fun c => BigZ.of_Z (Z.of_nat c)) l.\n")
RTOL = 1e-9          # correspondence and algebraic identities (property text: "exactly" up to rounding)
QTOL = 1e-6          # integrated forms against numerical quadrature
KINDS = ["gmrf", "gmrf", "gmrf_int", "const_int", "skyride", "skygrid"]
LN2PI = math.log(2.0 * math.pi)


# ----------------------------------------------------------------------------- generators

def gen_tips(rng, n, scheme):
    if scheme == "iso":
        tips = [0.0] * n
    elif scheme == "serial":
        tips = [0.0] + [round(rng.uniform(0, 4), rng.choice([1, 2, 6])) for _ in range(n - 1)]
    else:  # serial with ties
        pool = [0.0] + [round(rng.uniform(0, 4), 1) for _ in range(rng.randint(1, 3))]
        tips = [rng.choice(pool) for _ in range(n)]
        tips[rng.randrange(n)] = 0.0
    rng.shuffle(tips)
    return tips


def sim_tree(rng, tips, scale, digits=None):
    """Serial coalescent simulation.  Returns (nested tuple tree over leaf positions, internal heights in
    torchtree's node order = post-order, children left to right)."""
    n = len(tips)
    order = sorted(range(n), key=lambda i: tips[i])
    active, idx, cur = [], 0, tips[order[0]]
    height = {}
    while idx < n or len(active) > 1:
        while idx < n and tips[order[idx]] <= cur:
            active.append(order[idx])
            idx += 1
        k = len(active)
        if k < 2:
            cur = tips[order[idx]]
            continue
        nxt = cur + rng.expovariate(k * (k - 1) / 2.0 / scale)
        if idx < n and tips[order[idx]] < nxt:
            cur = tips[order[idx]]
            continue
        if digits is not None:
            nxt = max(cur, round(math.ceil(nxt * 10 ** digits) / 10 ** digits, digits))
        if nxt <= 0.0:
            nxt = 10.0 ** -(digits or 3)
        cur = nxt
        i, j = rng.sample(range(k), 2)
        a, b = active[i], active[j]
        for q in sorted((i, j), reverse=True):
            active.pop(q)
        node = (a, b)
        height[id(node)] = cur
        active.append(node)
    root = active[0]
    heights = []

    def post(u):
        if isinstance(u, int):
            return
        post(u[0])
        post(u[1])
        heights.append(height[id(u)])
    post(root)
    return root, heights


def newick(t):
    return f"T{t}" if isinstance(t, int) else "(" + newick(t[0]) + "," + newick(t[1]) + ")"


def gen_grid(rng, tips, coal_rows, m, style):
    allc = {c for row in coal_rows for c in row}
    root, first = max(allc), min(allc)
    for _ in range(200):
        if style == "inside":
            g = [rng.uniform(0, root) for _ in range(m)]
        elif style == "beyond":
            g = [rng.uniform(0, root) for _ in range(m)]
            for j in range(rng.randint(1, m)):
                g[j] = root * rng.uniform(1.05, 2.5)
        elif style == "before":
            g = [first * rng.uniform(0.05, 0.95) for _ in range(m)]
        elif style == "cutoff":
            cutoff = root * rng.choice([0.5, 1.0, 1.5, 3.0])
            g = [cutoff * (j + 1) / m for j in range(m)]
        elif style == "atcoal":
            # grid points exactly ON coalescent times (the value of a step function at its jump is a convention: these
            # cases are judged by the internal consistency of the published statistics with log_prob only)
            g = [rng.uniform(0, root * 1.2) for _ in range(m)]
            on = rng.sample(sorted(allc), min(len(allc), rng.randint(1, max(1, m))))
            for j, x in enumerate(on[:m]):
                g[j] = x
            g = sorted(set(float(x) for x in g))
            if len(g) == m and g[0] > 0:
                return g
            continue
        else:  # "attips": grid points exactly on sampling times
            pos = sorted({t for t in tips if t > 0})
            g = [rng.uniform(0, root * 1.3) for _ in range(m)]
            for j in range(min(len(pos), m)):
                if rng.random() < 0.7:
                    g[j] = pos[j]
        g = sorted(float(x) for x in g)
        if g[0] <= 0 or any(a >= b for a, b in zip(g[:-1], g[1:])) or any(x in allc for x in g):
            continue
        return g
    return sorted(root * (j + 1.37) / (m + 0.5) for j in range(m))


def logu(rng, lo, hi):
    return math.exp(rng.uniform(math.log(lo), math.log(hi)))


def gen_field(rng, n):
    style = rng.choice(["walk", "walk", "iid", "offset", "flat"])
    if style == "walk":
        x, cur = [], rng.gauss(0, 2)
        for _ in range(n):
            x.append(cur)
            cur += rng.gauss(0, logu(rng, 0.05, 2))
        return x
    if style == "iid":
        return [rng.gauss(0, 3) for _ in range(n)]
    if style == "offset":       # large common level, small differences
        base = rng.choice([50.0, -200.0, 1000.0])
        return [base + rng.gauss(0, 0.5) for _ in range(n)]
    v = round(rng.gauss(0, 2), 2)
    return [v] * n                # all differences zero


def pick_n(rng, tier, i, lo=2):
    if tier == "quick":
        pool = [2, 2, 3, 3, 4, 5, 6, 7, 8, 10, 12] + ([20, 35, 50] if i % 4 == 0 else [])
    else:
        pool = [2, 3, 4, 5, 6, 7, 8, 10, 12, 16, 20, 25, 30, 40, 50]
    return max(lo, rng.choice(pool))


def gen_variant(rng, case, n, B):
    """fills variant data of a GMRF-type case with field length n"""
    v = rng.choice(["plain", "plain", "weighted", "weighted", "timeaware", "timeaware"])
    case["variant"] = v
    case["rescale"] = None
    if v == "weighted":
        case["weights"] = [logu(rng, 0.05, 20) for _ in range(n - 1)]
    elif v == "timeaware":
        case["rescale"] = rng.choice([True, True, False])
        tips = gen_tips(rng, n + 1, rng.choice(["iso", "iso", "serial"]))
        tree, h = sim_tree(rng, tips, logu(rng, 0.3, 8))
        case["tips"] = tips
        case["newick"] = newick(tree) + ";"
        rows = (B or 1) if rng.random() < 0.5 else 1
        case["heights"] = [h] + [[x * c for x in h] for c in (rng.uniform(1.0, 3.0) for _ in range(rows - 1))]


def gen_case(rng, i, tier):
    kind = KINDS[i % len(KINDS)]
    case = dict(kind=kind)
    if kind in ("gmrf", "gmrf_int"):
        n = pick_n(rng, tier, i)
        B = rng.choice([None, None, 2, 3])
        rows = B or 1
        case.update(n=n, B=B, x=[gen_field(rng, n) for _ in range(rows)])
        gen_variant(rng, case, n, B)
        if kind == "gmrf":
            case["tau"] = [logu(rng, 1e-3, 1e3) for _ in range(rows)]
        else:
            case["alpha"] = rng.choice([0.001, 0.01, 0.5, 1.0, 2.0, round(logu(rng, 0.01, 20), 3)])
            case["beta"] = rng.choice([0.001, 0.01, 0.5, 1.0, 2.0, round(logu(rng, 0.01, 20), 3)])
        return case
    n = pick_n(rng, tier, i)
    scheme = rng.choice(["iso", "serial", "serial", "ties"])
    tips = gen_tips(rng, n, scheme)
    digits = rng.choice([None, None, 1, 2])
    mode = rng.choice(["single", "single", "thB", "both"]) if kind != "const_int" else rng.choice(["single", "both"])
    B = 1 if mode == "single" else rng.choice([2, 3])
    nrow_h = B if mode == "both" else 1
    tree, h = sim_tree(rng, tips, logu(rng, 0.3, 8), digits)
    burst = None
    if kind in ("skyride", "skygrid") and rng.random() < (0.5 if mode == "single" else 0.15):
        # a deep tree in which one coalescence follows the previous event almost at once (a resolved polytomy): one
        # statistic is ten or more orders of magnitude below the running total of the others
        f = rng.choice([50.0, 200.0, 1000.0])
        tips = [t * f for t in tips]
        h = [x * f for x in h]
        ev = sorted(set(tips + h))
        cand = [j for j, x in enumerate(h) if x > ev[0]]
        if cand:
            j = rng.choice(cand)
            prev = max(e for e in tips + h if e < h[j])
            gap = rng.choice([1e-8, 1e-7, 1e-6])
            if prev + gap < h[j]:
                h[j] = prev + gap
                burst = dict(node=j, gap=gap, scaled_by=f)
    coals = [h]
    for _ in range(nrow_h - 1):
        c = rng.uniform(1.0, 3.0)
        coals.append([x * c for x in h])
    case.update(n=n, scheme=scheme, mode=mode, B=B, tips=tips, coals=coals, newick=newick(tree) + ";", digits=digits,
                burst=burst)
    if kind == "const_int":
        case["alpha"] = rng.choice([0.001, 0.5, 1.0, 3.0, round(logu(rng, 0.01, 20), 3)])
        case["beta"] = rng.choice([0.001, 0.5, 1.0, 3.0, round(logu(rng, 0.01, 20), 3)])
        return case
    grid = []
    if kind == "skygrid":
        m = rng.randint(1, 6 if tier == "quick" else 12)
        case["grid_style"] = rng.choice(["inside", "inside", "beyond", "before", "cutoff", "attips", "atcoal"])
        grid = gen_grid(rng, tips, coals, m, case["grid_style"])
    case["grid"] = grid
    k = n - 1 if kind == "skyride" else len(grid) + 1
    case["theta"] = [[logu(rng, 0.1, 20) for _ in range(k)] for _ in range(B)]
    return case


def corpus():
    """test-suite examples and minimal reproductions of the defects seen on the unchanged tree"""
    z4 = [0.0] * 4
    return [
        dict(kind="gmrf", n=5, B=None, x=[[2.0, 30.0, 4.0, 15.0, 6.0]], tau=[2.0], variant="plain", rescale=None),
        dict(kind="gmrf", n=5, B=2, x=[[2.0, 30.0, 4.0, 15.0, 6.0], [1.0, 3.0, 6.0, 8.0, 9.0]], tau=[2.0, 0.1],
             variant="plain", rescale=None),
        dict(kind="gmrf", n=2, B=None, x=[[0.0, 1.0]], tau=[1.0], variant="weighted", rescale=None, weights=[2.0]),
        dict(kind="gmrf", n=3, B=None, x=[[math.log(3.0), math.log(10.0), math.log(4.0)]], tau=[0.1],
             variant="timeaware", rescale=True, tips=z4, newick="(((T0,T1),T2),T3);", heights=[[3.0, 2.0, 4.0]]),
        dict(kind="gmrf", n=3, B=None, x=[[math.log(3.0), math.log(10.0), math.log(4.0)]], tau=[0.1],
             variant="timeaware", rescale=False, tips=z4, newick="(((T0,T1),T2),T3);", heights=[[3.0, 2.0, 4.0]]),
        dict(kind="gmrf_int", n=3, B=None, x=[[1.0, 2.0, 3.0]], alpha=0.1, beta=0.2, variant="plain", rescale=None),
        dict(kind="const_int", n=4, scheme="iso", mode="single", B=1, tips=z4, coals=[[2.0, 6.0, 12.0]],
             newick="(((T0,T1),T2),T3);", digits=None, alpha=0.5, beta=2.0),
        dict(kind="skyride", n=4, scheme="ties", mode="single", B=1, tips=[0.0, 1.0, 1.0, 0.0], coals=[[3.0, 2.0, 4.0]],
             newick="(((T0,T1),T2),T3);", digits=None, grid=[], theta=[[3.0, 10.0, 4.0]]),
        # a deep tree in which one coalescence follows the previous one after 1e-8 (a resolved polytomy): one statistic
        # is eleven orders of magnitude below the running total of the others
        dict(kind="skyride", n=5, scheme="iso", mode="single", B=1, tips=[0.0] * 5,
             coals=[[40.0, 40.00000001, 120.0, 300.0]], newick="((((T0,T1),T2),T3),T4);", digits=None, grid=[],
             theta=[[50.0, 2e-8, 60.0, 80.0]], burst=dict(node=1, gap=1e-8, scaled_by=1.0)),
        dict(kind="skygrid", n=5, scheme="serial", mode="single", B=1, tips=[0.0, 1.0, 2.0, 3.0, 12.0],
             coals=[[1.5, 4.0, 6.0, 16.0]], newick="((((T0,T1),T2),T3),T4);", digits=None, grid_style="cutoff",
             grid=[2.5, 5.0, 7.5, 10.0], theta=[[math.exp(v) for v in (1.0, 3.0, 6.0, 8.0, 9.0)]]),
        dict(kind="skygrid", n=4, scheme="iso", mode="thB", B=2, tips=z4, coals=[[1.0, 2.0, 4.0]],
             newick="(((T0,T1),T2),T3);", digits=None, grid_style="inside", grid=[1.5, 3.0],
             theta=[[3.0, 10.0, 4.0], [1.0, 2.0, 3.0]]),
    ]


# ----------------------------------------------------------------------------- implementation side

def _tree_json(case, heights_rows):
    from torchtree.evolution.tree_model import TimeTreeModel
    tips = case["tips"]
    dates = {f"T{i}": float(t) for i, t in enumerate(tips)}
    hs = heights_rows if len(heights_rows) > 1 else heights_rows[0]
    return TimeTreeModel.json_factory("tree", case["newick"], hs, dates)


def _rows(t, nrows, ncols=None):
    """tensor -> list of rows of python floats (a single sample gives one row)"""
    t = t.detach()
    t = t.reshape(nrows, -1)
    if ncols is not None and t.shape[-1] != ncols:
        raise ValueError(f"shape {tuple(t.shape)}: expected {nrows} rows of {ncols}")
    return [[float(v) for v in row] for row in t]


def _field_json(case):
    B = case["B"]
    return impl.param_json("field", case["x"] if B is not None else case["x"][0])


def _variant_json(case, d):
    if case["variant"] == "weighted":
        d["weights"] = impl.param_json("weights", case["weights"])
    elif case["variant"] == "timeaware":
        d["tree_model"] = _tree_json(case, case["heights"])
        d["rescale"] = case["rescale"]
    return d


def impl_gmrf(case):
    """GMRF built from JSON: value per row, published precision matrix per row"""
    torch = impl.load()
    from torchtree.distributions.gmrf import GMRF
    B, n = case["B"], case["n"]
    rows = B or 1
    tau = [[t] for t in case["tau"]] if B is not None else [case["tau"][0]]
    d = _variant_json(case, {"id": "gmrf", "type": "GMRF", "x": _field_json(case),
                             "precision": impl.param_json("precision", tau)})
    g = GMRF.from_json(d, {})
    val = g().detach()
    if val.numel() != rows:
        raise ValueError(f"GMRF() returned shape {tuple(val.shape)} for {rows} rows")
    pm = g.precision_matrix().detach()
    if pm.numel() != rows * n * n:
        raise ValueError(f"precision_matrix() returned shape {tuple(pm.shape)} for {rows} fields of length {n}")
    pm = pm.reshape(rows, n, n)
    return dict(value=[float(v) for v in val.reshape(-1)],
                matrix=[[[float(v) for v in r] for r in m] for m in pm])


def _row_variant_kwargs(case, r):
    """constructor arguments of the same variant for ONE row (used for the quadrature integrand)"""
    torch = impl.load()
    if case["variant"] == "weighted":
        return dict(weights=torch.tensor(case["weights"]))
    if case["variant"] == "timeaware":
        from torchtree.evolution.tree_model import TimeTreeModel
        hr = case["heights"][r if len(case["heights"]) > 1 else 0]
        tm = TimeTreeModel.from_json(_tree_json(case, [hr]), {})
        return dict(tree_model=tm, rescale=case["rescale"])
    return {}


def log_trapezoid(torch, logf, lo, hi, h=0.01):
    """ln of the integral over (0, oo) of exp(logf(t)) dt by the trapezoid rule in u = ln t"""
    u = torch.arange(lo, hi, h, dtype=torch.float64)
    vals = logf(torch.exp(u)).reshape(-1) + u
    m = vals.max()
    return float(m + torch.log(torch.exp(vals - m).sum() * h))


def impl_gmrf_int(case):
    torch = impl.load()
    from torchtree.core.parameter import Parameter
    from torchtree.distributions.gmrf import GMRF
    from torchtree.distributions.gmrf_integrated import GMRFGammaIntegrated
    B = case["B"]
    rows = B or 1
    a, b = case["alpha"], case["beta"]
    d = _variant_json(case, {"id": "gi", "type": "GMRFGammaIntegrated", "x": _field_json(case),
                             "shape": a, "rate": b})
    val = GMRFGammaIntegrated.from_json(d, {})().detach()
    if val.numel() != rows:
        raise ValueError(f"GMRFGammaIntegrated() returned shape {tuple(val.shape)} for {rows} rows")
    quad = []
    for r in range(rows):
        kw = _row_variant_kwargs(case, r)
        field = Parameter(None, torch.tensor(case["x"][r]))

        def logf(t):
            g = GMRF(None, field, Parameter(None, t.reshape(-1, 1)), kw.get("tree_model"), kw.get("weights"),
                     kw.get("rescale", True))
            gam = a * math.log(b) - math.lgamma(a) + (a - 1.0) * torch.log(t) - b * t
            return g().detach().reshape(-1) + gam
        quad.append(log_trapezoid(torch, logf, -230.0, 60.0))
    return dict(value=[float(v) for v in val.reshape(-1)], quadrature=quad)


def impl_const_int(case):
    torch = impl.load()
    from torchtree.evolution import coalescent as K
    a, b = case["alpha"], case["beta"]
    rows = case["B"]
    d = {"id": "ci", "type": "ConstantCoalescentIntegratedModel", "alpha": a, "beta": b,
         "tree_model": _tree_json(case, case["coals"])}
    m = K.ConstantCoalescentIntegratedModel.from_json(d, {})
    val = m().detach()
    if val.numel() != rows:
        raise ValueError(f"ConstantCoalescentIntegratedModel() returned shape {tuple(val.shape)} for {rows} rows")
    nh = m.tree_model.node_heights.detach()
    direct = K.ConstantCoalescentIntegrated(a, b).log_prob(nh).detach()
    quad = []
    for r in range(rows):
        nhr = torch.tensor(case["tips"] + case["coals"][r])

        def logf(t):
            lp = K.ConstantCoalescent(t.reshape(-1, 1)).log_prob(nhr).detach().reshape(-1)
            ig = a * math.log(b) - math.lgamma(a) - (a + 1.0) * torch.log(t) - b / t
            return lp + ig
        quad.append(log_trapezoid(torch, logf, -120.0, 150.0))
    return dict(value=[float(v) for v in val.reshape(-1)], direct=[float(v) for v in direct.reshape(-1)],
                quadrature=quad)


def impl_suff(case):
    """sufficient_statistics() and log_prob of the skyride / skygrid distribution, the way the block-update
    operator obtains them: model built from JSON -> distribution() -> sufficient_statistics(node_heights)"""
    torch = impl.load()
    from torchtree.evolution import coalescent as K
    grid = case["kind"] == "skygrid"
    cls = K.PiecewiseConstantCoalescentGridModel if grid else K.PiecewiseConstantCoalescentModel
    mode, B, n = case["mode"], case["B"], case["n"]
    th = case["theta"] if mode != "single" else case["theta"][0]
    d = {"id": "coalescent", "type": cls.__name__, "theta": impl.param_json("theta", th)}
    if mode == "both":
        d["tree_model"] = _tree_json(case, case["coals"])
    else:
        d["times"] = case["tips"] + case["coals"][0]
        d["events"] = [1] * n + [0] * (n - 1)
    if grid:
        d["grid"] = list(case["grid"])
    m = cls.from_json(d, {})
    nh = m.tree_model.node_heights
    dist = m.distribution()
    lp = m().detach()
    if lp.numel() != B:
        raise ValueError(f"model call returned shape {tuple(lp.shape)} for {B} rows")
    ss, cc = dist.sufficient_statistics(nh)
    k = len(case["theta"][0])
    out = dict(log_prob=[float(v) for v in lp.reshape(-1)], ss_shape=list(ss.shape), cc_shape=list(cc.shape),
               ss_raw=[float(v) for v in ss.detach().reshape(-1)][:64],
               cc_raw=[float(v) for v in cc.detach().reshape(-1)][:64], ss=None, cc=None)
    # a single sample publishes [k]; a batch publishes [B,k] (the operator indexes row i)
    want = [k] if mode == "single" else [B, k]
    if list(ss.shape) == want and list(cc.shape) == want:
        out["ss"] = _rows(ss, B, k)
        out["cc"] = _rows(cc, B, k)
    return out


RUNNERS = {"gmrf": impl_gmrf, "gmrf_int": impl_gmrf_int, "const_int": impl_const_int,
           "skyride": impl_suff, "skygrid": impl_suff}


# ----------------------------------------------------------------------------- comparers

def fclose(a, b, rtol=RTOL, floor=1.0):
    if a is None or b is None or math.isnan(a) or math.isnan(b) or math.isinf(a) or math.isinf(b):
        return False
    return abs(a - b) <= rtol * max(floor, abs(a), abs(b))


def close(x, iv, rtol=RTOL, floor=1.0):
    """implementation value x against the enclosure iv: True / False / None (model undefined)"""
    if iv is None:
        return None
    if x is None or math.isnan(x) or math.isinf(x):
        return False
    lo, hi = iv
    tol = Fraction(rtol) * max(Fraction(floor), abs(lo), abs(hi)) + Fraction(1, 10 ** 300)
    if not math.isfinite(x):
        return False
    return lo - tol <= Fraction(x) <= hi + tol


def short(case):
    keys = [k for k in ("kind", "variant", "rescale", "n", "B", "mode", "x", "tau", "weights", "heights", "alpha",
                        "beta", "tips", "coals", "grid", "theta") if k in case and case[k] is not None]
    txt = " ".join(f"{k}={case[k]}" for k in keys)
    return txt if len(txt) <= 380 else txt[:380] + " ... (full case in the replay file)"


def cls_of(case):
    return {"gmrf": "GMRF", "gmrf_int": "GMRFGammaIntegrated", "const_int": "ConstantCoalescentIntegrated",
            "skyride": "PiecewiseConstantCoalescent", "skygrid": "PiecewiseConstantCoalescentGrid"}[case["kind"]]


IGNORED_KEY = {"weighted": "C20:GMRF.precision_matrix:weights-ignored",
               "timeaware": "C20:GMRF.precision_matrix:tree_model-ignored"}


def exact_quad(M, x):
    """x' M x in exact rational arithmetic on the doubles"""
    fx = [Fraction(v) for v in x]
    return sum(fx[i] * sum(Fraction(M[i][j]) * fx[j] for j in range(len(x)) if M[i][j] != 0.0)
               for i in range(len(x)))


def plain_sum(x):
    fx = [Fraction(v) for v in x]
    return sum((a - b) ** 2 for a, b in zip(fx[:-1], fx[1:]))


# ----------------------------------------------------------------------------- property on the implementation

def property_on_impl(case, o):
    """The property evaluated on implementation outputs alone -> list of (key, text)."""
    bad = []
    kind = case["kind"]
    if kind == "gmrf":
        d = case["n"] - 1
        for r, (val, M) in enumerate(zip(o["value"], o["matrix"])):
            x, tau = case["x"][r], case["tau"][r]
            q = exact_quad(M, x)
            gauss = 0.5 * d * math.log(tau) - 0.5 * float(q) - 0.5 * d * LN2PI
            scale = max(1.0, abs(0.5 * d * math.log(tau)), abs(0.5 * float(q)), 0.5 * d * LN2PI)
            # the published entries are doubles: each carries a rounding of 1 ulp, and in x'Qx these roundings are
            # multiplied by x_i x_j without cancelling (a field with a large common offset: |x|^2 / |dx|^2 conditioning)
            cond = sum(abs(M[i][j] * x[i] * x[j]) for i in range(len(x)) for j in range(len(x)))
            if abs(gauss - val) > RTOL * scale + 4 * 2.3e-16 * cond:
                v = case["variant"]
                if v in IGNORED_KEY and abs(float(q) - float(plain_sum(x) * Fraction(tau))) <= 1e-9 * max(1e-300, abs(float(q))):
                    key = IGNORED_KEY[v]      # the published matrix is the one of the UNWEIGHTED field
                else:
                    key = f"C20:GMRF:{v}:published-matrix-is-not-the-quadratic-form"
                bad.append((key, f"GMRF() = {val!r} but (d/2) ln tau - x'Qx/2 - (d/2) ln 2pi with Q = precision_matrix() "
                                 f"is {gauss!r} (x'Qx = {float(q)!r}, row {r}); {short(case)}"))
                break
            if any(M[i][j] != M[j][i] for i in range(len(x)) for j in range(i)):
                bad.append((f"C20:GMRF.precision_matrix:{case['variant']}:not-symmetric",
                            f"precision_matrix() is not symmetric (row {r}); {short(case)}"))
                break
    elif kind in ("gmrf_int", "const_int"):
        name = cls_of(case)
        for r, (val, qd) in enumerate(zip(o["value"], o["quadrature"])):
            if not fclose(val, qd, QTOL):
                what = ("Gamma(tau; shape, rate) * GMRF(x | tau) over the precision" if kind == "gmrf_int" else
                        "InvGamma(theta; alpha, beta) * ConstantCoalescent(T | theta) over the population size")
                sub = f":{case['variant']}" if kind == "gmrf_int" else ""
                bad.append((f"C20:{name}{sub}:not-the-integral",
                            f"{name} = {val!r} but numerical integration of {what} gives {qd!r} (row {r}); {short(case)}"))
                break
        if kind == "const_int" and not all(fclose(a, b) for a, b in zip(o["value"], o["direct"])):
            bad.append((f"C20:{name}:model-call-differs-from-log_prob",
                        f"model call {o['value']} vs ConstantCoalescentIntegrated.log_prob {o['direct']}; {short(case)}"))
    else:
        name = cls_of(case)
        sub = "batched" if case["mode"] != "single" else "single"
        if o["ss"] is None:
            bad.append((f"C20:{name}.sufficient_statistics:{sub}",
                        f"sufficient_statistics() returned shapes {o['ss_shape']} / {o['cc_shape']} "
                        f"(values {o['ss_raw'][:8]} / {o['cc_raw'][:8]}) for {case['B']} sample(s) of "
                        f"{len(case['theta'][0])} population sizes: they cannot reproduce log_prob = {o['log_prob']}; "
                        f"{short(case)}"))
        else:
            for r in range(case["B"]):
                th = case["theta"][r if case["mode"] != "single" else 0]
                ss, cc = o["ss"][r], o["cc"][r]
                rec = -sum(s / t for s, t in zip(ss, th)) - sum(c * math.log(t) for c, t in zip(cc, th))
                scale = max(1.0, sum(abs(s / t) for s, t in zip(ss, th)), sum(abs(c * math.log(t)) for c, t in zip(cc, th)))
                if abs(rec - o["log_prob"][r]) > RTOL * scale or math.isnan(rec):
                    bad.append((f"C20:{name}.sufficient_statistics:{sub}",
                                f"-sum ss_j/theta_j - sum c_j ln theta_j = {rec!r} but log_prob = {o['log_prob'][r]!r} "
                                f"(ss = {ss[:8]}, counts = {cc[:8]}, row {r}); {short(case)}"))
                    break
    return bad


# ----------------------------------------------------------------------------- model side

def qvariant(case, r):
    v = case["variant"]
    if v == "plain":
        return "QPlain"
    if v == "weighted":
        return f"(QWeighted {C.qlist(case['weights'])})"
    h = case["heights"][r if len(case["heights"]) > 1 else 0]
    return f"(QTimeAware {C.qlist(h)} {'true' if case['rescale'] else 'false'})"


def lit_i(x):
    return f"(ofQ NumI {C.qlit(x)})"


def coq_exprs(case, r):
    """Gallina expressions (type list bigZ) for row r of a case"""
    kind = case["kind"]
    if kind == "gmrf":
        V, x, tau = qvariant(case, r), C.qlist(case["x"][r]), C.qlit(case["tau"][r])
        return [f"show_i (gmrf_q NumI L2PI {V} {x} {tau}) ++ "
                f"concat (map show_i (precision_matrix_q NumI {V} {tau} {C.natlit(case['n'])}))"]
    if kind == "gmrf_int":
        a, b, d = case["alpha"], case["beta"], case["n"] - 1
        return [f"show_i (gmrf_integrated_q NumI L2PI {C.qlit(a)} {C.qlit(b)} {lit_i(math.lgamma(a))} "
                f"{lit_i(math.lgamma(a + d / 2.0))} {qvariant(case, r)} {C.qlist(case['x'][r])})"]
    tips = C.qlist(case["tips"])
    coals = C.qlist(case["coals"][r if case["mode"] == "both" else 0])
    if kind == "const_int":
        a, b, m = case["alpha"], case["beta"], case["n"] - 1
        return [f"show_i (const_integrated_q NumI {C.qlit(a)} {C.qlit(b)} {lit_i(math.lgamma(a))} "
                f"{lit_i(math.lgamma(a + m))} {tips} {coals})"]
    th = C.qlist(case["theta"][r if case["mode"] != "single" else 0])
    if kind == "skyride":
        return [f"show_i (skyride_rec_q NumI {th} {tips} {coals}) ++ concat (map show_i (skyride_ss_q NumI {tips} {coals}))"]
    g = C.qlist(case["grid"])
    return [f"show_i (skygrid_rec_q NumI {th} {g} {tips} {coals}) ++ "
            f"concat (map show_i (skygrid_ss_q NumI {g} {tips} {coals})) ++ shown (skygrid_counts_q NumI {g} {tips} {coals})"]


def ivals(flat, count):
    return [C.ival_to_fracs(flat[6 * k:6 * k + 6]) for k in range(count)]


def compare(case, r, o, flat):
    """-> (list of (key, text, found_input), number of undefined model values, number of compared values)"""
    kind, out, undefined, compared = case["kind"], [], 0, 0
    name = cls_of(case)

    def chk(x, iv, floor, what, key, found=True):
        nonlocal undefined, compared
        compared += 1
        ok = close(x, iv, RTOL, floor)
        if ok is None:
            undefined += 1
            if x is not None and not (math.isnan(x) or math.isinf(x)):
                ok = False
        if ok is False:
            mtxt = "undefined" if iv is None else repr(float(iv[0]))
            out.append((key, f"{what} = {x!r} but the model (interval run) gives {mtxt} (row {r}); {short(case)}", found))
            return False
        return True

    if kind == "gmrf":
        n = case["n"]
        iv = ivals(flat, 1 + n * n)
        if len(flat) != 6 * (1 + n * n):
            return [(f"C20:model-impl-differ:{kind}", f"model returned {len(flat)} numbers for n={n}", False)], 0, 0
        chk(o["value"][r], iv[0], 1.0, "GMRF()", f"C20:GMRF:{case['variant']}:log-density-differs-from-model")
        M = o["matrix"][r]
        v = case["variant"]
        for i in range(n):
            for j in range(n):
                compared += 1
                ok = close(M[i][j], iv[1 + i * n + j], RTOL, 0.0)
                if ok is None:
                    undefined += 1
                elif ok is False:
                    tau = case["tau"][r]
                    plain = all(fclose(M[a][b], (0.0 if abs(a - b) > 1 else -tau if a != b else
                                                 tau if a in (0, n - 1) else 2 * tau), RTOL, 0.0)
                                for a in range(n) for b in range(n))
                    if v in IGNORED_KEY and plain:
                        key = IGNORED_KEY[v]
                        txt = (f"precision_matrix() returns the matrix of the UNWEIGHTED field for a {v} GMRF: entry "
                               f"[{i}][{j}] = {M[i][j]!r}, the precision matrix of the density GMRF() computes has "
                               f"{float(iv[1 + i * n + j][0])!r} (row {r}); {short(case)}")
                    else:
                        key = f"C20:GMRF.precision_matrix:{v}:differs-from-model"
                        txt = (f"precision_matrix()[{i}][{j}] = {M[i][j]!r} but the precision matrix of the density is "
                               f"{float(iv[1 + i * n + j][0])!r} (row {r}); {short(case)}")
                    out.append((key, txt, True))
                    return out, undefined, compared
        return out, undefined, compared
    if kind in ("gmrf_int", "const_int"):
        iv = ivals(flat, 1)
        sub = f":{case['variant']}" if kind == "gmrf_int" else ""
        chk(o["value"][r], iv[0], 1.0, f"{name}()", f"C20:{name}{sub}:differs-from-model")
        return out, undefined, compared
    k = len(case["theta"][0])
    sub = "batched" if case["mode"] != "single" else "single"
    nvals = 1 + k
    iv = ivals(flat, nvals)
    counts = list(flat[6 * nvals:]) if kind == "skygrid" else [1] * k
    if len(counts) != k or len(flat) < 6 * nvals:
        return [(f"C20:model-impl-differ:{kind}", f"model returned {len(flat)} numbers for {k} groups", False)], 0, 0
    # the model's reconstruction from ITS statistics against the implementation's log_prob
    chk(o["log_prob"][r], iv[0], 1.0, "log_prob", f"C20:{name}:log_prob-differs-from-model-reconstruction", False)
    if o["ss"] is not None:
        key = f"C20:{name}.sufficient_statistics:{sub}"
        for j in range(k):
            if not chk(o["ss"][r][j], iv[1 + j], 0.0, f"sufficient_statistics()[0][{j}]", key):
                break
            compared += 1
            if o["cc"][r][j] != counts[j]:
                out.append((key, f"sufficient_statistics()[1][{j}] = {o['cc'][r][j]!r} coalescent events but the group "
                                 f"holds {counts[j]} (row {r}); {short(case)}", True))
                break
    return out, undefined, compared


# ----------------------------------------------------------------------------- run

def run(tier, seed, replay=None):
    rep = C.Report(PID, tier, seed)
    rep.trusted = C.COMMON_TRUSTED + [
        "hand-written models model/M_gmrf.v, model/M_suffstat.v (on the event/interval machinery of "
        "model/M_coalescent.v) tied by interval-run correspondence on GMRF(), precision_matrix(), "
        "GMRFGammaIntegrated(), ConstantCoalescentIntegratedModel(), sufficient_statistics(), log_prob",
        "lgamma oracle: the integral theorems assume the Gamma / inverse-Gamma kernel normalisation "
        "int t^(a-1) e^(-bt) dt = exp(Lg a)/b^a (named hypotheses gamma_kernel_normalised / "
        "invgamma_kernel_normalised; Coq's libraries have no Gamma function); the interval runs take "
        "Python's math.lgamma values as point inputs",
        "ln(2 pi): theorems hold for any value of the constant; interval runs use ln(2 * I.pi) (proved enclosure)",
        "Paramcoq-generated free theorems + Interval library correctness lemmas (kernel-checked)",
        "numerical quadrature (trapezoid rule in ln t, python/torch float64) for the always-on integral check, "
        "tolerance 1e-6",
        "modelled not verified: torch.argsort/gather/cumsum/tensor_split and float64 rounding of pow/log/sum "
        "(compared under relative 1e-9); batched evaluation = map over rows (checked by correspondence)"]
    rng = random.Random(seed)
    ncases = 300 if tier == "quick" else 3000
    cases = corpus() + [gen_case(rng, i, tier) for i in range(ncases)]
    if replay:
        cases = [json.load(open(replay))["replay"]["case"]]
    known = {k["key"] for k in C.load_known() if k["property"] == PID and k.get("status") == "known"}

    # ---- implementation runs
    t0 = time.time()
    outs = []
    for c in cases:
        try:
            outs.append(RUNNERS[c["kind"]](c))
        except Exception as e:
            outs.append(e)
    rep.timings["impl"] = round(time.time() - t0, 2)

    def impl_findings():
        found = {}
        for c, o in zip(cases, outs):
            if isinstance(o, Exception):
                sub = c.get("variant") or c.get("mode")
                fs = [(f"C20:{cls_of(c)}:{sub}:raises", f"{type(o).__name__}: {str(o)[:200]} on {short(c)}")]
            else:
                fs = property_on_impl(c, o)
            for k, what in fs:
                found.setdefault(k, (k, what, dict(case=c)))
        return list(found.values())

    C.handle_proof(rep, PID, lambda: [f for f in impl_findings() if f[0] not in known])
    for f in impl_findings():
        rep.violation(*f)

    # ---- correspondence: NumI run of the model vs implementation
    t0 = time.time()
    exprs, index = [], []
    for ci, (c, o) in enumerate(zip(cases, outs)):
        if isinstance(o, Exception):
            continue
        if c.get("grid_style") == "atcoal":
            continue            # a coalescence exactly on a grid point: outside the model's hypothesis (no_tie)
        rows = (c["B"] or 1)
        for r in range(rows):
            for e in coq_exprs(c, r):
                exprs.append(e)
                index.append((ci, r))
    res = C.run_cases(PID, HEADER, exprs, shard=max(6, len(exprs) // 32 + 1))
    rep.timings["model_eval"] = round(time.time() - t0, 2)
    undefined, compared, dist = 0, 0, {}
    for (ci, r), flat in zip(index, res):
        c, o = cases[ci], outs[ci]
        size = "2-5" if c["n"] <= 5 else "6-12" if c["n"] <= 12 else "13-50"
        tag = f"{c['kind']}/{c.get('variant') or c.get('mode')}/{'batched' if (c['B'] or 1) > 1 else 'single'}/n={size}"
        dist[tag] = dist.get(tag, 0) + 1
        sample = dict(case=c, impl={k: v for k, v in o.items() if k != "matrix"})
        rep.case(dict(c=c, r=r), nontrivial=c["n"] >= 3, sample=sample)
        found, u, n = compare(c, r, o, flat)
        undefined += u
        compared += n
        for key, what, found_input in found:
            if found_input:
                rep.violation(key, what, dict(case=c, row=r))
            else:
                rep.violation(key, what, dict(case=c, row=r, broken="correspondence M_gmrf / M_suffstat vs implementation"),
                              False)
    # ---- same-object histories: GMRF() and the PUBLISHED matrix after assignments == fresh object
    t0h = time.time()
    hrng = random.Random(seed + 17)
    nh, hist_found = 0, {}
    gm = [c for c in cases if c.get("kind") == "gmrf"]
    hrng.shuffle(gm)
    for c in gm[:(60 if tier == "quick" else 400)]:
        try:
            impl.load()
            from torchtree.distributions.gmrf import GMRF
            B = c["B"]
            tau = [[t] for t in c["tau"]] if B is not None else [c["tau"][0]]
            d = _variant_json(c, {"id": "gmrf", "type": "GMRF", "x": _field_json(c),
                                  "precision": impl.param_json("precision", tau)})
            if isinstance(d.get("tree_model"), dict):      # json_factory leaves the heights anonymous
                d["tree_model"]["internal_heights"]["id"] = "tree.heights"
            g = H.tracked(GMRF, d)
        except Exception:
            continue
        obs = lambda o: [o().detach().tolist(), o.precision_matrix().detach().tolist()]
        reads = [("precision_matrix", lambda o: o.precision_matrix()), ("call", lambda o: o()),
                 ("node_heights", lambda o: o.tree_model.node_heights if o.tree_model is not None else None)]
        fs = H.run(g, obs, hrng, steps=2, reads=reads)
        nh += 1
        for f in fs:
            k = f"C20:history:GMRF:{c['variant']}"
            hist_found.setdefault(k, (k, f"after the history {f['history']} GMRF() / precision_matrix() of the same object "
                                         f"differ from a freshly built one: {f['on_same_object']} vs {f['fresh_object']}",
                                      dict(case=c, history=f)))
    for f in hist_found.values():
        rep.violation(*f)
    rep.timings["histories"] = round(time.time() - t0h, 2)
    rep.rule = ("random cases over GMRF (plain / weights / time-aware with and without rescale), GMRFGammaIntegrated "
                "(same variants; shape, rate from 1e-3 to 20), ConstantCoalescentIntegratedModel, "
                "PiecewiseConstantCoalescent(Grid).sufficient_statistics: field length / taxa 2..12 (every fourth case "
                "up to 50) quick, 2..50 thorough; fields = random walks, iid, large common offset, constant; precision "
                "log-uniform 1e-3..1e3; trees simulated under the serial coalescent (isochronous / serial / serial with "
                "ties, times full precision or on a decimal lattice), internal heights in node order (unsorted); grids "
                "inside / beyond the root / before the first coalescence / cutoff / on sampling times (never exactly on a "
                "coalescent time); single and batched ([B] fields + precisions, [B] thetas, [B] thetas and heights); all "
                "objects built from JSON; plus test-suite examples and minimal reproductions of known defects.  "
                "non-trivial = at least 3 field entries / taxa; distinct = distinct (case,row)")
    rep.extra = dict(input_distribution=dist, model_undefined=undefined, traces_validated_against_impl=compared,
                     direct_property_checks="on every case: x'Qx with the PUBLISHED precision_matrix() (exact rational "
                                            "arithmetic on the doubles) vs GMRF(); -sum ss/theta - sum c ln theta from the "
                                            "published sufficient statistics vs log_prob; GMRFGammaIntegrated / "
                                            "ConstantCoalescentIntegrated vs trapezoid quadrature in ln t of prior density x "
                                            "GMRF() / ConstantCoalescent.log_prob evaluated by the implementation",
                     tolerance=dict(correspondence=RTOL, identities=RTOL, quadrature=QTOL))
    return rep.finish()
