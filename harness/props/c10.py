"""C10 — catalogue of callable models / transforms constructible from JSON, for the slice oracle.

A Spec names a class configuration, its parameters (name -> base shape + value generator) and a
`build(vals)` that constructs the object through the public JSON route (`from_json`) from plain
nested lists and returns the list of observable tensors (`model()`; for transformed parameters the
transformed tensor and the log-Jacobian).  A parameter is *batched* by giving it a value of shape
sample_shape + base_shape; the slice oracle re-builds the object with slice s of every batched value.
"""
import math
from collections import OrderedDict

from harness import impl

# ----------------------------------------------------------------------------- value generators


def g_pos(lo=0.2, hi=3.0):
    def g(rng, shape):
        return _fill(shape, lambda: math.exp(rng.uniform(math.log(lo), math.log(hi))))
    return g


def g_unit(lo=0.1, hi=0.9):
    def g(rng, shape):
        return _fill(shape, lambda: rng.uniform(lo, hi))
    return g


def g_real(lo=-1.5, hi=1.5):
    def g(rng, shape):
        return _fill(shape, lambda: rng.uniform(lo, hi))
    return g


def g_real0(lo=-1.5, hi=1.5, p0=0.3):
    """reals with an exact 0.0 now and then (a boundary value some densities treat by a separate formula)"""
    def g(rng, shape):
        return _fill(shape, lambda: 0.0 if rng.random() < p0 else rng.uniform(lo, hi))
    return g


def g_fixed(values):
    def g(rng, shape):
        return list(values)
    return g


def g_cycle(rows):
    """successive calls return the successive entries of `rows` (one call per sample when the parameter is batched)"""
    state = [0]

    def g(rng, shape):
        v = rows[state[0] % len(rows)]
        state[0] += 1
        return list(v)
    return g


def g_simplex():
    def g(rng, shape):
        assert len(shape) == 1
        x = [rng.gammavariate(2.0, 1.0) + 0.05 for _ in range(shape[0])]
        s = sum(x)
        return [v / s for v in x]
    return g


def g_sorted(lo=0.3, hi=3.0):
    """increasing positive values (internal heights of a caterpillar tree in postorder indexing)"""
    def g(rng, shape):
        assert len(shape) == 1
        x, cur = [], 0.0
        for _ in range(shape[0]):
            cur += math.exp(rng.uniform(math.log(lo), math.log(hi)))
            x.append(cur)
        return x
    return g


def g_spd():
    """symmetric positive definite matrix"""
    def g(rng, shape):
        n = shape[0]
        a = [[rng.uniform(-1, 1) for _ in range(n)] for _ in range(n)]
        return [[sum(a[i][k] * a[j][k] for k in range(n)) + (1.0 if i == j else 0.0) for j in range(n)]
                for i in range(n)]
    return g


def g_tril():
    def g(rng, shape):
        n = shape[0]
        return [[(math.exp(rng.uniform(-0.5, 0.5)) if i == j else (rng.uniform(-0.5, 0.5) if j < i else 0.0))
                 for j in range(n)] for i in range(n)]
    return g


def g_counts():
    def g(rng, shape):
        return _fill(shape, lambda: float(rng.randint(0, 4)))
    return g


def _fill(shape, f):
    if not shape:
        return f()
    return [_fill(shape[1:], f) for _ in range(shape[0])]


# ----------------------------------------------------------------------------- spec


class Spec:
    def __init__(self, key, params, json, group, observe=None, comps=None):
        self.key = key
        self.params = OrderedDict(params)     # name -> (shape tuple, generator)
        self.json = json                      # vals -> JSON dict (None for joint specs)
        self.observe = observe or (lambda m: [m()])
        self.group = group
        self.comps = comps                    # joint specs: component descriptors
        self.subs = None

    def make(self, vals):
        return from_json(self.json(vals))

    def build(self, vals):
        """-> list of observable tensors"""
        return self.observe(self.make(vals))


def P(id_, v):
    return impl.param_json(id_, v)


def taxa_json(n, dates=None):
    dates = dates or [0.0] * n
    return {"id": "taxa", "type": "Taxa", "taxa": [
        {"id": f"t{i}", "type": "Taxon", "attributes": {"date": dates[i]}} for i in range(n)]}


def caterpillar(n):
    s = "(t0,t1)"
    for i in range(2, n):
        s = f"({s},t{i})"
    return s + ";"


SEQS = {3: ["ACGTAAC", "ACGTCAT", "AAGTCGT"], 4: ["ACGTAAC", "ACGTCAT", "AAGTCGT", "CAGTTGA"]}


def tree_json(kind, n, vals, dates=None):
    if kind == "unrooted":
        return {"id": "tree", "type": "UnRootedTreeModel", "newick": caterpillar(n), "taxa": taxa_json(n),
                "branch_lengths": P("bl", vals["bl"])}
    if kind == "time":
        return {"id": "tree", "type": "TimeTreeModel", "newick": caterpillar(n), "taxa": taxa_json(n, dates),
                "internal_heights": P("heights", vals["heights"])}
    if kind == "ratio":
        return {"id": "tree", "type": "ReparameterizedTimeTreeModel", "newick": caterpillar(n),
                "taxa": taxa_json(n, dates), "ratios": P("ratios", vals["ratios"]),
                "root_height": P("root_height", vals["root_height"])}
    if kind == "shift":
        return {"id": "tree", "type": "ReparameterizedTimeTreeModel", "newick": caterpillar(n),
                "taxa": taxa_json(n, dates), "shifts": P("shifts", vals["shifts"])}
    raise ValueError(kind)


def tree_params(kind, n, dates=None):
    top = max(dates) if dates else 0.0
    if kind == "unrooted":
        return [("bl", ((2 * n - 3,), g_pos(0.01, 0.5)))]
    if kind == "time":
        return [("heights", ((n - 1,), g_sorted(0.2 + top, 1.5 + top)))]
    if kind == "ratio":
        return [("ratios", ((n - 2,), g_unit())), ("root_height", ((1,), g_pos(top + 0.5, top + 3.0)))]
    if kind == "shift":
        return [("shifts", ((n - 1,), g_pos(0.1, 1.5)))]
    raise ValueError(kind)


def from_json(d):
    impl.load()
    from torchtree.core.utils import process_object
    return process_object(d, {})


# ----------------------------------------------------------------------------- tree likelihood


def like_spec(subst, site, tree, n=3, cat=4, tip="partials", long_branches=False):
    params = list(tree_params("unrooted" if tree == "unrooted" else "ratio", n))
    if long_branches:
        # hundreds of taxa and long branches: the plain recursion underflows, so the FIRST evaluation of a model
        # goes through the evaluation that detects it, and later ones through the rescaled recursion
        params = [("bl", ((2 * n - 3,), g_pos(0.6, 2.5)))]
    seqs = SEQS[n] if n in SEQS else ["A" + "ACGT"[(j * j + j // 3) % 4] + ("C" if j % 16 == 0 else "A") for j in range(n)]
    if subst == "HKY":
        params += [("kappa", ((1,), g_pos(0.5, 5.0))), ("freqs", ((4,), g_simplex()))]
    elif subst == "GTR":
        params += [("rates", ((6,), g_pos(0.2, 4.0))), ("freqs", ((4,), g_simplex()))]
    elif subst in ("GS", "GN"):
        params += [("rates", ((6 if subst == "GS" else 12,), g_pos(0.2, 4.0))), ("freqs", ((4,), g_simplex()))]
    if "weibull" in site:
        params += [("shape", ((1,), g_pos(0.3, 3.0)))]
    if "inv" in site:
        params += [("pinv", ((1,), g_unit(0.05, 0.6)))]
    if "mu" in site:
        params += [("mu", ((1,), g_pos(0.3, 3.0)))]
    if tree == "strict":
        params += [("rate", ((1,), g_pos(0.01, 0.3)))]
    elif tree == "simple":
        params += [("rate", ((2 * n - 2,), g_pos(0.01, 0.3)))]

    def js(v):
        tj = tree_json("unrooted" if tree == "unrooted" else "ratio", n, v)
        if subst == "JC69":
            sj = {"id": "m", "type": "JC69"}
        elif subst == "HKY":
            sj = {"id": "m", "type": "HKY", "kappa": P("kappa", v["kappa"]), "frequencies": P("freqs", v["freqs"])}
        elif subst in ("GS", "GN"):
            sj = {"id": "m", "type": "GeneralSymmetricSubstitutionModel" if subst == "GS" else
                  "GeneralNonSymmetricSubstitutionModel",
                  "data_type": {"id": "gdt", "type": "GeneralDataType", "codes": ["A", "C", "G", "T"]},
                  "rates": P("rates", v["rates"]), "frequencies": P("freqs", v["freqs"])}
            if subst == "GN":
                sj["normalize"] = True
        else:
            sj = {"id": "m", "type": "GTR", "rates": P("rates", v["rates"]), "frequencies": P("freqs", v["freqs"])}
        if "weibull" in site:
            mj = {"id": "sm", "type": "WeibullSiteModel", "categories": cat, "shape": P("shape", v["shape"])}
        elif site.startswith("invariant"):
            mj = {"id": "sm", "type": "InvariantSiteModel"}
        else:
            mj = {"id": "sm", "type": "ConstantSiteModel"}
        if "inv" in site:
            mj["invariant"] = P("pinv", v["pinv"])
        if "mu" in site:
            mj["mu"] = P("mu", v["mu"])
        aln = {"id": "aln", "type": "Alignment", "datatype": "gdt" if subst in ("GS", "GN") else "nucleotide", "taxa": "taxa",
               "sequences": [{"taxon": f"t{j}", "sequence": seqs[j]} for j in range(n)]}
        d = {"id": "like", "type": "TreeLikelihoodModel", "tree_model": tj, "site_model": mj,
             "substitution_model": sj, "site_pattern": {"id": "sp", "type": "SitePattern", "alignment": aln}}
        if tree != "unrooted":
            d["branch_model"] = {"id": "clock", "type": "StrictClockModel" if tree == "strict" else "SimpleClockModel",
                                 "tree_model": "tree", "rate": P("rate", v["rate"])}
        if tip == "states":
            d["use_tip_states"] = True
        return d
    key = f"TreeLikelihoodModel/{subst}/{site}" + (f"{cat}" if "weibull" in site else "") + f"/{tree}/n{n}" + \
          ("/tipstates" if tip == "states" else "") + ("/underflow" if long_branches else "")
    if long_branches:
        # observed twice: the evaluation that detects the underflow, and the next one (rescaled recursion)
        return Spec(key, params, js, "treelikelihood", observe=lambda m: [m(), m()])
    return Spec(key, params, js, "treelikelihood")


# ----------------------------------------------------------------------------- coalescent, BDSK, tree priors


def coal_spec(model, tree, n=3, pieces=3, dates=None):
    params = list(tree_params(tree, n, dates)) if tree != "fake" else []
    if model in ("constant", "exponential", "pwexp"):
        params += [("theta", ((1 if model != "pwexp" else pieces,), g_pos(0.5, 5.0)))]
    elif model == "skyride":
        params += [("theta", ((n - 1,), g_pos(0.5, 5.0)))]
    elif model in ("skygrid", "linear", "softskygrid"):
        params += [("theta", ((pieces,), g_pos(0.5, 5.0)))]
    if model == "exponential":
        params += [("growth", ((1,), g_real0(0.1, 1.0)))]
    if model == "pwexp":
        params += [("growth", ((pieces,), g_real(0.1, 1.0)))]
    cls = {"constant": "ConstantCoalescentModel", "exponential": "ExponentialCoalescentModel",
           "skyride": "PiecewiseConstantCoalescentModel", "skygrid": "PiecewiseConstantCoalescentGridModel",
           "softskygrid": "PiecewiseConstantCoalescentGridModel",
           "linear": "PiecewiseLinearCoalescentGridModel", "pwexp": "PiecewiseExponentialCoalescentGridModel",
           "integrated": "ConstantCoalescentIntegratedModel"}[model]

    def js(v):
        d = {"id": "coal", "type": cls}
        if model != "integrated":
            d["theta"] = P("theta", v["theta"])
        else:
            d["alpha"], d["beta"] = 2.0, 1.5
        if "growth" in v:
            d["growth"] = P("growth", v["growth"])
        if model in ("skygrid", "linear", "pwexp", "softskygrid"):
            d["grid"] = [0.8 * (j + 1) for j in range(pieces - 1)]
        if model == "softskygrid":
            d["temperature"] = 0.1
        if tree == "fake":
            d["times"] = [0.0, 0.0, 0.0, 0.7, 1.9][: 2 * n - 1] if n == 3 else [0.0] * n + [0.5 * (j + 1) for j in range(n - 1)]
            d["events"] = [1] * n + [0] * (n - 1)
        else:
            d["tree_model"] = tree_json(tree, n, v, dates)
        return d
    key = f"{cls}/{tree}/n{n}" + (f"/pieces{pieces}" if model in ("skygrid", "linear", "pwexp", "softskygrid") else "") + \
          ("/soft" if model == "softskygrid" else "") + ("/dated" if dates else "")
    return Spec(key, params, js, "coalescent")


def bdsk_spec(tree, n=3, m=1, rho=False, times=False, dates=None):
    params = list(tree_params(tree, n, dates))
    params += [("R", ((m,), g_pos(1.2, 3.0))), ("delta", ((m,), g_pos(0.5, 2.0))), ("s", ((m,), g_unit(0.1, 0.6))),
               ("origin", ((1,), g_pos(0.3, 2.0)))]
    if rho:
        params += [("rho", ((1,), g_unit(0.2, 0.8)))]

    def js(v):
        d = {"id": "bdsk", "type": "BDSKModel", "tree_model": tree_json(tree, n, v, dates),
             "R": P("R", v["R"]), "delta": P("delta", v["delta"]), "s": P("s", v["s"]),
             "origin": P("origin", v["origin"]), "origin_is_root_edge": True}
        if rho:
            d["rho"] = P("rho", v["rho"])
        return d
    key = f"BDSKModel/{tree}/n{n}/m{m}" + ("/rho" if rho else "") + ("/dated" if dates else "")
    return Spec(key, params, js, "bdsk")


def bdsk_coincide_spec():
    """Serially sampled tips with rho-sampling, epochs that differ between samples (the origin carries the sample
    dimension) and a coincidence BETWEEN samples: total heights 6 and 8, two equal epochs (boundaries at 3 and 4), a tip
    of height 2 — at forward time 6 - 2 = 4 in the first sample, which is the epoch boundary of the second."""
    n, m, dates = 3, 2, [2.0, 0.0, 2.0]
    params = [("heights", ((n - 1,), g_fixed([3.0, 5.0]))),
              ("R", ((m,), g_pos(1.2, 3.0))), ("delta", ((m,), g_pos(0.5, 2.0))), ("s", ((m,), g_unit(0.1, 0.6))),
              ("origin", ((1,), g_cycle([[1.0], [3.0]]))), ("rho", ((1,), g_unit(0.2, 0.8)))]

    def js(v):
        return {"id": "bdsk", "type": "BDSKModel", "tree_model": tree_json("time", n, v, dates),
                "R": P("R", v["R"]), "delta": P("delta", v["delta"]), "s": P("s", v["s"]),
                "origin": P("origin", v["origin"]), "origin_is_root_edge": True, "rho": P("rho", v["rho"])}
    return Spec("BDSKModel/time/n3/m2/rho/dated/coinciding-epochs", params, js, "bdsk")


def gmrf_spec(variant, n=3, dim=4):
    params = [("field", ((dim,), g_real())), ("precision", ((1,), g_pos(0.3, 3.0)))]
    if variant == "tree":
        dim = n - 1
        params = [("field", ((dim,), g_real())), ("precision", ((1,), g_pos(0.3, 3.0)))] + \
            list(tree_params("ratio", n))
    if variant == "integrated":
        params = [("field", ((dim,), g_real()))]

    def js(v):
        if variant == "integrated":
            d = {"id": "gmrf", "type": "GMRFGammaIntegrated", "x": P("field", v["field"]), "shape": 1.5, "rate": 0.7}
        else:
            d = {"id": "gmrf", "type": "GMRF", "x": P("field", v["field"]), "precision": P("precision", v["precision"])}
        if variant == "tree":
            d["tree_model"] = tree_json("ratio", n, v)
        return d
    return Spec(f"GMRF/{variant}/dim{dim}", params, js, "gmrf")


def ctmc_spec(tree, n=3):
    params = [("rate", ((1,), g_pos(0.01, 1.0)))] + list(tree_params(tree, n))

    def js(v):
        d = {"id": "ctmc", "type": "CTMCScale", "x": P("rate", v["rate"]), "tree_model": tree_json(tree, n, v)}
        return d
    return Spec(f"CTMCScale/{tree}/n{n}", params, js, "ctmcscale")


def treeprior_spec(n=4):
    params = list(tree_params("unrooted", n)) + [("alpha", ((1,), g_pos(0.5, 2.0))), ("c", ((1,), g_pos(0.5, 2.0))),
                                                   ("shape", ((1,), g_pos(0.5, 2.0))), ("rate", ((1,), g_pos(0.5, 2.0)))]

    def js(v):
        d = {"id": "gd", "type": "CompoundGammaDirichletPrior", "tree_model": tree_json("unrooted", n, v),
             "alpha": P("alpha", v["alpha"]), "c": P("c", v["c"]), "shape": P("shape", v["shape"]),
             "rate": P("rate", v["rate"])}
        return d
    return Spec(f"CompoundGammaDirichletPrior/n{n}", params, js, "treeprior")


def heights_spec(kind, n=3, dates=None):
    """ReparameterizedTimeTreeModel: node heights, branch lengths and the log-Jacobian"""
    params = list(tree_params(kind, n, dates))

    def js(v):
        return tree_json(kind, n, v, dates)
    return Spec(f"ReparameterizedTimeTreeModel/{kind}/n{n}" + ("/dated" if dates else ""), params, js, "treemodel",
                observe=lambda m: [m(), m.node_heights, m.branch_lengths()])


def poisson_spec(n=3):
    params = list(tree_params("ratio", n)) + [("rate", ((1,), g_pos(0.5, 3.0)))]

    def js(v):
        d = {"id": "pl", "type": "PoissonTreeLikelihood", "tree_model": tree_json("ratio", n, v),
             "branch_model": {"id": "clock", "type": "StrictClockModel", "tree_model": "tree", "rate": P("rate", v["rate"])},
             "edge_lengths": [1.0, 2.0, 0.0, 3.0, 1.0, 2.0][: 2 * n - 2]}
        return d
    return Spec(f"PoissonTreeLikelihood/n{n}", params, js, "treelikelihood")


# ----------------------------------------------------------------------------- Distribution wrappers

TORCH_DISTS = {
    # name: (class path, {param: (base shape as fn of N, generator)}, x generator, event rank)
    "Normal": ("torch.distributions.Normal", {"loc": (1, g_real()), "scale": (1, g_pos())}, g_real(), 0),
    "LogNormal": ("torch.distributions.LogNormal", {"loc": (1, g_real()), "scale": (1, g_pos())}, g_pos(), 0),
    "Gamma": ("torch.distributions.Gamma", {"concentration": (1, g_pos()), "rate": (1, g_pos())}, g_pos(), 0),
    "Exponential": ("torch.distributions.Exponential", {"rate": (1, g_pos())}, g_pos(), 0),
    "Cauchy": ("torch.distributions.Cauchy", {"loc": (1, g_real()), "scale": (1, g_pos())}, g_real(), 0),
    "Beta": ("torch.distributions.Beta", {"concentration1": (1, g_pos()), "concentration0": (1, g_pos())}, g_unit(), 0),
    "Dirichlet": ("torch.distributions.Dirichlet", {"concentration": ("N", g_pos())}, g_simplex(), 1),
    "tt.LogNormal": ("torchtree.distributions.log_normal.LogNormal", {"mean": (1, g_pos()), "scale": (1, g_pos())}, g_pos(), 0),
    "tt.Normal": ("torchtree.distributions.normal.Normal", {"loc": (1, g_real()), "precision": (1, g_pos())}, g_real(), 0),
    "tt.OneOnX": ("torchtree.distributions.one_on_x.OneOnX", {}, g_pos(), 0),
}


def dist_spec(name, N=3, pshape="one"):
    """Distribution wrapper; pshape: 'one' (parameters of base shape [1]) or 'N' (base shape [N])"""
    path, pars, xg, _ = TORCH_DISTS[name]
    params = [("x", ((N,), xg))]
    for p, (sh, g) in pars.items():
        params.append((p, ((N if (sh == "N" or pshape == "N") else 1,), g)))

    def js(v):
        d = {"id": "d", "type": "Distribution", "distribution": path, "x": P("x", v["x"]),
             "parameters": {p: P(p, v[p]) for p in pars}}
        if not pars:
            del d["parameters"]
        return d
    return Spec(f"Distribution/{name}/N{N}/p{pshape}", params, js, "distribution")


def mvn_spec(param, N=3):
    g = {"covariance_matrix": g_spd(), "precision_matrix": g_spd(), "scale_tril": g_tril()}[param]
    params = [("x", ((N,), g_real())), ("loc", ((N,), g_real())), (param, ((N, N), g))]

    def js(v):
        d = {"id": "mvn", "type": "MultivariateNormal", "x": P("x", v["x"]),
             "parameters": {"loc": P("loc", v["loc"]), param: P(param, v[param])}}
        return d
    return Spec(f"MultivariateNormal/{param}/N{N}", params, js, "distribution")


def scalemix_spec(N=3, slab=False):
    params = [("x", ((N,), g_real())), ("gscale", ((1,), g_pos())), ("lscale", ((N,), g_pos()))]
    if slab:
        params.append(("slab", ((1,), g_pos())))

    def js(v):
        d = {"id": "sm", "type": "ScaleMixtureNormal", "x": P("x", v["x"]), "loc": 0.0,
             "global_scale": P("gscale", v["gscale"]), "local_scale": P("lscale", v["lscale"])}
        if slab:
            d["slab"] = P("slab", v["slab"])
        return d
    return Spec(f"ScaleMixtureNormal/N{N}" + ("/slab" if slab else ""), params, js, "distribution")


def bridge_spec(N=3, local=False):
    params = [("x", ((N,), g_real())), ("scale", ((1,), g_pos()))]
    params += [("lscale", ((N,), g_pos())), ("slab", ((1,), g_pos()))] if local else [("alpha", ((1,), g_pos(0.3, 1.0)))]

    def js(v):
        d = {"id": "bb", "type": "BayesianBridge", "x": P("x", v["x"]), "scale": P("scale", v["scale"])}
        if local:
            d["local_scale"], d["slab"] = P("lscale", v["lscale"]), P("slab", v["slab"])
        else:
            d["alpha"] = P("alpha", v["alpha"])
        return d
    return Spec(f"BayesianBridge/N{N}" + ("/local" if local else ""), params, js, "distribution")


# ----------------------------------------------------------------------------- transformed parameters

def tp_spec(chain, N=3):
    """TransformedParameter chains: observable = transformed tensor and log|det J|"""
    first = chain[0]
    xg = {"Exp": g_real(), "Sigmoid": g_real(), "StickBreaking": g_real(), "Log": g_pos(), "Affine": g_real(),
          "CumSumExp": g_real(), "SoftPlus": g_real(), "CumSumSoftPlus": g_real(), "ConvexCombination": g_pos(),
          "Linear": g_real(), "LogDifferenceRate": g_pos(), "RescaledRate": g_pos()}[first]
    params = [("x", ((N,), xg))]
    if "Affine" in chain:
        params += [("aloc", ((1,), g_real())), ("ascale", ((1,), g_pos()))]
    if "ConvexCombination" in chain:
        params += [("weights", ((N,), g_simplex()))]
    if "Linear" in chain:
        params += [("weight", ((2, N), g_real())), ("bias", ((2,), g_real()))]
    if "RescaledRate" in chain:
        params += [("rrate", ((1,), g_pos()))]
    if "LogDifferenceRate" in chain or "RescaledRate" in chain:
        params += list(tree_params("ratio", 3))
    PATH = {"Exp": "torch.distributions.ExpTransform", "Sigmoid": "torch.distributions.SigmoidTransform",
            "StickBreaking": "torch.distributions.StickBreakingTransform",
            "Log": "torchtree.distributions.transforms.LogTransform",
            "Affine": "torch.distributions.AffineTransform",
            "CumSumExp": "torchtree.distributions.transforms.CumSumExpTransform",
            "SoftPlus": "torchtree.distributions.transforms.SoftPlusTransform",
            "CumSumSoftPlus": "torchtree.distributions.transforms.CumSumSoftPlusTransform",
            "ConvexCombination": "torchtree.distributions.transforms.ConvexCombinationTransform",
            "Linear": "torchtree.distributions.transforms.LinearTransform",
            "LogDifferenceRate": "torchtree.evolution.rate_transform.LogDifferenceRateTransform",
            "RescaledRate": "torchtree.evolution.rate_transform.RescaledRateTransform"}
    nojac = {"Linear", "RescaledRate"}

    def js(v):
        d = P("x", v["x"])
        for i, t in enumerate(chain):
            d = {"id": f"tp{i}", "type": "TransformedParameter", "transform": PATH[t], "x": d}
            if t == "Affine":
                d["parameters"] = {"loc": P("aloc", v["aloc"]), "scale": P("ascale", v["ascale"])}
            if t == "ConvexCombination":
                d["parameters"] = {"weights": P("weights", v["weights"])}
            if t == "Linear":
                d["parameters"] = {"weight": P("weight", v["weight"]), "bias": P("bias", v["bias"])}
            if t == "LogDifferenceRate":
                d["parameters"] = {"tree_model": tree_json("ratio", 3, v)}
            if t == "RescaledRate":
                d["parameters"] = {"rate": P("rrate", v["rrate"]), "tree_model": tree_json("ratio", 3, v)}
        return d

    def observe(tp):
        obs = [tp.tensor]
        if not (set(chain) & nojac):
            obs.append(tp())
        return obs
    return Spec("TransformedParameter/" + "+".join(chain) + f"/N{N}", params, js, "transform", observe=observe)


# ----------------------------------------------------------------------------- joint distributions

def joint_spec(name, comps):
    """comps: list of component descriptors; each is (kind, options).  kinds:
         ('dist', distname, N, pshape)       Distribution wrapper
         ('coal', model, tree)               coalescent (returns [...,1])
         ('gmrf',)                           GMRF on theta of a skygrid
         ('tp', chain, N)                    TransformedParameter as a Jacobian term (a callable *parameter*)
         ('like', subst, site, tree)         tree likelihood
       Parameter names are prefixed by the component index."""
    subs = []
    for i, c in enumerate(comps):
        if c[0] == "dist":
            subs.append(dist_spec(*c[1:]))
        elif c[0] == "coal":
            subs.append(coal_spec(*c[1:]))
        elif c[0] == "gmrf":
            subs.append(gmrf_spec(*c[1:]))
        elif c[0] == "tp":
            subs.append(tp_spec(*c[1:]))
        elif c[0] == "like":
            subs.append(like_spec(*c[1:]))
        elif c[0] == "mvn":
            subs.append(mvn_spec(*c[1:]))
        else:
            raise ValueError(c)
    params = []
    for i, s in enumerate(subs):
        for p, d in s.params.items():
            params.append((f"{i}.{p}", d))

    sp = Spec(f"JointDistributionModel/{name}", params, None, "joint", comps=comps)
    sp.subs = subs

    def make(v):
        impl.load()
        from torchtree.distributions.joint_distribution import JointDistributionModel
        objs = [s_.make({p: v[f"{i}.{p}"] for p in s_.params}) for i, s_ in enumerate(subs)]
        return JointDistributionModel("joint", objs)
    sp.make = make
    return sp


def joint1_spec(sub):
    """JointDistributionModel([X]) for a callable model / transformed parameter X"""
    sp = Spec(f"JointDistributionModel[{sub.key}]", [(f"0.{p}", d) for p, d in sub.params.items()], None, "joint1",
              comps=[sub.key])
    sp.subs = [sub]

    def make(v):
        impl.load()
        from torchtree.distributions.joint_distribution import JointDistributionModel
        return JointDistributionModel("joint", [sub.make({p: v[f"0.{p}"] for p in sub.params})])
    sp.make = make
    return sp


# ----------------------------------------------------------------------------- catalogue

def catalogue(tier):
    S = []
    thorough = tier == "thorough"
    # tree likelihood: substitution model x site model x clock
    substs = ["JC69", "HKY", "GTR"]
    sites = ["constant", "constant+mu", "invariant", "weibull", "weibull+inv", "weibull+mu"]
    clocks = ["unrooted", "strict", "simple"]
    for su in substs:
        for si in sites:
            for ck in clocks:
                if not thorough:
                    # quick: every pair (subst, site), (subst, clock), (site, clock) is covered by this Latin-square-like subset
                    if (substs.index(su) + sites.index(si) + clocks.index(ck)) % 3 != 0:
                        continue
                S.append(like_spec(su, si, ck, 3, 4))
    S.append(like_spec("HKY", "weibull", "unrooted", 3, 3))
    S.append(like_spec("GTR", "weibull", "strict", 3, 2, "states"))
    S.append(like_spec("JC69", "weibull+inv", "unrooted", 3, 4, "states"))
    # the general models over a user-defined alphabet (the non-symmetric one goes through matrix_exp)
    S.append(like_spec("GN", "constant", "unrooted", 3, 1))
    S.append(like_spec("GS", "weibull", "strict", 3, 2))
    if thorough:
        S.append(like_spec("GN", "weibull+inv", "simple", 4, 3))
    S.append(like_spec("JC69", "constant", "unrooted", 600, 1, long_branches=True))
    S.append(like_spec("HKY", "invariant", "unrooted", 600, 1, "states", long_branches=True))
    if thorough:
        S.append(like_spec("HKY", "weibull", "strict", 4, 5))
        S.append(like_spec("GTR", "weibull+inv", "unrooted", 4, 2))
        S.append(like_spec("HKY", "invariant", "simple", 4, 4, "states"))
    S.append(poisson_spec(3))
    # coalescent family
    for model in ["constant", "exponential", "skyride", "skygrid", "linear", "pwexp", "integrated", "softskygrid"]:
        for tree in ["time", "ratio", "fake"]:
            if model == "integrated" and tree == "fake":
                continue
            if not thorough and tree == "time" and model in ("exponential", "linear", "softskygrid"):
                continue
            S.append(coal_spec(model, tree, 3, 3 if model != "pwexp" else 1))
    S.append(coal_spec("skygrid", "ratio", 3, 2))
    S.append(coal_spec("constant", "ratio", 3, dates=[0.0, 0.5, 1.0]))
    S.append(coal_spec("skygrid", "time", 3, 4, dates=[0.0, 0.5, 1.0]))
    if thorough:
        S.append(coal_spec("pwexp", "ratio", 3, 3))
        S.append(coal_spec("skygrid", "ratio", 4, 5))
        S.append(coal_spec("skyride", "shift", 4))
        S.append(coal_spec("linear", "ratio", 4, 4, dates=[0.0, 0.3, 0.3, 1.0]))
    # BDSK
    S.append(bdsk_spec("ratio", 3, 1))
    S.append(bdsk_spec("time", 3, 2))
    S.append(bdsk_spec("ratio", 3, 3, rho=True))
    S.append(bdsk_spec("ratio", 3, 2, dates=[0.0, 0.5, 1.0]))
    S.append(bdsk_coincide_spec())
    if thorough:
        S.append(bdsk_spec("ratio", 4, 4, rho=True, dates=[0.0, 0.0, 0.4, 1.0]))
    # GMRF, CTMC scale, tree prior, tree model
    S += [gmrf_spec("plain", dim=4), gmrf_spec("plain", dim=2), gmrf_spec("tree", n=4), gmrf_spec("integrated", dim=3)]
    S += [ctmc_spec("unrooted"), ctmc_spec("ratio"), treeprior_spec(4)]
    S += [heights_spec("ratio", 3), heights_spec("shift", 3), heights_spec("ratio", 4, dates=[0.0, 0.2, 0.5, 1.0])]
    # Distribution wrappers
    for name in TORCH_DISTS:
        S.append(dist_spec(name, 3, "one"))
        if name not in ("Dirichlet", "tt.OneOnX"):
            S.append(dist_spec(name, 3 if thorough or name != "Cauchy" else 2, "N"))
    S.append(dist_spec("Normal", 1, "one"))
    S.append(dist_spec("Gamma", 2, "one"))
    S += [mvn_spec("covariance_matrix", 3), mvn_spec("scale_tril", 2), mvn_spec("precision_matrix", 3)]
    S += [scalemix_spec(3), scalemix_spec(3, True), bridge_spec(3), bridge_spec(3, True)]
    # transformed parameters
    for chain in [["Exp"], ["Sigmoid"], ["StickBreaking"], ["Log"], ["Affine"], ["CumSumExp"], ["SoftPlus"],
                  ["CumSumSoftPlus"], ["ConvexCombination"], ["Linear"], ["Exp", "Affine"], ["Exp", "Log"],
                  ["Affine", "Exp"], ["Exp", "ConvexCombination"], ["CumSumExp", "Log"]]:
        S.append(tp_spec(chain, 3))
    S.append(tp_spec(["LogDifferenceRate"], 4))
    S.append(tp_spec(["RescaledRate"], 4))
    S.append(tp_spec(["Exp"], 1))
    # joint distributions
    S.append(joint_spec("normal+gamma", [("dist", "Normal", 3, "one"), ("dist", "Gamma", 2, "one")]))
    S.append(joint_spec("normalN+exp1", [("dist", "Normal", 3, "N"), ("dist", "Exponential", 1, "one")]))
    S.append(joint_spec("coal+gamma", [("coal", "constant", "ratio"), ("dist", "Gamma", 1, "one")]))
    S.append(joint_spec("skygrid+gmrf-like", [("coal", "skygrid", "ratio"), ("dist", "Normal", 3, "one")]))
    S.append(joint_spec("like+coal+prior", [("like", "HKY", "weibull", "strict"), ("coal", "constant", "fake"),
                                            ("dist", "LogNormal", 1, "one")]))
    S.append(joint_spec("exp+jacobian", [("dist", "Exponential", 3, "one"), ("tp", ["Exp"], 3)]))
    S.append(joint_spec("dirichlet+normal", [("dist", "Dirichlet", 4, "one"), ("dist", "Normal", 2, "one")]))
    S.append(joint_spec("mvn+gamma", [("mvn", "covariance_matrix", 3), ("dist", "Gamma", 1, "one")]))
    S.append(joint_spec("single-normal", [("dist", "Normal", 3, "one")]))
    S.append(joint_spec("oneonx+normal", [("dist", "tt.OneOnX", 1, "one"), ("dist", "Normal", 3, "one")]))
    S.append(joint_spec("gmrf+gamma", [("gmrf", "plain", 3, 4), ("dist", "Gamma", 1, "one")]))
    # every callable model / transformed parameter as the single component of a joint distribution
    seen = set()
    for sp in list(S):
        if sp.group in ("joint", "treemodel") or sp.key.startswith("TransformedParameter/Linear") or \
                sp.key.startswith("TransformedParameter/RescaledRate"):
            continue
        cls = sp.key.split("/")[0]
        tag = sp.key if (thorough or cls in ("Distribution",)) else cls + "/" + str(len(sp.params))
        if tag in seen:
            continue
        seen.add(tag)
        S.append(joint1_spec(sp))
    S.append(joint1_spec(heights_spec("ratio", 3)))
    return S


# ----------------------------------------------------------------------------- slice oracle

import itertools  # noqa: E402

RTOL = 1e-9
ATOL = 1e-11


INNER = "^"      # `name^` in a set of batched parameters: the parameter carries only the INNER sample dimension(s)
#                  (shape [K] + base under sample shape [S, K]): it is shared by the S outer samples


def has_inner(batched):
    return any(n.endswith(INNER) for n in batched)


def gen_values(rng, spec, batched, ss):
    vals = {}
    for name, (shape, g) in spec.params.items():
        if name in batched:
            vals[name] = _fill(list(ss), lambda: g(rng, list(shape)))
        elif name + INNER in batched:
            vals[name] = _fill(list(ss[1:]), lambda: g(rng, list(shape)))
        else:
            vals[name] = g(rng, list(shape))
    return vals


def slice_vals(spec, vals, batched, idx):
    out = {}
    for name in spec.params:
        v = vals[name]
        if name in batched:
            for i in idx:
                v = v[i]
        elif name + INNER in batched:
            for i in idx[1:]:
                v = v[i]
        out[name] = v
    return out


def _tolist(t):
    return [float(x) for x in t.detach().reshape(-1)]


def close(a, b):
    if math.isnan(a) or math.isnan(b):
        return math.isnan(a) and math.isnan(b)
    if math.isinf(a) or math.isinf(b):
        return a == b
    return abs(a - b) <= RTOL * max(abs(a), abs(b)) + ATOL


def oracle(spec, batched, ss, vals, extras=False):
    """The property itself on the implementation: value for sample s == value with slice s only.

    -> dict(outcome=..., ...) with outcome in
         'ok'        every sample agrees with its slice (or the result does not depend on the batched
                     parameters and is returned unbatched)
         'error'     the batched call raised (allowed by the property)
         'noref'     a sliced (unbatched) call raised: nothing to compare with
         'mix'       right number of entries, a sample's value differs from its slice's value
         'shape'     the result has not prod(sample_shape) x (entries of an unbatched result) entries
    """
    n = 1
    for k in ss:
        n *= k
    try:
        obj = spec.make(vals)
        outs = [o.detach().clone() for o in spec.observe(obj)]
    except Exception as e:  # noqa: BLE001
        return dict(outcome="error", err=type(e).__name__, msg=str(e)[:160])
    refs, sobj = [], None
    for idx in itertools.product(*[range(k) for k in ss]):
        try:
            so = spec.make(slice_vals(spec, vals, batched, idx))
            refs.append([o.detach().clone() for o in spec.observe(so)])
            sobj = sobj or so
        except Exception as e:  # noqa: BLE001
            return dict(outcome="noref", err=type(e).__name__, msg=str(e)[:160], shapes=[list(o.shape) for o in outs])
    res = dict(outcome="ok", shapes=[list(o.shape) for o in outs], ref_shapes=[list(o.shape) for o in refs[0]])
    if extras:
        try:
            res["rules"] = collect_rules(spec, obj, batched, list(ss))
            if spec.group in ("joint", "joint1"):
                res["joint"] = joint_record(obj, sobj, outs[0])
        except Exception as e:  # noqa: BLE001
            res["extras_error"] = f"{type(e).__name__}: {e}"[:200]
    for k, o in enumerate(outs):
        rn = refs[0][k].numel()
        if o.numel() == rn and all(all(close(x, y) for x, y in zip(_tolist(o), _tolist(r[k]))) for r in refs):
            continue        # the value does not depend on the batched parameters and is returned unbatched: it is
            #                 the (broadcast) value of every sample
        n_in = 1
        for k_ in ss[1:]:
            n_in *= k_
        if has_inner(batched) and len(ss) == 2 and rn and o.numel() == n_in * rn and n_in != n:
            # the result carries the inner dimension only (it depends on inner-batched parameters alone):
            # it is the value of every outer sample
            rows_in = o.reshape(n_in, rn)
            bad_in = None
            for s_, r in enumerate(refs):
                a, b = _tolist(rows_in[s_ % n_in]), _tolist(r[k])
                if not all(close(x, y) for x, y in zip(a, b)):
                    bad_in = (s_, a[:2], b[:2])
                    break
            if bad_in is None:
                continue
            res.update(outcome="mix", observable=k, sample=bad_in[0],
                       what=f"sample {bad_in[0]} of {list(ss)}: the batched call returns {bad_in[1]!r} (result carrying the "
                            f"inner dimension only), the call with slice {bad_in[0]} alone returns {bad_in[2]!r}")
            return res
        if o.numel() != n * rn:
            res.update(outcome="shape", observable=k,
                       what=f"result of shape {list(o.shape)} for sample shape {list(ss)} where an unbatched call "
                            f"returns shape {list(refs[0][k].shape)}: values {_fmt(_tolist(o)[:4])}, the calls "
                            f"with single slices return {_fmt([x for r in refs[:4] for x in _tolist(r[k])[:2]])}")
            return res
        rows = o.reshape(n, rn) if rn else o.reshape(n, 0)
        for s_, r in enumerate(refs):
            a, b = _tolist(rows[s_]), _tolist(r[k])
            for x, y in zip(a, b):
                if not close(x, y):
                    res.update(outcome="mix", observable=k, sample=s_,
                               what=f"sample {s_} of {list(ss)}: the batched call returns {x!r}, the call with "
                                    f"slice {s_} alone returns {y!r}")
                    return res
    return res


def _fmt(xs):
    return "[" + ", ".join(f"{x:.6g}" for x in xs) + "]"


# ----------------------------------------------------------------------------- what the shape model is fed with

def _ids(m):
    try:
        return {p.id for p in m.parameters()}
    except Exception:  # noqa: BLE001
        return set()


def collect_rules(spec, obj, batched, ss):
    """(rule, arguments, reported sample_shape, true sample shape) for every object in the graph whose
    _sample_shape rule is modelled in M_tensor.v"""
    impl.load()
    from torchtree.core.container import Container
    from torchtree.distributions.distributions import Distribution
    from torchtree.distributions.multivariate_normal import MultivariateNormal
    from torchtree.evolution.coalescent import AbstractCoalescentModel, ExponentialCoalescentModel
    from torchtree.evolution.tree_likelihood import TreeLikelihoodModel
    from torchtree.evolution.poisson_tree_likelihood import PoissonTreeLikelihood
    from torchtree.evolution.substitution_model.abstract import SymmetricSubstitutionModel
    from torchtree.evolution.site_model import UnivariateDiscretizedSiteModel
    from torchtree.distributions.joint_distribution import JointDistributionModel
    out = []

    def walk(m, bids, depth=0):
        if depth > 6 or not hasattr(m, "_models"):
            return
        truth = list(ss) if (bids & _ids(m)) else []
        rec = None
        L = lambda t: [int(k) for k in t]
        if isinstance(m, Distribution):
            rec = ("dist", [L(m.x.tensor.shape), L(m.batch_shape)])
        elif isinstance(m, MultivariateNormal):
            rec = ("offset", [L(m.x.tensor.shape), L(m.loc.shape[:-1])])
        elif isinstance(m, ExponentialCoalescentModel):
            rec = ("longest", [[L(m.tree_model.sample_shape), L(m.theta.shape[:-1]), L(m.growth.shape[:-1])]])
        elif isinstance(m, AbstractCoalescentModel):
            rec = ("coal", [L(m.tree_model.sample_shape), L(m.theta.shape)])
        elif isinstance(m, (TreeLikelihoodModel, PoissonTreeLikelihood)):
            rec = ("longest", [[L(x.sample_shape) for x in m._models.values()]])
        elif isinstance(m, (SymmetricSubstitutionModel, UnivariateDiscretizedSiteModel)):
            rec = ("params", [[L(p.shape) for p in m._parameters.values()]])
        elif isinstance(m, Container):
            rec = ("container", [[L(p.shape) for p in m._parameters.values()],
                                 [L(x.sample_shape) for x in m._models.values()]])
        if rec is not None and not isinstance(m, JointDistributionModel):
            out.append(dict(rule=rec[0], args=rec[1], reported=L(m.sample_shape), truth=truth,
                            cls=type(m).__name__))
        for sub in m._models.values():
            walk(sub, bids, depth + 1)

    if spec.group in ("joint", "joint1"):
        comps = list(obj._distributions._models.values()) + list(obj._distributions._parameters.values())
        # constructor order = component order (models first, then callable parameters, as callables() yields)
        for i, sub in enumerate(spec.subs):
            bids = {b.split(".", 1)[1] for b in batched if b.startswith(f"{i}.")}
            target = _component_object(obj, spec, i)
            if target is not None:
                walk(target, bids)
        cont = obj._distributions
        out.append(dict(rule="container", args=[[[int(k) for k in p.shape] for p in cont._parameters.values()],
                                                [[int(k) for k in x.sample_shape] for x in cont._models.values()]],
                        reported=[int(k) for k in obj.sample_shape], truth=list(ss) if batched else [],
                        cls="JointDistributionModel"))
        del comps
    else:
        walk(obj, set(batched))
    return out


def _component_object(joint, spec, i):
    """the object of component i of a joint built by Spec.make (construction order is kept by the
    container's ordered dictionaries, models and parameters separately)"""
    import collections.abc
    from torchtree.core.abstractparameter import AbstractParameter
    cont = joint._distributions
    models = list(cont._models.values())
    params = list(cont._parameters.values())
    mi = pi = 0
    for j, sub in enumerate(spec.subs):
        is_param = sub.group == "transform"
        if j == i:
            return (params[pi] if is_param else models[mi])
        if is_param:
            pi += 1
        else:
            mi += 1
    return None


def joint_record(joint, slice_joint, out):
    """component tensors as JointDistributionModel.log_prob sees them (already evaluated: cached)"""
    comps = list(joint._distributions.callables())
    scomps = list(slice_joint._distributions.callables())
    rec = dict(J=[int(k) for k in joint.sample_shape], comps=[], out_shape=[int(k) for k in out.shape],
               out=_tolist(out))
    for c, sc in zip(comps, scomps):
        lp = c()
        rec["comps"].append(dict(shape=[int(k) for k in lp.shape], rep=[int(k) for k in c.sample_shape],
                                 data=_tolist(lp), unbatched=[int(k) for k in sc().shape],
                                 cls=type(c).__name__))
    return rec


# ----------------------------------------------------------------------------- tensor-op correspondence (M_tensor vs torch)

from harness import common as C  # noqa: E402

HEADER = ("From Coq Require Import ZArith List. Import ListNotations.\n"
          "From TT Require Import M_tensor.\nOpen Scope Z_scope.\n")


def _rshape(rng, maxrank=3, maxdim=3, zero=False):
    r = rng.randint(0, maxrank)
    return [rng.choice(([0] if zero else []) + list(range(1, maxdim + 1))) for _ in range(r)]


def _numel(s):
    n = 1
    for k in s:
        n *= k
    return n


def gen_op_case(rng, i):
    kinds = ["binop", "binop", "unsqueeze", "squeeze", "expand", "reshape", "sum", "sum", "mean", "cat", "cat"]
    kind = kinds[i % len(kinds)]
    s = _rshape(rng, zero=rng.random() < 0.05)
    c = dict(op=kind, shape=s, data=[rng.randint(-9, 9) for _ in range(_numel(s))])
    if kind == "binop":
        mode = rng.random()
        if mode < 0.6:       # compatible by construction: drop leading dims / set dims to 1 on each side
            full = _rshape(rng, 4, 3)
            a = [1 if rng.random() < 0.3 else k for k in full][rng.randint(0, len(full)):]
            b = [1 if rng.random() < 0.3 else k for k in full][rng.randint(0, len(full)):]
        else:
            a, b = _rshape(rng), _rshape(rng)
        c.update(shape=a, data=[rng.randint(-9, 9) for _ in range(_numel(a))], shape2=b,
                 data2=[rng.randint(-9, 9) for _ in range(_numel(b))])
    elif kind in ("unsqueeze", "squeeze", "sum", "mean"):
        c["dim"] = rng.randint(-len(s) - 2, len(s) + 1)
        c["keepdim"] = rng.random() < 0.5
    elif kind == "expand":
        extra = rng.randint(0, 2)
        sizes = [rng.choice([-1, 1, 2, 3]) for _ in range(extra)]
        for k in s:
            sizes.append(rng.choice([-1, k, k, rng.randint(0, 3)]))
        if rng.random() < 0.1 and sizes:
            sizes = sizes[1:]
        c["sizes"] = sizes
    elif kind == "reshape":
        n = _numel(s)
        sizes = []
        rest = n
        for _ in range(rng.randint(0, 3)):
            divs = [d for d in range(1, 7) if rest and rest % d == 0] or [1]
            d = rng.choice(divs)
            sizes.append(d)
            rest = rest // d if rest else 0
        sizes.append(rest if rng.random() < 0.6 else rng.choice([-1, -1, 2, 0]))
        rng.shuffle(sizes)
        if rng.random() < 0.1:
            sizes.append(-1)
        c["sizes"] = sizes
    elif kind == "cat":
        k = rng.randint(1, 3)
        base = _rshape(rng, 3, 3) or [2]
        dim = rng.randint(-len(base) - 1, len(base))
        d0 = dim % len(base) if -len(base) <= dim < len(base) else 0
        parts = []
        for _ in range(k):
            sh = list(base)
            sh[d0] = rng.randint(1, 3)
            if rng.random() < 0.12:
                sh[rng.randrange(len(sh))] += 1
            if rng.random() < 0.05:
                sh = sh[1:]
            parts.append(dict(shape=sh, data=[rng.randint(-9, 9) for _ in range(_numel(sh))]))
        c.update(parts=parts, dim=dim)
    return c


def torch_op(c):
    """-> ('err',) or ('ok', shape, flat int data)"""
    torch = impl.load()

    def T(shape, data):
        return torch.tensor(data, dtype=torch.float64).reshape(shape)
    try:
        op = c["op"]
        if op == "binop":
            r = T(c["shape"], c["data"]) + T(c["shape2"], c["data2"])
        elif op == "unsqueeze":
            r = T(c["shape"], c["data"]).unsqueeze(c["dim"])
        elif op == "squeeze":
            r = T(c["shape"], c["data"]).squeeze(c["dim"])
        elif op == "expand":
            r = T(c["shape"], c["data"]).expand(*c["sizes"]) if c["sizes"] else T(c["shape"], c["data"]).expand(())
        elif op == "reshape":
            r = T(c["shape"], c["data"]).reshape(c["sizes"])
        elif op == "sum":
            r = T(c["shape"], c["data"]).sum(c["dim"], keepdim=c["keepdim"])
        elif op == "mean":
            t = T(c["shape"], c["data"])
            r = t.mean(c["dim"], keepdim=c["keepdim"])
            n = t.shape[c["dim"]] if t.dim() else 1
            r = r * n
        elif op == "cat":
            r = torch.cat([T(p["shape"], p["data"]) for p in c["parts"]], c["dim"])
        return ("ok", list(r.shape), [int(round(float(x))) for x in r.reshape(-1)])
    except (RuntimeError, IndexError, ValueError, TypeError):
        return ("err",)


def _ct(shape, data):
    return f"(mkT {C.coq_list(shape, C.natlit)} {C.coq_list(data, C.zlit)})"


def coq_op(c):
    op = c["op"]
    t = _ct(c["shape"], c["data"])
    b = lambda x: "true" if x else "false"
    if op == "binop":
        return f"show_t (zbinop Z.add {t} {_ct(c['shape2'], c['data2'])})"
    if op == "unsqueeze":
        return f"show_t (unsqueeze {C.zlit(c['dim'])} {t})"
    if op == "squeeze":
        return f"show_t (squeeze {C.zlit(c['dim'])} {t})"
    if op == "expand":
        return f"show_t (expand {C.coq_list(c['sizes'], C.zlit)} {t})"
    if op == "reshape":
        return f"show_t (reshape {C.coq_list(c['sizes'], C.zlit)} {t})"
    if op == "sum":
        return f"show_t (zsum_dim {C.zlit(c['dim'])} {b(c['keepdim'])} {t})"
    if op == "mean":
        return f"show_t (zmean_dim {C.zlit(c['dim'])} {b(c['keepdim'])} {t})"
    if op == "cat":
        return f"show_t (zcat {C.zlit(c['dim'])} {C.coq_list(c['parts'], lambda p: _ct(p['shape'], p['data']))})"
    raise ValueError(op)


def decode_t(flat):
    if flat[0] == 0:
        return ("err",)
    r = flat[1]
    return ("ok", flat[2:2 + r], flat[2 + r:])


# ----------------------------------------------------------------------------- cases

import concurrent.futures as cf  # noqa: E402
import json  # noqa: E402
import os  # noqa: E402
import random  # noqa: E402
import time  # noqa: E402

PID = "C10"
SS1 = [(s,) for s in range(1, 6)]
SS2 = [(s, k) for s in range(1, 6) for k in range(1, 6)]
# a pairwise-covering part of the [S,K] shapes (every S and every K in 1..5 occurs, S=K, S=1, K=1, S<K, S>K)
SS2_COVER = [(1, 1), (2, 2), (3, 3), (5, 5), (1, 3), (3, 1), (2, 3), (4, 2), (2, 5), (5, 4), (3, 4), (4, 1), (1, 5)]


def all_shapes(spec):
    """sample shapes explored for a spec in the thorough tier (the quick tier samples from the same set)"""
    return SS1 + (SS2 if len(spec.params) <= 4 else SS2_COVER)


def subsets(spec, tier, rng):
    names = list(spec.params)
    k = len(names)
    if k == 0:
        return []
    if tier == "thorough":
        out = []
        for r in range(1, k + 1):
            out += list(itertools.combinations(names, r))
        return out
    # quick: singletons, all-but-one, all  (every pair of parameters occurs batched/batched,
    # batched/unbatched, unbatched/batched; unbatched/unbatched as soon as there are 3 parameters)
    fam = [(n,) for n in names] + [tuple(x for x in names if x != n) for n in names] + [tuple(names)]
    seen, out = set(), []
    for f in fam:
        if f and f not in seen:
            seen.add(f)
            out.append(f)
    return out


def make_jobs(tier, seed):
    rng = random.Random(seed)
    jobs = []
    for sp in catalogue(tier):
        shapes = all_shapes(sp)
        for sub in subsets(sp, tier, rng):
            if tier == "thorough":
                sel = shapes
            else:
                s1 = [x for x in shapes if len(x) == 1]
                s2 = [x for x in shapes if len(x) == 2]
                sel = [rng.choice([x for x in s1 if x[0] >= 2]), rng.choice(s1), rng.choice(s2),
                       rng.choice([x for x in s2 if x[0] == x[1]] if rng.random() < 0.3 else s2)]
                sel = list(dict.fromkeys(sel))
            if sp.group == "treelikelihood" and "/n3" in sp.key and tier != "thorough":
                # sample counts that COINCIDE with a size of the model (3 taxa: 3 branch lengths, 4 branch slots,
                # 4 states): a misaligned axis then broadcasts silently instead of raising
                sel = list(dict.fromkeys(sel + [(4,), (3,)]))
            for ss in sel:
                jobs.append((tier, sp.key, tuple(sub), tuple(ss), rng.randrange(1 << 30)))
        # layouts in which one parameter carries the INNER sample dimension only ([K] + base under [S, K]), the
        # others both or none
        names = list(sp.params)
        if len(names) >= 2 and sp.json is not None:
            s2 = [x for x in shapes if len(x) == 2 and x[0] >= 2 and x[1] >= 2]
            picks = names if tier == "thorough" else rng.sample(names, min(2, len(names)))
            for inner in picks:
                others = [n for n in names if n != inner]
                subs_in = [tuple(others) + (inner + INNER,), (rng.choice(others), inner + INNER)]
                for sub in dict.fromkeys(subs_in):
                    for ss in ([rng.choice(s2)] if tier != "thorough" else rng.sample(s2, min(3, len(s2)))):
                        jobs.append((tier, sp.key, tuple(sub), tuple(ss), rng.randrange(1 << 30)))
    return jobs


_CAT = {}


def _cat(tier):
    if tier not in _CAT:
        _CAT[tier] = {sp.key: sp for sp in catalogue(tier)}
    return _CAT[tier]


def find_spec(key):
    for tier in ("quick", "thorough"):
        if key in _cat(tier):
            return _cat(tier)[key]
    raise KeyError(key)


def class_of(spec):
    if spec.group in ("joint", "joint1"):
        return "JointDistributionModel"
    if spec.group == "transform":          # the transform chain is part of the class
        return "TransformedParameter[" + spec.key.split("/")[1] + "]"
    return spec.key.split("/")[0]


def role(spec, name):
    """parameter name -> role used in finding keys (so that the key does not depend on which torch
    distribution / substitution model the catalogue entry happens to use)"""
    if name.endswith(INNER):
        return role(spec, name[:-1]) + "(inner dimension only)"
    if spec.group in ("joint", "joint1"):
        i, n = name.split(".", 1)
        sub = spec.subs[int(i)]
        if sub.group == "transform" and n in ("aloc", "ascale"):
            # a parameter OF the affine transform: the finding is about that transform, whatever else is in the chain
            return f"TransformedParameter[Affine].{n}"
        return f"{class_of(sub)}.{role(sub, n)}"
    cls = class_of(spec)
    if cls == "Distribution":
        return "x" if name == "x" else "parameter"
    if cls == "MultivariateNormal" and name not in ("x", "loc"):
        return "matrix"
    return name


def finding_key(spec, sub, ss, kind):
    if has_inner(sub):
        # layouts with a parameter carrying the inner dimension only: the finding is identified by the class, by WHICH
        # parameter is the inner-only one and by whether it needs the coincidence S = K (then the shapes cannot tell
        # the inner from the outer dimension), not by which of the other parameters happen to be batched
        inner = sorted({role(spec, n[:-1]) for n in sub if n.endswith(INNER)})
        return (f"C10:{class_of(spec)}:inner-dimension-only={{{','.join(inner)}}}:"
                f"{'S=K' if len(ss) == 2 and ss[0] == ss[1] else 'S!=K'}:{kind}")
    roles = sorted({role(spec, n) for n in sub})
    return f"C10:{class_of(spec)}:batched={{{','.join(roles)}}}:ss={'[S]' if len(ss) == 1 else '[S,K]'}:{kind}"


def units(sub):
    """removal units: single parameters, and the (ratios, root_height) pair of a reparameterised tree, which
    can only be batched together"""
    us = [(n,) for n in sub]
    for n in sub:
        if n.endswith("ratios"):
            m = n[:-len("ratios")] + "root_height"
            if m in sub:
                us.append((n, m))
    return us


def minimise(spec, sub, ss, vseed, kind):
    """greedy, to a fixpoint: drop removal units while the same kind of violation persists"""
    cur = list(sub)
    last = None
    step = 0
    changed = True
    while changed and len(cur) > 1:
        changed = False
        for u in units(cur):
            trial = [x for x in cur if x not in u]
            if not trial:
                continue
            step += 1
            rng = random.Random(vseed * 131 + step)
            vals = gen_values(rng, spec, set(trial), ss)
            r = oracle(spec, set(trial), ss, vals)
            if r["outcome"] == kind:
                cur = trial
                last = dict(vals=vals, what=r["what"])
                changed = True
                break
    return dict(sub=cur, last=last)


def locally_minimal(viol):
    """thorough tier (all subsets evaluated): the violating subsets from which no removal unit can be dropped —
    exactly the sets the greedy minimisation of the quick tier can end in.
    viol: dict (spec key, frozenset(sub), ss, kind) -> result"""
    out = []
    for (key, sub, ss, kind), r in viol.items():
        ok = True
        for u in units(sorted(sub)):
            t = sub - set(u)
            if t and (key, frozenset(t), ss, kind) in viol:
                ok = False
                break
        if ok:
            out.append(r)
    return out


def _work(job):
    tier, key, sub, ss, vseed = job
    torch = impl.load()
    torch.set_num_threads(1)
    import warnings
    warnings.filterwarnings("ignore")
    sp = _cat(tier)[key] if key in _cat(tier) else find_spec(key)
    rng = random.Random(vseed)
    vals = gen_values(rng, sp, set(sub), ss)
    res = oracle(sp, set(sub), ss, vals, extras=(tier != "thorough" or vseed % 7 == 0) and not has_inner(sub))
    res.update(key=key, sub=list(sub), ss=list(ss), vseed=vseed)
    if res["outcome"] in ("mix", "shape"):
        res["min_sub"], res["min_vals"], res["min_what"] = list(sub), vals, res["what"]
        if tier != "thorough":
            m = minimise(sp, sub, ss, vseed, res["outcome"])
            res["min_sub"] = m["sub"]
            if m["last"] is not None:
                res["min_vals"], res["min_what"] = m["last"]["vals"], m["last"]["what"]
    return res


def run_jobs(jobs, workers=14):
    if len(jobs) <= 8:
        return [_work(j) for j in jobs]
    import multiprocessing as mp
    ctx = mp.get_context("spawn")
    out = []
    with cf.ProcessPoolExecutor(max_workers=workers, mp_context=ctx) as ex:
        for r in ex.map(_work, jobs, chunksize=max(1, min(40, len(jobs) // (workers * 6) + 1))):
            out.append(r)
    return out


# ----------------------------------------------------------------------------- shape model vs implementation

def _sl(s):
    return C.coq_list(s, C.natlit)


def rule_expr(rule, args):
    if rule == "dist":
        return f"show_shape (dist_sample_shape {_sl(args[0])} {_sl(args[1])})"
    if rule == "offset":
        return f"show_shape (offset_sample_shape {_sl(args[0])} {_sl(args[1])})"
    if rule == "coal":
        return f"show_shape (coalescent_sample_shape {_sl(args[0])} {_sl(args[1])})"
    if rule == "longest":
        return f"show_oshape (longest {C.coq_list(args[0], _sl)})"
    if rule == "params":
        return f"show_oshape (params_sample_shape {C.coq_list(args[0], _sl)})"
    if rule == "container":
        return f"show_shape (container_sample_shape {C.coq_list(args[0], _sl)} {C.coq_list(args[1], _sl)})"
    raise ValueError(rule)


def rule_decode(rule, flat):
    if rule in ("longest", "params"):
        return None if flat[0] == 0 else list(flat[1:])
    return list(flat)


def typed_components(jr, ss):
    """-> list of (batched, event, rep) when every component tensor is (sample ++ event) with sample in
    {[], ss} and reports [] or ss; else None"""
    out = []
    for c in jr["comps"]:
        u, sh = c["unbatched"], c["shape"]
        if sh == list(ss) + u and not (sh == u):
            b = True
        elif sh == u:
            b = False
        else:
            return None
        if c["rep"] not in ([], list(ss)):
            return None
        out.append((b, u, c["rep"]))
    return out


def py_ambiguous(typed, ss):
    """mirror of M_tensor.ambiguous (one-axis sample shapes); for [S,K]: reported != true sample shape"""
    for b, e, rep in typed:
        if len(ss) == 1:
            if b and rep == []:
                return True
            if (not b) and rep != [] and (e == list(ss) or len(e) > 1):
                return True
        else:
            if (b and rep != list(ss)) or ((not b) and rep != []):
                return True
    return False


def joint_expr(jr, ss, typed):
    comps = C.coq_list(jr["comps"], lambda c: f"({_sl(c['shape'])}, {_sl(c['rep'])})")
    if typed is not None and len(ss) == 1:
        tcs = C.coq_list(typed, lambda t: f"mkTC {'true' if t[0] else 'false'} {_sl(t[1])} {_sl(t[2])} (@nil Z)")
        amb = f"(if ambiguous {C.natlit(ss[0])} {tcs} then 1 else 0)"
    else:
        amb = "2"
    return f"{amb} :: show_sym (sym_joint {_sl(jr['J'])} {comps})"


def joint_decode(flat):
    """-> (amb flag, None | (shape, [list of codes per entry]))"""
    amb, flat = flat[0], flat[1:]
    if flat[0] == 0:
        return amb, None
    r = flat[1]
    shape = flat[2:2 + r]
    rest = flat[2 + r:]
    entries, i = [], 0
    while i < len(rest):
        k = rest[i]
        entries.append(rest[i + 1:i + 1 + k])
        i += 1 + k
    return amb, (list(shape), entries)


# ----------------------------------------------------------------------------- run

def run(tier, seed, replay=None):
    rep = C.Report(PID, tier, seed)
    rep.trusted = C.COMMON_TRUSTED + [
        "hand-written model model/M_tensor.v (tensor operations, JointDistributionModel.log_prob case analysis, "
        "sample_shape rules) tied by correspondence: operations vs torch on random shapes, the joint model vs "
        "JointDistributionModel on the component tensors of real models, the rules vs sample_shape of real objects",
        "not modelled: strides (view = reshape), torch.cat's legacy skipping of 1-D empty tensors, dtype promotion; "
        "a call that raises where the model returns a value is allowed by the property and only counted",
        "the slice oracle builds every object through from_json (JointDistributionModel through its constructor) "
        "and compares under relative 1e-9 (+1e-11 absolute)"]
    t0 = time.time()
    if replay:
        rp = json.load(open(replay))["replay"]
        sp = find_spec(rp["spec"])
        r = oracle(sp, set(rp["batched"]), tuple(rp["ss"]), rp["vals"])
        C.log(f"[C10] replay {rp['spec']} batched={rp['batched']} ss={rp['ss']}: {r['outcome']} {r.get('what', '')}")
        if r["outcome"] in ("mix", "shape"):
            rep.violation(finding_key(sp, rp["batched"], rp["ss"], r["outcome"]), r["what"], rp)
        rep.case(dict(replay=rp["spec"]), True, dict(spec=rp["spec"], outcome=r["outcome"]))
        return rep.finish()

    jobs = make_jobs(tier, seed)
    results = run_jobs(jobs)
    rep.timings["impl_oracle"] = round(time.time() - t0, 2)

    # ---- the property itself on the implementation
    found = {}
    outcomes = {}
    per_group = {}
    if tier == "thorough":
        viol = {(r["key"], frozenset(r["sub"]), tuple(r["ss"]), r["outcome"]): r for r in results
                if r["outcome"] in ("mix", "shape")}
        keep = {id(r) for r in locally_minimal(viol)}
    for r in results:
        sp = _cat(tier)[r["key"]]
        outcomes[r["outcome"]] = outcomes.get(r["outcome"], 0) + 1
        g = per_group.setdefault(sp.group, {})
        g[r["outcome"]] = g.get(r["outcome"], 0) + 1
        rep.case(dict(spec=r["key"], sub=r["sub"], ss=r["ss"]), nontrivial=r["outcome"] in ("ok", "mix", "shape"),
                 sample=dict(spec=r["key"], batched=r["sub"], sample_shape=r["ss"], outcome=r["outcome"],
                             result_shapes=r.get("shapes")))
        if r["outcome"] in ("mix", "shape") and (tier != "thorough" or id(r) in keep):
            key = finding_key(sp, r["min_sub"], r["ss"], r["outcome"])
            if key not in found:
                found[key] = (key, f"{r['key']} with {sorted(r['min_sub'])} batched, sample shape {r['ss']}: "
                                   f"{r['min_what']}",
                              dict(spec=r["key"], batched=sorted(r["min_sub"]), ss=r["ss"], vals=r["min_vals"],
                                   found_with=dict(batched=r["sub"], vseed=r["vseed"])))

    def search():
        return list(found.values())

    C.handle_proof(rep, PID, search)
    for f in found.values():
        rep.violation(*f)

    # ---- correspondence 1: tensor operations vs torch
    t1 = time.time()
    rng = random.Random(seed + 1)
    nops = 660 if tier == "quick" else 6600
    ops = [gen_op_case(rng, i) for i in range(nops)]
    ops = [c for c in ops if not (c["op"] == "mean" and 0 in c["shape"])]
    timpl = [torch_op(c) for c in ops]
    exprs = [coq_op(c) for c in ops]
    # ---- correspondence 2: sample_shape rules; 3: the joint model
    rules, rule_index = {}, []
    jexprs, jindex = [], []
    for ri, r in enumerate(results):
        for rec in r.get("rules", []):
            k = json.dumps([rec["rule"], rec["args"]])
            if k not in rules:
                rules[k] = len(rules)
            rule_index.append((ri, rec, rules[k]))
        if "joint" in r:
            typed = typed_components(r["joint"], r["ss"])
            jexprs.append(joint_expr(r["joint"], r["ss"], typed))
            jindex.append((ri, typed))
    rkeys = list(rules)
    rexprs = [rule_expr(*json.loads(k)) for k in rkeys]
    allx = exprs + rexprs + jexprs
    out = C.run_cases(PID, HEADER, allx, shard=max(40, len(allx) // 16 + 1), rtype="Z")
    o_ops, o_rules, o_joint = out[:len(exprs)], out[len(exprs):len(exprs) + len(rexprs)], out[len(exprs) + len(rexprs):]
    rep.timings["model_eval"] = round(time.time() - t1, 2)

    opstat = {}
    for c, ti, flat in zip(ops, timpl, o_ops):
        m = decode_t(flat)
        opstat[c["op"] + ":" + ti[0]] = opstat.get(c["op"] + ":" + ti[0], 0) + 1
        rep.case(dict(op=c), nontrivial=True)
        same = (m[0] == ti[0]) and (m[0] == "err" or (list(m[1]) == list(ti[1]) and list(m[2]) == list(ti[2])))
        if not same:
            rep.violation(f"C10:model-impl-differ:tensor-op:{c['op']}",
                          f"torch gives {ti}, model/M_tensor.v gives {m} on {c}",
                          dict(case=c, torch=ti, model=m, broken="correspondence M_tensor operations vs torch"), False)

    rule_stat = dict(checked=0, skipped_rule_not_right_on_this_input=0)
    for ri, rec, k in rule_index:
        model = rule_decode(rec["rule"], o_rules[k])
        if model != rec["truth"]:
            rule_stat["skipped_rule_not_right_on_this_input"] += 1
            continue
        rule_stat["checked"] += 1
        if rec["reported"] != model:
            r = results[ri]
            rep.violation(f"C10:sample_shape:{rec['cls']}:{rec['rule']}",
                          f"{rec['cls']}.sample_shape reports {rec['reported']} where the rule "
                          f"{rec['rule']}{rec['args']} of the model (and the parameters actually batched) give {model}; "
                          f"{r['key']} batched {r['sub']} sample shape {r['ss']}",
                          dict(spec=r["key"], batched=r["sub"], ss=r["ss"], vseed=r["vseed"], rule=rec), False)

    jstat = dict(compared=0, agree=0, ambiguous_or_untyped=0, differs_on_ambiguous=0, impl_raises_model_value=0,
                 model_error_impl_value_on_ambiguous=0)
    for (ri, typed), flat in zip(jindex, o_joint):
        r = results[ri]
        jr = r["joint"]
        amb, mod = joint_decode(flat)
        pamb = True if typed is None else py_ambiguous(typed, r["ss"])
        if typed is not None and len(r["ss"]) == 1 and amb != (1 if pamb else 0):
            rep.violation("C10:harness:ambiguous-mirror", f"python mirror of `ambiguous` disagrees with M_tensor on {typed}",
                          dict(typed=typed, ss=r["ss"]), False)
        ok = None
        if mod is not None:
            shape, entries = mod
            want = []
            for e in entries:
                want.append(sum(jr["comps"][c // 1000000]["data"][c % 1000000] for c in e))
            ok = shape == jr["out_shape"] and len(want) == len(jr["out"]) and \
                all(close(a, b) for a, b in zip(want, jr["out"]))
        else:
            ok = False
        jstat["compared"] += 1
        if pamb:
            jstat["ambiguous_or_untyped"] += 1
            if not ok:
                jstat["differs_on_ambiguous"] += 1
            continue
        if ok:
            jstat["agree"] += 1
        else:
            sp = _cat(tier)[r["key"]]
            rep.violation("C10:model-impl-differ:joint",
                          f"JointDistributionModel returns shape {jr['out_shape']} values {_fmt(jr['out'][:4])}; the model "
                          f"of log_prob gives {'an error' if mod is None else mod[0]} on components "
                          f"{[(c['shape'], c['rep']) for c in jr['comps']]} J={jr['J']} ({r['key']} batched {r['sub']})",
                          dict(spec=r["key"], batched=r["sub"], ss=r["ss"], vseed=r["vseed"],
                               broken="correspondence M_tensor.joint_log_prob vs JointDistributionModel.log_prob"), False)
    jerr = sum(1 for r in results if r["outcome"] == "error" and _cat(tier)[r["key"]].group in ("joint", "joint1"))
    jstat["impl_raises_not_compared"] = jerr

    rep.rule = ("catalogue of callable models / transformed parameters built from JSON (tree likelihood JC69/HKY/GTR x "
                "site models x clocks, Poisson likelihood, coalescent family x tree models, BDSK, GMRF, CTMCScale, "
                "compound gamma-Dirichlet, reparameterised tree model, Distribution wrappers over torch/torchtree "
                "distributions, MultivariateNormal, ScaleMixtureNormal, BayesianBridge, TransformedParameter chains, "
                "JointDistributionModel of several / of each single component); per entry: "
                + ("every non-empty subset of its parameters batched x sample shapes [S] S=1..5 and [S,K] (all 25 for "
                   "<= 4 parameters, 13 covering pairs otherwise)" if tier == "thorough" else
                   "singletons, all-but-one and all parameters batched (pairwise covering) x 2 shapes [S] + 2 shapes [S,K] drawn per subset")
                + "; values random per sample; non-trivial = the batched call returned a value; distinct = distinct "
                  "(entry, subset, shape) + distinct tensor-op cases")
    rep.extra = dict(input_distribution=dict(outcomes=outcomes, per_group=per_group, tensor_ops=opstat),
                     catalogue_entries=len(_cat(tier)), model_undefined=0,
                     traces_validated_against_impl=len(ops) + rule_stat["checked"] + jstat["agree"],
                     sample_shape_rules=rule_stat, joint_model=jstat,
                     extras_errors=sum(1 for r in results if "extras_error" in r))
    if tier == "thorough":
        rep.exhaustive = dict(space="for every catalogue entry: all non-empty subsets of batched parameters x all "
                                    "sample shapes [S], S in 1..5, and [S,K] as described in `rule`",
                              size=len(jobs))
    return rep.finish()
