"""C10 — catalogue of callable models / transforms constructible from JSON, for the slice oracle.

A Spec names a class configuration, its parameters (name -> base shape + value generator) and a
`build(vals)` that constructs the object through the public JSON route (`from_json`) from plain
nested lists and returns the list of observable tensors (`model()`; for transformed parameters the
transformed tensor and the log-Jacobian).  A parameter is *batched* by giving it a value of shape
sample_shape + base_shape; the slice oracle re-builds the object with slice s of every batched value.
"""
import math
from collections import OrderedDict

from harness import impl

# ----------------------------------------------------------------------------- value generators


def g_pos(lo=0.2, hi=3.0):
    def g(rng, shape):
        return _fill(shape, lambda: math.exp(rng.uniform(math.log(lo), math.log(hi))))
    return g


def g_unit(lo=0.1, hi=0.9):
    def g(rng, shape):
        return _fill(shape, lambda: rng.uniform(lo, hi))
    return g


def g_real(lo=-1.5, hi=1.5):
    def g(rng, shape):
        return _fill(shape, lambda: rng.uniform(lo, hi))
    return g


def g_simplex():
    def g(rng, shape):
        assert len(shape) == 1
        x = [rng.gammavariate(2.0, 1.0) + 0.05 for _ in range(shape[0])]
        s = sum(x)
        return [v / s for v in x]
    return g


def g_sorted(lo=0.3, hi=3.0):
    """increasing positive values (internal heights of a caterpillar tree in postorder indexing)"""
    def g(rng, shape):
        assert len(shape) == 1
        x, cur = [], 0.0
        for _ in range(shape[0]):
            cur += math.exp(rng.uniform(math.log(lo), math.log(hi)))
            x.append(cur)
        return x
    return g


def g_spd():
    """symmetric positive definite matrix"""
    def g(rng, shape):
        n = shape[0]
        a = [[rng.uniform(-1, 1) for _ in range(n)] for _ in range(n)]
        return [[sum(a[i][k] * a[j][k] for k in range(n)) + (1.0 if i == j else 0.0) for j in range(n)]
                for i in range(n)]
    return g


def g_tril():
    def g(rng, shape):
        n = shape[0]
        return [[(math.exp(rng.uniform(-0.5, 0.5)) if i == j else (rng.uniform(-0.5, 0.5) if j < i else 0.0))
                 for j in range(n)] for i in range(n)]
    return g


def g_counts():
    def g(rng, shape):
        return _fill(shape, lambda: float(rng.randint(0, 4)))
    return g


def _fill(shape, f):
    if not shape:
        return f()
    return [_fill(shape[1:], f) for _ in range(shape[0])]


# ----------------------------------------------------------------------------- spec


class Spec:
    def __init__(self, key, params, json, group, observe=None, comps=None):
        self.key = key
        self.params = OrderedDict(params)     # name -> (shape tuple, generator)
        self.json = json                      # vals -> JSON dict (None for joint specs)
        self.observe = observe or (lambda m: [m()])
        self.group = group
        self.comps = comps                    # joint specs: component descriptors
        self.subs = None

    def make(self, vals):
        return from_json(self.json(vals))

    def build(self, vals):
        """-> list of observable tensors"""
        return self.observe(self.make(vals))


def P(id_, v):
    return impl.param_json(id_, v)


def taxa_json(n, dates=None):
    dates = dates or [0.0] * n
    return {"id": "taxa", "type": "Taxa", "taxa": [
        {"id": f"t{i}", "type": "Taxon", "attributes": {"date": dates[i]}} for i in range(n)]}


def caterpillar(n):
    s = "(t0,t1)"
    for i in range(2, n):
        s = f"({s},t{i})"
    return s + ";"


SEQS = {3: ["ACGTAAC", "ACGTCAT", "AAGTCGT"], 4: ["ACGTAAC", "ACGTCAT", "AAGTCGT", "CAGTTGA"]}


def tree_json(kind, n, vals, dates=None):
    if kind == "unrooted":
        return {"id": "tree", "type": "UnRootedTreeModel", "newick": caterpillar(n), "taxa": taxa_json(n),
                "branch_lengths": P("bl", vals["bl"])}
    if kind == "time":
        return {"id": "tree", "type": "TimeTreeModel", "newick": caterpillar(n), "taxa": taxa_json(n, dates),
                "internal_heights": P("heights", vals["heights"])}
    if kind == "ratio":
        return {"id": "tree", "type": "ReparameterizedTimeTreeModel", "newick": caterpillar(n),
                "taxa": taxa_json(n, dates), "ratios": P("ratios", vals["ratios"]),
                "root_height": P("root_height", vals["root_height"])}
    if kind == "shift":
        return {"id": "tree", "type": "ReparameterizedTimeTreeModel", "newick": caterpillar(n),
                "taxa": taxa_json(n, dates), "shifts": P("shifts", vals["shifts"])}
    raise ValueError(kind)


def tree_params(kind, n, dates=None):
    top = max(dates) if dates else 0.0
    if kind == "unrooted":
        return [("bl", ((2 * n - 3,), g_pos(0.01, 0.5)))]
    if kind == "time":
        return [("heights", ((n - 1,), g_sorted(0.2 + top, 1.5 + top)))]
    if kind == "ratio":
        return [("ratios", ((n - 2,), g_unit())), ("root_height", ((1,), g_pos(top + 0.5, top + 3.0)))]
    if kind == "shift":
        return [("shifts", ((n - 1,), g_pos(0.1, 1.5)))]
    raise ValueError(kind)


def from_json(d):
    impl.load()
    from torchtree.core.utils import process_object
    return process_object(d, {})


# ----------------------------------------------------------------------------- tree likelihood


def like_spec(subst, site, tree, n=3, cat=4, tip="partials"):
    params = list(tree_params("unrooted" if tree == "unrooted" else "ratio", n))
    if subst == "HKY":
        params += [("kappa", ((1,), g_pos(0.5, 5.0))), ("freqs", ((4,), g_simplex()))]
    elif subst == "GTR":
        params += [("rates", ((6,), g_pos(0.2, 4.0))), ("freqs", ((4,), g_simplex()))]
    if "weibull" in site:
        params += [("shape", ((1,), g_pos(0.3, 3.0)))]
    if "inv" in site:
        params += [("pinv", ((1,), g_unit(0.05, 0.6)))]
    if "mu" in site:
        params += [("mu", ((1,), g_pos(0.3, 3.0)))]
    if tree == "strict":
        params += [("rate", ((1,), g_pos(0.01, 0.3)))]
    elif tree == "simple":
        params += [("rate", ((2 * n - 2,), g_pos(0.01, 0.3)))]

    def js(v):
        tj = tree_json("unrooted" if tree == "unrooted" else "ratio", n, v)
        if subst == "JC69":
            sj = {"id": "m", "type": "JC69"}
        elif subst == "HKY":
            sj = {"id": "m", "type": "HKY", "kappa": P("kappa", v["kappa"]), "frequencies": P("freqs", v["freqs"])}
        else:
            sj = {"id": "m", "type": "GTR", "rates": P("rates", v["rates"]), "frequencies": P("freqs", v["freqs"])}
        if "weibull" in site:
            mj = {"id": "sm", "type": "WeibullSiteModel", "categories": cat, "shape": P("shape", v["shape"])}
        elif site.startswith("invariant"):
            mj = {"id": "sm", "type": "InvariantSiteModel"}
        else:
            mj = {"id": "sm", "type": "ConstantSiteModel"}
        if "inv" in site:
            mj["invariant"] = P("pinv", v["pinv"])
        if "mu" in site:
            mj["mu"] = P("mu", v["mu"])
        aln = {"id": "aln", "type": "Alignment", "datatype": "nucleotide", "taxa": "taxa",
               "sequences": [{"taxon": f"t{j}", "sequence": SEQS[n][j]} for j in range(n)]}
        d = {"id": "like", "type": "TreeLikelihoodModel", "tree_model": tj, "site_model": mj,
             "substitution_model": sj, "site_pattern": {"id": "sp", "type": "SitePattern", "alignment": aln}}
        if tree != "unrooted":
            d["branch_model"] = {"id": "clock", "type": "StrictClockModel" if tree == "strict" else "SimpleClockModel",
                                 "tree_model": "tree", "rate": P("rate", v["rate"])}
        if tip == "states":
            d["use_tip_states"] = True
        return d
    key = f"TreeLikelihoodModel/{subst}/{site}" + (f"{cat}" if "weibull" in site else "") + f"/{tree}/n{n}" + \
          ("/tipstates" if tip == "states" else "")
    return Spec(key, params, js, "treelikelihood")


# ----------------------------------------------------------------------------- coalescent, BDSK, tree priors


def coal_spec(model, tree, n=3, pieces=3, dates=None):
    params = list(tree_params(tree, n, dates)) if tree != "fake" else []
    if model in ("constant", "exponential", "pwexp"):
        params += [("theta", ((1 if model != "pwexp" else pieces,), g_pos(0.5, 5.0)))]
    elif model == "skyride":
        params += [("theta", ((n - 1,), g_pos(0.5, 5.0)))]
    elif model in ("skygrid", "linear", "softskygrid"):
        params += [("theta", ((pieces,), g_pos(0.5, 5.0)))]
    if model == "exponential":
        params += [("growth", ((1,), g_real(0.1, 1.0)))]
    if model == "pwexp":
        params += [("growth", ((pieces,), g_real(0.1, 1.0)))]
    cls = {"constant": "ConstantCoalescentModel", "exponential": "ExponentialCoalescentModel",
           "skyride": "PiecewiseConstantCoalescentModel", "skygrid": "PiecewiseConstantCoalescentGridModel",
           "softskygrid": "PiecewiseConstantCoalescentGridModel",
           "linear": "PiecewiseLinearCoalescentGridModel", "pwexp": "PiecewiseExponentialCoalescentGridModel",
           "integrated": "ConstantCoalescentIntegratedModel"}[model]

    def js(v):
        d = {"id": "coal", "type": cls}
        if model != "integrated":
            d["theta"] = P("theta", v["theta"])
        else:
            d["alpha"], d["beta"] = 2.0, 1.5
        if "growth" in v:
            d["growth"] = P("growth", v["growth"])
        if model in ("skygrid", "linear", "pwexp", "softskygrid"):
            d["grid"] = [0.8 * (j + 1) for j in range(pieces - 1)]
        if model == "softskygrid":
            d["temperature"] = 0.1
        if tree == "fake":
            d["times"] = [0.0, 0.0, 0.0, 0.7, 1.9][: 2 * n - 1] if n == 3 else [0.0] * n + [0.5 * (j + 1) for j in range(n - 1)]
            d["events"] = [1] * n + [0] * (n - 1)
        else:
            d["tree_model"] = tree_json(tree, n, v, dates)
        return d
    key = f"{cls}/{tree}/n{n}" + (f"/pieces{pieces}" if model in ("skygrid", "linear", "pwexp", "softskygrid") else "") + \
          ("/soft" if model == "softskygrid" else "") + ("/dated" if dates else "")
    return Spec(key, params, js, "coalescent")


def bdsk_spec(tree, n=3, m=1, rho=False, times=False, dates=None):
    params = list(tree_params(tree, n, dates))
    params += [("R", ((m,), g_pos(1.2, 3.0))), ("delta", ((m,), g_pos(0.5, 2.0))), ("s", ((m,), g_unit(0.1, 0.6))),
               ("origin", ((1,), g_pos(0.3, 2.0)))]
    if rho:
        params += [("rho", ((1,), g_unit(0.2, 0.8)))]

    def js(v):
        d = {"id": "bdsk", "type": "BDSKModel", "tree_model": tree_json(tree, n, v, dates),
             "R": P("R", v["R"]), "delta": P("delta", v["delta"]), "s": P("s", v["s"]),
             "origin": P("origin", v["origin"]), "origin_is_root_edge": True}
        if rho:
            d["rho"] = P("rho", v["rho"])
        return d
    key = f"BDSKModel/{tree}/n{n}/m{m}" + ("/rho" if rho else "") + ("/dated" if dates else "")
    return Spec(key, params, js, "bdsk")


def gmrf_spec(variant, n=3, dim=4):
    params = [("field", ((dim,), g_real())), ("precision", ((1,), g_pos(0.3, 3.0)))]
    if variant == "tree":
        dim = n - 1
        params = [("field", ((dim,), g_real())), ("precision", ((1,), g_pos(0.3, 3.0)))] + \
            list(tree_params("ratio", n))
    if variant == "integrated":
        params = [("field", ((dim,), g_real()))]

    def js(v):
        if variant == "integrated":
            d = {"id": "gmrf", "type": "GMRFGammaIntegrated", "x": P("field", v["field"]), "shape": 1.5, "rate": 0.7}
        else:
            d = {"id": "gmrf", "type": "GMRF", "x": P("field", v["field"]), "precision": P("precision", v["precision"])}
        if variant == "tree":
            d["tree_model"] = tree_json("ratio", n, v)
        return d
    return Spec(f"GMRF/{variant}/dim{dim}", params, js, "gmrf")


def ctmc_spec(tree, n=3):
    params = [("rate", ((1,), g_pos(0.01, 1.0)))] + list(tree_params(tree, n))

    def js(v):
        d = {"id": "ctmc", "type": "CTMCScale", "x": P("rate", v["rate"]), "tree_model": tree_json(tree, n, v)}
        return d
    return Spec(f"CTMCScale/{tree}/n{n}", params, js, "ctmcscale")


def treeprior_spec(n=4):
    params = list(tree_params("unrooted", n)) + [("alpha", ((1,), g_pos(0.5, 2.0))), ("c", ((1,), g_pos(0.5, 2.0))),
                                                   ("shape", ((1,), g_pos(0.5, 2.0))), ("rate", ((1,), g_pos(0.5, 2.0)))]

    def js(v):
        d = {"id": "gd", "type": "CompoundGammaDirichletPrior", "tree_model": tree_json("unrooted", n, v),
             "alpha": P("alpha", v["alpha"]), "c": P("c", v["c"]), "shape": P("shape", v["shape"]),
             "rate": P("rate", v["rate"])}
        return d
    return Spec(f"CompoundGammaDirichletPrior/n{n}", params, js, "treeprior")


def heights_spec(kind, n=3, dates=None):
    """ReparameterizedTimeTreeModel: node heights, branch lengths and the log-Jacobian"""
    params = list(tree_params(kind, n, dates))

    def js(v):
        return tree_json(kind, n, v, dates)
    return Spec(f"ReparameterizedTimeTreeModel/{kind}/n{n}" + ("/dated" if dates else ""), params, js, "treemodel",
                observe=lambda m: [m(), m.node_heights, m.branch_lengths()])


def poisson_spec(n=3):
    params = list(tree_params("ratio", n)) + [("rate", ((1,), g_pos(0.5, 3.0)))]

    def js(v):
        d = {"id": "pl", "type": "PoissonTreeLikelihood", "tree_model": tree_json("ratio", n, v),
             "branch_model": {"id": "clock", "type": "StrictClockModel", "tree_model": "tree", "rate": P("rate", v["rate"])},
             "edge_lengths": [1.0, 2.0, 0.0, 3.0, 1.0, 2.0][: 2 * n - 2]}
        return d
    return Spec(f"PoissonTreeLikelihood/n{n}", params, js, "treelikelihood")


# ----------------------------------------------------------------------------- Distribution wrappers

TORCH_DISTS = {
    # name: (class path, {param: (base shape as fn of N, generator)}, x generator, event rank)
    "Normal": ("torch.distributions.Normal", {"loc": (1, g_real()), "scale": (1, g_pos())}, g_real(), 0),
    "LogNormal": ("torch.distributions.LogNormal", {"loc": (1, g_real()), "scale": (1, g_pos())}, g_pos(), 0),
    "Gamma": ("torch.distributions.Gamma", {"concentration": (1, g_pos()), "rate": (1, g_pos())}, g_pos(), 0),
    "Exponential": ("torch.distributions.Exponential", {"rate": (1, g_pos())}, g_pos(), 0),
    "Cauchy": ("torch.distributions.Cauchy", {"loc": (1, g_real()), "scale": (1, g_pos())}, g_real(), 0),
    "Beta": ("torch.distributions.Beta", {"concentration1": (1, g_pos()), "concentration0": (1, g_pos())}, g_unit(), 0),
    "Dirichlet": ("torch.distributions.Dirichlet", {"concentration": ("N", g_pos())}, g_simplex(), 1),
    "tt.LogNormal": ("torchtree.distributions.log_normal.LogNormal", {"mean": (1, g_pos()), "scale": (1, g_pos())}, g_pos(), 0),
    "tt.Normal": ("torchtree.distributions.normal.Normal", {"loc": (1, g_real()), "precision": (1, g_pos())}, g_real(), 0),
    "tt.OneOnX": ("torchtree.distributions.one_on_x.OneOnX", {}, g_pos(), 0),
}


def dist_spec(name, N=3, pshape="one"):
    """Distribution wrapper; pshape: 'one' (parameters of base shape [1]) or 'N' (base shape [N])"""
    path, pars, xg, _ = TORCH_DISTS[name]
    params = [("x", ((N,), xg))]
    for p, (sh, g) in pars.items():
        params.append((p, ((N if (sh == "N" or pshape == "N") else 1,), g)))

    def js(v):
        d = {"id": "d", "type": "Distribution", "distribution": path, "x": P("x", v["x"]),
             "parameters": {p: P(p, v[p]) for p in pars}}
        if not pars:
            del d["parameters"]
        return d
    return Spec(f"Distribution/{name}/N{N}/p{pshape}", params, js, "distribution")


def mvn_spec(param, N=3):
    g = {"covariance_matrix": g_spd(), "precision_matrix": g_spd(), "scale_tril": g_tril()}[param]
    params = [("x", ((N,), g_real())), ("loc", ((N,), g_real())), (param, ((N, N), g))]

    def js(v):
        d = {"id": "mvn", "type": "MultivariateNormal", "x": P("x", v["x"]),
             "parameters": {"loc": P("loc", v["loc"]), param: P(param, v[param])}}
        return d
    return Spec(f"MultivariateNormal/{param}/N{N}", params, js, "distribution")


def scalemix_spec(N=3, slab=False):
    params = [("x", ((N,), g_real())), ("gscale", ((1,), g_pos())), ("lscale", ((N,), g_pos()))]
    if slab:
        params.append(("slab", ((1,), g_pos())))

    def js(v):
        d = {"id": "sm", "type": "ScaleMixtureNormal", "x": P("x", v["x"]), "loc": 0.0,
             "global_scale": P("gscale", v["gscale"]), "local_scale": P("lscale", v["lscale"])}
        if slab:
            d["slab"] = P("slab", v["slab"])
        return d
    return Spec(f"ScaleMixtureNormal/N{N}" + ("/slab" if slab else ""), params, js, "distribution")


def bridge_spec(N=3, local=False):
    params = [("x", ((N,), g_real())), ("scale", ((1,), g_pos()))]
    params += [("lscale", ((N,), g_pos())), ("slab", ((1,), g_pos()))] if local else [("alpha", ((1,), g_pos(0.3, 1.0)))]

    def js(v):
        d = {"id": "bb", "type": "BayesianBridge", "x": P("x", v["x"]), "scale": P("scale", v["scale"])}
        if local:
            d["local_scale"], d["slab"] = P("lscale", v["lscale"]), P("slab", v["slab"])
        else:
            d["alpha"] = P("alpha", v["alpha"])
        return d
    return Spec(f"BayesianBridge/N{N}" + ("/local" if local else ""), params, js, "distribution")


# ----------------------------------------------------------------------------- transformed parameters

def tp_spec(chain, N=3):
    """TransformedParameter chains: observable = transformed tensor and log|det J|"""
    first = chain[0]
    xg = {"Exp": g_real(), "Sigmoid": g_real(), "StickBreaking": g_real(), "Log": g_pos(), "Affine": g_real(),
          "CumSumExp": g_real(), "SoftPlus": g_real(), "CumSumSoftPlus": g_real(), "ConvexCombination": g_pos(),
          "Linear": g_real(), "LogDifferenceRate": g_pos(), "RescaledRate": g_pos()}[first]
    params = [("x", ((N,), xg))]
    if "Affine" in chain:
        params += [("aloc", ((1,), g_real())), ("ascale", ((1,), g_pos()))]
    if "ConvexCombination" in chain:
        params += [("weights", ((N,), g_simplex()))]
    if "Linear" in chain:
        params += [("weight", ((2, N), g_real())), ("bias", ((2,), g_real()))]
    if "RescaledRate" in chain:
        params += [("rrate", ((1,), g_pos()))]
    if "LogDifferenceRate" in chain or "RescaledRate" in chain:
        params += list(tree_params("ratio", 3))
    PATH = {"Exp": "torch.distributions.ExpTransform", "Sigmoid": "torch.distributions.SigmoidTransform",
            "StickBreaking": "torch.distributions.StickBreakingTransform",
            "Log": "torchtree.distributions.transforms.LogTransform",
            "Affine": "torch.distributions.AffineTransform",
            "CumSumExp": "torchtree.distributions.transforms.CumSumExpTransform",
            "SoftPlus": "torchtree.distributions.transforms.SoftPlusTransform",
            "CumSumSoftPlus": "torchtree.distributions.transforms.CumSumSoftPlusTransform",
            "ConvexCombination": "torchtree.distributions.transforms.ConvexCombinationTransform",
            "Linear": "torchtree.distributions.transforms.LinearTransform",
            "LogDifferenceRate": "torchtree.evolution.rate_transform.LogDifferenceRateTransform",
            "RescaledRate": "torchtree.evolution.rate_transform.RescaledRateTransform"}
    nojac = {"Linear", "RescaledRate"}

    def js(v):
        d = P("x", v["x"])
        for i, t in enumerate(chain):
            d = {"id": f"tp{i}", "type": "TransformedParameter", "transform": PATH[t], "x": d}
            if t == "Affine":
                d["parameters"] = {"loc": P("aloc", v["aloc"]), "scale": P("ascale", v["ascale"])}
            if t == "ConvexCombination":
                d["parameters"] = {"weights": P("weights", v["weights"])}
            if t == "Linear":
                d["parameters"] = {"weight": P("weight", v["weight"]), "bias": P("bias", v["bias"])}
            if t == "LogDifferenceRate":
                d["parameters"] = {"tree_model": tree_json("ratio", 3, v)}
            if t == "RescaledRate":
                d["parameters"] = {"rate": P("rrate", v["rrate"]), "tree_model": tree_json("ratio", 3, v)}
        return d

    def observe(tp):
        obs = [tp.tensor]
        if not (set(chain) & nojac):
            obs.append(tp())
        return obs
    return Spec("TransformedParameter/" + "+".join(chain) + f"/N{N}", params, js, "transform", observe=observe)


# ----------------------------------------------------------------------------- joint distributions

def joint_spec(name, comps):
    """comps: list of component descriptors; each is (kind, options).  kinds:
         ('dist', distname, N, pshape)       Distribution wrapper
         ('coal', model, tree)               coalescent (returns [...,1])
         ('gmrf',)                           GMRF on theta of a skygrid
         ('tp', chain, N)                    TransformedParameter as a Jacobian term (a callable *parameter*)
         ('like', subst, site, tree)         tree likelihood
       Parameter names are prefixed by the component index."""
    subs = []
    for i, c in enumerate(comps):
        if c[0] == "dist":
            subs.append(dist_spec(*c[1:]))
        elif c[0] == "coal":
            subs.append(coal_spec(*c[1:]))
        elif c[0] == "gmrf":
            subs.append(gmrf_spec(*c[1:]))
        elif c[0] == "tp":
            subs.append(tp_spec(*c[1:]))
        elif c[0] == "like":
            subs.append(like_spec(*c[1:]))
        elif c[0] == "mvn":
            subs.append(mvn_spec(*c[1:]))
        else:
            raise ValueError(c)
    params = []
    for i, s in enumerate(subs):
        for p, d in s.params.items():
            params.append((f"{i}.{p}", d))

    sp = Spec(f"JointDistributionModel/{name}", params, None, "joint", comps=comps)
    sp.subs = subs

    def make(v):
        impl.load()
        from torchtree.distributions.joint_distribution import JointDistributionModel
        objs = [s_.make({p: v[f"{i}.{p}"] for p in s_.params}) for i, s_ in enumerate(subs)]
        return JointDistributionModel("joint", objs)
    sp.make = make
    return sp


def joint1_spec(sub):
    """JointDistributionModel([X]) for a callable model / transformed parameter X"""
    sp = Spec(f"JointDistributionModel[{sub.key}]", [(f"0.{p}", d) for p, d in sub.params.items()], None, "joint1",
              comps=[sub.key])
    sp.subs = [sub]

    def make(v):
        impl.load()
        from torchtree.distributions.joint_distribution import JointDistributionModel
        return JointDistributionModel("joint", [sub.make({p: v[f"0.{p}"] for p in sub.params})])
    sp.make = make
    return sp


# ----------------------------------------------------------------------------- catalogue

def catalogue(tier):
    S = []
    thorough = tier == "thorough"
    # tree likelihood: substitution model x site model x clock
    substs = ["JC69", "HKY", "GTR"]
    sites = ["constant", "constant+mu", "invariant", "weibull", "weibull+inv", "weibull+mu"]
    clocks = ["unrooted", "strict", "simple"]
    for su in substs:
        for si in sites:
            for ck in clocks:
                if not thorough:
                    # quick: every pair (subst, site), (subst, clock), (site, clock) is covered by this Latin-square-like subset
                    if (substs.index(su) + sites.index(si) + clocks.index(ck)) % 3 != 0:
                        continue
                S.append(like_spec(su, si, ck, 3, 4))
    S.append(like_spec("HKY", "weibull", "unrooted", 3, 3))
    S.append(like_spec("GTR", "weibull", "strict", 3, 2, "states"))
    S.append(like_spec("JC69", "weibull+inv", "unrooted", 3, 4, "states"))
    if thorough:
        S.append(like_spec("HKY", "weibull", "strict", 4, 5))
        S.append(like_spec("GTR", "weibull+inv", "unrooted", 4, 2))
        S.append(like_spec("HKY", "invariant", "simple", 4, 4, "states"))
    S.append(poisson_spec(3))
    # coalescent family
    for model in ["constant", "exponential", "skyride", "skygrid", "linear", "pwexp", "integrated", "softskygrid"]:
        for tree in ["time", "ratio", "fake"]:
            if model == "integrated" and tree == "fake":
                continue
            if not thorough and tree == "time" and model in ("exponential", "linear", "softskygrid"):
                continue
            S.append(coal_spec(model, tree, 3, 3 if model != "pwexp" else 1))
    S.append(coal_spec("skygrid", "ratio", 3, 2))
    S.append(coal_spec("constant", "ratio", 3, dates=[0.0, 0.5, 1.0]))
    S.append(coal_spec("skygrid", "time", 3, 4, dates=[0.0, 0.5, 1.0]))
    if thorough:
        S.append(coal_spec("pwexp", "ratio", 3, 3))
        S.append(coal_spec("skygrid", "ratio", 4, 5))
        S.append(coal_spec("skyride", "shift", 4))
        S.append(coal_spec("linear", "ratio", 4, 4, dates=[0.0, 0.3, 0.3, 1.0]))
    # BDSK
    S.append(bdsk_spec("ratio", 3, 1))
    S.append(bdsk_spec("time", 3, 2))
    S.append(bdsk_spec("ratio", 3, 3, rho=True))
    S.append(bdsk_spec("ratio", 3, 2, dates=[0.0, 0.5, 1.0]))
    if thorough:
        S.append(bdsk_spec("ratio", 4, 4, rho=True, dates=[0.0, 0.0, 0.4, 1.0]))
    # GMRF, CTMC scale, tree prior, tree model
    S += [gmrf_spec("plain", dim=4), gmrf_spec("plain", dim=2), gmrf_spec("tree", n=4), gmrf_spec("integrated", dim=3)]
    S += [ctmc_spec("unrooted"), ctmc_spec("ratio"), treeprior_spec(4)]
    S += [heights_spec("ratio", 3), heights_spec("shift", 3), heights_spec("ratio", 4, dates=[0.0, 0.2, 0.5, 1.0])]
    # Distribution wrappers
    for name in TORCH_DISTS:
        S.append(dist_spec(name, 3, "one"))
        if name not in ("Dirichlet", "tt.OneOnX"):
            S.append(dist_spec(name, 3 if thorough or name != "Cauchy" else 2, "N"))
    S.append(dist_spec("Normal", 1, "one"))
    S.append(dist_spec("Gamma", 2, "one"))
    S += [mvn_spec("covariance_matrix", 3), mvn_spec("scale_tril", 2), mvn_spec("precision_matrix", 3)]
    S += [scalemix_spec(3), scalemix_spec(3, True), bridge_spec(3), bridge_spec(3, True)]
    # transformed parameters
    for chain in [["Exp"], ["Sigmoid"], ["StickBreaking"], ["Log"], ["Affine"], ["CumSumExp"], ["SoftPlus"],
                  ["CumSumSoftPlus"], ["ConvexCombination"], ["Linear"], ["Exp", "Affine"], ["Exp", "Log"],
                  ["Affine", "Exp"], ["Exp", "ConvexCombination"], ["CumSumExp", "Log"]]:
        S.append(tp_spec(chain, 3))
    S.append(tp_spec(["LogDifferenceRate"], 4))
    S.append(tp_spec(["RescaledRate"], 4))
    S.append(tp_spec(["Exp"], 1))
    # joint distributions
    S.append(joint_spec("normal+gamma", [("dist", "Normal", 3, "one"), ("dist", "Gamma", 2, "one")]))
    S.append(joint_spec("normalN+exp1", [("dist", "Normal", 3, "N"), ("dist", "Exponential", 1, "one")]))
    S.append(joint_spec("coal+gamma", [("coal", "constant", "ratio"), ("dist", "Gamma", 1, "one")]))
    S.append(joint_spec("skygrid+gmrf-like", [("coal", "skygrid", "ratio"), ("dist", "Normal", 3, "one")]))
    S.append(joint_spec("like+coal+prior", [("like", "HKY", "weibull", "strict"), ("coal", "constant", "fake"),
                                            ("dist", "LogNormal", 1, "one")]))
    S.append(joint_spec("exp+jacobian", [("dist", "Exponential", 3, "one"), ("tp", ["Exp"], 3)]))
    S.append(joint_spec("dirichlet+normal", [("dist", "Dirichlet", 4, "one"), ("dist", "Normal", 2, "one")]))
    S.append(joint_spec("mvn+gamma", [("mvn", "covariance_matrix", 3), ("dist", "Gamma", 1, "one")]))
    S.append(joint_spec("single-normal", [("dist", "Normal", 3, "one")]))
    S.append(joint_spec("oneonx+normal", [("dist", "tt.OneOnX", 1, "one"), ("dist", "Normal", 3, "one")]))
    S.append(joint_spec("gmrf+gamma", [("gmrf", "plain", 3, 4), ("dist", "Gamma", 1, "one")]))
    # every callable model / transformed parameter as the single component of a joint distribution
    seen = set()
    for sp in list(S):
        if sp.group in ("joint", "treemodel") or sp.key.startswith("TransformedParameter/Linear") or \
                sp.key.startswith("TransformedParameter/RescaledRate"):
            continue
        cls = sp.key.split("/")[0]
        tag = sp.key if (thorough or cls in ("Distribution",)) else cls + "/" + str(len(sp.params))
        if tag in seen:
            continue
        seen.add(tag)
        S.append(joint1_spec(sp))
    S.append(joint1_spec(heights_spec("ratio", 3)))
    return S


# ----------------------------------------------------------------------------- slice oracle

import itertools  # noqa: E402

RTOL = 1e-9
ATOL = 1e-11


def gen_values(rng, spec, batched, ss):
    vals = {}
    for name, (shape, g) in spec.params.items():
        if name in batched:
            vals[name] = _fill(list(ss), lambda: g(rng, list(shape)))
        else:
            vals[name] = g(rng, list(shape))
    return vals


def slice_vals(spec, vals, batched, idx):
    out = {}
    for name in spec.params:
        v = vals[name]
        if name in batched:
            for i in idx:
                v = v[i]
        out[name] = v
    return out


def _tolist(t):
    return [float(x) for x in t.detach().reshape(-1)]


def close(a, b):
    if math.isnan(a) or math.isnan(b):
        return math.isnan(a) and math.isnan(b)
    if math.isinf(a) or math.isinf(b):
        return a == b
    return abs(a - b) <= RTOL * max(abs(a), abs(b)) + ATOL


def oracle(spec, batched, ss, vals):
    """The property itself on the implementation: value for sample s == value with slice s only.

    -> dict(outcome=..., ...) with outcome in
         'ok'        every sample agrees with its slice
         'error'     the batched call raised (allowed by the property)
         'noref'     a sliced (unbatched) call raised: nothing to compare with
         'mix'       same number of entries, a sample's value differs from its slice's value
         'shape'     the result has not prod(sample_shape) x (entries of an unbatched result) entries
    """
    n = 1
    for k in ss:
        n *= k
    try:
        outs = [o.detach().clone() for o in spec.build(vals)]
    except Exception as e:  # noqa: BLE001
        return dict(outcome="error", err=type(e).__name__, msg=str(e)[:160])
    refs = []
    for idx in itertools.product(*[range(k) for k in ss]):
        try:
            refs.append([o.detach().clone() for o in spec.build(slice_vals(spec, vals, batched, idx))])
        except Exception as e:  # noqa: BLE001
            return dict(outcome="noref", err=type(e).__name__, msg=str(e)[:160], shapes=[list(o.shape) for o in outs])
    res = dict(outcome="ok", shapes=[list(o.shape) for o in outs], ref_shapes=[list(o.shape) for o in refs[0]])
    for k, o in enumerate(outs):
        rn = refs[0][k].numel()
        if o.numel() == rn and all(all(close(x, y) for x, y in zip(_tolist(o), _tolist(r[k]))) for r in refs):
            continue        # the value does not depend on the batched parameters and is returned unbatched: it is
            #                 the (broadcast) value of every sample
        if o.numel() != n * rn:
            res.update(outcome="shape", observable=k,
                       what=f"result shape {list(o.shape)} for sample shape {list(ss)}; an unbatched call returns "
                            f"{list(refs[0][k].shape)}", value=_tolist(o)[:8], ref=[_tolist(r[k])[:4] for r in refs[:6]])
            return res
        rows = o.reshape(n, rn) if rn else o.reshape(n, 0)
        for s, r in enumerate(refs):
            a, b = _tolist(rows[s]), _tolist(r[k])
            for x, y in zip(a, b):
                if not close(x, y):
                    res.update(outcome="mix", observable=k, sample=s,
                               what=f"sample {s}: batched call gives {x!r}, the call with slice {s} alone gives {y!r}",
                               got=a[:6], want=b[:6])
                    return res
    return res


def _debug(argv):
    import random
    import collections
    tier = "quick"
    specs = catalogue(tier)
    pat = argv[1] if len(argv) > 1 else ""
    rng = random.Random(1)
    tab = collections.OrderedDict()
    for sp in specs:
        if pat not in sp.key:
            continue
        names = list(sp.params)
        subsets = []
        for r in range(1, len(names) + 1):
            subsets += list(itertools.combinations(names, r))
        if len(subsets) > 40:
            subsets = [s for s in subsets if len(s) in (1, len(names))] + rng.sample(subsets, 20)
        for sub in subsets:
            for ss in [(1,), (2,), (3,), (4,), (2, 3), (4, 2)]:
                vals = gen_values(rng, sp, sub, ss)
                r = oracle(sp, set(sub), ss, vals)
                k = (sp.key, sub)
                tab.setdefault(k, []).append((ss, r["outcome"] + (":" + r.get("err", "") if r["outcome"] in ("error", "noref") else ""), r))
    for (key, sub), rows in tab.items():
        line = " ".join(f"{'x'.join(map(str, ss))}={o}" for ss, o, _ in rows)
        print(f"{key:60s} {','.join(sub):40s} {line}")
        for ss, o, r in rows:
            if r["outcome"] in ("mix", "shape"):
                print("      ", ss, r["what"])
                break


if __name__ == "__main__":
    import sys
    _debug(sys.argv)


# ----------------------------------------------------------------------------- tensor-op correspondence (M_tensor vs torch)

from harness import common as C  # noqa: E402

HEADER = ("From Coq Require Import ZArith List. Import ListNotations.\n"
          "From TT Require Import M_tensor.\nOpen Scope Z_scope.\n")


def _rshape(rng, maxrank=3, maxdim=3, zero=False):
    r = rng.randint(0, maxrank)
    return [rng.choice(([0] if zero else []) + list(range(1, maxdim + 1))) for _ in range(r)]


def _numel(s):
    n = 1
    for k in s:
        n *= k
    return n


def gen_op_case(rng, i):
    kinds = ["binop", "binop", "unsqueeze", "squeeze", "expand", "reshape", "sum", "sum", "mean", "cat", "cat"]
    kind = kinds[i % len(kinds)]
    s = _rshape(rng, zero=rng.random() < 0.05)
    c = dict(op=kind, shape=s, data=[rng.randint(-9, 9) for _ in range(_numel(s))])
    if kind == "binop":
        mode = rng.random()
        if mode < 0.6:       # compatible by construction: drop leading dims / set dims to 1 on each side
            full = _rshape(rng, 4, 3)
            a = [1 if rng.random() < 0.3 else k for k in full][rng.randint(0, len(full)):]
            b = [1 if rng.random() < 0.3 else k for k in full][rng.randint(0, len(full)):]
        else:
            a, b = _rshape(rng), _rshape(rng)
        c.update(shape=a, data=[rng.randint(-9, 9) for _ in range(_numel(a))], shape2=b,
                 data2=[rng.randint(-9, 9) for _ in range(_numel(b))])
    elif kind in ("unsqueeze", "squeeze", "sum", "mean"):
        c["dim"] = rng.randint(-len(s) - 2, len(s) + 1)
        c["keepdim"] = rng.random() < 0.5
    elif kind == "expand":
        extra = rng.randint(0, 2)
        sizes = [rng.choice([-1, 1, 2, 3]) for _ in range(extra)]
        for k in s:
            sizes.append(rng.choice([-1, k, k, rng.randint(0, 3)]))
        if rng.random() < 0.1 and sizes:
            sizes = sizes[1:]
        c["sizes"] = sizes
    elif kind == "reshape":
        n = _numel(s)
        sizes = []
        rest = n
        for _ in range(rng.randint(0, 3)):
            divs = [d for d in range(1, 7) if rest and rest % d == 0] or [1]
            d = rng.choice(divs)
            sizes.append(d)
            rest = rest // d if rest else 0
        sizes.append(rest if rng.random() < 0.6 else rng.choice([-1, -1, 2, 0]))
        rng.shuffle(sizes)
        if rng.random() < 0.1:
            sizes.append(-1)
        c["sizes"] = sizes
    elif kind == "cat":
        k = rng.randint(1, 3)
        base = _rshape(rng, 3, 3) or [2]
        dim = rng.randint(-len(base) - 1, len(base))
        d0 = dim % len(base) if -len(base) <= dim < len(base) else 0
        parts = []
        for _ in range(k):
            sh = list(base)
            sh[d0] = rng.randint(1, 3)
            if rng.random() < 0.12:
                sh[rng.randrange(len(sh))] += 1
            if rng.random() < 0.05:
                sh = sh[1:]
            parts.append(dict(shape=sh, data=[rng.randint(-9, 9) for _ in range(_numel(sh))]))
        c.update(parts=parts, dim=dim)
    return c


def torch_op(c):
    """-> ('err',) or ('ok', shape, flat int data)"""
    torch = impl.load()

    def T(shape, data):
        return torch.tensor(data, dtype=torch.float64).reshape(shape)
    try:
        op = c["op"]
        if op == "binop":
            r = T(c["shape"], c["data"]) + T(c["shape2"], c["data2"])
        elif op == "unsqueeze":
            r = T(c["shape"], c["data"]).unsqueeze(c["dim"])
        elif op == "squeeze":
            r = T(c["shape"], c["data"]).squeeze(c["dim"])
        elif op == "expand":
            r = T(c["shape"], c["data"]).expand(*c["sizes"]) if c["sizes"] else T(c["shape"], c["data"]).expand(())
        elif op == "reshape":
            r = T(c["shape"], c["data"]).reshape(c["sizes"])
        elif op == "sum":
            r = T(c["shape"], c["data"]).sum(c["dim"], keepdim=c["keepdim"])
        elif op == "mean":
            t = T(c["shape"], c["data"])
            r = t.mean(c["dim"], keepdim=c["keepdim"])
            n = t.shape[c["dim"]] if t.dim() else 1
            r = r * n
        elif op == "cat":
            r = torch.cat([T(p["shape"], p["data"]) for p in c["parts"]], c["dim"])
        return ("ok", list(r.shape), [int(round(float(x))) for x in r.reshape(-1)])
    except (RuntimeError, IndexError, ValueError, TypeError):
        return ("err",)


def _ct(shape, data):
    return f"(mkT {C.coq_list(shape, C.natlit)} {C.coq_list(data, C.zlit)})"


def coq_op(c):
    op = c["op"]
    t = _ct(c["shape"], c["data"])
    b = lambda x: "true" if x else "false"
    if op == "binop":
        return f"show_t (zbinop Z.add {t} {_ct(c['shape2'], c['data2'])})"
    if op == "unsqueeze":
        return f"show_t (unsqueeze {C.zlit(c['dim'])} {t})"
    if op == "squeeze":
        return f"show_t (squeeze {C.zlit(c['dim'])} {t})"
    if op == "expand":
        return f"show_t (expand {C.coq_list(c['sizes'], C.zlit)} {t})"
    if op == "reshape":
        return f"show_t (reshape {C.coq_list(c['sizes'], C.zlit)} {t})"
    if op == "sum":
        return f"show_t (zsum_dim {C.zlit(c['dim'])} {b(c['keepdim'])} {t})"
    if op == "mean":
        return f"show_t (zmean_dim {C.zlit(c['dim'])} {b(c['keepdim'])} {t})"
    if op == "cat":
        return f"show_t (zcat {C.zlit(c['dim'])} {C.coq_list(c['parts'], lambda p: _ct(p['shape'], p['data']))})"
    raise ValueError(op)


def decode_t(flat):
    if flat[0] == 0:
        return ("err",)
    r = flat[1]
    return ("ok", flat[2:2 + r], flat[2 + r:])
