"""C03 — no silent underflow.  Sweep through the subnormal band; extended-range reference = interval
run of the (proved equal) plain pruning model; histories with the rescale flag observed."""
import json
import math
import os
import random
import time
from fractions import Fraction

from harness import common as C
from harness import impl, trees

PID = "C03"
HEADER = ("From Coq Require Import QArith ZArith List Arith. Import ListNotations.\n"
          "From TT Require Import Num NumI Tree M_like.\n"
          "Fixpoint caterpillar (k : nat) : tree := match k with O => Leaf 0 | S k' => Node (caterpillar k') (Leaf (S k')) end.\n")
LN_TINY = math.log(2.2250738585072014e-308)     # smallest normal double
LN_DENORM = math.log(5e-324)


def tip_state(pat, i):
    """site patterns as functions of the leaf index: 0 conserved, 1 nearly conserved, 2 pseudo-random"""
    if pat == 0:
        return 0
    if pat == 1:
        return 1 if i % 16 == 0 else 0
    return (i * i + i // 3) % 4


PAT_W = {0: 2, 1: 1, 2: 1}       # the conserved column appears twice in the alignment (pattern weight 2)


def sync():
    """gen/G_prune.v (the loops of tree_likelihood.py) is written by the C01 translators"""
    from harness.props import c01
    return c01.sync()


def make_tree(shape, n, rng):
    if shape == "caterpillar":
        t = 0
        for i in range(1, n):
            t = (t, i)
        return t
    return trees.random_tree(rng, n, shape)


def build(shape, n, tree, subst, x, B=None, mixed=False, tip_states=False):
    torch = impl.load()
    from torchtree.evolution.tree_likelihood import TreeLikelihoodModel
    names = [f"s{i}" for i in range(n)]
    taxa = {"id": "taxa", "type": "Taxa", "taxa": [{"id": nm, "type": "Taxon"} for nm in names]}
    bl = branch_vector(n, x)
    tm = {"id": "tree", "type": "UnRootedTreeModel", "newick": trees.newick(tree, names), "taxa": taxa,
          "branch_lengths": impl.param_json("bl", bl if B is None else [bl] * B)}
    if subst["type"] in ("JC69", "JC69+I"):
        sm = {"id": "m", "type": "JC69"}
    else:
        sm = {"id": "m", "type": "HKY", "kappa": impl.param_json("kappa", [subst["kappa"]]),
              "frequencies": impl.param_json("freqs", subst["freqs"])}
    aln = {"id": "aln", "type": "Alignment", "datatype": "nucleotide", "taxa": "taxa",
           "sequences": [{"taxon": names[i], "sequence": "A" + ("C" if i % 16 == 0 else "A") +
                          ("ACGT"[tip_state(2, i)] if mixed else "") + "A"} for i in range(n)]}
    site = {"id": "sm", "type": "ConstantSiteModel"}
    if subst["type"].endswith("+I"):
        # two categories with UNEQUAL proportions: rate 0 with probability pinv, rate 1/(1-pinv) otherwise
        site = {"id": "sm", "type": "InvariantSiteModel", "invariant": impl.param_json("pinv", [subst["pinv"]])}
    d = {"id": "like", "type": "TreeLikelihoodModel", "tree_model": tm,
         "site_model": site, "substitution_model": sm,
         "site_pattern": {"id": "sp", "type": "SitePattern", "alignment": aln}}
    if tip_states:
        d["use_tip_states"] = True
    dic = {}
    like = TreeLikelihoodModel.from_json(d, dic)
    return like, dic


def branch_vector(n, x):
    return [x * (1.0 if j % 2 == 0 else 1.75) for j in range(2 * n - 3)]


def cats_of(subst):
    """(proportion, rate) of the rate categories of the site model build() uses for this configuration"""
    if subst["type"].endswith("+I"):
        p = subst["pinv"]
        return [(p, 0.0), (1.0 - p, 1.0 / (1.0 - p))]
    return [(1.0, 1.0)]


def cat_matrices(subst_obj, x, rate):
    torch = impl.load()
    return [subst_obj.p_t(torch.tensor([x * f * rate])).detach().reshape(4, 4).tolist() for f in (1.0, 1.75)]


def ref_loglik(tree, n, x, subst_obj, pats=(0, 1), cats=((1.0, 1.0),)):
    """Float reference in the log domain (per-node rescaling): used to place the sweep and in search."""
    if len(cats) > 1:
        per = [ref_loglik_cat(tree, n, x, subst_obj, pats, r) for _p, r in cats]
        out = []
        for k, pat in enumerate(pats):
            terms = [math.log(p) + per[c][k] for c, (p, _r) in enumerate(cats) if per[c][k] > -math.inf]
            m = max(terms)
            out.append(PAT_W[pat] * (m + math.log(sum(math.exp(t - m) for t in terms))))
        return out
    return [PAT_W[pat] * v for pat, v in zip(pats, ref_loglik_cat(tree, n, x, subst_obj, pats, cats[0][1]))]


def ref_loglik_cat(tree, n, x, subst_obj, pats, rate):
    """ln of the site likelihoods of one rate category (unweighted)"""
    Ms = cat_matrices(subst_obj, x, rate)
    freqs = [float(v) for v in subst_obj.frequencies.detach().reshape(-1)]
    it = trees.index_tree(tree)
    total = []
    for pat in pats:
        def rec(u):
            if isinstance(u, int):
                s = tip_state(pat, u)
                return [1.0 if k == s else 0.0 for k in range(4)], 0.0
            pl, sl = rec(u[1])
            pr, sr = rec(u[2])
            out = []
            for a in range(4):
                ml = Ms[trees.idx(u[1]) % 2] if trees.idx(u[1]) != 2 * n - 3 else None
                mr = Ms[trees.idx(u[2]) % 2] if trees.idx(u[2]) != 2 * n - 3 else None
                va = pl[a] if ml is None else sum(ml[a][b] * pl[b] for b in range(4))
                vb = pr[a] if mr is None else sum(mr[a][b] * pr[b] for b in range(4))
                out.append(va * vb)
            m = max(out)
            if m == 0.0:
                return out, -math.inf
            return [v / m for v in out], sl + sr + math.log(m)
        import sys
        sys.setrecursionlimit(10000)
        p, s = rec(it)
        dot = sum(f * v for f, v in zip(freqs, p))
        total.append(math.log(dot) + s if dot > 0.0 and s > -math.inf else -math.inf)
    return total


def coq_case(shape, n, tree, Ms, freqs, mixed=False, props=None):
    if props is not None:
        return coq_case_cats(shape, n, tree, Ms, freqs, mixed, props)
    I = lambda v: f"ofQ NumI {C.qlit(v)}"
    M = lambda m: C.coq_list(m, lambda row: C.coq_list(row, I))
    ident = "[[ofQ NumI 1; ofQ NumI 0; ofQ NumI 0; ofQ NumI 0]; [ofQ NumI 0; ofQ NumI 1; ofQ NumI 0; ofQ NumI 0]; " \
            "[ofQ NumI 0; ofQ NumI 0; ofQ NumI 1; ofQ NumI 0]; [ofQ NumI 0; ofQ NumI 0; ofQ NumI 0; ofQ NumI 1]]"
    tr = f"(caterpillar {C.natlit(n - 1)})" if shape == "caterpillar" else trees.coq_tree(tree)
    e = lambda k: "[" + "; ".join(("ofQ NumI 1" if j == k else "ofQ NumI 0") for j in range(4)) + "]"
    return (f"let P := fun j : nat => if Nat.eqb j {C.natlit(2 * n - 3)} then {ident} else "
            f"lk [{M(Ms[0])}; {M(Ms[1])}] (Nat.modulo j 2) [] in "
            f"let pats := [(ofQ NumI 2, fun i : nat => {e(0)}); "
            f"(ofQ NumI 1, fun i : nat => if Nat.eqb (Nat.modulo i 16) 0 then {e(1)} else {e(0)})"
            + (f"; (ofQ NumI 1, fun i : nat => lk [{e(0)}; {e(1)}; {e(2)}; {e(3)}] "
               f"(Nat.modulo (i * i + Nat.div i 3) 4) [])" if mixed else "") + "] in "
            f"show_i (loglik NumI 4%nat {C.coq_list(freqs, I)} [P] [ofQ NumI 1] (index_tree {tr}) pats)")


def coq_case_cats(shape, n, tree, Ms, freqs, mixed, props):
    """several rate categories: Ms[k] = the two matrices of category k, props[k] its proportion"""
    I = lambda v: f"ofQ NumI {C.qlit(v)}"
    M = lambda m: C.coq_list(m, lambda row: C.coq_list(row, I))
    ident = "[[ofQ NumI 1; ofQ NumI 0; ofQ NumI 0; ofQ NumI 0]; [ofQ NumI 0; ofQ NumI 1; ofQ NumI 0; ofQ NumI 0]; " \
            "[ofQ NumI 0; ofQ NumI 0; ofQ NumI 1; ofQ NumI 0]; [ofQ NumI 0; ofQ NumI 0; ofQ NumI 0; ofQ NumI 1]]"
    tr = f"(caterpillar {C.natlit(n - 1)})" if shape == "caterpillar" else trees.coq_tree(tree)
    e = lambda k: "[" + "; ".join(("ofQ NumI 1" if j == k else "ofQ NumI 0") for j in range(4)) + "]"
    Ps = "; ".join(f"(fun j : nat => if Nat.eqb j {C.natlit(2 * n - 3)} then {ident} else "
                   f"lk [{M(Mk[0])}; {M(Mk[1])}] (Nat.modulo j 2) [])" for Mk in Ms)
    return (f"let pats := [(ofQ NumI 2, fun i : nat => {e(0)}); "
            f"(ofQ NumI 1, fun i : nat => if Nat.eqb (Nat.modulo i 16) 0 then {e(1)} else {e(0)})"
            + (f"; (ofQ NumI 1, fun i : nat => lk [{e(0)}; {e(1)}; {e(2)}; {e(3)}] "
               f"(Nat.modulo (i * i + Nat.div i 3) 4) [])" if mixed else "") + "] in "
            f"show_i (loglik NumI 4%nat {C.coq_list(freqs, I)} [{Ps}] {C.coq_list(props, I)} (index_tree {tr}) pats)")


def evb(model, k):
    """values of a batched evaluation (k rows), or the exception for every row"""
    try:
        return [float(v) for v in model().detach()]
    except Exception as ex:  # noqa
        return [f"raises {type(ex).__name__}: {str(ex)[:100]}"] * k


def ev(model):
    """value of one evaluation, or a description of the exception it raises (a finding with its input)"""
    try:
        return float(model().detach())
    except Exception as ex:  # noqa
        return f"raises {type(ex).__name__}: {str(ex)[:100]}"


def single_precision_findings(rng, tier):
    """The same question in SINGLE precision (the default dtype of PyTorch when none is set): trees of 40..90 taxa take
    the site likelihoods through the float32 subnormal band [1.4e-45, 1.2e-38) and beyond.  Reference: the same model
    in double precision; agreement to 2e-6 relative (single precision itself allows no more; the unchanged code is
    within 2e-7)."""
    torch = impl.load()
    found, nrun = {}, 0
    for shape in ("caterpillar", "random"):
        for n in range(40, 92, 3 if tier == "quick" else 1):
            tree = make_tree(shape, n, rng)
            x = rng.choice([0.3, 0.6, 1.0])
            subst = dict(type="JC69")
            try:
                # (mixed=True adds a pseudo-random column: its likelihood is about 4^-n, in the float32 subnormal band for
                #  n = 63..74)
                ref = float(build(shape, n, tree, subst, x, mixed=True)[0]().detach())
                torch.set_default_dtype(torch.float32)
                try:
                    lk, dc = build(shape, n, tree, subst, x, mixed=True)
                    v1 = float(lk().detach())
                    flag1 = bool(lk.rescale)
                    v2 = float(lk().detach())
                finally:
                    torch.set_default_dtype(torch.float64)
            except Exception as e:       # noqa
                k = f"C03:single-precision:raises:{type(e).__name__}"
                found.setdefault(k, (k, f"{shape} n={n}: {type(e).__name__}: {str(e)[:140]}", dict(shape=shape, n=n, x=x)))
                continue
            nrun += 1
            for tag, v in (("first", v1), ("second", v2)):
                if not math.isfinite(v) or abs(v - ref) > 2e-6 * abs(ref):
                    k = f"C03:single-precision:{tag}-evaluation"
                    found.setdefault(k, (k, f"{shape} tree, {n} taxa, branch scale {x}, float32 model: {tag} evaluation "
                                            f"returns {v!r} (rescale flag after the first: {flag1}), the same model in "
                                            f"double precision {ref!r}: relative error {abs(v - ref) / abs(ref):.1e}",
                                         dict(shape=shape, n=n, x=x, float32=[v1, v2], float64=ref)))
    return list(found.values()), nrun


def band_findings(rng, tier, prefix):
    """A few fresh models whose site likelihoods lie INSIDE the subnormal band of doubles (placed by bisection on the
    branch-length scale), against the log-domain reference: the value returned must be as accurate there as anywhere
    else.  (Shared with the C01 check: the exact marginalisation is also owed for the trees on which the plain
    recursion quietly loses its digits.)"""
    n2 = 560
    found, nrun = {}, 0
    subst = dict(type="JC69")
    cats = cats_of(subst)
    for shape in (["caterpillar"] if tier == "quick" else ["caterpillar", "balanced"]):
        tree = make_tree(shape, n2, rng)
        like, _ = build(shape, n2, tree, subst, 0.01)
        sm = like.subst_model
        f = lambda x: min(ref_loglik_cat(tree, n2, x, sm, (0, 1), cats[-1][1]))

        def solve(target):
            lo, hi = 1e-4, 50.0
            if f(hi) > target:
                return None
            for _ in range(50):
                mid = math.sqrt(lo * hi)
                if f(mid) > target:
                    lo = mid
                else:
                    hi = mid
            return hi
        xb, xc = solve(LN_TINY), solve(LN_DENORM)
        if xb is None:
            continue
        if xc is None:
            xc = xb * 1.5
        k = 5 if tier == "quick" else 16
        for j in range(k):
            x = xb + (xc - xb) * (j + 0.5) / k
            lk, _ = build(shape, n2, tree, subst, x)
            v = ev(lk)
            nrun += 1
            ref = sum(ref_loglik(tree, n2, x, sm, (0, 1), cats))
            bad = None
            if isinstance(v, str):
                bad = v
            elif not math.isfinite(v):
                bad = f"returned {v!r} while the true value {ref!r} is finite"
            elif abs(v - ref) > 1e-8 * abs(ref):
                bad = (f"returned {v!r}, reference {ref!r}: relative error {abs(v - ref) / abs(ref):.2e} "
                       f"(rescale flag after = {bool(lk.rescale)})")
            if bad:
                key = f"{prefix}:inaccurate:subnormal-band:fresh"
                found.setdefault(key, (key, f"{shape} n={n2} JC69 branch scale {x!r} (site likelihoods between 5e-324 and "
                                            f"2.2e-308): {bad}",
                                       dict(shape=shape, n=n2, subst=subst, x=x, value=v, reference=ref)))
    return list(found.values()), nrun


def small_tree_findings(rng, tier):
    """Underflow is not a matter of tree size alone: a tree of a hundred-odd taxa whose branches are very short
    (closely related sequences, an optimiser's starting values) has site likelihoods below 2.2e-308 as soon as a column
    needs many substitutions.  Fresh models and a model whose branches shrink after an ordinary first evaluation,
    against the log-domain reference."""
    torch = impl.load()
    found, nrun = {}, 0
    subst = dict(type="JC69")
    cats = cats_of(subst)
    for n2, shape in ((120, "caterpillar"), (200, "balanced")) if tier == "quick" else \
            ((120, "caterpillar"), (200, "balanced"), (160, "random"), (250, "caterpillar")):
        tree = make_tree(shape, n2, rng)
        xs = [rng.choice([1e-6, 3e-6, 1e-5]), rng.choice([1e-4, 3e-4, 1e-3])]
        like, dic = build(shape, n2, tree, subst, 0.05, mixed=True)
        sm = like.subst_model

        def judge(v, x, mode):
            ref = sum(ref_loglik(tree, n2, x, sm, (0, 1, 2), cats))
            bad = None
            if isinstance(v, str):
                bad = v
            elif not math.isfinite(v):
                bad = f"returned {v!r} while the true value {ref!r} is finite"
            elif abs(v - ref) > 1e-8 * abs(ref):
                bad = f"returned {v!r}, reference {ref!r} (relative error {abs(v - ref) / abs(ref):.2e})"
            if bad:
                k = f"C03:small-tree-short-branches:{mode}"
                found.setdefault(k, (k, f"{shape} n={n2} JC69, all branches {x!r}, a conserved, a nearly conserved and a "
                                        f"pseudo-random column: {bad}",
                                     dict(shape=shape, n=n2, subst=subst, x=x, mode=mode, value=v, reference=ref)))
        for x in xs:
            lk, _ = build(shape, n2, tree, subst, x, mixed=True)
            judge(ev(lk), x, "fresh")
            nrun += 1
        judge(ev(like), 0.05, "history")
        for x in xs:
            dic["bl"].tensor = torch.tensor(branch_vector(n2, x))
            judge(ev(like), x, "history")
            nrun += 1
    return list(found.values()), nrun


def run(tier, seed, replay=None):
    torch = impl.load()
    rep = C.Report(PID, tier, seed)
    rep.trusted = C.COMMON_TRUSTED + [
        "hand-written models M_like.v / M_rescale.v; theorem C03_rescaled_eq_plain makes the interval run of the "
        "plain model a legitimate extended-range reference for every code path",
        "the clause about doubles (accuracy when site likelihoods are subnormal) is NOT a theorem: decided by this "
        "sweep only", "transition matrices enter as oracle tables from subst_model.p_t (C04)",
        "python float log-domain reference (ref_loglik) is used only to place the sweep and in the failing-input search"]
    rng = random.Random(seed)
    n = 560 if tier == "quick" else 640
    shapes = ["caterpillar", "balanced"] if tier == "quick" else ["caterpillar", "balanced", "random"]
    per_band = 7 if tier == "quick" else 24
    evals = []       # dicts: shape, subst, x, mode(fresh|history|batched), value, flag_before, flag_after
    t0 = time.time()
    for shape in shapes:
        for subst in ([dict(type="JC69")] if tier == "quick" and shape != "caterpillar" else
                      [dict(type="JC69"), dict(type="HKY", kappa=3.0, freqs=[0.1, 0.4, 0.3, 0.2]),
                       dict(type="JC69+I", pinv=0.3)]):
            tree = make_tree(shape, n, rng)
            like, dic = build(shape, n, tree, subst, 0.01)
            sm = like.subst_model
            # place the sweep: bisection on the branch-length scale for the smaller of the two site log-likelihoods
            cats = cats_of(subst)
            # (with an invariant category the site likelihood of a conserved column never underflows: place the
            #  sweep on the variable category, whose partials are the ones that do)
            f = lambda x: min(ref_loglik_cat(tree, n, x, sm, (0, 1), cats[-1][1]))
            def solve(target):
                lo, hi = 1e-4, 50.0
                if f(hi) > target:
                    return None
                for _ in range(50):
                    mid = math.sqrt(lo * hi)
                    if f(mid) > target:
                        lo = mid
                    else:
                        hi = mid
                return hi
            xa, xb, xc = solve(LN_TINY + 25), solve(LN_TINY), solve(LN_DENORM)
            if xa is None or xb is None:
                continue
            xs = [xa * 0.5, xa]
            xs += [xb * (1 + 1e-3) ** 0] if False else []
            if xc is None:
                xc = xb * 1.5
            xs += [xb + (xc - xb) * (k + 0.5) / per_band for k in range(per_band)]      # inside the band
            xs += [xc * 1.05, xc * 1.5, xc * 4]                                           # beyond: plain result is -inf
            # (1) fresh model per point
            for x in xs:
                lk, dc = build(shape, n, tree, subst, x)
                v = ev(lk)
                evals.append(dict(shape=shape, subst=subst, tree=tree, x=x, mode="fresh", value=v,
                                  flag_before=False, flag_after=bool(lk.rescale)))
            # (1b) the tip-STATES code path (its own recursion and its own switch), fresh model per point
            for x in xs[1:2 + per_band:2] + xs[-2:-1]:
                lk, dc = build(shape, n, tree, subst, x, tip_states=True)
                v = ev(lk)
                v2 = ev(lk)       # evaluated again: must be the same number
                evals.append(dict(shape=shape, subst=subst, tree=tree, x=x, mode="fresh-tipstates", value=v,
                                  flag_before=False, flag_after=bool(lk.rescale)))
                evals.append(dict(shape=shape, subst=subst, tree=tree, x=x, mode="again-tipstates", value=v2,
                                  flag_before=bool(lk.rescale), flag_after=bool(lk.rescale)))
            # (2) one model, history: up through the band and back down (evaluations after the switch)
            hist = xs + xs[::-1][1:]
            fb = bool(like.rescale)
            for x in hist:
                dic["bl"].tensor = torch.tensor(branch_vector(n, x))
                v = ev(like)
                evals.append(dict(shape=shape, subst=subst, tree=tree, x=x, mode="history", value=v,
                                  flag_before=fb, flag_after=bool(like.rescale)))
                fb = bool(like.rescale)
            # (3) batched: rows in different regimes evaluated together
            rows = [xs[0], xs[2 + per_band // 2], xs[-1]]
            lkb, dcb = build(shape, n, tree, subst, 0.01, B=len(rows))
            dcb["bl"].tensor = torch.tensor([branch_vector(n, x) for x in rows])
            vb = evb(lkb, len(rows))
            for x, v in zip(rows, vb):
                evals.append(dict(shape=shape, subst=subst, tree=tree, x=x, mode="batched", value=v,
                                  flag_before=False, flag_after=bool(lkb.rescale)))
            # (3b) the same batched model again after an assignment (flag already raised), the rows in
            #      different regimes than before and far apart from each other
            rows2 = [xs[-1], xs[0], xs[2 + per_band // 3]]
            fbb = bool(lkb.rescale)
            dcb["bl"].tensor = torch.tensor([branch_vector(n, x) for x in rows2])
            vb2 = evb(lkb, len(rows2))
            for x, v in zip(rows2, vb2):
                evals.append(dict(shape=shape, subst=subst, tree=tree, x=x, mode="batched-history", value=v,
                                  flag_before=fbb, flag_after=bool(lkb.rescale)))
            # (4) columns of very different conservation in one alignment (a conserved, a nearly conserved and
            #     a pseudo-random column): fresh, in a history, and batched
            xm = [xs[0] * 0.2, xs[0], xs[2 + per_band // 2]]
            for x in xm:
                lk, dc = build(shape, n, tree, subst, x, mixed=True)
                try:
                    v = ev(lk)
                except Exception as ex:  # noqa
                    v = f"raises {type(ex).__name__}: {str(ex)[:100]}"
                evals.append(dict(shape=shape, subst=subst, tree=tree, x=x, mode="fresh", value=v, mixed=True,
                                  flag_before=False, flag_after=bool(lk.rescale)))
            lkm, dcm = build(shape, n, tree, subst, xm[0], mixed=True)
            fb = False
            for x in xm + xm[::-1]:
                dcm["bl"].tensor = torch.tensor(branch_vector(n, x))
                try:
                    v = float(lkm().detach())
                except Exception as ex:  # noqa
                    v = f"raises {type(ex).__name__}: {str(ex)[:100]}"
                evals.append(dict(shape=shape, subst=subst, tree=tree, x=x, mode="history", value=v, mixed=True,
                                  flag_before=fb, flag_after=bool(lkm.rescale)))
                fb = bool(lkm.rescale)
            for e in evals:
                if "ref" not in e and e["shape"] == shape and e["subst"] == subst:
                    e["ref"] = sum(ref_loglik(tree, n, e["x"], sm, (0, 1, 2) if e.get("mixed") else (0, 1), cats))
                    if len(cats) > 1:
                        e["Ms"] = [cat_matrices(sm, e["x"], r) for _p, r in cats]
                        e["props"] = [p_ for p_, _r in cats]
                    else:
                        e["Ms"] = cat_matrices(sm, e["x"], 1.0)
                    e["freqs"] = [float(v) for v in sm.frequencies.detach().reshape(-1)]
    rep.timings["impl_sweep"] = round(time.time() - t0, 2)

    def regime(e):
        if e.get("mixed"):
            return "mixed-conservation"
        per_site = e["ref"] / 3
        return "normal" if per_site > LN_TINY + 1 else ("subnormal-band" if per_site > LN_DENORM - 1 else "beyond")

    def check_float(e, ref):
        if isinstance(e["value"], str):
            return e["value"]
        if not math.isfinite(e["value"]):
            return f"returned {e['value']!r} while the true value {ref!r} is finite"
        if abs(e["value"] - ref) > 1e-8 * abs(ref):
            return (f"returned {e['value']!r}, reference {ref!r}: relative error "
                    f"{abs(e['value'] - ref) / abs(ref):.2e} > 1e-8 (rescale flag after = {e['flag_after']})")
        return None

    def search():
        found = {}
        for e in evals:
            bad = check_float(e, e["ref"])
            if bad:
                k = f"C03:inaccurate:{regime(e)}:{e['mode']}:flag_before={e['flag_before']}"
                found.setdefault(k, (k, f"{e['shape']} n={n} {e['subst']['type']} branch scale {e['x']!r}: {bad}",
                                     dict(shape=e["shape"], n=n, subst=e["subst"], x=e["x"], mode=e["mode"],
                                          value=e["value"], reference=e["ref"])))
            if e["flag_before"] and not e["flag_after"]:
                k = "C03:flag-switched-off"
                found.setdefault(k, (k, f"rescale flag went from True to False at x={e['x']!r}", dict(x=e["x"])))
        return list(found.values())

    sp_fs, n_sp = single_precision_findings(rng, tier)
    for f in sp_fs:
        rep.violation(*f)
    st_fs, n_st = small_tree_findings(rng, tier)
    for f in st_fs:
        rep.violation(*f)
    ok_sync, info = sync()
    if not ok_sync:
        rep.proof = dict(obligations=1, discharged=0, axioms={}, theorems=["T8 translation"], ok=False)
        fs = search()
        for f in fs:
            rep.violation(*f)
        if not fs:
            rep.violation("C03:translator-failed", str(info)[:300], dict(error=str(info)), False)
    else:
        C.handle_proof(rep, PID, search)
    for f in search():
        rep.violation(*f)

    # correspondence with the proved extended-range reference (interval run)
    t0 = time.time()
    uniq = {}
    for e in evals:
        uniq.setdefault((e["shape"], e["subst"]["type"], e["x"], bool(e.get("mixed"))), e)
    keys = list(uniq)
    exprs = [coq_case(uniq[k]["shape"], n, uniq[k]["tree"], uniq[k]["Ms"], uniq[k]["freqs"], k[3], uniq[k].get("props"))
             for k in keys]
    res = C.run_cases(PID, HEADER, exprs, shard=max(1, len(exprs) // 48 + 1), timeout=1500)
    model = {k: C.ival_to_fracs(v) for k, v in zip(keys, res)}
    rep.timings["model_eval"] = round(time.time() - t0, 2)
    dist = {}
    for e in evals:
        iv = model[(e["shape"], e["subst"]["type"], e["x"], bool(e.get("mixed")))]
        dist[f"{regime(e)}/{e['mode']}"] = dist.get(f"{regime(e)}/{e['mode']}", 0) + 1
        rep.case(dict(s=e["shape"], m=e["subst"]["type"], x=e["x"], mode=e["mode"], fb=e["flag_before"]),
                 nontrivial=regime(e) != "normal" or e["flag_before"],
                 sample=dict(shape=e["shape"], n=n, subst=e["subst"], branch_scale=e["x"], mode=e["mode"],
                             impl=e["value"], flag_before=e["flag_before"], flag_after=e["flag_after"],
                             regime=regime(e)))
        if iv is None:
            rep.violation("C03:model-undefined", f"interval model undefined at x={e['x']!r}", dict(x=e["x"]), False)
            continue
        mid = float((iv[0] + iv[1]) / 2)
        if abs(mid - e["ref"]) > 1e-10 * abs(mid):
            rep.violation("C03:reference-disagreement",
                          f"python float reference {e['ref']!r} vs proved interval reference {mid!r}",
                          dict(x=e["x"], shape=e["shape"]), False)
        bad = check_float(e, mid)
        if bad:
            k = f"C03:inaccurate:{regime(e)}:{e['mode']}:flag_before={e['flag_before']}"
            rep.violation(k, f"{e['shape']} n={n} {e['subst']['type']} branch scale {e['x']!r}: {bad}",
                          dict(shape=e["shape"], n=n, subst=e["subst"], x=e["x"], mode=e["mode"], value=e["value"],
                               reference=mid))
    rep.rule = (f"trees with {n} taxa (caterpillar, balanced, random), JC69/HKY, two site patterns (one of them with weight 2), "
                "tip partials and tip states, all branch lengths "
                "scaled by x; x swept from where site likelihoods are normal, through every part of the subnormal band "
                "[5e-324, 2.2e-308] (placed by bisection), to where the plain result is -inf; each x evaluated on a fresh "
                "model, inside one up-and-down history on a single model (flag observed), in a batch mixing regimes and in "
                "the same batch again after an assignment; plus an alignment mixing a conserved, a nearly conserved and "
                "a pseudo-random column (fresh and in a history); "
                "non-trivial = in/beyond the band or evaluated after the switch")
    rep.extra = dict(input_distribution=dist, traces_validated_against_impl=len(evals), taxa=n,
                     single_precision_models_compared_with_double=n_sp,
                     small_trees_with_very_short_branches_evaluated=n_st)
    return rep.finish()
