"""C09 — birth-death skyline density: epochs, constant model, master equations, JSON options.

Pipeline: T6 translator (JSON option table -> gen/G_options.v) -> prove prop/C09.v -> property
evaluated directly on the implementation (epoch-split pairs, single epoch vs BirthDeath, RK4
integration of the master equations along the tree, every JSON option sets what it names) ->
correspondence of PiecewiseConstantBirthDeath.log_prob / BDSKModel() / BirthDeath.log_prob /
BirthDeathModel() against the verified-interval run of model/M_bdsk.v (relative 1e-9).
"""
import json
import math
import os
import random
import time
from fractions import Fraction

from harness import common as C
from harness import history as H
from harness import impl, trees
from harness.translate import t6_options

PID = "C09"
HEADER = ("From Coq Require Import QArith ZArith List. Import ListNotations.\n"
          "From TT Require Import Num NumI M_bdsk.\n"
          "Definition L (l : list Q) := map (ofQ NumI) l.\n")
RTOL = 1e-9          # correspondence and pair / constant-model comparisons (property text)
RK_TOL = 1e-6        # RK4 integration of the master equations


# ----------------------------------------------------------------------------- translator

def sync():
    try:
        txt = t6_options.translate()
    except t6_options.TranslateError as e:
        return False, f"T6 translator: {e}"
    with C.CoqLock():
        C.write_if_changed(os.path.join(C.COQ, "gen", "G_options.v"), txt)
    return True, txt


def norm_arg(a):
    return a[:-1] if a.endswith("_") else a


def option_table():
    ex = t6_options.extract()
    return {"BDSKModel": ex["bdsk"], "BirthDeathModel": ex["bd"]}


def misdirected(table):
    """(class, argument, key) for which the argument is not read from the key of its name."""
    return [(cls, a, k) for cls, e in table.items() for a, k in e["options"] if norm_arg(a) != k]


# ----------------------------------------------------------------------------- case generation

def _num(rng, grid, lo, hi, den=8):
    if grid:
        return rng.randint(max(1, int(lo * den)), max(1, int(hi * den))) / den
    return rng.uniform(lo, hi)


def _rate(rng, lo=0.2, hi=4.0):
    return round(math.exp(rng.uniform(math.log(lo), math.log(hi))), rng.choice([2, 3, 17]))


def gen_tree(rng, n, serial, grid):
    """Time tree: nested tuples, tip heights (by taxon), internal heights (by node index - n)."""
    t = trees.random_tree(rng, n, rng.choice(["random", "random", "caterpillar", "balanced"]))
    tips = [0.0] * n
    if serial:
        pool = [_num(rng, grid, 0.1, 4.0) for _ in range(rng.choice([1, 2, n]))]
        tips = [rng.choice(pool + [0.0]) for _ in range(n)]
        tips[rng.randrange(n)] = 0.0
        if all(h == 0.0 for h in tips):
            tips[(tips.index(0.0) + 1) % n] = pool[0]
    it = trees.index_tree(t)
    ints = [None] * (n - 1)

    def rec(u):
        if isinstance(u, int):
            return tips[u]
        h = max(rec(u[1]), rec(u[2])) + _num(rng, grid, 0.05, 1.5)
        ints[u[0] - n] = h
        return h
    rec(it)
    return t, tips, ints


def gen_case(rng, i, tier):
    """One PiecewiseConstantBirthDeath / BDSKModel configuration.  `scenario` names the single
    boundary/option coincidence that is forced; every other coincidence is avoided."""
    scenario = ["plain", "plain", "plain", "node-on-boundary", "rho-internal", "removal-1",
                "tip-on-boundary", "relative", "removal-multi", "several-rho", "plain", "root-edge",
                "contemporaneous", "default-grid", "plain", "tip-on-boundary-rho"][i % 16]
    grid = scenario in ("node-on-boundary", "tip-on-boundary", "tip-on-boundary-rho", "several-rho") \
        or rng.random() < 0.3
    n = rng.randint(2, 12)
    serial = scenario != "contemporaneous" and rng.random() < 0.85
    if scenario in ("tip-on-boundary", "tip-on-boundary-rho", "several-rho"):
        serial = True
    t, tips, ints = gen_tree(rng, n, serial, grid)
    root = max(ints)
    edge = _num(rng, grid, 0.1, 3.0)
    root_edge = scenario == "root-edge" or rng.random() < 0.15
    if scenario == "relative":
        root_edge = rng.random() < 0.5       # relative epoch times WITH the origin given as the length of the root edge
    origin = root + edge
    T = origin
    m = 1 if rng.random() < 0.15 else rng.randint(1, 8)
    if scenario in ("node-on-boundary", "rho-internal", "tip-on-boundary", "tip-on-boundary-rho", "relative",
                    "removal-multi", "several-rho"):
        m = max(m, 2)
    if scenario == "removal-1":
        m = 1
    ys = sorted({T - h for h in tips})
    xs = sorted({T - h for h in ints})
    inner_tip_times = [y for y in ys if 0 < y < T]
    if scenario in ("tip-on-boundary", "tip-on-boundary-rho", "several-rho") and not inner_tip_times:
        scenario = "plain"

    # --- epoch boundaries (forward time, strictly inside (0, T)), avoiding unforced coincidences
    whole = rng.random() < 0.15 and T > 2.0      # epoch boundaries at whole numbers (written as integers in the JSON)

    def fresh():
        for _ in range(200):
            if whole:
                b = float(rng.randint(1, max(1, int(T - 0.02))))
            else:
                b = _num(rng, grid, 0.05, T - 0.02, 16) if grid else rng.uniform(0.02 * T, 0.98 * T)
            if 0 < b < T and b not in ys and b not in xs and b not in bs:
                return b
        return None
    bs = set()
    forced = None
    if scenario in ("tip-on-boundary", "tip-on-boundary-rho", "several-rho"):
        forced = rng.choice(inner_tip_times)
        bs.add(forced)
    if scenario == "node-on-boundary":
        forced = rng.choice([x for x in xs if 0 < x < T] or [None])
        if forced is None:
            scenario = "plain"
        else:
            bs.add(forced)
    times_mode = "absolute"
    if scenario == "default-grid" or (scenario == "plain" and rng.random() < 0.2):
        times_mode = "default"
    if scenario == "relative":
        times_mode = "relative"
    times = None
    if times_mode == "default":
        bs = set()
    elif times_mode == "relative":
        for _ in range(100):
            fr = sorted({rng.randint(1, 15) / 16 if rng.random() < 0.5 else rng.uniform(0.05, 0.95)
                         for _ in range(m - 1)})
            if len(fr) >= 1 and not any(float(f) * T in ys or float(f) * T in xs for f in fr):
                break
        m = len(fr) + 1
        times = [0.0] + fr
    else:
        while len(bs) < m - 1:
            b = fresh()
            if b is None:
                break
            bs.add(b)
        m = len(bs) + 1
        times = [0.0] + sorted(bs)
    api = "BDSK" if rng.random() < 0.35 else "PW"
    rates = {}
    if api == "BDSK":
        rates = dict(R=[_rate(rng, 0.5, 3.0) for _ in range(m)], delta=[_rate(rng, 0.3, 3.0) for _ in range(m)],
                     s=[round(rng.uniform(0.05, 0.9), rng.choice([2, 16])) for _ in range(m)])
    else:
        rates = dict(lam=[_rate(rng) for _ in range(m)], mu=[_rate(rng) for _ in range(m)],
                     psi=[_rate(rng) for _ in range(m)])
        if not serial and rng.random() < 0.5:
            # rho-sampling only (psi = 0, the regime of test_bdsky.py::test_single_rho / test_1rho2times);
            # lambda = mu would make A = 0, a removable singularity of the closed form: kept away from
            rates["psi"] = [0.0] * m
            rates["mu"] = [u if abs(u - l) >= 0.05 else l + 0.25 for l, u in zip(rates["lam"], rates["mu"])]
    # --- rho: None (default zeros(1)), [rho_m] (padded in front) or one value per epoch
    rho_last = rng.choice([0.0, 0.0, round(rng.uniform(0.05, 0.95), 2), 1.0]) if serial else \
        rng.choice([round(rng.uniform(0.05, 0.95), 2), 1.0])
    rho = None
    if scenario in ("rho-internal", "several-rho", "tip-on-boundary-rho") or rng.random() < 0.3:
        rho = [0.0] * m
        for j in range(m - 1):
            if rng.random() < 0.4:
                rho[j] = round(rng.uniform(0.05, 0.9), 2)
        rho[-1] = rho_last
        if scenario in ("several-rho", "tip-on-boundary-rho") and times_mode == "absolute":
            rho[sorted(bs).index(forced)] = round(rng.uniform(0.05, 0.9), 2)
            rho[-1] = (rho[-1] or 0.5) if scenario == "several-rho" else 0.0
    elif rho_last > 0 or rng.random() < 0.5:
        rho = [rho_last]
    if not serial and (rho is None or rho[-1] == 0.0):
        rho = [0.5]
    # --- removal probability
    r = None
    if scenario in ("removal-1", "removal-multi") or (m == 1 and times_mode != "relative" and rng.random() < 0.25):
        r = [rng.choice([1.0, round(rng.uniform(0.1, 0.95), 2)]) for _ in range(m)]
    survival = rng.random() < 0.5
    times_json = "param" if (scenario == "relative" or rng.random() < 0.7) else "list"
    # --- a tip NEAR a rho-sampling event without being on it (1e-7 .. 1e-5 relative): it is a psi-sampled tip of the
    #     epoch it falls in, not a rho-sampled one — "equal up to rounding" is not "equal"
    near = None
    if serial and times_mode != "relative" and rng.random() < 0.25:
        events = []          # heights of the rho events that carry a tip
        eff_rho = ([0.0] * (m - len(rho)) + list(rho)) if rho else [0.0] * m
        if eff_rho[-1] > 0 and 0.0 in tips:
            events.append(0.0)
        if times_mode == "absolute":
            for j, b in enumerate(sorted(bs)):
                if eff_rho[j] > 0 and any(abs((T - h) - b) == 0.0 for h in tips):
                    events.append(T - b)
        if events:
            hE = rng.choice(events)
            ks = [k for k, h in enumerate(tips) if abs((T - h) - (T - hE)) == 0.0]
            if hE == 0.0 and len(ks) < 2:
                ks = []             # the youngest tip defines height 0: one tip stays exactly at the present
        if events and ks:
            k = rng.choice(ks)
            d = rng.choice([3e-7, 1e-6, 2e-6, 8e-6]) * max(1.0, T - hE)
            if hE > 0 and rng.random() < 0.5 and hE - d > 0:
                d = -d
            tips = list(tips)
            tips[k] = hE + d
            near = dict(tip=k, event_height=hE, displaced_by=d)
    case = dict(api=api, scenario=scenario, n=n, tree=t, tips=tips, ints=ints, m=m, times_json=times_json,
                origin=(edge if root_edge else origin), root_edge=root_edge, times_mode=times_mode,
                times=times, rho=rho, r=r, survival=survival, near_rho=near,
                int_times=bool(whole and times_mode == "absolute" and rng.random() < 0.7), **rates)
    return case


def split_case(rng, case):
    """The same model with one epoch cut in two: identical rates, rho = 0 at the cut.  The cut is
    generic, on a node time, or on a tip time."""
    if case["times_mode"] == "relative":
        return None
    et = eff_times(case)
    m = case["m"]
    i = rng.randrange(m)
    lo, hi = et[i], et[i + 1]
    T = et[-1]
    kind = rng.choice(["generic", "generic", "node", "tip"])
    cand = []
    if kind == "node":
        cand = [T - h for h in case["ints"] if lo < T - h < hi]
    elif kind == "tip":
        cand = [T - h for h in case["tips"] if lo < T - h < hi]
    if not cand:
        kind = "generic"
        for _ in range(50):
            c = rng.uniform(lo, hi)
            if lo < c < hi and all(c != T - h for h in case["tips"] + case["ints"]):
                cand = [c]
                break
    if not cand:
        return None
    c = rng.choice(cand)
    new = json.loads(json.dumps(case))
    new["tree"] = _tuplify(new["tree"])
    new["m"] = m + 1
    new["times_mode"] = "absolute"
    new["times"] = et[:i + 1] + [c] + et[i + 1:-1]
    for k in ("lam", "mu", "psi", "R", "delta", "s", "r"):
        if case.get(k) is not None:
            new[k] = case[k][:i + 1] + case[k][i:]
    rho = pad_rho(case)
    new["rho"] = rho[:i] + [0.0] + rho[i:]
    new["scenario"] = case["scenario"] + "/split-" + kind
    new["split_of"] = True
    # with times given explicitly the implementation appends the origin itself
    return new


def _tuplify(t):
    return t if isinstance(t, int) else (_tuplify(t[0]), _tuplify(t[1]))


def pad_rho(case):
    m = case["m"]
    rho = case["rho"] if case["rho"] is not None else [0.0]
    return [0.0] * (m - len(rho)) + list(rho)


def eff_origin(case):
    if case["root_edge"]:
        return float(case["origin"]) + float(max(case["ints"]))
    return float(case["origin"])


def eff_times(case):
    """times[0..m] as doubles, the way a CORRECT implementation lays them out (float ops as in
    log_prob: cumsum of origin/m for the default grid, relative times scaled by the origin)."""
    T = eff_origin(case)
    m = case["m"]
    if case["times_mode"] == "default":
        torch = impl.load()
        o = torch.tensor([T], dtype=torch.float64)
        dt = (o / m).expand(m)
        return [float(v) for v in torch.cat((torch.zeros(1, dtype=torch.float64), dt)).cumsum(-1)]
    if case["times_mode"] == "relative":
        return [float(f) * T for f in case["times"]] + [T]
    return [float(v) for v in case["times"]] + [T]


# ----------------------------------------------------------------------------- hazards (known input classes)

def hazards(case, table_bad):
    """Names of the input classes in which the unchanged tree is known to deviate (see
    known_findings.d/C09.json); a failure outside every class is keyed 'plain'."""
    hz = []
    et = eff_times(case)
    T = et[-1]
    ys = [T - h for h in case["tips"]]
    inner = et[1:-1]
    rho = pad_rho(case)
    bad_args = {a for cls, a, k in table_bad if cls == "BDSKModel"}
    bad_keys = {k for cls, a, k in table_bad if cls == "BDSKModel"}
    if case["api"] == "BDSK":
        if case["r"] is not None and "removal_probability" in bad_args:
            hz.append("json-removal_probability")
        if case["times_mode"] == "relative" and "relative_times" in bad_keys:
            hz.append("json-relative_times")
        if case["times"] is not None and case.get("times_json") == "list":
            hz.append("json-times-list")
    if case["times_mode"] == "relative":
        hz.append("relative-times")
    if case["r"] is not None and case["m"] > 1 and "json-removal_probability" not in hz:
        hz.append("removal-multi-epoch")
    nb = sum(1 for j, b in enumerate(et[1:]) if rho[j] > 0 and any(y == b for y in ys))
    if nb >= 2:
        hz.append("rho-tips-at-several-boundaries")
    if any(y == b for y in ys for b in inner):
        hz.append("tip-on-internal-boundary")
    return hz


# input classes in which the unchanged tree raises / returns a wrong value; within each list the
# failure that pre-empts the others comes first
# (relative times: the present is placed at origin^2, a wrong value, or - when that puts a node before
# time 0 - an index error)
RAISING = ["json-times-list", "json-relative_times", "removal-multi-epoch", "rho-tips-at-several-boundaries",
           "relative-times"]
WRONG_VALUE = ["json-removal_probability", "relative-times", "tip-on-internal-boundary"]


EXC_OF = {"json-times-list": "TypeError", "json-relative_times": "AttributeError"}


def key_of(case, kind, table_bad, extra=None, const=False, exc=None):
    """Stable key of a failure.  A failure of the kind its input class is known for is keyed by the
    class alone ("C09:<class>"); the same class failing in another way, and every failure outside
    the classes, carries the kind (and for plain inputs the entry point) and is therefore new."""
    if const:       # BirthDeath / BirthDeathModel: none of the skyline input classes applies
        return f"C09:{extra}" if extra else f"C09:plain:constant-model:{kind}"
    hz = hazards(case, table_bad)
    for h in (RAISING if kind == "raises" else WRONG_VALUE):
        if h in hz and (exc is None or h not in EXC_OF or type(exc).__name__ == EXC_OF[h]):
            return f"C09:{h}"
    for h in RAISING[:-1] + WRONG_VALUE:
        if h in hz:
            return f"C09:{h}:{kind}"
    return f"C09:plain:{case['api']}:{kind}"


# ----------------------------------------------------------------------------- running the implementation

def tree_json(case):
    n = case["n"]
    names = [f"t{i}" for i in range(n)]
    taxa = {"id": "taxa", "type": "Taxa", "taxa": [
        {"id": names[i], "type": "Taxon", "attributes": {"date": case["tips"][i]}} for i in range(n)]}
    return {"id": "tree", "type": "TimeTreeModel", "newick": trees.newick(case["tree"], names), "taxa": taxa,
            "internal_heights": impl.param_json("internal_heights", case["ints"])}


def bdsk_json(case):
    d = {"id": "bdsk", "type": "BDSKModel", "tree_model": tree_json(case),
         "R": impl.param_json("R", case["R"]), "delta": impl.param_json("delta", case["delta"]),
         "s": impl.param_json("s", case["s"]), "origin": impl.param_json("origin", [case["origin"]]),
         "survival": case["survival"]}
    if case["rho"] is not None:
        d["rho"] = impl.param_json("rho", case["rho"])
    if case["root_edge"]:
        d["origin_is_root_edge"] = True
    if case["times"] is not None:
        # both documented forms of the option: a plain list or a Parameter
        ts = list(case["times"])
        if case.get("int_times") and all(float(x).is_integer() for x in ts):
            ts = [int(x) for x in ts]        # [0, 2, 5] is a legal way of writing [0.0, 2.0, 5.0]
        d["times"] = ts if case.get("times_json") == "list" else impl.param_json("times", ts)
    if case["times_mode"] == "relative":
        d["relative_times"] = True
    if case["r"] is not None:
        d["removal_probability"] = impl.param_json("removal_probability", case["r"])
    return d


def run_impl(case):
    """-> float (the log density) ; raises whatever the implementation raises"""
    torch = impl.load()
    from torchtree.evolution.bdsk import BDSKModel, PiecewiseConstantBirthDeath
    tt = lambda l: torch.tensor(list(l), dtype=torch.float64)
    if case["api"] == "BDSK":
        mod = BDSKModel.from_json(bdsk_json(case), {})
        v = mod()
    else:
        kw = dict(origin=tt([case["origin"]]), origin_is_root_edge=case["root_edge"], survival=case["survival"])
        if case["rho"] is not None:
            kw["rho"] = tt(case["rho"])
        if case["times"] is not None:
            kw["times"] = tt(case["times"])
        if case["times_mode"] == "relative":
            kw["relative_times"] = True
        if case["r"] is not None:
            kw["removal_probability"] = tt(case["r"])
        d = PiecewiseConstantBirthDeath(tt(case["lam"]), tt(case["mu"]), tt(case["psi"]), **kw)
        v = d.log_prob(tt(case["tips"] + case["ints"]))
    v = v.detach().reshape(-1)
    if v.numel() != 1:
        raise ValueError(f"log_prob returned {v.numel()} values for one tree")
    return float(v[0])


def run_const(case, api):
    """The constant model on a single-epoch case: BirthDeath.log_prob ('BD') or BirthDeathModel() from JSON ('BDM')."""
    torch = impl.load()
    from torchtree.evolution.birth_death import BirthDeath, BirthDeathModel
    tt = lambda l: torch.tensor(list(l), dtype=torch.float64)
    lam, mu, psi = bd_rates(case)
    rho = pad_rho(case)[-1]
    T = eff_origin(case)
    if api == "BD":
        v = BirthDeath(tt([lam[0]]), tt([mu[0]]), tt([psi[0]]), tt([rho]), tt([T]),
                       survival=case["survival"]).log_prob(tt(case["tips"] + case["ints"]))
    else:
        d = {"id": "bd", "type": "BirthDeathModel", "tree_model": tree_json(case),
             "lambda": impl.param_json("lambda", [lam[0]]), "mu": impl.param_json("mu", [mu[0]]),
             "psi": impl.param_json("psi", [psi[0]]), "rho": impl.param_json("rho", [rho]),
             "origin": impl.param_json("origin", [T]), "survival": case["survival"]}
        v = BirthDeathModel.from_json(d, {})()
    v = v.detach().reshape(-1)
    if v.numel() != 1:
        raise ValueError(f"log_prob returned {v.numel()} values for one tree")
    return float(v[0])


def bd_rates(case):
    """lambda, mu, psi per epoch as doubles (epidemiology_to_birth_death in float arithmetic)."""
    if case["api"] != "BDSK":
        return case["lam"], case["mu"], case["psi"]
    lam, mu, psi = [], [], []
    for j in range(case["m"]):
        R, d, s = case["R"][j], case["delta"][j], case["s"][j]
        if case["r"] is None:
            lam.append(R * d), mu.append(d - s * d), psi.append(s * d)
        else:
            r = case["r"][j]
            p = s * d / (1.0 + (r - 1.0) * s)
            lam.append(R * d), psi.append(p), mu.append(d - p * r)
    return lam, mu, psi


def attempt(f, *a):
    try:
        return f(*a)
    except Exception as e:  # the implementation raising on an admissible input is a result
        return e


# ----------------------------------------------------------------------------- RK4 on the master equations

def rk4_log_density(case):
    """Numerical integration (RK4, floats, tight step) of the birth-death master equations
    backwards in time along the tree:   dp/dtau = mu - (lam+mu+psi) p + lam p^2,
    d ln g/dtau = -(lam+mu+psi) + 2 lam p on every edge, g -> (1-rho) g and p -> (1-rho) p at a
    rho-sampling time, g = psi (r + (1-r) p) at a psi-sampled tip, g = rho (r' + (1-r') p) at a
    rho-sampled tip, g = lam g_l g_r at a node.  Independent of the closed forms p0 / q."""
    lam, mu, psi = bd_rates(case)
    m = case["m"]
    et = eff_times(case)
    T = et[-1]
    rho = pad_rho(case)
    r = case["r"]
    n = case["n"]
    beta = [T - t for t in et]           # backward times of the boundaries: beta[j+1] = end of epoch j
    tip_tau = list(case["tips"])
    int_tau = list(case["ints"])
    # epoch of the open interval just older than backward time tau (forward: the epoch ENDING at it)
    def epoch_older(tau):
        y = T - tau
        j = sum(1 for t in et if t < y) - 1
        return min(max(j, 0), m - 1)
    def epoch_younger(tau):   # forward searchsorted(right): the epoch STARTING at a boundary
        x = T - tau
        j = sum(1 for t in et if t <= x) - 1
        return min(max(j, 0), m - 1)
    pts = sorted(set([0.0, T] + [b for b in beta if 0 <= b <= T] + tip_tau + int_tau))
    # integrate (p, I) over [0, T]; values stored at the breakpoints on the OLDER side
    p = 1.0
    I = 0.0
    p_young = {}   # p just before applying the rho-event at this time (younger side)
    p_old = {}
    I_at = {}
    sig_max = max(l + u + s for l, u, s in zip(lam, mu, psi))
    for k, tau in enumerate(pts):
        p_young[tau] = p
        for j in range(m):
            if beta[j + 1] == tau and rho[j] > 0:
                p = (1.0 - rho[j]) * p
        p_old[tau] = p
        I_at[tau] = I
        if k + 1 == len(pts):
            break
        nxt = pts[k + 1]
        j = epoch_older(0.5 * (tau + nxt))
        L, U, S = lam[j], mu[j], psi[j]
        sg = L + U + S
        steps = max(8, int(math.ceil((nxt - tau) * sig_max / 0.02)))
        h = (nxt - tau) / steps
        f = lambda q: U - sg * q + L * q * q
        gI = lambda q: -sg + 2.0 * L * q
        for _ in range(steps):
            k1 = f(p); l1 = gI(p)
            k2 = f(p + 0.5 * h * k1); l2 = gI(p + 0.5 * h * k1)
            k3 = f(p + 0.5 * h * k2); l3 = gI(p + 0.5 * h * k2)
            k4 = f(p + h * k3); l4 = gI(p + h * k3)
            p += h * (k1 + 2 * k2 + 2 * k3 + k4) / 6.0
            I += h * (l1 + 2 * l2 + 2 * l3 + l4) / 6.0
    serial = any(h > 0 for h in case["tips"])

    def crossing(tau_c, tau_p, child_is_node):
        tot = 0.0
        for j in range(m - 1):
            b = beta[j + 1]
            if (tau_c < b < tau_p) or (child_is_node and b == tau_c and b < tau_p):
                tot += math.log(1.0 - rho[j])
        return tot

    def tip_logg(tau):
        for j in range(m):
            if beta[j + 1] == tau and rho[j] > 0:          # rho-sampled
                if r is not None and j + 1 < m:
                    rr = r[j + 1]
                    return math.log(rho[j]) + math.log(rr + (1.0 - rr) * p_young[tau])
                return math.log(rho[j])
        if not serial:
            return 0.0                                     # the code's convention (density 0 case never generated)
        j = epoch_older(tau) if tau > 0 else m - 1
        if r is None:
            return math.log(psi[j])
        return math.log(psi[j] * (r[j] + (1.0 - r[j]) * p_old[tau]))

    it = trees.index_tree(case["tree"])

    def rec(u):
        """-> (backward time of the node, ln g at the node)"""
        if isinstance(u, int):
            return tip_tau[u], tip_logg(tip_tau[u]), False
        tl, gl, nl = rec(u[1])
        tr, gr, nr = rec(u[2])
        tau = int_tau[u[0] - n]
        g = math.log(lam[epoch_younger(tau)])
        for tc, gc, isn in ((tl, gl, nl), (tr, gr, nr)):
            g += gc + (I_at[tau] - I_at[tc]) + crossing(tc, tau, isn)
        return tau, g, True
    tau_r, g_r, _ = rec(it)
    logL = g_r + (I_at[T] - I_at[tau_r]) + crossing(tau_r, T, True)
    if case["survival"]:
        logL -= math.log(1.0 - p_old[T])
    if r is not None:
        logL += (n - 1) * math.log(2.0)
    return logL


# ----------------------------------------------------------------------------- model side

def coq_opt_list(l):
    return "None" if l is None else f"(Some (L {C.qlist(l)}))"


def coq_case(case):
    et = eff_times(case)
    rho = C.qlist(case["rho"] if case["rho"] is not None else [0.0])
    tail = f"{rho} {C.qlist(et)} {C.qlist(case['tips'])} {C.qlist(case['ints'])}"
    sv = "true" if case["survival"] else "false"
    if case["api"] == "BDSK":
        return (f"show_i (bdsk_model_log_prob NumI {sv} {coq_opt_list(case['r'])} (L {C.qlist(case['R'])}) "
                f"(L {C.qlist(case['delta'])}) (L {C.qlist(case['s'])}) {tail})")
    return (f"show_i (pw_log_prob NumI {sv} {coq_opt_list(case['r'])} (L {C.qlist(case['lam'])}) "
            f"(L {C.qlist(case['mu'])}) (L {C.qlist(case['psi'])}) {tail})")


def coq_const(case):
    lam, mu, psi = bd_rates(case)
    sv = "true" if case["survival"] else "false"
    q = lambda v: f"(ofQ NumI {C.qlit(v)})"
    return (f"show_i (bd_log_prob NumI {sv} {q(lam[0])} {q(mu[0])} {q(psi[0])} {C.qlit(pad_rho(case)[-1])} "
            f"{C.qlit(eff_origin(case))} {C.qlist(case['tips'])} {C.qlist(case['ints'])})")


def close_iv(x, iv, rtol=RTOL):
    """impl value against the enclosure: None = model undefined, else bool"""
    if iv is None:
        return None
    if not math.isfinite(x):
        return False
    lo, hi = iv
    fx = Fraction(x)
    tol = Fraction(rtol) * max(abs(lo), abs(hi), abs(fx)) + Fraction(1, 10**11)
    return lo - tol <= fx <= hi + tol


def close(a, b, rtol):
    if not (math.isfinite(a) and math.isfinite(b)):
        return False
    return abs(a - b) <= rtol * max(abs(a), abs(b), 1.0)


# ----------------------------------------------------------------------------- JSON options on the implementation

def option_probe(table):
    """Every parameter of the two constructors, set through the JSON key of its name, must reach
    the attribute of that name.  -> list of (key, what, replay)"""
    torch = impl.load()
    from torchtree.evolution.bdsk import BDSKModel
    from torchtree.evolution.birth_death import BirthDeathModel
    base = dict(api="BDSK", n=3, tree=((0, 1), 2), tips=[0.0, 1.0, 0.5], ints=[1.5, 2.5], m=2, origin=4.0,
                root_edge=False, times_mode="default", times=None, rho=None, r=None, survival=True,
                R=[1.5, 2.0], delta=[1.0, 1.5], s=[0.3, 0.4])
    P = impl.param_json
    found = []
    specs = {
        "BDSKModel": (BDSKModel, lambda: bdsk_json(base), {
            "id_": "renamed", "tree_model": "TREE", "R": P("R", [2.5, 0.75]), "delta": P("delta", [0.5, 2.25]),
            "s": P("s", [0.125, 0.625]), "rho": P("rho", [0.25, 0.375]), "origin": P("origin", [7.5]),
            "origin_is_root_edge": True, "times": [0.0, 1.75], "relative_times": True, "survival": False,
            "removal_probability": P("removal_probability", [0.625, 0.875])}),
        "BirthDeathModel": (BirthDeathModel, lambda: {
            "id": "bd", "type": "BirthDeathModel", "tree_model": tree_json(base), "lambda": P("lambda", [2.0]),
            "mu": P("mu", [1.0]), "psi": P("psi", [0.5]), "rho": P("rho", [0.0]), "origin": P("origin", [4.0])}, {
            "id_": "renamed", "tree_model": "TREE", "lambda_": P("lambda", [2.5]), "mu": P("mu", [0.75]),
            "psi": P("psi", [0.625]), "rho": P("rho", [0.375]), "origin": P("origin", [7.5]), "survival": False}),
    }
    n_checked = 0
    for clsname, (cls, mk, values) in specs.items():
        for arg in table[clsname]["params"]:
            key = norm_arg(arg)
            if arg not in values:
                found.append((f"C09:option:{clsname}:{arg}:unknown-parameter",
                              f"{clsname}.__init__ has a parameter {arg!r} the option probe does not know", dict(cls=clsname, arg=arg)))
                continue
            d = mk()
            v = values[arg]
            if v == "TREE":
                d[key] = dict(d[key], id="othertree")
            else:
                d[key] = v
            n_checked += 1
            try:
                obj = cls.from_json(d, {})
                got = obj.id if arg == "id_" else getattr(obj, arg)
            except Exception as e:
                found.append((f"C09:option:{clsname}:{arg}", f"{clsname}.from_json with option {key!r}: "
                              f"{type(e).__name__}: {str(e)[:120]}", dict(cls=clsname, arg=arg, json=d)))
                continue
            if v == "TREE":
                ok = getattr(got, "id", None) == "othertree"
            elif isinstance(v, dict):
                ok = hasattr(got, "tensor") and [float(x) for x in torch.as_tensor(got.tensor).reshape(-1)] == v["tensor"]
            elif isinstance(v, list):
                ok = hasattr(got, "tensor") and [float(x) for x in torch.as_tensor(got.tensor).reshape(-1)] == v
            else:
                ok = type(got) is type(v) and got == v
            if not ok:
                culprit = [k for a, k in table[clsname]["options"] if a == arg and k != key]
                found.append((f"C09:option:{clsname}:{arg}",
                              f"{clsname}.from_json: the JSON option {key!r} does not reach the constructor argument "
                              f"{arg!r} (attribute is {got!r})" +
                              (f"; the argument is read from the key {culprit[0]!r}" if culprit else ""),
                              dict(cls=clsname, arg=arg, json=d)))
    return found, n_checked


# ----------------------------------------------------------------------------- run

def build_cases(rng, tier):
    ncases = 176 if tier == "quick" else 1600
    cases = [gen_case(rng, i, tier) for i in range(ncases)]
    # the BEAST2 reference configurations of test/test_bdsky.py (known values, sanity of the model)
    ref = dict(api="PW", scenario="reference", n=4, tree=((0, 1), (2, 3)), tips=[0.0, 1.0, 2.5, 3.5],
               ints=[2.0, 4.0, 5.0], m=3, origin=6.0, root_edge=False, times_mode="absolute",
               times=[0.0, 3.0, 4.5], rho=None, r=None, survival=False, lam=[3.0, 2.0, 4.0],
               mu=[2.5, 1.0, 0.5], psi=[2.0, 0.5, 1.0])
    cases.append(ref)
    splits = []
    for c in cases:
        if c["scenario"] in ("relative",):
            continue
        if rng.random() < (0.45 if tier == "quick" else 0.6):
            s = split_case(rng, c)
            if s is not None:
                splits.append((c, s))
    return cases, splits


def run(tier, seed, replay=None):
    rep = C.Report(PID, tier, seed)
    rep.trusted = C.COMMON_TRUSTED + [
        "hand-written model model/M_bdsk.v (tied by interval-run correspondence on log_prob / BDSKModel() / "
        "BirthDeath / BirthDeathModel(); where the code violates C09 the model is the correct density, see its header)",
        "translator harness/translate/t6_options.py (JSON key -> constructor argument table, fail-closed)",
        "Paramcoq-generated free theorems + Interval library correctness lemmas (kernel-checked)",
        "modelled not verified: torch exp/log/sqrt/searchsorted/gather rounding and semantics (compared under relative "
        "1e-9); float subtraction T - height is exact in the model",
        "python RK4 integrator of the master equations (supporting cross-check only)"]
    rep.assumptions = [
        "theorems: lambda, mu, psi > 0, rho in [0,1], epoch durations >= 0, heights >= 0 (psi = 0 with rho-sampling only "
        "is exercised by the correspondence and RK4 checks, not by the theorems)",
        "C09_refinement_invariance: whole density, any number of epochs, contiguous admissible skyline whose first "
        "epoch starts at a time >= 0",
        "a node / tip lying exactly on an epoch boundary has probability zero under the model: the density there is "
        "a convention; the model takes the convention under which refinement invariance holds (tip: epoch ending at "
        "the boundary; node: the code's, epoch starting at the boundary)",
        "the (n-1) ln 2 orientation constant added when a removal probability is given is the code's (BEAST2 "
        "sampled-ancestor convention), reproduced in the model and in the RK4 reference"]
    rng = random.Random(seed)
    impl.load()

    ok_sync, info = sync()
    table = None
    table_bad = []
    if ok_sync:
        table = option_table()
        table_bad = misdirected(table)

    cases, splits = build_cases(rng, tier)
    if replay:
        rp = json.load(open(replay))["replay"]
        cases, splits = [], []
        if "case" in rp:
            c = rp["case"]
            c["tree"] = _tuplify(c["tree"])
            cases = [c]
            if "other" in rp:
                o = rp["other"]
                o["tree"] = _tuplify(o["tree"])
                splits = [(c, o)]

    t0 = time.time()
    out = {id(c): attempt(run_impl, c) for c in cases}
    for c, s in splits:
        out[id(s)] = attempt(run_impl, s)
    const = {}
    for c in cases:
        if c["m"] == 1 and c["r"] is None and c["times_mode"] != "relative":
            const[id(c)] = (attempt(run_const, c, "BD"), attempt(run_const, c, "BDM"))
    rep.timings["impl"] = round(time.time() - t0, 2)

    t0 = time.time()
    rk = {}
    for k, c in enumerate(cases):
        rk[id(c)] = attempt(rk4_log_density, c)
    rep.timings["rk4"] = round(time.time() - t0, 2)
    opt_found, n_opts = ([], 0) if table is None else option_probe(table)
    stats = dict(pairs=0, const=0, rk4=0, options=n_opts)

    def direct():
        """The property evaluated on the implementation's outputs only."""
        found = {}

        def add(key, what, rp):
            found.setdefault(key, (key, what, rp))
        for f in opt_found:
            add(*f)
        for c in cases:
            v = out[id(c)]
            if isinstance(v, Exception):
                add(key_of(c, "raises", table_bad, exc=v),
                    f"{'BDSKModel()' if c['api'] == 'BDSK' else 'PiecewiseConstantBirthDeath.log_prob'} raises "
                    f"{type(v).__name__}: {str(v)[:140]} [{c['scenario']}, m={c['m']}]", dict(case=c))
                continue
            if id(c) in rk:
                w = rk[id(c)]
                if isinstance(w, Exception):
                    raise w
                stats["rk4"] += 1
                if not close(v, w, RK_TOL):
                    add(key_of(c, "value", table_bad),
                        f"log_prob {v!r} but RK4 integration of the master equations along the tree gives {w!r} "
                        f"[{c['scenario']}, m={c['m']}]", dict(case=c, rk4=w, impl=v))
            if id(c) in const:
                for api, w in zip(("BD", "BDM"), const[id(c)]):
                    name = "BirthDeath.log_prob" if api == "BD" else "BirthDeathModel()"
                    rho_tips = pad_rho(c)[-1] > 0 and 0.0 in c["tips"]
                    extra = "BirthDeathModel-call" if api == "BDM" else ("BirthDeath-rho-tips" if rho_tips else None)
                    if isinstance(w, Exception):
                        add(key_of(c, "raises", table_bad, extra, const=True), f"{name} raises {type(w).__name__}: {str(w)[:140]}",
                            dict(case=c, const_api=api))
                        continue
                    stats["const"] += 1
                    if not close(v, w, RTOL):
                        if api == "BDM" and rho_tips:
                            extra = "BirthDeath-rho-tips"
                        add(key_of(c, "value", table_bad, extra, const=True),
                            f"single-epoch skyline {v!r} but {name} (constant model) {w!r} "
                            f"[rho={pad_rho(c)[-1]}, tips at present={c['tips'].count(0.0)}]",
                            dict(case=c, const_api=api, const=w, impl=v))
        for c, s in splits:
            v, w = out[id(c)], out[id(s)]
            if isinstance(w, Exception):
                add(key_of(s, "raises", table_bad, exc=w),
                    f"after cutting an epoch in two log_prob raises {type(w).__name__}: {str(w)[:140]} "
                    f"[{s['scenario']}, m={s['m']}]", dict(case=s))
                continue
            if isinstance(v, Exception):
                continue
            stats["pairs"] += 1
            if not close(v, w, RTOL):
                add(key_of(s, "value", table_bad),
                    f"epoch cut in two with identical rates and rho=0 at the cut changes the density: {v!r} -> {w!r} "
                    f"[{s['scenario']}, m={c['m']}->{s['m']}]", dict(case=c, other=s, impl=v, impl_split=w))
        return list(found.values())

    direct_found = direct()

    def search():
        return direct_found

    if not ok_sync:
        rep.proof = dict(obligations=1, discharged=0, axioms={}, theorems=["T6 translation"], ok=False)
        rep.violation("C09:translator-failed", info, dict(error=info), False)
    else:
        ok = C.handle_proof(rep, PID, search)
        pr = rep.proof
        if not ok:
            at_options = bool(pr.get("failed_at")) and str(pr["failed_at"]).startswith("prop/C09.v") and \
                pr["discharged"] == pr["obligations"] - 1
            if not (table_bad and at_options):
                rep.violation(f"C09:proof-broken:{pr.get('failed_at')}",
                              f"proof obligation no longer checks at {pr.get('failed_at')}",
                              dict(broken=pr.get("failed_at"), log=pr["log"][-2000:]), False)
            for cls, a, k in table_bad:
                if not any(f[0] == f"C09:option:{cls}:{a}" for f in opt_found):
                    rep.violation(f"C09:option-table:{cls}:{a}<-{k}",
                                  f"{cls}.from_json passes the JSON key {k!r} as constructor argument {a!r} "
                                  "(translator table); not reproduced by the option probe",
                                  dict(cls=cls, arg=a, key=k), False)
        elif table_bad:
            rep.violation("C09:option-table-inconsistent", f"translator reports {table_bad} but the theorem checks",
                          dict(table=table_bad), False)
    for f in direct_found:
        rep.violation(*f)

    # ---- correspondence
    t0 = time.time()
    exprs, index = [], []
    everything = cases + [s for _, s in splits]
    for c in everything:
        exprs.append(coq_case(c))
        index.append(("main", c))
    for c in cases:
        if id(c) in const:
            exprs.append(coq_const(c))
            index.append(("const", c))
    res = C.run_cases(PID, HEADER, exprs, shard=max(4, len(exprs) // 16 + 1)) if exprs else []
    rep.timings["model_eval"] = round(time.time() - t0, 2)
    undefined = 0
    dist = {}
    compared = 0
    for (what, c), flat in zip(index, res):
        iv = C.ival_to_fracs(flat)
        if what == "main":
            v = out[id(c)]
            label = f"{c['api']}/{c['scenario'].split('/')[0]}/m={c['m']}"
            dist[label] = dist.get(label, 0) + 1
            rep.case(dict(c=c), nontrivial=c["n"] >= 3 or c["m"] >= 2,
                     sample=dict(api=c["api"], scenario=c["scenario"], newick=trees.newick(c["tree"], [f"t{i}" for i in range(c["n"])]),
                                 tips=c["tips"], internal=c["ints"], m=c["m"], times=eff_times(c),
                                 impl=(repr(v) if isinstance(v, Exception) else v),
                                 model=(None if iv is None else float((iv[0] + iv[1]) / 2))))
            vals = [("log_prob" if c["api"] == "PW" else "BDSKModel()", v, None)]
            w = rk.get(id(c))
            if w is not None and iv is not None:
                mid = float((iv[0] + iv[1]) / 2)
                stats["model_vs_rk4"] = stats.get("model_vs_rk4", 0) + 1
                if not close(mid, w, RK_TOL):
                    rep.violation("C09:harness:model-vs-rk4",
                                  f"model {mid!r} but RK4 integration of the master equations {w!r} [{c['scenario']}]",
                                  dict(case=c, model=mid, rk4=w), False)
        else:
            rho_tips = pad_rho(c)[-1] > 0 and 0.0 in c["tips"]
            vals = [("BirthDeath.log_prob", const[id(c)][0], "BirthDeath-rho-tips" if rho_tips else None),
                    ("BirthDeathModel()", const[id(c)][1], "BirthDeathModel-call")]
            rep.case(dict(c=c, const=True), nontrivial=True)
        for name, v, extra in vals:
            if isinstance(v, Exception):
                continue            # already filed by direct()
            okc = close_iv(v, iv)
            if okc is None:
                undefined += 1
                rep.violation(key_of(c, "value", table_bad, extra, const=(what == "const")),
                              f"{name} returns {v!r} where the model is undefined", dict(case=c), True)
                continue
            compared += 1
            if not okc:
                if name == "BirthDeathModel()" and rho_tips:
                    extra = "BirthDeath-rho-tips"
                mid = float((iv[0] + iv[1]) / 2)
                rep.violation(key_of(c, "value", table_bad, extra, const=(what == "const")),
                              f"{name} = {v!r} but the density (model/M_bdsk.v, interval run) is {mid!r} "
                              f"[{c['scenario']}, m={c['m']}, n={c['n']}]",
                              dict(case=c, impl=v, model=mid, api=name))
    # ---- same-object histories: the JSON-built skyline model evaluated, parameters assigned (rates, origin, rho,
    #      boundaries, removal probability), evaluated again — also twice in a row without any assignment — and
    #      compared with a freshly built model holding the same values
    t0 = time.time()
    impl.load()
    from torchtree.evolution.bdsk import BDSKModel
    hrng = random.Random(seed + 31)
    nhist, hist_found = 0, {}
    pool = [c for c in cases if c["api"] == "BDSK" and isinstance(out.get(id(c)), float) and math.isfinite(out[id(c)])]
    hrng.shuffle(pool)
    for c in pool[:(60 if tier == "quick" else 400)]:
        try:
            obj = H.tracked(BDSKModel, bdsk_json(c))
            a, b = float(obj().detach().reshape(-1)[0]), float(obj().detach().reshape(-1)[0])
            if a != b:
                k = "C09:history:evaluated-twice"
                hist_found.setdefault(k, (k, f"the same BDSKModel evaluated twice in a row returns {a!r} then {b!r} "
                                             f"[{c['scenario']}, root edge = {c['root_edge']}]", dict(case=c)))
            # the tree's heights and the boundaries are left alone (their order constraints do not survive a
            # generic perturbation)
            fs = H.run(obj, lambda o: o().detach().reshape(-1).tolist(), hrng, steps=2,
                       frozen=("internal_heights", "times"))
        except Exception:      # noqa
            continue
        nhist += 1
        for f in fs:
            k = f"C09:history:BDSKModel:{'root-edge' if c['root_edge'] else 'absolute-origin'}"
            hist_found.setdefault(k, (k, f"after the history {f['history']} (assigned: {f['assigned']}) the same model "
                                         f"returns {f['on_same_object']} but a freshly built one {f['fresh_object']} "
                                         f"[{c['scenario']}]", dict(case=c, history=f)))
    for f in hist_found.values():
        rep.violation(*f)
    rep.timings["histories"] = round(time.time() - t0, 2)
    rep.rule = ("random time trees n=2..12 (random/caterpillar/balanced, serial or contemporaneous, heights generic "
                "doubles or on a dyadic grid), 1..8 epochs, scenarios: plain / boundary exactly on a node time / on a "
                "tip time (with and without rho there) / rho at internal boundaries / rho-tips at several boundaries / "
                "removal probability with one and several epochs / relative times / default grid / origin as root edge "
                "/ contemporaneous; +- survival; API PiecewiseConstantBirthDeath.log_prob or BDSKModel() from JSON; "
                "single-epoch cases also through BirthDeath.log_prob and BirthDeathModel() from JSON; ~45% of the cases "
                "again with one epoch cut in two; non-trivial = n>=3 or m>=2; distinct = distinct configuration")
    rep.exhaustive = dict(json_option_pairs=sum(len(e["options"]) for e in table.values()) if table else 0,
                          constructor_parameters_probed=n_opts)
    rep.extra = dict(input_distribution=dist, model_undefined=undefined, same_object_histories=nhist,
                     traces_validated_against_impl=compared,
                     direct_checks=stats, hazard_classes="see known_findings.d/C09.json",
                     translator_units=["BDSKModel.from_json/__init__ -> gen/G_options.v",
                                       "BirthDeathModel.from_json/__init__ -> gen/G_options.v"],
                     misdirected_options=[f"{c}.{a}<-{k}" for c, a, k in table_bad])
    return rep.finish()
