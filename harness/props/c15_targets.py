"""C15 — targets (JSON specifications built from shipped torchtree models) and operator mixtures.

Every target is a plain list of JSON objects (as the CLI emits them) so that a *fresh* copy of the
whole model can be built at any time with process_object: that is what "the target evaluated from
scratch" means in the correspondence.
"""
import copy
import os


def P(id_, values, **kw):
    d = {"id": id_, "type": "Parameter", "tensor": values}
    d.update(kw)
    return d


def TP(id_, transform, x):
    return {"id": id_, "type": "TransformedParameter", "transform": transform, "x": x}


def dist(id_, name, x, **params):
    return {"id": id_, "type": "Distribution", "distribution": "torch.distributions." + name, "x": x,
            "parameters": params}


# ------------------------------------------------------------------------------------ toy target

def toy_target(rng, transformed_operator_parameter=False):
    """gamma / normal / Dirichlet / log-normal toy posterior with a coupling (the scale of the
    normal prior on b is the transformed parameter t = exp(z)) and a view parameter."""
    r = lambda lo, hi: round(rng.uniform(lo, hi), 3)
    objs = [
        P("a", [r(0.3, 2.0) for _ in range(3)]),
        P("b", [r(-1.0, 1.0) for _ in range(2)]),
        P("p", _simplex(rng, 4)),
        P("c", [r(0.5, 3.0) for _ in range(4)]),
        {"id": "c.view", "type": "ViewParameter", "parameter": "c", "indices": "1:3"},
        {"id": "c.rev", "type": "ViewParameter", "parameter": "c", "indices": "3:1:-1"},
        TP("t", "torch.distributions.ExpTransform", P("z", [r(-0.5, 0.5) for _ in range(2)])),
        {"id": "joint", "type": "JointDistributionModel", "distributions": [
            dist("prior.a", "Gamma", "a", concentration=2.0, rate=3.0),
            dist("prior.b", "Normal", "b", loc=P("b.loc", [0.5, -0.25]), scale="t"),
            dist("prior.p", "Dirichlet", "p", concentration=[2.0, 3.0, 1.5, 2.5]),
            dist("prior.c", "LogNormal", "c", loc=0.25, scale=0.75),
            dist("prior.t", "Gamma", "t", concentration=3.0, rate=2.0),
            "t",
        ]},
    ]
    return dict(name="toy", objs=objs, joint="joint", leaves=["a", "b", "p", "c", "z"],
                watch=["c.view", "c.rev", "t"])


def _simplex(rng, n):
    v = [rng.uniform(0.5, 2.0) for _ in range(n)]
    s = sum(v)
    return [x / s for x in v]


def toy_operators(rng, mix, adapt):
    """mix: iterable of operator kinds to include."""
    ops = []
    w = lambda: round(rng.uniform(0.5, 2.0), 2)
    da = not adapt
    for k in mix:
        if k == "scaler":
            ops.append({"id": "op.scaler", "type": "ScalerOperator", "parameters": ["a", "c.view"],
                        "weight": w(), "scaler": round(rng.uniform(0.3, 0.8), 3),
                        "target_acceptance_probability": 0.24, "disable_adaptation": da})
        elif k == "scaler_rev":
            ops.append({"id": "op.scaler_rev", "type": "ScalerOperator", "parameters": ["c.rev"],
                        "weight": w(), "scaler": round(rng.uniform(0.3, 0.8), 3),
                        "target_acceptance_probability": 0.3, "disable_adaptation": da})
        elif k == "sliding":
            ops.append({"id": "op.sliding", "type": "SlidingWindowOperator", "parameters": ["b", "z"],
                        "weight": w(), "width": round(rng.uniform(0.2, 1.5), 3),
                        "target_acceptance_probability": 0.24, "disable_adaptation": da})
        elif k == "dirichlet":
            ops.append({"id": "op.dirichlet", "type": "DirichletOperator", "parameters": "p",
                        "weight": w(), "scaler": round(rng.uniform(20.0, 200.0), 1),
                        "target_acceptance_probability": 0.24, "disable_adaptation": da})
        elif k in ("hmc", "hmc_adaptive", "hmc_dual"):
            op = {"id": "op." + k, "type": "HMCOperator", "joint": "joint", "parameters": ["b", "z"],
                  "weight": w(), "target_acceptance_probability": 0.8, "disable_adaptation": da,
                  "integrator": {"id": k + ".leapfrog", "type": "LeapfrogIntegrator",
                                 "steps": rng.choice([2, 3, 5]),
                                 "step_size": round(rng.uniform(0.05, 0.4), 3)},
                  "mass_matrix": {"id": k + ".mass", "type": "Parameter",
                                  "tensor": [1.0, 1.0, 1.0, 1.0]},
                  "adaptors": []}
            if k == "hmc_adaptive" and adapt:
                op["adaptors"].append({"id": k + ".adaptor", "type": "AdaptiveStepSize",
                                       "integrator": k + ".leapfrog",
                                       "target_acceptance_probability": 0.8})
            if k == "hmc_dual" and adapt:
                op["adaptors"].append({"id": k + ".adaptor", "type": "DualAveragingStepSize",
                                       "integrator": k + ".leapfrog"})
            ops.append(op)
        elif k == "sliding_transformed":
            # an operator whose parameter is a TransformedParameter (as the CLI does with
            # gmrf.precision for the block-updating operator)
            ops.append({"id": "op.sliding_t", "type": "SlidingWindowOperator", "parameters": ["t"],
                        "weight": w(), "width": round(rng.uniform(0.2, 0.8), 3),
                        "target_acceptance_probability": 0.24, "disable_adaptation": da})
        else:
            raise ValueError(k)
    return ops


# ------------------------------------------------------------------------------------ phylogenetic target

def _read_tiny(repo):
    fa = open(os.path.join(repo, "data", "tiny.fa")).read().split(">")[1:]
    seqs = []
    for blk in fa:
        lines = blk.strip().split("\n")
        seqs.append((lines[0].strip(), "".join(lines[1:]).strip()))
    nwk = open(os.path.join(repo, "data", "tiny.nwk")).read().strip()
    return seqs, nwk


def phylo_target(repo, cli_style_precision=False, plain_frequencies=True):
    """HKY + strict clock + skygrid(4) posterior on data/tiny.*, unconstrained parameterisation as
    emitted by `torchtree-cli mcmc` (values copied from its output); options:
    cli_style_precision: gmrf.precision is a TransformedParameter (exp) of gmrf.precision.unres,
        exactly as the CLI emits it (the block operator then works *through* the transform);
        otherwise a plain positive Parameter.
    plain_frequencies: frequencies as a plain simplex Parameter (for DirichletOperator)."""
    seqs, nwk = _read_tiny(repo)
    taxa = {"id": "taxa", "type": "Taxa", "taxa": [
        {"id": n, "type": "Taxon", "attributes": {"date": 0.0}} for n, _ in seqs]}
    aln = {"id": "alignment", "type": "Alignment",
           "datatype": {"id": "data_type", "type": "NucleotideDataType"}, "taxa": "taxa",
           "sequences": [{"taxon": n, "sequence": s} for n, s in seqs]}
    if plain_frequencies:
        freqs = P("substmodel.frequencies", [0.3, 0.2, 0.25, 0.25])
    else:
        freqs = TP("substmodel.frequencies", "torch.distributions.StickBreakingTransform",
                   P("substmodel.frequencies.unres", [0.1, -0.1, 0.05]))
    if cli_style_precision:
        prec = TP("gmrf.precision", "torch.distributions.ExpTransform",
                  P("gmrf.precision.unres", [-0.3341]))
    else:
        prec = P("gmrf.precision", [0.716])
    like = {
        "id": "like", "type": "TreeLikelihoodModel",
        "tree_model": {
            "id": "tree", "type": "ReparameterizedTimeTreeModel", "newick": nwk,
            "ratios": TP("tree.ratios", "torch.distributions.SigmoidTransform",
                         P("tree.ratios.unres", -1.2, full=[8])),
            "root_height": TP("tree.root_height", "torch.distributions.ExpTransform",
                              P("tree.root_height.unres", [2.3025851249694824])),
            "taxa": "taxa"},
        "site_model": {"id": "sitemodel", "type": "ConstantSiteModel"},
        "substitution_model": {
            "id": "substmodel", "type": "HKY",
            "kappa": TP("substmodel.kappa", "torch.distributions.ExpTransform",
                        P("substmodel.kappa.unres", [1.0986123085021973])),
            "frequencies": freqs},
        "site_pattern": {"id": "patterns", "type": "SitePattern", "alignment": "alignment"},
        "branch_model": {
            "id": "branchmodel", "type": "StrictClockModel", "tree_model": "tree",
            "rate": TP("branchmodel.rate", "torch.distributions.ExpTransform",
                       P("branchmodel.rate.unres", [-6.907755374908447]))},
    }
    prior = {"id": "prior", "type": "JointDistributionModel", "distributions": [
        {"id": "coalescent", "type": "PiecewiseConstantCoalescentGridModel",
         "theta": TP("coalescent.theta", "torch.distributions.ExpTransform",
                     P("coalescent.theta.log", 3.0, full=[4])),
         "tree_model": "tree", "cutoff": 10.0},
        {"id": "gmrf", "type": "GMRF", "x": "coalescent.theta.log", "precision": prec},
        dist("gmrf.precision.prior", "Gamma", "gmrf.precision", concentration=0.001, rate=0.001),
        {"id": "branchmodel.rate.prior", "type": "CTMCScale", "x": "branchmodel.rate",
         "tree_model": "tree"},
        dist("substmodel.frequencies.prior", "Dirichlet", "substmodel.frequencies",
             concentration=[1.0, 1.0, 1.0, 1.0]),
        dist("substmodel.kappa.prior", "LogNormal", "substmodel.kappa", loc=1.0, scale=1.25),
    ]}
    joint = {"id": "joint", "type": "JointDistributionModel", "distributions": [like, prior]}
    jac = ["tree.ratios", "tree.root_height", "substmodel.kappa", "branchmodel.rate", "tree"]
    if not plain_frequencies:
        jac.append("substmodel.frequencies")
    if cli_style_precision:
        jac.append("gmrf.precision")
    jj = {"id": "joint.jacobian", "type": "JointDistributionModel", "distributions": ["joint"] + jac}
    leaves = ["tree.ratios.unres", "tree.root_height.unres", "substmodel.kappa.unres",
              "substmodel.frequencies" if plain_frequencies else "substmodel.frequencies.unres",
              "branchmodel.rate.unres", "coalescent.theta.log",
              "gmrf.precision.unres" if cli_style_precision else "gmrf.precision"]
    watch = ["tree.ratios", "tree.root_height", "substmodel.kappa", "branchmodel.rate",
             "coalescent.theta"]
    if not plain_frequencies:
        watch.append("substmodel.frequencies")
    if cli_style_precision:
        watch.append("gmrf.precision")
    return dict(name="phylo" + ("-cli" if cli_style_precision else ""), objs=[taxa, aln, joint, jj],
                joint="joint.jacobian", leaves=leaves, watch=watch)


def phylo_operators(rng, mix, adapt, target):
    ops = []
    da = not adapt
    leaves = target["leaves"]
    for k in mix:
        if k == "sliding_cli":
            # the operators `torchtree-cli mcmc` emits: one sliding window per unconstrained parameter
            for pid, wgt in (("tree.ratios.unres", 8.0), ("tree.root_height.unres", 1.0),
                             ("substmodel.kappa.unres", 1.0), ("branchmodel.rate.unres", 1.0)):
                ops.append({"id": pid + ".operator", "type": "SlidingWindowOperator", "parameters": pid,
                            "weight": wgt / 2, "width": 0.5, "disable_adaptation": da})
        elif k == "block":
            ops.append({"id": "coalescent.theta.log.operator",
                        "type": "GMRFPiecewiseCoalescentBlockUpdatingOperator",
                        "coalescent": "coalescent", "gmrf": "gmrf", "weight": 3.0,
                        "scaler": round(rng.uniform(1.5, 2.5), 2), "disable_adaptation": da})
        elif k == "dirichlet":
            ops.append({"id": "freq.operator", "type": "DirichletOperator",
                        "parameters": "substmodel.frequencies", "weight": 2.0,
                        "scaler": round(rng.uniform(100.0, 400.0), 0),
                        "target_acceptance_probability": 0.24, "disable_adaptation": da})
        elif k == "scaler":
            ops.append({"id": "prec.operator", "type": "ScalerOperator",
                        "parameters": ["gmrf.precision"], "weight": 1.0, "scaler": 0.5,
                        "target_acceptance_probability": 0.24, "disable_adaptation": da})
        elif k == "hmc":
            ids = ["substmodel.kappa.unres", "branchmodel.rate.unres", "tree.root_height.unres"]
            ops.append({"id": "hmc.operator", "type": "HMCOperator", "joint": "joint.jacobian",
                        "parameters": ids, "weight": 2.0, "disable_adaptation": da,
                        "target_acceptance_probability": 0.8,
                        "integrator": {"id": "hmc.leapfrog", "type": "LeapfrogIntegrator", "steps": 3,
                                       "step_size": round(rng.uniform(0.02, 0.08), 3)},
                        "mass_matrix": {"id": "hmc.mass", "type": "Parameter", "tensor": [1.0, 1.0, 1.0]},
                        "adaptors": []})
        else:
            raise ValueError(k)
    return ops


def mcmc_json(target, operators, iterations, log_file, log_every, log_ids):
    return {"id": "mcmc", "type": "MCMC", "joint": target["joint"], "iterations": iterations,
            "operators": copy.deepcopy(operators), "checkpoint": False, "every": 1,
            "loggers": [{"id": "logger", "type": "Logger", "parameters": log_ids,
                         "file_name": log_file, "every": log_every, "delimiter": "\t"}]}
