"""C11 — cached values never go stale.

Pipeline: T7 translator (handler/setter/flag table of every class -> coq/gen/G_handlers.v) -> proofs
(coq/prop/C11.v: wired_sound ...) -> wiring of real object graphs extracted (listeners by introspection,
dependencies by read-tracing, cross-checked by perturbation) and `wired` evaluated on them by vm_compute
-> the property itself evaluated on the implementation (random histories of updates through the public
parameter interface; after every operation every value is compared with a freshly built copy holding
the same leaf values) -> correspondence of the operational model M_listen.run with the implementation
(dirty flags after each operation, set of re-executed _call at each evaluation, staleness, raises).
"""
import copy
import hashlib
import json
import math
import os
import random
import sys
import time
import traceback

from harness import common as C
from harness import impl
from harness.translate import t7_handlers

PID = "C11"
HEADER = ("From Coq Require Import List ZArith Bool. Import ListNotations.\n"
          "From TT Require Import M_listen G_handlers.\n")

# =============================================================================================
# 1. Instance graphs: JSON specifications (the snippets of the docstrings / tests, composed)
# =============================================================================================

# value domains of the leaves (how random new values are drawn so that models stay evaluable)
POS, UNIT, REAL, SIMPLEX, HEIGHTS, BL, GRID = "pos", "unit", "real", "simplex", "heights", "bl", "grid"


def P(id_, values, dom=POS, **kw):
    d = {"id": id_, "type": "Parameter", "tensor": values, "_dom": dom}
    d.update(kw)
    return d


def taxa(names, dates=None):
    return {"id": "taxa", "type": "Taxa", "taxa": [
        {"id": n, "type": "Taxon", "attributes": {"date": (dates[i] if dates else 0.0)}}
        for i, n in enumerate(names)]}


NUC_SEQS = {"A": "ACGTACGTAAGGCCTTACGATTGA", "B": "ACGTACGAAAGGCTTTACGATTGC",
            "C": "ACCTACGTTAGGCCTAACGAATGA", "D": "TCGTGCGTAAGCCCTTACCATTGA",
            "E": "ACGAACGTAAGGCGTTAGGATTCA"}
CODON_SEQS = {"A": "ATGGCTAAAGGTCTGTTC", "B": "ATGGCCAAAGGTCTTTTC", "C": "ATGGCTAGAGGACTGTTT",
              "D": "ATGTCTAAAGGTCTGTAC"}


def alignment(names, seqs, datatype="nucleotide"):
    return {"id": "alignment", "type": "Alignment", "datatype": datatype, "taxa": "taxa",
            "sequences": [{"taxon": n, "sequence": seqs[n]} for n in names]}


def exp_of(id_, leaf):
    return {"id": id_, "type": "TransformedParameter", "transform": "torch.distributions.ExpTransform", "x": leaf}


def dist(id_, distribution, x, parameters=None):
    d = {"id": id_, "type": "Distribution", "distribution": "torch.distributions." + distribution, "x": x}
    if parameters:
        d["parameters"] = parameters
    return d


def joint(id_, members):
    return {"id": id_, "type": "JointDistributionModel", "distributions": members}


def spec_unrooted():
    n = ["A", "B", "C", "D", "E"]
    return dict(name="unrooted-gtr-weibull", objects=[
        taxa(n), alignment(n, NUC_SEQS),
        {"id": "patterns", "type": "SitePattern", "alignment": "alignment"},
        {"id": "tree", "type": "UnRootedTreeModel", "newick": "((A:0.1,B:0.2):0.05,(C:0.3,D:0.1):0.02,E:0.2);",
         "taxa": "taxa", "branch_lengths": P("bl", [0.1, 0.2, 0.3, 0.1, 0.2, 0.05, 0.02], BL)},
        {"id": "gtr", "type": "GTR",
         "rates": {"id": "gtr_rates", "type": "TransformedParameter",
                   "transform": "torch.distributions.StickBreakingTransform",
                   "x": P("gtr_rates_u", [0.1, -0.2, 0.3, 0.0, 0.2], REAL)},
         "frequencies": P("gtr_freqs", [0.25, 0.25, 0.3, 0.2], SIMPLEX)},
        {"id": "site", "type": "WeibullSiteModel", "categories": 3,
         "shape": exp_of("wshape", P("wshape_u", [0.1], REAL)),
         "invariant": P("pinv", [0.2], UNIT), "mu": P("site_mu", [1.3])},
        {"id": "like", "type": "TreeLikelihoodModel", "tree_model": "tree", "site_model": "site",
         "substitution_model": "gtr", "site_pattern": "patterns"},
        {"id": "cgd", "type": "CompoundGammaDirichletPrior", "tree_model": "tree",
         "alpha": P("cgd_alpha", [1.0]), "c": P("cgd_c", [0.5]), "shape": P("cgd_shape", [1.5]),
         "rate": P("cgd_rate", [2.0])},
        dist("prior_pinv", "Beta", "pinv", {"concentration1": P("b1", [1.5]), "concentration0": P("b0", [2.0])}),
        dist("prior_wshape", "LogNormal", "wshape", {"loc": P("ln_loc", [0.0], REAL), "scale": P("ln_scale", [1.0])}),
        joint("joint", ["like", "cgd", "prior_pinv", "prior_wshape", "wshape", "gtr_rates"]),
    ])


def spec_timetree():
    n = ["A", "B", "C", "D"]
    return dict(name="reparam-hky-clock", objects=[
        taxa(n, [0.0, 1.0, 0.5, 2.0]), alignment(n, NUC_SEQS),
        {"id": "patterns", "type": "SitePattern", "alignment": "alignment"},
        {"id": "tree", "type": "ReparameterizedTimeTreeModel", "newick": "(((A,B),C),D);", "taxa": "taxa",
         "ratios": P("ratios", [0.4, 0.6], UNIT), "root_height": P("root_height", [5.0], dom="root")},
        P("kf", [2.0, 0.1, 0.2, 0.3, 0.4], dom="kf"),
        {"id": "kappa", "type": "ViewParameter", "parameter": "kf", "indices": ":1"},
        {"id": "freqs", "type": "ViewParameter", "parameter": "kf", "indices": "1:"},
        {"id": "hky", "type": "HKY", "kappa": "kappa", "frequencies": "freqs"},
        {"id": "site", "type": "ConstantSiteModel", "mu": P("site_mu", [0.9])},
        {"id": "clock", "type": "StrictClockModel", "tree_model": "tree", "rate": P("clock_rate", [0.01])},
        {"id": "like", "type": "TreeLikelihoodModel", "tree_model": "tree", "site_model": "site",
         "substitution_model": "hky", "site_pattern": "patterns", "branch_model": "clock"},
        {"id": "coal", "type": "ConstantCoalescentModel", "tree_model": "tree", "theta": P("theta", [3.0])},
        {"id": "ctmc", "type": "CTMCScale", "x": "clock_rate", "tree_model": "tree"},
        dist("prior_theta", "Exponential", "theta", {"rate": P("theta_rate", [0.5])}),
        joint("joint", ["like", "coal", "ctmc", "prior_theta", "tree"]),
    ])


def spec_skyline():
    n = ["A", "B", "C", "D", "E"]
    return dict(name="timetree-skyline-gmrf", objects=[
        taxa(n, [0.0, 0.0, 1.0, 0.5, 0.0]),
        {"id": "tree", "type": "TimeTreeModel", "newick": "(((A,B),C),(D,E));", "taxa": "taxa",
         "internal_heights": P("heights", [1.0, 2.0, 1.5, 4.0], HEIGHTS)},
        {"id": "skyride", "type": "PiecewiseConstantCoalescentModel", "tree_model": "tree",
         "theta": exp_of("sky_theta", P("sky_theta_log", [1.0, 1.2, 0.8, 1.1], REAL))},
        {"id": "gmrf", "type": "GMRF", "x": "sky_theta_log", "precision": P("gmrf_prec", [2.0]), "tree_model": "tree"},
        {"id": "skygrid", "type": "PiecewiseConstantCoalescentGridModel", "tree_model": "tree",
         "theta": P("grid_theta", [3.0, 2.0, 4.0]), "grid": P("grid", [1.0, 3.0], GRID)},
        {"id": "skyglide", "type": "PiecewiseLinearCoalescentGridModel", "tree_model": "tree",
         "theta": "grid_theta", "grid": "grid"},
        {"id": "expcoal", "type": "ExponentialCoalescentModel", "tree_model": "tree",
         "theta": P("exp_theta", [3.0]), "growth": P("growth", [0.3], REAL)},
        {"id": "intcoal", "type": "ConstantCoalescentIntegratedModel", "tree_model": "tree", "alpha": 2.0, "beta": 1.5},
        {"id": "pexp", "type": "PiecewiseExponentialCoalescentGridModel", "tree_model": "tree",
         "theta": P("pexp_theta", [3.0]), "growth": P("pexp_growth", [0.2], REAL), "grid": P("pexp_grid", [], GRID)},
        {"id": "gmrf2", "type": "GMRF", "x": P("field2", [0.1, 0.4, 0.2], REAL), "precision": "gmrf_prec"},
        joint("joint", ["skyride", "gmrf", "skygrid", "skyglide", "expcoal", "intcoal", "gmrf2", "sky_theta"]),
    ])


def spec_birthdeath():
    n = ["A", "B", "C", "D"]
    return dict(name="birth-death", objects=[
        taxa(n, [0.0, 0.0, 1.0, 0.5]),
        {"id": "tree", "type": "TimeTreeModel", "newick": "(((A,B),C),D);", "taxa": "taxa",
         "internal_heights": P("heights", [1.0, 2.0, 3.0], HEIGHTS)},
        {"id": "bdsk", "type": "BDSKModel", "tree_model": "tree", "R": P("R", [1.5, 2.0]),
         "delta": P("delta", [1.0, 1.2]), "s": P("s", [0.3, 0.4], UNIT), "rho": P("rho", [0.5], UNIT),
         "origin": P("origin", [6.0], dom="origin")},
        {"id": "bd", "type": "BirthDeathModel", "tree_model": "tree", "lambda": P("bd_lambda", [2.0]),
         "mu": P("bd_mu", [1.0]), "psi": P("bd_psi", [0.5]), "rho": P("bd_rho", [0.5], UNIT),
         "origin": "origin"},
        joint("joint", ["bdsk", "bd"]),
    ])


def spec_codon():
    n = ["A", "B", "C", "D"]
    return dict(name="codon-mg94", objects=[
        taxa(n), {"id": "codon", "type": "CodonDataType", "genetic_code": "Universal"},
        alignment(n, CODON_SEQS, "codon"),
        {"id": "patterns", "type": "SitePattern", "alignment": "alignment"},
        {"id": "tree", "type": "UnRootedTreeModel", "newick": "((A:0.1,B:0.2):0.05,C:0.3,D:0.1);",
         "taxa": "taxa", "branch_lengths": P("bl", [0.1, 0.2, 0.3, 0.1, 0.05], BL)},
        {"id": "mg94", "type": "MG94", "data_type": "codon", "alpha": P("mg_alpha", [1.0]),
         "beta": P("mg_beta", [0.5]), "kappa": P("mg_kappa", [2.0]),
         "frequencies": P("mg_freqs", [1.0 / 61] * 61, SIMPLEX)},
        {"id": "site", "type": "ConstantSiteModel"},
        {"id": "like", "type": "TreeLikelihoodModel", "tree_model": "tree", "site_model": "site",
         "substitution_model": "mg94", "site_pattern": "patterns"},
        dist("prior_bl", "Exponential", "bl", {"rate": P("bl_rate", [10.0])}),
        joint("joint", ["like", "prior_bl"]),
    ])


def spec_general():
    n = ["A", "B", "C", "D"]
    gdt = {"id": "gdt", "type": "GeneralDataType", "codes": ["A", "C", "G", "T"]}
    return dict(name="general-subst-flexible", objects=[
        taxa(n, [0.0, 0.0, 0.0, 0.0]), gdt, alignment(n, NUC_SEQS, "gdt"),
        {"id": "patterns", "type": "SitePattern", "alignment": "alignment"},
        {"id": "tree", "type": "FlexibleTimeTreeModel", "newick": "(((A,B),C),D);", "taxa": "taxa",
         "internal_heights": P("heights", [1.0, 2.0, 3.0], HEIGHTS)},
        {"id": "sym", "type": "GeneralSymmetricSubstitutionModel", "data_type": "gdt",
         "mapping": [0, 1, 0, 2, 1, 0], "rates": P("sym_rates", [1.0, 2.0, 0.5]),
         "frequencies": P("sym_freqs", [0.25, 0.25, 0.25, 0.25], SIMPLEX)},
        {"id": "nonsym", "type": "GeneralNonSymmetricSubstitutionModel", "data_type": "gdt",
         "mapping": [0, 1, 2, 3, 4, 5, 0, 1, 2, 3, 4, 5], "rates": P("ns_rates", [1.0, 2.0, 0.5, 1.5, 0.7, 1.1]),
         "frequencies": P("ns_freqs", [0.2, 0.3, 0.25, 0.25], SIMPLEX), "normalize": True},
        {"id": "gjc", "type": "GeneralJC69", "state_count": 4},
        {"id": "jc", "type": "JC69"},
        {"id": "site", "type": "InvariantSiteModel", "invariant": P("pinv", [0.2], UNIT), "mu": P("site_mu", [1.1])},
        {"id": "clock", "type": "SimpleClockModel", "tree_model": "tree",
         "rate": P("rates", [0.01, 0.02, 0.015, 0.01, 0.03, 0.02])},
        {"id": "like_sym", "type": "TreeLikelihoodModel", "tree_model": "tree", "site_model": "site",
         "substitution_model": "sym", "site_pattern": "patterns", "branch_model": "clock"},
        {"id": "like_nonsym", "type": "TreeLikelihoodModel", "tree_model": "tree", "site_model": "site",
         "substitution_model": "nonsym", "site_pattern": "patterns", "branch_model": "clock"},
        {"id": "like_gjc", "type": "TreeLikelihoodModel", "tree_model": "tree", "site_model": "site",
         "substitution_model": "gjc", "site_pattern": "patterns", "branch_model": "clock"},
        {"id": "like_jc", "type": "TreeLikelihoodModel", "tree_model": "tree", "site_model": "site",
         "substitution_model": "jc", "site_pattern": "patterns", "branch_model": "clock", "use_tip_states": True},
        dist("prior_rates", "LogNormal", "rates", {"loc": P("r_loc", [-4.0], REAL), "scale": P("r_scale", [0.5])}),
        joint("joint", ["like_sym", "like_nonsym", "like_gjc", "like_jc", "prior_rates"]),
    ])


def spec_distributions():
    return dict(name="distributions", objects=[
        P("mvn_x", [0.1, -0.3, 0.5], REAL), P("y1", [0.2], REAL), P("y2", [1.5, -0.5], REAL),
        {"id": "mvn", "type": "MultivariateNormal", "x": "mvn_x", "parameters": {
            "loc": P("mvn_loc", [0.0, 0.1, -0.1], REAL),
            "covariance_matrix": P("mvn_cov", [[1.0, 0.1, 0.0], [0.1, 2.0, 0.2], [0.0, 0.2, 1.5]], dom="spd")}},
        {"id": "bridge", "type": "BayesianBridge", "x": "y2", "scale": P("br_scale", [1.2]),
         "alpha": P("br_alpha", [0.5])},
        {"id": "bridge2", "type": "BayesianBridge", "x": "y2", "scale": "br_scale",
         "local_scale": P("br_local", [0.8, 1.1]), "slab": P("br_slab", [2.0])},
        {"id": "mix", "type": "ScaleMixtureNormal", "x": "y2", "loc": 0.0, "global_scale": P("mix_g", [1.0]),
         "local_scale": P("mix_l", [0.5, 0.7]), "slab": P("mix_slab", [1.5])},
        # x given as a list: concatenated parameter; parameters behind a transform
        dist("normal_cat", "Normal", ["y1", "y2"],
             {"loc": P("n_loc", [0.0, 0.5, -0.5], REAL), "scale": exp_of("n_scale", P("n_scale_u", [0.0, 0.1, -0.1], REAL))}),
        {"id": "cat", "type": "CatParameter", "parameters": ["y1", "mvn_x"], "dim": -1},
        {"id": "cat_exp", "type": "TransformedParameter", "transform": "torch.distributions.ExpTransform", "x": "cat"},
        dist("gamma_on_cat", "Gamma", "cat_exp", {"concentration": P("g_conc", [2.0]), "rate": P("g_rate", [1.0])}),
        {"id": "affine", "type": "TransformedParameter", "transform": "torch.distributions.AffineTransform",
         "parameters": {"loc": 1.0, "scale": 2.0}, "x": ["y1", "y2"]},
        dist("normal_affine", "Normal", "affine", {"loc": P("a_loc", [0.0], REAL), "scale": P("a_scale", [3.0])}),
        {"id": "detnorm", "type": "DeterministicNormal", "x": P("dn_x", [0.1, 0.2], REAL), "shape": [],
         "loc": P("dn_loc", [0.0, 0.0], REAL), "scale": P("dn_scale", [1.0, 1.0])},
        {"id": "gmrfcov", "type": "GMRF", "x": "y2", "precision": "g_rate"},
        joint("joint", ["mvn", "bridge", "bridge2", "mix", "normal_cat", "gamma_on_cat", "cat_exp",
                        "normal_affine", "affine", "detnorm", "gmrfcov"]),
    ])


SPECS = [spec_unrooted, spec_timetree, spec_skyline, spec_birthdeath, spec_codon, spec_general, spec_distributions]


# =============================================================================================
# 2. Building instances, freshly built copies
# =============================================================================================

def strip(o):
    if isinstance(o, dict):
        return {k: strip(v) for k, v in o.items() if not k.startswith("_")}
    if isinstance(o, list):
        return [strip(x) for x in o]
    return o


def leaf_domains(objs, out=None):
    out = {} if out is None else out
    if isinstance(objs, dict):
        if objs.get("type") == "Parameter" and "_dom" in objs:
            out[objs["id"]] = objs["_dom"]
        for v in objs.values():
            leaf_domains(v, out)
    elif isinstance(objs, list):
        for v in objs:
            leaf_domains(v, out)
    return out


def build(spec, values=None):
    """Build the specification through the public JSON interface; with `values` (leaf id -> nested
    list) the leaves hold these values from construction on (a freshly built copy)."""
    torch = impl.load()
    from torchtree.core.utils import process_object, update_parameters
    js = strip(copy.deepcopy(spec["objects"]))
    if values is not None:
        update_parameters(js, {k: {"tensor": v} for k, v in values.items()})
    dic = {}
    for o in js:
        process_object(o, dic)
    return dic


def leaf_values(dic, leaves):
    return {k: dic[k].tensor.detach().tolist() for k in leaves}


# =============================================================================================
# 3. Wiring extraction from the real objects
# =============================================================================================

class ExtractError(Exception):
    pass


def qn(obj):
    c = type(obj)
    return f"{c.__module__}:{c.__name__}"


def listeners_of(obj, table):
    ent = table[qn(obj)]
    a = ent["listeners_attr"]
    return list(getattr(obj, a)) if a else []


def targets_of(obj):
    from torchtree.core.parameter import CatParameter, TransformedParameter, ViewParameter
    if isinstance(obj, ViewParameter):
        return [obj.parameter]
    if isinstance(obj, CatParameter):
        return list(obj._parameter_container.params())
    if isinstance(obj, TransformedParameter):
        return [obj.x]
    return []


def kind_of(obj):
    from torchtree.core.parameter import CatParameter, Parameter, TransformedParameter, ViewParameter
    if type(obj) is Parameter:
        return "KLeaf"
    if isinstance(obj, ViewParameter):
        return "KView"
    if isinstance(obj, CatParameter):
        return "KCat"
    if isinstance(obj, TransformedParameter):
        return "KTrans"
    return "KOther"


def collect_objects(dic, table):
    """All protocol objects reachable from the registry (sub-objects, listeners, setter targets)."""
    from torchtree.core.abstractparameter import AbstractParameter
    from torchtree.core.model import Model
    from torchtree.core.parametric import Parametric
    seen, order = {}, []

    def visit(o):
        if not isinstance(o, (AbstractParameter, Model, Parametric)) or id(o) in seen:
            return
        if qn(o) not in table:
            raise ExtractError(f"object of class {qn(o)} is not in the translated class table")
        seen[id(o)] = o
        order.append(o)
        for t in targets_of(o):
            visit(t)
        for name in ("_parameters", "_models"):
            for v in getattr(o, name, {}).values() if isinstance(getattr(o, name, None), dict) else []:
                visit(v)
        if hasattr(o, "_parameter_container"):
            visit(o._parameter_container)
        for l in listeners_of(o, table):
            if not isinstance(l, (AbstractParameter, Model, Parametric)):
                raise ExtractError(f"listener {type(l).__name__} of {type(o).__name__} is not a protocol object")
            visit(l)

    for v in dic.values():
        visit(v)
    return order


def obj_name(o, names):
    return names.get(id(o)) or f"<{type(o).__name__}@{id(o) & 0xffff:x}>"


class Tracer:
    """Read-tracing with sys.setprofile: which slot reads which slot.

    A slot is (object, 'leaf') | (object, 'f:<flag>') cached | (object, 'm:<method>') uncached.
    Frames whose `self` is a protocol object are attributed to a slot: a method containing the
    `if self.F: ...; self.F = False` pattern belongs to slot f:F; any other method entered from the same
    object inherits the current slot; entered from another object it opens the uncached slot m:<method>."""

    def __init__(self, objs, table):
        self.ids = {id(o): o for o in objs}
        self.table = table
        self.stack = []          # (frame id, (objid, slotname))
        self.edges = []          # (read slot, reader slot) in order of first occurrence
        self.seen = set()
        self.top_reads = []
        self.acc = {}            # class -> {method: flag}
        self.single = {}

    def _accessors(self, o):
        q = qn(o)
        if q not in self.acc:
            fl = self.table[q]["flags"]
            self.acc[q] = {m: f for f, ms in fl.items() for m in ms}
            self.single[q] = (next(iter(fl)) if len(fl) == 1 and self.table[q]["is_param"] else None)
        return self.acc[q], self.single[q]

    def slot_for(self, o, fn):
        acc, single = self._accessors(o)
        top = self.stack[-1][1] if self.stack else None
        if fn in acc:
            return (id(o), "f:" + acc[fn])
        if top is not None and top[0] == id(o):
            return top
        if kind_of(o) == "KLeaf":
            return (id(o), "leaf")
        if single is not None:
            return (id(o), "f:" + single)
        return (id(o), "m:" + fn)

    def __call__(self, frame, event, arg):
        if event == "call":
            code = frame.f_code
            if code.co_argcount >= 1 and code.co_varnames[0] == "self":
                o = frame.f_locals.get("self")
                if id(o) in self.ids and self.ids[id(o)] is o:
                    fn = code.co_name
                    if fn in ("__init__", "__getattr__", "__setattr__", "__torch_function__") or \
                            fn.startswith("handle_") or fn.startswith("fire_") or fn.startswith("add_"):
                        return
                    s = self.slot_for(o, fn)
                    top = self.stack[-1][1] if self.stack else None
                    if top is None:
                        self.top_reads.append(s)
                    elif top != s and (s, top) not in self.seen:
                        self.seen.add((s, top))
                        self.edges.append((s, top))
                    self.stack.append((id(frame), s))
        elif event == "return":
            if self.stack and self.stack[-1][0] == id(frame):
                self.stack.pop()

    def run(self, thunk):
        self.stack = []
        sys.setprofile(self)
        try:
            return thunk()
        finally:
            sys.setprofile(None)
            self.stack = []


def observations(o, table):
    """(slot name, thunk) pairs through which the harness reads object o (public accessors only)."""
    from torchtree.core.abstractparameter import AbstractParameter
    from torchtree.core.model import CallableModel
    from torchtree.evolution.branch_model import BranchModel
    from torchtree.evolution.site_model import SiteModel
    from torchtree.evolution.substitution_model.abstract import SubstitutionModel
    from torchtree.evolution.tree_model import TreeModel
    ent = table[qn(o)]
    flags = ent["flags"]
    out = []
    k = kind_of(o)
    if k == "KLeaf":
        return [("leaf", lambda: o.tensor)]
    if isinstance(o, AbstractParameter):
        if len(flags) == 1:
            out.append(("f:" + next(iter(flags)), lambda: o.tensor))
        elif not flags:
            out.append(("m:tensor", lambda: o.tensor))
        else:
            for f in flags:
                if f == "lp_needs_update":
                    out.append(("f:" + f, lambda: o()))
                elif f == "need_update":
                    out.append(("f:" + f, lambda: o.tensor))
                else:
                    raise ExtractError(f"{qn(o)}: no observation known for flag {f}")
        return out
    for f in flags:
        if f == "lp_needs_update" and isinstance(o, CallableModel):
            out.append(("f:" + f, lambda: o()))
        elif f == "heights_need_update":
            out.append(("f:" + f, lambda: o.node_heights))
        elif f == "branch_lengths_need_update":
            out.append(("f:" + f, lambda: o.branch_lengths()))
        elif f == "needs_update" and isinstance(o, SiteModel):
            out.append(("f:" + f, lambda: (o.rates(), o.probabilities())))
        else:
            raise ExtractError(f"{qn(o)}: no observation known for flag {f}")
    if isinstance(o, SiteModel) and not flags:
        out += [("m:rates", lambda: o.rates()), ("m:probabilities", lambda: o.probabilities())]
    if isinstance(o, TreeModel) and "branch_lengths_need_update" not in flags:
        out.append(("m:branch_lengths", lambda: o.branch_lengths()))
    if isinstance(o, SubstitutionModel):
        out += [("m:q", lambda: o.q()), ("m:frequencies", lambda: o.frequencies)]
    if isinstance(o, BranchModel):
        out.append(("m:rates", lambda: o.rates))
    return out


class Wiring:
    """The model graph of one instance + the maps back to the real objects."""
    pass


def extract(spec, table, cls_names, flag_names):
    torch = impl.load()
    dic = build(spec)
    objs = collect_objects(dic, table)
    names = {id(v): k for k, v in dic.items()}
    # -- read tracing on this scratch copy, every cache forced dirty so that everything is re-read
    tr = Tracer(objs, table)
    obs = {}
    dropped = []

    def force_dirty():
        for o in objs:
            for f in table[qn(o)]["flags"]:
                if hasattr(o, f):
                    setattr(o, f, True)

    for o in objs:
        for sname, th in observations(o, table):
            force_dirty()
            try:
                with torch.no_grad():
                    tr.run(th)
                obs[(id(o), sname)] = th
            except Exception as e:                      # not evaluable on this tree (e.g. C09 defect)
                dropped.append((obj_name(o, names), sname, f"{type(e).__name__}: {e}"[:160]))
                obs[(id(o), sname)] = th
    # -- slots
    slots = []
    sidx = {}

    def add_slot(s):
        if s not in sidx:
            sidx[s] = len(slots)
            slots.append(s)

    for o in objs:
        if kind_of(o) == "KLeaf":
            add_slot((id(o), "leaf"))
        for f in table[qn(o)]["flags"]:
            add_slot((id(o), "f:" + f))
    for s in obs:
        add_slot(s)
    for a, b in tr.edges:
        add_slot(a)
        add_slot(b)
    deps = {s: [] for s in slots}
    for a, b in tr.edges:
        if a not in deps[b]:
            deps[b].append(a)
    # -- topological numbering of slots (reads first) and objects (targets / notifiers first)
    def toposort(nodes, preds, what):
        order, state = [], {}

        def visit(n, path):
            st = state.get(n)
            if st == 2:
                return
            if st == 1:
                raise ExtractError(f"cycle in {what}: {path + [n]}")
            state[n] = 1
            for p in preds(n):
                visit(p, path + [n])
            state[n] = 2
            order.append(n)
        for n in nodes:
            visit(n, [])
        return order

    slot_order = toposort(slots, lambda s: deps[s], "read dependencies")
    lst = {id(o): [id(l) for l in listeners_of(o, table)] for o in objs}
    tg = {id(o): [id(t) for t in targets_of(o)] for o in objs}
    notifiers = {id(o): [] for o in objs}
    for o in objs:
        for l in lst[id(o)]:
            if id(o) not in notifiers[l]:
                notifiers[l].append(id(o))
    obj_order = toposort([id(o) for o in objs], lambda i: tg[i] + notifiers[i], "listener registrations")
    byid = {id(o): o for o in objs}
    W = Wiring()
    W.spec, W.table, W.flag_names, W.cls_names = spec, table, flag_names, cls_names
    W.obj_ids = obj_order
    W.oindex = {i: k for k, i in enumerate(obj_order)}
    W.obj_names = [obj_name(byid[i], names) for i in obj_order]
    W.obj_class = [qn(byid[i]) for i in obj_order]
    W.obj_kind = [kind_of(byid[i]) for i in obj_order]
    W.listeners = [[W.oindex[l] for l in lst[i]] for i in obj_order]
    W.targets = [[W.oindex[t] for t in tg[i]] for i in obj_order]
    W.slots = slot_order
    W.sindex = {s: k for k, s in enumerate(slot_order)}
    W.slot_owner = [W.oindex[s[0]] for s in slot_order]
    W.slot_name = [s[1] for s in slot_order]
    W.slot_deps = [[W.sindex[d] for d in deps[s]] for s in slot_order]
    W.slot_flag = [(flag_names.index(s[1][2:]) if s[1].startswith("f:") else None) for s in slot_order]
    W.observable = [s in obs for s in slot_order]
    W.dropped = dropped
    W.leaf_ids = sorted(k for k, v in dic.items() if kind_of(v) == "KLeaf")
    W.domains = leaf_domains(spec["objects"])
    # paths from the registry to every object / observation, usable on any other copy of the instance
    W.locators = [locate(byid[i], dic, names) for i in obj_order]
    return W, dic


def locate(o, dic, names):
    """A path (registry id, then attribute steps) reaching object o from the registry."""
    if id(o) in names:
        return [names[id(o)]]
    # breadth-first search through the protocol attributes
    from collections import deque
    q = deque((v, [k]) for k, v in dic.items())
    seen = set()
    while q:
        cur, path = q.popleft()
        if id(cur) in seen:
            continue
        seen.add(id(cur))
        if cur is o:
            return path
        for attr in ("_parameters", "_models"):
            d = getattr(cur, attr, None)
            if isinstance(d, dict):
                for k, v in d.items():
                    q.append((v, path + [(attr, k)]))
        if hasattr(cur, "_parameter_container"):
            q.append((cur._parameter_container, path + [("attr", "_parameter_container")]))
        for j, t in enumerate(targets_of(cur)):
            q.append((t, path + [("target", j)]))
    raise ExtractError(f"cannot locate {type(o).__name__} from the registry")


def resolve(path, dic):
    cur = dic[path[0]]
    for kind, k in path[1:]:
        if kind in ("_parameters", "_models"):
            cur = getattr(cur, kind)[k]
        elif kind == "attr":
            cur = getattr(cur, k)
        else:
            cur = targets_of(cur)[k]
    return cur


def coq_graph(W):
    cidx = {n: i for i, n in enumerate(W.cls_names)}
    objs = "; ".join(f"mkObj {cidx[W.obj_class[i]]} {W.obj_kind[i]} {C.coq_list(W.listeners[i], C.natlit)} "
                     f"{C.coq_list(W.targets[i], C.natlit)}" for i in range(len(W.obj_ids)))
    slots = "; ".join(
        f"mkSlot {W.slot_owner[k]} {('(Some ' + str(W.slot_flag[k]) + '%nat)') if W.slot_flag[k] is not None else 'None'} "
        f"{'true' if W.slot_name[k] == 'leaf' else 'false'} {C.coq_list(W.slot_deps[k], C.natlit)}"
        for k in range(len(W.slots)))
    return f"(mkGraph cls_table [{objs}]%nat [{slots}]%nat)"


def conservative_deps(W, dic_objs, table):
    """For a cached slot whose recomputation could not be traced (it raises on this tree) assume it reads
    everything its object registered: every parameter's tensor slot and every cached / observed slot of
    every registered sub-model.  Returns the list of (slot index, added deps)."""
    added = []
    traced_fail = {(n, s) for n, s, _ in W.dropped}
    for k, (oid, sname) in enumerate(W.slots):
        o = dic_objs[oid]
        if (W.obj_names[W.oindex[oid]], sname) not in traced_fail or W.slot_deps[k]:
            continue
        extra = []
        for d in (getattr(o, "_parameters", {}), getattr(o, "_models", {})):
            for sub in d.values():
                j = W.oindex.get(id(sub))
                if j is None:
                    continue
                for k2 in range(len(W.slots)):
                    if W.slot_owner[k2] == j and k2 < k and (W.slot_name[k2] == "leaf" or W.slot_flag[k2] is not None
                                                             or W.slot_name[k2] == "m:tensor"):
                        if k2 not in extra:
                            extra.append(k2)
        if extra:
            W.slot_deps[k] = extra
            added.append((k, extra))
    return added


# =============================================================================================
# 4. Python mirror of the cascade (only to NAME the offending handler; verdicts come from Coq)
# =============================================================================================

def cascade(W, o, ev="EvP"):
    """-> (marked {(obj, flagname)}, received {obj: set(events)}, raised_at obj|None)"""
    marked, received = set(), {}

    class Raise(Exception):
        pass

    def fire(src, e, depth=0):
        if depth > len(W.obj_ids) + 2:
            raise ExtractError("cascade does not terminate")
        for l in W.listeners[src]:
            received.setdefault(l, set()).add(e)
            ent = W.table[W.obj_class[l]]
            for st in ent["hp" if e == "EvP" else "hm"]:
                if st[0] == "HSet":
                    marked.add((l, st[1]))
                elif st[0] == "HFire":
                    fire(l, st[1], depth + 1)
                elif st[0] == "HRaise":
                    raise Raise(l)
    try:
        fire(o, ev)
    except Raise as r:
        return marked, received, r.args[0]
    return marked, received, None


def reads_set(W, n):
    out, stack = set(), [n]
    while stack:
        k = stack.pop()
        if k in out:
            continue
        out.add(k)
        stack.extend(W.slot_deps[k])
    return out


def short(q):
    return q.split(":")[1]


def hname(e):
    return "handle_parameter_changed" if e == "EvP" else "handle_model_changed"


def root_cause(W, p, n):
    """Name the handler responsible for cached slot n not being marked when leaf object p changes."""
    marked, received, _ = cascade(W, p)
    pslot = next(k for k in range(len(W.slots)) if W.slot_owner[k] == p and W.slot_name[k] == "leaf")
    # a dependency path pslot -> ... -> n
    prev = {pslot: None}
    order = [pslot]
    readers = {k: [m for m in range(len(W.slots)) if k in W.slot_deps[m]] for k in range(len(W.slots))}
    for k in order:
        for m in readers[k]:
            if m not in prev:
                prev[m] = k
                order.append(m)
    path = []
    k = n
    while k is not None:
        path.append(k)
        k = prev.get(k)
    path.reverse()
    for i, m in enumerate(path[1:], 1):
        fl = W.slot_flag[m]
        if fl is None:
            continue
        y = W.slot_owner[m]
        if (y, W.flag_names[fl]) in marked:
            continue
        cy = short(W.obj_class[y])
        if y in received:
            for e in sorted(received[y]):
                h = W.table[W.obj_class[y]]["hp" if e == "EvP" else "hm"]
                if ("HSet", W.flag_names[fl]) not in h:
                    return f"{cy}.{hname(e)}:ignores", m, path[i - 1]
            return f"{cy}:flag-{W.flag_names[fl]}-not-set", m, path[i - 1]
        # y never notified: who on the path before it was notified last?
        z = W.slot_owner[path[i - 1]]
        cz = short(W.obj_class[z])
        if z in received or z == p:
            if y in W.listeners[z]:
                for e in sorted(received.get(z, {"EvP"})):
                    h = W.table[W.obj_class[z]]["hp" if e == "EvP" else "hm"]
                    if not any(s[0] == "HFire" for s in h):
                        return f"{cz}.{hname(e)}:does-not-propagate", m, path[i - 1]
            return f"{cy}:not-listening-to:{cz}", m, path[i - 1]
        return f"{cz}:not-notified", m, path[i - 1]
    return f"{short(W.obj_class[W.slot_owner[n]])}:unexplained", n, pslot


# =============================================================================================
# 5. Running histories on the implementation
# =============================================================================================

class Real:
    """One live copy of an instance, addressed through the wiring W."""

    def __init__(self, W, values=None):
        self.W = W
        self.torch = impl.load()
        self.dic = build(W.spec, values)
        self.objs = [resolve(p, self.dic) for p in W.locators]
        self.obs = {}
        for i, o in enumerate(self.objs):
            if qn(o) != W.obj_class[i]:
                raise ExtractError(f"copy differs from the extracted wiring at {W.obj_names[i]}")
            for sname, th in observations(o, W.table):
                self.obs[(i, sname)] = th
        self.calls = []
        from torchtree.core.model import CallableModel
        for i, o in enumerate(self.objs):
            if isinstance(o, CallableModel):
                self._wrap(i, o)
        self.saved = {}

    def _wrap(self, i, o):
        orig = o._call
        calls = self.calls

        def wrapped(*a, **k):
            calls.append(i)
            return orig(*a, **k)
        object.__setattr__(o, "_call", wrapped)

    def flags(self):
        W = self.W
        return [int(bool(getattr(self.objs[W.slot_owner[k]], W.flag_names[W.slot_flag[k]])))
                for k in range(len(W.slots)) if W.slot_flag[k] is not None]

    def leaf_values(self):
        return {k: self.dic[k].tensor.detach().tolist() for k in self.W.leaf_ids}

    def observe(self, k):
        """-> ('val', canonical tensors) | ('exc', type)"""
        W = self.W
        th = self.obs[(W.slot_owner[k], W.slot_name[k])]
        self.calls.clear()
        try:
            with self.torch.no_grad():
                v = th()
        except Exception as e:
            return ("exc", type(e).__name__, str(e)[:200])
        vs = v if isinstance(v, (tuple, list)) else (v,)
        return ("val", [x.detach().clone() if hasattr(x, "detach") else self.torch.as_tensor(x) for x in vs])

    # ---- values -----------------------------------------------------------------------------
    def gen_value(self, i, rng, base):
        """A new admissible value for parameter object i (shape of its current tensor)."""
        torch = self.torch
        W = self.W
        o = self.objs[i]
        k = W.obj_kind[i]
        if k == "KLeaf":
            cur = o.tensor.detach()
            dom = W.domains.get(W.obj_names[i], POS)
            b = torch.tensor(base[W.obj_names[i]], dtype=cur.dtype).reshape(cur.shape) if W.obj_names[i] in base else cur

            def U(lo, hi):
                return torch.tensor([rng.uniform(lo, hi) for _ in range(max(cur.numel(), 1))],
                                    dtype=cur.dtype)[:cur.numel()].reshape(cur.shape)
            if dom == POS:
                return U(0.2, 3.0)
            if dom == BL:
                return U(0.01, 0.5)
            if dom == UNIT:
                return U(0.05, 0.95)
            if dom == REAL:
                return U(-1.0, 1.0)
            if dom == SIMPLEX:
                x = U(0.5, 1.5)
                return x / x.sum(-1, keepdim=True)
            if dom in (HEIGHTS, GRID, "root", "origin"):
                return b * (1.0 + rng.uniform(0.0, 1.0))
            if dom == "spd":
                return b + rng.uniform(0.0, 1.0) * torch.eye(b.shape[-1], dtype=cur.dtype)
            if dom == "kf":
                x = U(0.5, 1.5)
                x[..., 1:] = x[..., 1:] / x[..., 1:].sum(-1, keepdim=True)
                return x
            raise ExtractError(f"unknown domain {dom}")
        if k == "KView":
            return self.gen_value(W.targets[i][0], rng, base)[..., o.indices]
        if k == "KCat":
            return torch.cat([self.gen_value(t, rng, base) for t in W.targets[i]], dim=o._dim)
        if k == "KTrans":
            return o.transform(self.gen_value(W.targets[i][0], rng, base))
        raise ExtractError(f"cannot generate a value for {W.obj_class[i]}")

    # ---- operations -------------------------------------------------------------------------
    def apply(self, op):
        """Execute an update through the public interface.  -> None | ('raise', type, msg)"""
        torch = self.torch
        kind = op["op"]
        o = self.objs[op["obj"]]
        try:
            if kind in ("set", "propose"):
                if kind == "propose":
                    self.saved[op["obj"]] = o.tensor.detach().clone()
                o.tensor = torch.tensor(op["value"], dtype=o.tensor.dtype)
            elif kind == "reject":
                o.tensor = self.saved.pop(op["obj"])
            elif kind == "inplace":
                with torch.no_grad():
                    o.tensor.copy_(torch.tensor(op["value"], dtype=o.tensor.dtype))
                o.fire_parameter_changed()
            elif kind == "fire":
                o.fire_parameter_changed()
            elif kind == "sample":
                torch.manual_seed(op["seed"])
                o.sample()
            else:
                raise ExtractError(f"unknown op {kind}")
        except ExtractError:
            raise
        except Exception as e:
            return ("raise", type(e).__name__, str(e)[:200])
        return None


def same_value(a, b, torch):
    """values of the same slot on the history copy and on a freshly built copy"""
    if a[0] != b[0]:
        return False
    if a[0] == "exc":
        return a[1] == b[1]
    if len(a[1]) != len(b[1]):
        return False
    for x, y in zip(a[1], b[1]):
        if x.shape != y.shape:
            return False
        if x.dtype.is_floating_point:
            if not torch.allclose(x, y, rtol=1e-9, atol=1e-12, equal_nan=True):
                return False
        elif not torch.equal(x, y):
            return False
    return True


def model_op(W, op):
    k = op["op"]
    if k == "eval":
        return f"OEval {op['slot']}"
    if k in ("set", "propose", "reject"):
        return f"OAssign {op['obj']}"
    if k == "sample":
        return f"OAssign {op['x']}"
    if k == "inplace":
        return f"OInplaceFire {op['obj']}"
    if k == "fire":
        return f"OFire {op['obj']}"
    raise ExtractError(k)


def gen_history(W, rng, length, real):
    """A random history (list of op dicts) over instance W.  `real` is a scratch copy used only to
    size the values."""
    from torchtree.distributions.distributions import DistributionModel
    n = len(W.obj_ids)
    params = [i for i in range(n) if W.obj_kind[i] != "KOther"]
    leaves = [i for i in params if W.obj_kind[i] == "KLeaf"]
    composite = [i for i in params if W.obj_kind[i] != "KLeaf"]
    samplers = [i for i in range(n) if isinstance(real.objs[i], DistributionModel)
                and hasattr(real.objs[i], "x") and id(real.objs[i].x) in W.oindex
                and short(W.obj_class[i]) != "JointDistributionModel"]
    evaluable = [k for k in range(len(W.slots)) if W.observable[k] and k not in W.unevaluable]
    cached = [k for k in evaluable if W.slot_flag[k] is not None]
    base = W.base_values
    ops = []
    pending = []
    p_eval = rng.choice([0.3, 0.5, 0.7])
    eval_all = rng.random() < 0.25
    while len(ops) < length:
        r = rng.random()
        if r < p_eval and evaluable:
            k = rng.choice(cached if (cached and rng.random() < 0.7) else evaluable)
            ops.append(dict(op="eval", slot=k))
            continue
        r = rng.random()
        if pending and r < 0.15:
            i = pending.pop(rng.randrange(len(pending)))
            ops.append(dict(op="reject", obj=i))
        elif r < 0.45 and composite:
            i = rng.choice(composite)
            ops.append(dict(op="set", obj=i, value=real.gen_value(i, rng, base).tolist()))
        elif r < 0.55 and samplers:
            i = rng.choice(samplers)
            ops.append(dict(op="sample", obj=i, x=W.oindex[id(real.objs[i].x)], seed=rng.randrange(10 ** 6)))
        elif r < 0.65:
            i = rng.choice(leaves)
            ops.append(dict(op="inplace", obj=i, value=real.gen_value(i, rng, base).tolist()))
        elif r < 0.70:
            ops.append(dict(op="fire", obj=rng.choice(params)))
        elif r < 0.80:
            i = rng.choice(params)
            if i not in pending:
                pending.append(i)
                ops.append(dict(op="propose", obj=i, value=real.gen_value(i, rng, base).tolist()))
        else:
            i = rng.choice(leaves)
            ops.append(dict(op="set", obj=i, value=real.gen_value(i, rng, base).tolist()))
        if eval_all and ops[-1]["op"] != "eval":
            for k in evaluable:
                ops.append(dict(op="eval", slot=k))
    return ops


def run_history(W, ops):
    """Execute a history on a new copy.  -> list of per-op records:
       update: dict(kind='upd', flags=[...]) | dict(kind='raise', exc=..)   (history stops)
       eval  : dict(kind='eval', stale=bool, calls=set(obj), flags=[...], detail=...)"""
    torch = impl.load()
    real = Real(W)
    out = []
    fresh = None
    for op in ops:
        if op["op"] == "eval":
            k = op["slot"]
            got = real.observe(k)
            calls = sorted(set(real.calls))
            if fresh is None:
                fresh = Real(W, real.leaf_values())
            ref = fresh.observe(k)
            stale = not same_value(got, ref, torch)
            detail = None
            if stale:
                detail = dict(got=_show(got), fresh=_show(ref))
            out.append(dict(kind="eval", stale=stale, calls=calls, flags=real.flags(), detail=detail,
                            exc=(got[0] == "exc")))
        else:
            r = real.apply(op)
            fresh = None
            if r is not None:
                out.append(dict(kind="raise", exc=r[1], msg=r[2]))
                break
            out.append(dict(kind="upd", flags=real.flags()))
    return out


def _show(v):
    if v[0] == "exc":
        return f"raises {v[1]}"
    return [x.flatten()[:4].tolist() for x in v[1]]


def parse_trace(W, ops, z):
    """Decode M_listen.trace output into the same per-op records."""
    nfl = sum(1 for f in W.slot_flag if f is not None)
    out, i = [], 0
    for op in ops:
        if i >= len(z):
            break
        tag = z[i]
        if tag == 0:
            stale, k = z[i + 1], z[i + 2]
            rec = z[i + 3:i + 3 + k]
            flags = z[i + 3 + k:i + 3 + k + nfl]
            i += 3 + k + nfl
            calls = sorted({W.slot_owner[s] for s in rec if W.flag_names[W.slot_flag[s]] == "lp_needs_update"})
            out.append(dict(kind="eval", stale=bool(stale), calls=calls, flags=flags, recomputed=rec))
        elif tag == 1:
            out.append(dict(kind="upd", flags=z[i + 1:i + 1 + nfl]))
            i += 1 + nfl
        elif tag == 2:
            out.append(dict(kind="raise", who=z[i + 1]))
            break
        else:
            out.append(dict(kind="fuel"))
            break
    return out
