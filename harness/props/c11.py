"""C11 — cached values never go stale.

Pipeline: T7 translator (handler/setter/flag table of every class -> coq/gen/G_handlers.v) -> proofs
(coq/prop/C11.v: wired_sound ...) -> wiring of real object graphs extracted (listeners by introspection,
dependencies by read-tracing, cross-checked by perturbation) and `wired` evaluated on them by vm_compute
-> the property itself evaluated on the implementation (random histories of updates through the public
parameter interface; after every operation every value is compared with a freshly built copy holding
the same leaf values) -> correspondence of the operational model M_listen.run with the implementation
(dirty flags after each operation, set of re-executed _call at each evaluation, staleness, raises).
"""
import copy
import hashlib
import json
import math
import os
import random
import sys
import time
import traceback

from harness import common as C
from harness import impl
from harness.translate import t7_handlers

PID = "C11"
HEADER = ("From Coq Require Import List ZArith Bool. Import ListNotations.\n"
          "From TT Require Import M_listen G_handlers.\n")

# =============================================================================================
# 1. Instance graphs: JSON specifications (the snippets of the docstrings / tests, composed)
# =============================================================================================

# value domains of the leaves (how random new values are drawn so that models stay evaluable)
POS, UNIT, REAL, SIMPLEX, HEIGHTS, BL, GRID = "pos", "unit", "real", "simplex", "heights", "bl", "grid"


def P(id_, values, dom=POS, **kw):
    d = {"id": id_, "type": "Parameter", "tensor": values, "_dom": dom}
    d.update(kw)
    return d


def taxa(names, dates=None):
    return {"id": "taxa", "type": "Taxa", "taxa": [
        {"id": n, "type": "Taxon", "attributes": {"date": (dates[i] if dates else 0.0)}}
        for i, n in enumerate(names)]}


NUC_SEQS = {"A": "ACGTACGTAAGGCCTTACGATTGA", "B": "ACGTACGAAAGGCTTTACGATTGC",
            "C": "ACCTACGTTAGGCCTAACGAATGA", "D": "TCGTGCGTAAGCCCTTACCATTGA",
            "E": "ACGAACGTAAGGCGTTAGGATTCA"}
CODON_SEQS = {"A": "ATGGCTAAAGGTCTGTTC", "B": "ATGGCCAAAGGTCTTTTC", "C": "ATGGCTAGAGGACTGTTT",
              "D": "ATGTCTAAAGGTCTGTAC"}


def alignment(names, seqs, datatype="nucleotide"):
    return {"id": "alignment", "type": "Alignment", "datatype": datatype, "taxa": "taxa",
            "sequences": [{"taxon": n, "sequence": seqs[n]} for n in names]}


def exp_of(id_, leaf):
    return {"id": id_, "type": "TransformedParameter", "transform": "torch.distributions.ExpTransform", "x": leaf}


def dist(id_, distribution, x, parameters=None):
    d = {"id": id_, "type": "Distribution", "distribution": "torch.distributions." + distribution, "x": x}
    if parameters:
        d["parameters"] = parameters
    return d


def joint(id_, members):
    return {"id": id_, "type": "JointDistributionModel", "distributions": members}


def spec_unrooted():
    n = ["A", "B", "C", "D", "E"]
    return dict(name="unrooted-gtr-weibull", objects=[
        taxa(n), alignment(n, NUC_SEQS),
        {"id": "patterns", "type": "SitePattern", "alignment": "alignment"},
        {"id": "tree", "type": "UnRootedTreeModel", "newick": "((A:0.1,B:0.2):0.05,(C:0.3,D:0.1):0.02,E:0.2);",
         "taxa": "taxa", "branch_lengths": P("bl", [0.1, 0.2, 0.3, 0.1, 0.2, 0.05, 0.02], BL)},
        {"id": "gtr", "type": "GTR",
         "rates": {"id": "gtr_rates", "type": "TransformedParameter",
                   "transform": "torch.distributions.StickBreakingTransform",
                   "x": P("gtr_rates_u", [0.1, -0.2, 0.3, 0.0, 0.2], REAL)},
         "frequencies": P("gtr_freqs", [0.25, 0.25, 0.3, 0.2], SIMPLEX)},
        {"id": "site", "type": "WeibullSiteModel", "categories": 3,
         "shape": exp_of("wshape", P("wshape_u", [0.1], REAL)),
         "invariant": P("pinv", [0.2], UNIT), "mu": P("site_mu", [1.3])},
        {"id": "like", "type": "TreeLikelihoodModel", "tree_model": "tree", "site_model": "site",
         "substitution_model": "gtr", "site_pattern": "patterns"},
        {"id": "cgd", "type": "CompoundGammaDirichletPrior", "tree_model": "tree",
         "alpha": P("cgd_alpha", [1.0]), "c": P("cgd_c", [0.5]), "shape": P("cgd_shape", [1.5]),
         "rate": P("cgd_rate", [2.0])},
        dist("prior_pinv", "Beta", "pinv", {"concentration1": P("b1", [1.5]), "concentration0": P("b0", [2.0])}),
        dist("prior_wshape", "LogNormal", "wshape", {"loc": P("ln_loc", [0.0], REAL), "scale": P("ln_scale", [1.0])}),
        joint("joint", ["like", "cgd", "prior_pinv", "prior_wshape", "wshape", "gtr_rates"]),
    ])


def spec_timetree():
    n = ["A", "B", "C", "D"]
    return dict(name="reparam-hky-clock", objects=[
        taxa(n, [0.0, 1.0, 0.5, 2.0]), alignment(n, NUC_SEQS),
        {"id": "patterns", "type": "SitePattern", "alignment": "alignment"},
        {"id": "tree", "type": "ReparameterizedTimeTreeModel", "newick": "(((A,B),C),D);", "taxa": "taxa",
         "ratios": P("ratios", [0.4, 0.6], UNIT), "root_height": P("root_height", [5.0], dom="root")},
        P("kf", [2.0, 0.1, 0.2, 0.3, 0.4], dom="kf"),
        {"id": "kappa", "type": "ViewParameter", "parameter": "kf", "indices": ":1"},
        {"id": "freqs", "type": "ViewParameter", "parameter": "kf", "indices": "1:"},
        {"id": "hky", "type": "HKY", "kappa": "kappa", "frequencies": "freqs"},
        {"id": "site", "type": "ConstantSiteModel", "mu": P("site_mu", [0.9])},
        {"id": "clock", "type": "StrictClockModel", "tree_model": "tree", "rate": P("clock_rate", [0.01])},
        {"id": "like", "type": "TreeLikelihoodModel", "tree_model": "tree", "site_model": "site",
         "substitution_model": "hky", "site_pattern": "patterns", "branch_model": "clock"},
        {"id": "coal", "type": "ConstantCoalescentModel", "tree_model": "tree", "theta": P("theta", [3.0])},
        {"id": "ctmc", "type": "CTMCScale", "x": "clock_rate", "tree_model": "tree"},
        dist("prior_theta", "Exponential", "theta", {"rate": P("theta_rate", [0.5])}),
        joint("joint", ["like", "coal", "ctmc", "prior_theta", "tree"]),
    ])


def spec_shifts():
    """the increment ("shifts") parameterisation of the node heights held by ONE plain parameter"""
    n = ["A", "B", "C", "D"]
    return dict(name="shifts-coalescent", objects=[
        taxa(n, [0.0, 1.0, 0.5, 2.0]),
        {"id": "tree", "type": "ReparameterizedTimeTreeModel", "newick": "(((A,B),C),D);", "taxa": "taxa",
         "shifts": P("shifts", [0.4, 0.6, 1.5])},
        {"id": "coal", "type": "ConstantCoalescentModel", "tree_model": "tree", "theta": P("theta", [3.0])},
        {"id": "ctmc", "type": "CTMCScale", "x": P("clock_rate", [0.01]), "tree_model": "tree"},
        joint("joint", ["coal", "ctmc", "tree"]),
    ])


def spec_skyline():
    n = ["A", "B", "C", "D", "E"]
    return dict(name="timetree-skyline-gmrf", objects=[
        taxa(n, [0.0, 0.0, 1.0, 0.5, 0.0]),
        {"id": "tree", "type": "TimeTreeModel", "newick": "(((A,B),C),(D,E));", "taxa": "taxa",
         "internal_heights": P("heights", [1.0, 2.0, 1.5, 4.0], HEIGHTS)},
        {"id": "skyride", "type": "PiecewiseConstantCoalescentModel", "tree_model": "tree",
         "theta": exp_of("sky_theta", P("sky_theta_log", [1.0, 1.2, 0.8, 1.1], REAL))},
        {"id": "gmrf", "type": "GMRF", "x": "sky_theta_log", "precision": P("gmrf_prec", [2.0]), "tree_model": "tree"},
        {"id": "skygrid", "type": "PiecewiseConstantCoalescentGridModel", "tree_model": "tree",
         "theta": P("grid_theta", [3.0, 2.0, 4.0]), "grid": P("grid", [1.0, 3.0], GRID)},
        {"id": "skyglide", "type": "PiecewiseLinearCoalescentGridModel", "tree_model": "tree",
         "theta": "grid_theta", "grid": "grid"},
        {"id": "expcoal", "type": "ExponentialCoalescentModel", "tree_model": "tree",
         "theta": P("exp_theta", [3.0]), "growth": P("growth", [0.3], REAL)},
        {"id": "intcoal", "type": "ConstantCoalescentIntegratedModel", "tree_model": "tree", "alpha": 2.0, "beta": 1.5},
        {"id": "pexp", "type": "PiecewiseExponentialCoalescentGridModel", "tree_model": "tree",
         "theta": P("pexp_theta", [3.0]), "growth": P("pexp_growth", [0.2], REAL), "grid": P("pexp_grid", [], GRID)},
        {"id": "gmrf2", "type": "GMRF", "x": P("field2", [0.1, 0.4, 0.2], REAL), "precision": "gmrf_prec"},
        joint("joint", ["skyride", "gmrf", "skygrid", "skyglide", "expcoal", "intcoal", "gmrf2", "sky_theta"]),
    ])


def spec_birthdeath():
    n = ["A", "B", "C", "D"]
    return dict(name="birth-death", objects=[
        taxa(n, [0.0, 0.0, 1.0, 0.5]),
        {"id": "tree", "type": "TimeTreeModel", "newick": "(((A,B),C),D);", "taxa": "taxa",
         "internal_heights": P("heights", [1.0, 2.0, 3.0], HEIGHTS)},
        {"id": "bdsk", "type": "BDSKModel", "tree_model": "tree", "R": P("R", [1.5, 2.0]),
         "delta": P("delta", [1.0, 1.2]), "s": P("s", [0.3, 0.4], UNIT), "rho": P("rho", [0.5], UNIT),
         "origin": P("origin", [20.0], dom="origin")},
        {"id": "bd", "type": "BirthDeathModel", "tree_model": "tree", "lambda": P("bd_lambda", [2.0]),
         "mu": P("bd_mu", [1.0]), "psi": P("bd_psi", [0.5]), "rho": P("bd_rho", [0.5], UNIT),
         "origin": "origin"},
        joint("joint", ["bdsk"]),
        joint("joint_bd", ["bd", "bdsk"]),
    ])


def spec_codon():
    n = ["A", "B", "C", "D"]
    return dict(name="codon-mg94", objects=[
        taxa(n), {"id": "codon", "type": "CodonDataType", "genetic_code": "Universal"},
        alignment(n, CODON_SEQS, "codon"),
        {"id": "patterns", "type": "SitePattern", "alignment": "alignment"},
        {"id": "tree", "type": "UnRootedTreeModel", "newick": "((A:0.1,B:0.2):0.05,C:0.3,D:0.1);",
         "taxa": "taxa", "branch_lengths": P("bl", [0.1, 0.2, 0.3, 0.1, 0.05], BL)},
        {"id": "mg94", "type": "MG94", "data_type": "codon", "alpha": P("mg_alpha", [1.0]),
         "beta": P("mg_beta", [0.5]), "kappa": P("mg_kappa", [2.0]),
         "frequencies": P("mg_freqs", [1.0 / 61] * 61, SIMPLEX)},
        # discretised rates WITHOUT an invariant class (the probabilities are then constant, the rates are not)
        {"id": "site", "type": "WeibullSiteModel", "categories": 3, "shape": P("wshape_c", [0.7])},
        {"id": "like", "type": "TreeLikelihoodModel", "tree_model": "tree", "site_model": "site",
         "substitution_model": "mg94", "site_pattern": "patterns"},
        dist("prior_bl", "Exponential", "bl", {"rate": P("bl_rate", [10.0, 9.0, 11.0, 10.0, 12.0])}),
        joint("joint", ["like", "prior_bl"]),
    ])


def spec_general():
    n = ["A", "B", "C", "D"]
    gdt = {"id": "gdt", "type": "GeneralDataType", "codes": ["A", "C", "G", "T"]}
    return dict(name="general-subst-flexible", objects=[
        taxa(n, [0.0, 0.0, 0.0, 0.0]), gdt, alignment(n, NUC_SEQS, "gdt"),
        {"id": "patterns", "type": "SitePattern", "alignment": "alignment"},
        {"id": "tree", "type": "FlexibleTimeTreeModel", "newick": "(((A,B),C),D);", "taxa": "taxa",
         "internal_heights": P("heights", [1.0, 2.0, 3.0], HEIGHTS)},
        {"id": "sym", "type": "GeneralSymmetricSubstitutionModel", "data_type": "gdt",
         "mapping": [0, 1, 0, 2, 1, 0], "rates": P("sym_rates", [1.0, 2.0, 0.5]),
         "frequencies": P("sym_freqs", [0.25, 0.25, 0.25, 0.25], SIMPLEX)},
        {"id": "nonsym", "type": "GeneralNonSymmetricSubstitutionModel", "data_type": "gdt",
         "mapping": [0, 1, 2, 3, 4, 5, 0, 1, 2, 3, 4, 5], "rates": P("ns_rates", [1.0, 2.0, 0.5, 1.5, 0.7, 1.1]),
         "frequencies": P("ns_freqs", [0.2, 0.3, 0.25, 0.25], SIMPLEX), "normalize": True},
        {"id": "gjc", "type": "GeneralJC69", "state_count": 4},
        {"id": "jc", "type": "JC69"},
        {"id": "site", "type": "InvariantSiteModel", "invariant": P("pinv", [0.2], UNIT), "mu": P("site_mu", [1.1])},
        {"id": "clock", "type": "SimpleClockModel", "tree_model": "tree",
         "rate": P("rates", [0.01, 0.02, 0.015, 0.01, 0.03, 0.02])},
        {"id": "like_sym", "type": "TreeLikelihoodModel", "tree_model": "tree", "site_model": "site",
         "substitution_model": "sym", "site_pattern": "patterns", "branch_model": "clock"},
        {"id": "like_nonsym", "type": "TreeLikelihoodModel", "tree_model": "tree", "site_model": "site",
         "substitution_model": "nonsym", "site_pattern": "patterns", "branch_model": "clock"},
        {"id": "like_gjc", "type": "TreeLikelihoodModel", "tree_model": "tree", "site_model": "site",
         "substitution_model": "gjc", "site_pattern": "patterns", "branch_model": "clock"},
        {"id": "like_jc", "type": "TreeLikelihoodModel", "tree_model": "tree", "site_model": "site",
         "substitution_model": "jc", "site_pattern": "patterns", "branch_model": "clock", "use_tip_states": True},
        {"id": "poisson", "type": "PoissonTreeLikelihood", "tree_model": "tree", "branch_model": "clock",
         "edge_lengths": P("edges", [1, 2, 0, 3, 1, 2], "counts")},
        dist("prior_rates", "LogNormal", "rates", {"loc": P("r_loc", [-4.0] * 6, REAL), "scale": P("r_scale", [0.5])}),
        joint("joint", ["like_sym", "like_nonsym", "like_gjc", "like_jc", "poisson", "prior_rates"]),
    ])


def spec_distributions():
    return dict(name="distributions", objects=[
        P("mvn_x", [0.1, -0.3, 0.5], REAL), P("y1", [0.2], REAL), P("y2", [1.5, -0.5], REAL),
        {"id": "mvn", "type": "MultivariateNormal", "x": "mvn_x", "parameters": {
            "loc": P("mvn_loc", [0.0, 0.1, -0.1], REAL),
            "covariance_matrix": P("mvn_cov", [[1.0, 0.1, 0.0], [0.1, 2.0, 0.2], [0.0, 0.2, 1.5]], dom="spd")}},
        {"id": "bridge", "type": "BayesianBridge", "x": "y2", "scale": P("br_scale", [1.2]),
         "alpha": P("br_alpha", [0.5])},
        {"id": "bridge2", "type": "BayesianBridge", "x": "y2", "scale": "br_scale",
         "local_scale": P("br_local", [0.8, 1.1]), "slab": P("br_slab", [2.0])},
        {"id": "mix", "type": "ScaleMixtureNormal", "x": "y2", "loc": 0.0, "global_scale": P("mix_g", [1.0]),
         "local_scale": P("mix_l", [0.5, 0.7]), "slab": P("mix_slab", [1.5])},
        # x given as a list: concatenated parameter; parameters behind a transform
        dist("normal_cat", "Normal", ["y1", "y2"],
             {"loc": P("n_loc", [0.0, 0.5, -0.5], REAL), "scale": exp_of("n_scale", P("n_scale_u", [0.0, 0.1, -0.1], REAL))}),
        {"id": "cat", "type": "CatParameter", "parameters": ["y1", "mvn_x"], "dim": -1},
        {"id": "cat_exp", "type": "TransformedParameter", "transform": "torch.distributions.ExpTransform", "x": "cat"},
        dist("gamma_on_cat", "Gamma", "cat_exp", {"concentration": P("g_conc", [2.0, 2.5, 3.0, 2.0]), "rate": P("g_rate", [1.0])}),
        {"id": "affine", "type": "TransformedParameter", "transform": "torch.distributions.AffineTransform",
         "parameters": {"loc": 1.0, "scale": 2.0}, "x": ["y1", "y2"]},
        dist("normal_affine", "Normal", "affine", {"loc": P("a_loc", [0.0, 0.5, 1.0], REAL), "scale": P("a_scale", [3.0])}),
        {"id": "detnorm", "type": "DeterministicNormal", "x": P("dn_x", [0.1, 0.2], REAL), "shape": [],
         "loc": P("dn_loc", [0.0, 0.0], REAL), "scale": P("dn_scale", [1.0, 1.0])},
        # a concatenation of a transformed parameter, a view and a leaf, nested in another concatenation
        P("vbase", [0.5, 1.5, 2.5]),
        {"id": "v01", "type": "ViewParameter", "parameter": "vbase", "indices": ":2"},
        {"id": "cat_mixed", "type": "CatParameter", "dim": -1,
         "parameters": [exp_of("e1", P("e1_u", [0.1], REAL)), "v01", P("w1", [0.7])]},
        {"id": "nested", "type": "CatParameter", "dim": -1, "parameters": ["cat_mixed", P("w2", [1.1, 0.9])]},
        dist("lognormal_nested", "LogNormal", "nested",
             {"loc": P("nn_loc", [0.0, 0.1, 0.2, 0.3, 0.4, 0.5], REAL), "scale": P("nn_scale", [0.5])}),
        dist("gamma_view", "Gamma", "v01", {"concentration": P("gv_conc", [2.0, 3.0]), "rate": P("gv_rate", [1.0])}),
        # the base of the view has consumers of its own: a prior on the whole vector, a transformed copy and a
        # sibling view (an assignment THROUGH v01 must reach all of them)
        dist("lognormal_vbase", "LogNormal", "vbase", {"loc": P("vb_loc", [0.0, 0.1, -0.1], REAL), "scale": P("vb_scale", [1.5, 1.2, 1.0])}),
        {"id": "vbase_log", "type": "TransformedParameter", "transform": "torchtree.distributions.transforms.LogTransform",
         "x": "vbase"},
        dist("normal_vbase_log", "Normal", "vbase_log", {"loc": P("vl_loc", [0.2, 0.0, 0.1], REAL), "scale": P("vl_scale", [2.0, 1.0, 1.5])}),
        {"id": "v2", "type": "ViewParameter", "parameter": "vbase", "indices": "2:"},
        dist("gamma_v2", "Gamma", "v2", {"concentration": P("g2_conc", [2.5]), "rate": P("g2_rate", [1.5])}),
        # a parametric transform whose parameters are DERIVED parameters (a view and a transformed parameter),
        # as the CLI writes the birth-death origin (loc = tree.root_height)
        {"id": "affine2", "type": "TransformedParameter", "transform": "torch.distributions.AffineTransform",
         "parameters": {"loc": "v2", "scale": exp_of("af2_scale", P("af2_scale_u", [0.3], REAL))},
         "x": P("af2_x", [0.2, -0.4, 0.9], REAL)},
        dist("normal_affine2", "Normal", "affine2", {"loc": P("a2_loc", [0.0, 0.5, 1.0], REAL),
                                                     "scale": P("a2_scale", [2.0, 2.5, 3.0])}),
        {"id": "gmrf_y", "type": "GMRF", "x": "y2", "precision": "g_rate"},
        {"id": "gmrfcov", "type": "GMRFCovariate", "field": P("cov_field", [1.0, 2.0, 3.0], REAL),
         "precision": P("cov_prec", [0.5]), "covariates": P("cov_z", [[1.0, 2.0], [3.0, 4.0], [5.0, 6.0]], REAL),
         "beta": P("cov_beta", [0.1, -0.1], REAL)},
        {"id": "gmrfint", "type": "GMRFGammaIntegrated", "x": "cov_field", "shape": 1.5, "rate": 2.0},
        joint("joint", ["mvn", "bridge", "bridge2", "mix", "normal_cat", "gamma_on_cat", "cat_exp",
                        "normal_affine", "affine", "detnorm", "gmrf_y", "gmrfcov", "gmrfint",
                        "lognormal_nested", "gamma_view", "e1", "lognormal_vbase", "normal_vbase_log", "vbase_log",
                        "gamma_v2", "normal_affine2", "affine2", "af2_scale"]),
    ])


SPECS = [spec_unrooted, spec_timetree, spec_shifts, spec_skyline, spec_birthdeath, spec_codon, spec_general, spec_distributions]


# =============================================================================================
# 2. Building instances, freshly built copies
# =============================================================================================

def strip(o):
    if isinstance(o, dict):
        return {k: strip(v) for k, v in o.items() if not k.startswith("_")}
    if isinstance(o, list):
        return [strip(x) for x in o]
    return o


def leaf_domains(objs, out=None):
    out = {} if out is None else out
    if isinstance(objs, dict):
        if objs.get("type") == "Parameter" and "_dom" in objs:
            out[objs["id"]] = objs["_dom"]
        for v in objs.values():
            leaf_domains(v, out)
    elif isinstance(objs, list):
        for v in objs:
            leaf_domains(v, out)
    return out


def build(spec, values=None):
    """Build the specification through the public JSON interface; with `values` (leaf id -> nested
    list) the leaves hold these values from construction on (a freshly built copy)."""
    torch = impl.load()
    from torchtree.core.utils import process_object, update_parameters
    js = strip(copy.deepcopy(spec["objects"]))
    if values is not None:
        update_parameters(js, {k: {"tensor": v} for k, v in values.items()})
    dic = {}
    for o in js:
        process_object(o, dic)
    return dic


def leaf_values(dic, leaves):
    return {k: dic[k].tensor.detach().tolist() for k in leaves}


# =============================================================================================
# 3. Wiring extraction from the real objects
# =============================================================================================

class ExtractError(Exception):
    pass


def qn(obj):
    c = type(obj)
    return f"{c.__module__}:{c.__name__}"


def listeners_of(obj, table):
    ent = table[qn(obj)]
    a = ent["listeners_attr"]
    return list(getattr(obj, a)) if a else []


def targets_of(obj):
    from torchtree.core.parameter import CatParameter, TransformedParameter, ViewParameter
    if isinstance(obj, ViewParameter):
        return [obj.parameter]
    if isinstance(obj, CatParameter):
        return list(obj._parameter_container.params())
    if isinstance(obj, TransformedParameter):
        return [obj.x]
    return []


def kind_of(obj):
    from torchtree.core.parameter import CatParameter, Parameter, TransformedParameter, ViewParameter
    if type(obj) is Parameter:
        return "KLeaf"
    if isinstance(obj, ViewParameter):
        return "KView"
    if isinstance(obj, CatParameter):
        return "KCat"
    if isinstance(obj, TransformedParameter):
        return "KTrans"
    return "KOther"


def collect_objects(dic, table):
    """All protocol objects reachable from the registry (sub-objects, listeners, setter targets)."""
    from torchtree.core.abstractparameter import AbstractParameter
    from torchtree.core.model import Model
    from torchtree.core.parametric import Parametric
    seen, order = {}, []

    def visit(o):
        if not isinstance(o, (AbstractParameter, Model, Parametric)) or id(o) in seen:
            return
        if qn(o) not in table:
            raise ExtractError(f"object of class {qn(o)} is not in the translated class table")
        seen[id(o)] = o
        order.append(o)
        for t in targets_of(o):
            visit(t)
        for name in ("_parameters", "_models"):
            for v in getattr(o, name, {}).values() if isinstance(getattr(o, name, None), dict) else []:
                visit(v)
        if hasattr(o, "_parameter_container"):
            visit(o._parameter_container)
        for l in listeners_of(o, table):
            if not isinstance(l, (AbstractParameter, Model, Parametric)):
                raise ExtractError(f"listener {type(l).__name__} of {type(o).__name__} is not a protocol object")
            visit(l)

    for v in dic.values():
        visit(v)
    return order


def obj_name(o, names):
    return names.get(id(o)) or f"<{type(o).__name__}@{id(o) & 0xffff:x}>"


_SITE_ORDER = [0]


class Tracer:
    """Read-tracing with sys.setprofile: which slot reads which slot.

    A slot is (object, 'leaf') | (object, 'f:<flag>') cached | (object, 'm:<method>') uncached.
    Frames whose `self` is a protocol object are attributed to a slot: a method containing the
    `if self.F: ...; self.F = False` pattern belongs to slot f:F; any other method entered from the same
    object inherits the current slot; entered from another object it opens the uncached slot m:<method>."""

    def __init__(self, objs, table):
        self.ids = {id(o): o for o in objs}
        self.table = table
        self.stack = []          # (frame id, (objid, slotname))
        self.edges = []          # (read slot, reader slot) in order of first occurrence
        self.seen = set()
        self.top_reads = []
        self.acc = {}            # class -> {method: flag}
        self.single = {}

    def _accessors(self, o):
        q = qn(o)
        if q not in self.acc:
            fl = self.table[q]["flags"]
            self.acc[q] = {m: f for f, ms in fl.items() for m in ms}
            self.single[q] = (next(iter(fl)) if len(fl) == 1 and self.table[q]["is_param"] else None)
        return self.acc[q], self.single[q]

    def slot_for(self, o, fn):
        acc, single = self._accessors(o)
        top = self.stack[-1][1] if self.stack else None
        if fn in acc:
            return (id(o), "f:" + acc[fn])
        if top is not None and top[0] == id(o):
            return top
        if kind_of(o) == "KLeaf":
            return (id(o), "leaf")
        if single is not None:
            return (id(o), "f:" + single)
        return (id(o), "m:" + fn)

    def __call__(self, frame, event, arg):
        if event == "call":
            code = frame.f_code
            if code.co_argcount >= 1 and code.co_varnames[0] == "self":
                o = frame.f_locals.get("self")
                if id(o) in self.ids and self.ids[id(o)] is o:
                    fn = code.co_name
                    if self.stack and self.stack[-1][1] is None:
                        self.stack.append((id(frame), None))      # below a setter / handler: not a read
                        return
                    if (fn == "tensor" and code.co_argcount == 2) or fn.startswith("handle_") or \
                            fn.startswith("fire_"):
                        self.stack.append((id(frame), None))
                        return
                    if fn in ("__init__", "__getattr__", "__setattr__", "__torch_function__") or \
                            fn.startswith("add_"):
                        return
                    s = self.slot_for(o, fn)
                    top = self.stack[-1][1] if self.stack else None
                    if top is None and self.stack:
                        return
                    if top is None:
                        self.top_reads.append(s)
                    elif top != s and (s, top) not in self.seen:
                        self.seen.add((s, top))
                        self.edges.append((s, top))
                    self.stack.append((id(frame), s))
        elif event == "return":
            if self.stack and self.stack[-1][0] == id(frame):
                self.stack.pop()

    def run(self, thunk):
        self.stack = []
        sys.setprofile(self)
        try:
            return thunk()
        finally:
            sys.setprofile(None)
            self.stack = []


def observations(o, table):
    """(slot name, thunk) pairs through which the harness reads object o (public accessors only)."""
    from torchtree.core.abstractparameter import AbstractParameter
    from torchtree.core.model import CallableModel
    from torchtree.evolution.branch_model import BranchModel
    from torchtree.evolution.site_model import SiteModel
    from torchtree.evolution.substitution_model.abstract import SubstitutionModel
    from torchtree.evolution.tree_model import TreeModel
    ent = table[qn(o)]
    flags = ent["flags"]
    out = []
    k = kind_of(o)
    if k == "KLeaf":
        return [("leaf", lambda: o.tensor)]
    if isinstance(o, AbstractParameter):
        if len(flags) == 1:
            out.append(("f:" + next(iter(flags)), lambda: o.tensor))
        elif not flags:
            out.append(("m:tensor", lambda: o.tensor))
        else:
            for f in flags:
                if f == "lp_needs_update":
                    out.append(("f:" + f, lambda: o()))
                elif f == "need_update":
                    out.append(("f:" + f, lambda: o.tensor))
                else:
                    raise ExtractError(f"{qn(o)}: no observation known for flag {f}")
        return out
    from torchtree.distributions.distributions import DistributionModel
    if isinstance(o, DistributionModel) and isinstance(getattr(o, "x", None), AbstractParameter) \
            and type(o).__name__ != "JointDistributionModel":
        out.append(("m:sample", lambda: o.sample()))
    for f in flags:
        if f == "lp_needs_update" and isinstance(o, CallableModel):
            out.append(("f:" + f, lambda: o()))
        elif f == "heights_need_update":
            out.append(("f:" + f, lambda: o.node_heights))
        elif f == "branch_lengths_need_update":
            out.append(("f:" + f, lambda: o.branch_lengths()))
        elif f == "needs_update" and isinstance(o, SiteModel):
            # both accessors share the one flag: they are read in alternating order (whichever comes first must
            # refresh BOTH cached tensors, the other then finds the flag lowered)
            def both(o=o):
                _SITE_ORDER[0] += 1
                if _SITE_ORDER[0] % 2:
                    pr = o.probabilities()
                    return (o.rates(), pr)
                return (o.rates(), o.probabilities())
            out.append(("f:" + f, both))
        else:
            raise ExtractError(f"{qn(o)}: no observation known for flag {f}")
    if isinstance(o, SiteModel) and not flags:
        out += [("m:rates", lambda: o.rates()), ("m:probabilities", lambda: o.probabilities())]
    if isinstance(o, TreeModel) and "branch_lengths_need_update" not in flags:
        out.append(("m:branch_lengths", lambda: o.branch_lengths()))
    if isinstance(o, SubstitutionModel):
        out += [("m:q", lambda: o.q()), ("m:frequencies", lambda: o.frequencies)]
    if isinstance(o, BranchModel):
        out.append(("m:rates", lambda: o.rates))
    return out


class Wiring:
    """The model graph of one instance + the maps back to the real objects."""
    pass


def extract(spec, table, cls_names, flag_names):
    torch = impl.load()
    dic = build(spec)
    objs = collect_objects(dic, table)
    names = {id(v): k for k, v in dic.items()}
    # -- read tracing on this scratch copy, every cache forced dirty so that everything is re-read
    tr = Tracer(objs, table)
    obs = {}
    dropped = []
    dropped_ids = []

    def force_dirty():
        for o in objs:
            for f in table[qn(o)]["flags"]:
                if hasattr(o, f):
                    setattr(o, f, True)

    for o in objs:
        for sname, th in observations(o, table):
            force_dirty()
            try:
                with torch.no_grad():
                    tr.run(th)
                obs[(id(o), sname)] = th
            except Exception as e:                      # not evaluable on this tree (e.g. C09 defect)
                dropped_ids.append((id(o), sname, f"{type(e).__name__}: {e}"))
                obs[(id(o), sname)] = th
    # -- slots
    slots = []
    sidx = {}

    def add_slot(s):
        if s not in sidx:
            sidx[s] = len(slots)
            slots.append(s)

    for o in objs:
        if kind_of(o) == "KLeaf":
            add_slot((id(o), "leaf"))
        for f in table[qn(o)]["flags"]:
            add_slot((id(o), "f:" + f))
    for s in obs:
        add_slot(s)
    for a, b in tr.edges:
        add_slot(a)
        add_slot(b)
    deps = {s: [] for s in slots}
    for a, b in tr.edges:
        if a not in deps[b]:
            deps[b].append(a)
    # -- a cached slot whose recomputation could not be traced (it raises on this tree): assume it reads
    #    everything its object registered (every parameter's value, every cached slot of every sub-model)
    conservative = []
    byid0 = {id(o): o for o in objs}
    for (oid, sname), why in [((i, sn), w) for (i, sn, w) in dropped_ids]:
        s = (oid, sname)
        if deps.get(s):
            continue
        o = byid0[oid]
        extra = []
        for d in (getattr(o, "_parameters", {}), getattr(o, "_models", {})):
            for sub in d.values():
                for s2 in slots:
                    if s2[0] == id(sub) and s2 != s and (s2[1] == "leaf" or s2[1].startswith("f:")
                                                         or s2[1] == "m:tensor") and s2 not in extra:
                        extra.append(s2)
        deps[s] = extra
        conservative.append(s)
    # -- topological numbering of slots (reads first) and objects (targets / notifiers first)
    def toposort(nodes, preds, what):
        order, state = [], {}

        def visit(n, path):
            st = state.get(n)
            if st == 2:
                return
            if st == 1:
                raise ExtractError(f"cycle in {what}: {path + [n]}")
            state[n] = 1
            for p in preds(n):
                visit(p, path + [n])
            state[n] = 2
            order.append(n)
        for n in nodes:
            visit(n, [])
        return order

    slot_order = toposort(slots, lambda s: deps[s], "read dependencies")
    lst = {id(o): [id(l) for l in listeners_of(o, table)] for o in objs}
    tg = {id(o): [id(t) for t in targets_of(o)] for o in objs}
    notifiers = {id(o): [] for o in objs}
    for o in objs:
        for l in lst[id(o)]:
            if id(o) not in notifiers[l]:
                notifiers[l].append(id(o))
    obj_order = toposort([id(o) for o in objs], lambda i: tg[i] + notifiers[i], "listener registrations")
    byid = {id(o): o for o in objs}
    W = Wiring()
    W.spec, W.table, W.flag_names, W.cls_names = spec, table, flag_names, cls_names
    W.obj_ids = obj_order
    W.oindex = {i: k for k, i in enumerate(obj_order)}
    W.locators = [locate(byid[i], dic, names) for i in obj_order]
    W.obj_names = [path_name(p) for p in W.locators]
    if len(set(W.obj_names)) != len(W.obj_names):
        raise ExtractError("object names are not unique")
    W.obj_class = [qn(byid[i]) for i in obj_order]
    W.obj_kind = [kind_of(byid[i]) for i in obj_order]
    W.listeners = [[W.oindex[l] for l in lst[i]] for i in obj_order]
    W.targets = [[W.oindex[t] for t in tg[i]] for i in obj_order]
    W.slots = slot_order
    W.sindex = {s: k for k, s in enumerate(slot_order)}
    W.slot_owner = [W.oindex[s[0]] for s in slot_order]
    W.slot_name = [s[1] for s in slot_order]
    W.slot_deps = [[W.sindex[d] for d in deps[s]] for s in slot_order]
    W.slot_flag = [(flag_names.index(s[1][2:]) if s[1].startswith("f:") else None) for s in slot_order]
    W.observable = [s in obs and not s[1].startswith("m:sample") for s in slot_order]
    # the slot holding the tensor of a parameter object (read by the setter of a concatenation)
    W.obj_slot = []
    for i in obj_order:
        ks = [k for k, s in enumerate(slot_order) if s[0] == i and
              (s[1] == "leaf" or s[1] == "m:tensor" or (s[1].startswith("f:") and s[1] != "f:lp_needs_update"))]
        W.obj_slot.append(ks[0] if ks and kind_of(byid[i]) != "KOther" else 0)
    W.sample_slot = {W.oindex[s[0]]: k for k, s in enumerate(slot_order) if s[1] == "m:sample"}
    W.unevaluable = {W.sindex[(i, sn)] for (i, sn, _) in dropped_ids}
    W.conservative = [W.sindex[s] for s in conservative]
    # assignment THROUGH a transformed parameter evaluates transform.inv, which reads the transform's own
    # parameters; when those are cached (derived) parameters the read refreshes their caches — a read the
    # listener-graph model does not describe.  Such objects are updated through their leaves only.
    from torchtree.core.parameter import AbstractParameter as _AP, Parameter as _P, TransformedParameter as _TP
    W.no_set_through = set()
    for k_, v_ in dic.items():
        if isinstance(v_, _TP):
            tp_params = [a for a in vars(v_.transform).values() if isinstance(a, _AP) and type(a) is not _P]
            if tp_params:
                W.no_set_through.add(k_)
    W.base_values = {k: dic[k].tensor.detach().tolist() for k, v in dic.items() if kind_of(v) == "KLeaf"}
    W.leaf_ids = sorted(k for k, v in dic.items() if kind_of(v) == "KLeaf")
    W.domains = leaf_domains(spec["objects"])
    nm = {i: W.obj_names[W.oindex[i]] for i in obj_order}
    W.dropped = [(nm[i], sn, f"{w}"[:160]) for (i, sn, w) in dropped_ids]
    return W, dic


def path_name(path):
    """registry id, or for anonymous objects the path from the registry: 'tree/_internal_heights'"""
    return "/".join([path[0]] + [str(k) if kind not in ("target", "listener") else
                                 (f"[{k}]" if kind == "target" else f"listener[{k}]") for kind, k in path[1:]])


def locate(o, dic, names):
    """A path (registry id, then attribute steps) reaching object o from the registry."""
    if id(o) in names:
        return [names[id(o)]]
    # breadth-first search through the protocol attributes
    from collections import deque
    q = deque((v, [k]) for k, v in dic.items())
    seen = set()
    while q:
        cur, path = q.popleft()
        if id(cur) in seen:
            continue
        seen.add(id(cur))
        if cur is o:
            return path
        for attr in ("_parameters", "_models"):
            d = getattr(cur, attr, None)
            if isinstance(d, dict):
                for k, v in d.items():
                    q.append((v, path + [(attr, k)]))
        if hasattr(cur, "_parameter_container"):
            q.append((cur._parameter_container, path + [("attr", "_parameter_container")]))
        for j, t in enumerate(targets_of(cur)):
            q.append((t, path + [("target", j)]))
        for j, t in enumerate(_listeners_any(cur)):
            q.append((t, path + [("listener", j)]))
    raise ExtractError(f"cannot locate {type(o).__name__} from the registry")


def _listeners_any(o):
    for a in ("listeners", "_listeners"):
        v = o.__dict__.get(a) if hasattr(o, "__dict__") else None
        if isinstance(v, list):
            return v
    return []


def resolve(path, dic):
    cur = dic[path[0]]
    for kind, k in path[1:]:
        if kind in ("_parameters", "_models"):
            cur = getattr(cur, kind)[k]
        elif kind == "attr":
            cur = getattr(cur, k)
        elif kind == "listener":
            cur = _listeners_any(cur)[k]
        else:
            cur = targets_of(cur)[k]
    return cur


def coq_graph(W):
    cidx = {n: i for i, n in enumerate(W.cls_names)}
    objs = "; ".join(f"mkObj {cidx[W.obj_class[i]]} {W.obj_kind[i]} {C.coq_list(W.listeners[i], C.natlit)} "
                     f"{C.coq_list(W.targets[i], C.natlit)} {W.obj_slot[i]}" for i in range(len(W.obj_ids)))
    slots = "; ".join(
        f"mkSlot {W.slot_owner[k]} {('(Some ' + str(W.slot_flag[k]) + '%nat)') if W.slot_flag[k] is not None else 'None'} "
        f"{'true' if W.slot_name[k] == 'leaf' else 'false'} {C.coq_list(W.slot_deps[k], C.natlit)}"
        for k in range(len(W.slots)))
    return f"(mkGraph cls_table [{objs}]%nat [{slots}]%nat)"


# =============================================================================================
# 4. Python mirror of the cascade (only to NAME the offending handler; verdicts come from Coq)
# =============================================================================================

def cascade(W, o, ev="EvP"):
    """-> (marked {(obj, flagname)}, received {obj: set(events)}, raised_at obj|None)"""
    marked, received = set(), {}

    class Raise(Exception):
        pass

    def fire(src, e, depth=0):
        if depth > len(W.obj_ids) + 2:
            raise ExtractError("cascade does not terminate")
        for l in W.listeners[src]:
            received.setdefault(l, set()).add(e)
            ent = W.table[W.obj_class[l]]
            for st in ent["hp" if e == "EvP" else "hm"]:
                if st[0] == "HSet":
                    marked.add((l, st[1]))
                elif st[0] == "HFire":
                    fire(l, st[1], depth + 1)
                elif st[0] == "HRaise":
                    raise Raise(l)
    try:
        fire(o, ev)
    except Raise as r:
        return marked, received, r.args[0]
    return marked, received, None


def reads_set(W, n):
    out, stack = set(), [n]
    while stack:
        k = stack.pop()
        if k in out:
            continue
        out.add(k)
        stack.extend(W.slot_deps[k])
    return out


def short(q):
    return q.split(":")[1]


def hname(e):
    return "handle_parameter_changed" if e == "EvP" else "handle_model_changed"


def root_cause(W, p, n):
    """Name the handler responsible for cached slot n not being marked when leaf object p changes."""
    marked, received, _ = cascade(W, p)
    pslot = next(k for k in range(len(W.slots)) if W.slot_owner[k] == p and W.slot_name[k] == "leaf")
    # a dependency path pslot -> ... -> n
    prev = {pslot: None}
    order = [pslot]
    readers = {k: [m for m in range(len(W.slots)) if k in W.slot_deps[m]] for k in range(len(W.slots))}
    for k in order:
        for m in readers[k]:
            if m not in prev:
                prev[m] = k
                order.append(m)
    path = []
    k = n
    while k is not None:
        path.append(k)
        k = prev.get(k)
    path.reverse()
    for i, m in enumerate(path[1:], 1):
        fl = W.slot_flag[m]
        if fl is None:
            continue
        y = W.slot_owner[m]
        if (y, W.flag_names[fl]) in marked:
            continue
        cy = short(W.obj_class[y])
        if y in received:
            for e in sorted(received[y]):
                h = W.table[W.obj_class[y]]["hp" if e == "EvP" else "hm"]
                if ("HSet", W.flag_names[fl]) not in h:
                    return f"{cy}.{hname(e)}:ignores", m, path[i - 1]
            return f"{cy}:flag-{W.flag_names[fl]}-not-set", m, path[i - 1]
        # y never notified: a notified object it listens to that swallows the event ?
        for q in sorted(received):
            if y in W.listeners[q]:
                for e in sorted(received[q]):
                    h = W.table[W.obj_class[q]]["hp" if e == "EvP" else "hm"]
                    if not any(s[0] == "HFire" for s in h):
                        return f"{short(W.obj_class[q])}.{hname(e)}:does-not-propagate", m, path[i - 1]
        # otherwise: who on the path before it was notified last?
        z = W.slot_owner[path[i - 1]]
        cz = short(W.obj_class[z])
        if z in received or z == p:
            if y in W.listeners[z]:
                for e in sorted(received.get(z, {"EvP"})):
                    h = W.table[W.obj_class[z]]["hp" if e == "EvP" else "hm"]
                    if not any(s[0] == "HFire" for s in h):
                        return f"{cz}.{hname(e)}:does-not-propagate", m, path[i - 1]
            return f"{cy}:not-listening-to:{cz}", m, path[i - 1]
        return f"{cz}:not-notified", m, path[i - 1]
    return f"{short(W.obj_class[W.slot_owner[n]])}:unexplained", n, pslot


# =============================================================================================
# 5. Running histories on the implementation
# =============================================================================================

class Real:
    """One live copy of an instance, addressed through the wiring W."""

    def __init__(self, W, values=None):
        self.W = W
        self.torch = impl.load()
        self.dic = build(W.spec, values)
        self.objs = [resolve(p, self.dic) for p in W.locators]
        self.obs = {}
        for i, o in enumerate(self.objs):
            if qn(o) != W.obj_class[i]:
                raise ExtractError(f"copy differs from the extracted wiring at {W.obj_names[i]}")
            for sname, th in observations(o, W.table):
                self.obs[(i, sname)] = th
        self.calls = []
        from torchtree.core.model import CallableModel
        for i, o in enumerate(self.objs):
            if isinstance(o, CallableModel):
                self._wrap(i, o)
        self.saved = {}

    def _wrap(self, i, o):
        orig = o._call
        calls = self.calls

        def wrapped(*a, **k):
            calls.append(i)
            return orig(*a, **k)
        object.__setattr__(o, "_call", wrapped)

    def flags(self):
        W = self.W
        return [int(bool(getattr(self.objs[W.slot_owner[k]], W.flag_names[W.slot_flag[k]])))
                for k in range(len(W.slots)) if W.slot_flag[k] is not None]

    def leaf_values(self):
        return {k: self.dic[k].tensor.detach().tolist() for k in self.W.leaf_ids}

    def observe(self, k):
        """-> ('val', canonical tensors) | ('exc', type)"""
        W = self.W
        th = self.obs[(W.slot_owner[k], W.slot_name[k])]
        self.calls.clear()
        try:
            with self.torch.no_grad():
                v = th()
        except Exception as e:
            return ("exc", type(e).__name__, str(e)[:200])
        vs = v if isinstance(v, (tuple, list)) else (v,)
        if any(x is None for x in vs):
            # an accessor that hands out nothing (a cache that was never filled): an observable outcome of its own
            return ("exc", "NoneReturned", f"the accessor returned None ({[type(x).__name__ for x in vs]})")
        return ("val", [x.detach().clone() if hasattr(x, "detach") else self.torch.as_tensor(x) for x in vs])

    # ---- values -----------------------------------------------------------------------------
    def gen_value(self, i, rng, base):
        """A new admissible value for parameter object i (shape of its current tensor)."""
        torch = self.torch
        W = self.W
        o = self.objs[i]
        k = W.obj_kind[i]
        if k == "KLeaf":
            cur = o.tensor.detach()
            dom = W.domains.get(W.obj_names[i], POS)
            try:
                b = torch.tensor(base[W.obj_names[i]], dtype=cur.dtype).reshape(cur.shape) if W.obj_names[i] in base else cur
            except RuntimeError as e:
                raise ExtractError(f"leaf {W.obj_names[i]}: current shape {tuple(cur.shape)} vs recorded value {base[W.obj_names[i]]}: {e}")

            def U(lo, hi):
                return torch.tensor([rng.uniform(lo, hi) for _ in range(max(cur.numel(), 1))],
                                    dtype=cur.dtype)[:cur.numel()].reshape(cur.shape)
            if dom == POS:
                return U(0.2, 3.0)
            if dom == BL:
                return U(0.01, 0.5)
            if dom == UNIT:
                return U(0.05, 0.95)
            if dom == REAL:
                return U(-1.0, 1.0)
            if dom == SIMPLEX:
                x = U(0.5, 1.5)
                return x / x.sum(-1, keepdim=True)
            if dom in (HEIGHTS, GRID, "root", "origin"):
                return b * (1.0 + rng.uniform(0.0, 1.0))
            if dom == "counts":
                return torch.tensor([rng.randrange(0, 6) for _ in range(cur.numel())], dtype=cur.dtype).reshape(cur.shape)
            if dom == "spd":
                return b + rng.uniform(0.0, 1.0) * torch.eye(b.shape[-1], dtype=cur.dtype)
            if dom == "kf":
                x = U(0.5, 1.5)
                x[..., 1:] = x[..., 1:] / x[..., 1:].sum(-1, keepdim=True)
                return x
            raise ExtractError(f"unknown domain {dom}")
        if k == "KView":
            return self.gen_value(W.targets[i][0], rng, base)[..., o.indices]
        if k == "KCat":
            return torch.cat([self.gen_value(t, rng, base) for t in W.targets[i]], dim=o._dim)
        if k == "KTrans":
            return o.transform(self.gen_value(W.targets[i][0], rng, base))
        raise ExtractError(f"cannot generate a value for {W.obj_class[i]}")

    # ---- operations -------------------------------------------------------------------------
    def apply(self, op):
        """Execute an update through the public interface.  -> None | ('raise', type, msg)"""
        torch = self.torch
        kind = op["op"]
        o = self.objs[op["obj"]]
        try:
            if kind in ("set", "propose"):
                if kind == "propose":
                    self.saved[op["obj"]] = o.tensor.detach().clone()
                o.tensor = torch.tensor(op["value"], dtype=o.tensor.dtype)
            elif kind == "reject":
                o.tensor = self.saved.pop(op["obj"])
            elif kind == "inplace":
                with torch.no_grad():
                    o.tensor.copy_(torch.tensor(op["value"], dtype=o.tensor.dtype))
                o.fire_parameter_changed()
            elif kind == "fire":
                o.fire_parameter_changed()
            elif kind == "sample":
                torch.manual_seed(op["seed"])
                o.sample()
            else:
                raise ExtractError(f"unknown op {kind}")
        except ExtractError:
            raise
        except Exception as e:
            return ("raise", type(e).__name__, str(e)[:200])
        return None


def same_value(a, b, torch):
    """values of the same slot on the history copy and on a freshly built copy"""
    if a[0] != b[0]:
        return False
    if a[0] == "exc":
        return a[1] == b[1]
    if len(a[1]) != len(b[1]):
        return False
    for x, y in zip(a[1], b[1]):
        if x.shape != y.shape:
            return False
        if x.dtype.is_floating_point:
            if not torch.allclose(x, y, rtol=1e-9, atol=1e-12, equal_nan=True):
                return False
        elif not torch.equal(x, y):
            return False
    return True


def model_op(W, op):
    k = op["op"]
    if k == "eval":
        return f"OEval {op['slot']}"
    if k in ("set", "propose", "reject"):
        return f"OAssign {op['obj']}"
    if k == "sample":
        return f"OEval {W.sample_slot[op['obj']]}; OAssign {op['x']}"
    if k == "inplace":
        return f"OInplaceFire {op['obj']}"
    if k == "fire":
        return f"OFire {op['obj']}"
    raise ExtractError(k)


def gen_history(W, rng, length, real):
    """A random history (list of op dicts) over instance W.  `real` is a scratch copy used only to
    size the values."""
    from torchtree.distributions.distributions import DistributionModel
    n = len(W.obj_ids)
    named = set(W.leaf_ids)

    def under(i):
        if W.obj_kind[i] == "KLeaf":
            return [i]
        return [l for t in W.targets[i] for l in under(t)]
    # only leaves that the registry knows by id can be given to a freshly built copy
    params = [i for i in range(n) if W.obj_kind[i] != "KOther"
              and all(W.obj_names[l] in named for l in under(i))
              and W.obj_names[i] not in getattr(W, "no_set_through", ())]
    leaves = [i for i in params if W.obj_kind[i] == "KLeaf"]
    composite = [i for i in params if W.obj_kind[i] != "KLeaf"
                 and W.obj_names[i] not in getattr(W, "no_set_through", ())]
    ridx = {id(o): i for i, o in enumerate(real.objs)}
    samplers = [i for i in range(n) if isinstance(real.objs[i], DistributionModel)
                and hasattr(real.objs[i], "x") and ridx.get(id(real.objs[i].x)) in params
                and short(W.obj_class[i]) != "JointDistributionModel"]
    evaluable = [k for k in range(len(W.slots)) if W.observable[k] and k not in W.unevaluable]
    cached = [k for k in evaluable if W.slot_flag[k] is not None]
    base = W.base_values
    ops = []
    pending = []
    p_eval = rng.choice([0.3, 0.5, 0.7])
    eval_all = rng.random() < 0.25
    while len(ops) < length:
        r = rng.random()
        if r < p_eval and evaluable:
            k = rng.choice(cached if (cached and rng.random() < 0.7) else evaluable)
            ops.append(dict(op="eval", slot=k))
            continue
        r = rng.random()
        if pending and r < 0.15:
            i = pending.pop(rng.randrange(len(pending)))
            ops.append(dict(op="reject", obj=i))
        elif r < 0.45 and composite:
            i = rng.choice(composite)
            ops.append(dict(op="set", obj=i, value=real.gen_value(i, rng, base).tolist()))
        elif r < 0.55 and samplers:
            i = rng.choice(samplers)
            ops.append(dict(op="sample", obj=i, x=ridx[id(real.objs[i].x)], seed=rng.randrange(10 ** 6)))
        elif r < 0.65:
            i = rng.choice(leaves)
            ops.append(dict(op="inplace", obj=i, value=real.gen_value(i, rng, base).tolist()))
        elif r < 0.70:
            ops.append(dict(op="fire", obj=rng.choice(params)))
        elif r < 0.80:
            i = rng.choice(params)
            if i not in pending:
                pending.append(i)
                ops.append(dict(op="propose", obj=i, value=real.gen_value(i, rng, base).tolist()))
        else:
            i = rng.choice(leaves)
            ops.append(dict(op="set", obj=i, value=real.gen_value(i, rng, base).tolist()))
        if eval_all and ops[-1]["op"] != "eval":
            for k in evaluable:
                ops.append(dict(op="eval", slot=k))
    return ops


def run_history(W, ops):
    """Execute a history on a new copy.  -> list of per-op records:
       update: dict(kind='upd', flags=[...]) | dict(kind='raise', exc=..)   (history stops)
       eval  : dict(kind='eval', stale=bool, calls=set(obj), flags=[...], detail=...)"""
    torch = impl.load()
    real = Real(W)
    out = []
    fresh = None
    for op in ops:
        if op["op"] == "eval":
            k = op["slot"]
            got = real.observe(k)
            calls = sorted(set(real.calls))
            if fresh is None:
                fresh = Real(W, real.leaf_values())
            ref = fresh.observe(k)
            stale = not same_value(got, ref, torch)
            detail = None
            if stale:
                detail = dict(got=_show(got, ref), fresh=_show(ref, got))
            out.append(dict(kind="eval", stale=stale, calls=calls, flags=real.flags(), detail=detail,
                            exc=(got[0] == "exc")))
        else:
            r = real.apply(op)
            fresh = None
            if r is not None:
                out.append(dict(kind="raise", exc=r[1], msg=r[2]))
                break
            out.append(dict(kind="upd", flags=real.flags()))
    return out


def _show(v, other=None):
    """first entries of the value; when the other value is given, the entries where they differ most"""
    if v[0] == "exc":
        return f"raises {v[1]}"
    if other is not None and other[0] == "val" and len(other[1]) == len(v[1]):
        out = []
        for x, y in zip(v[1], other[1]):
            if x.shape == y.shape and x.numel() > 4 and x.dtype.is_floating_point:
                d = (x - y).abs().flatten().nan_to_num(0.0)
                idx = d.argsort(descending=True)[:3].sort().values
                out.append({int(i): float(x.flatten()[i]) for i in idx})
            else:
                out.append(x.flatten()[:4].tolist())
        return out
    return [x.flatten()[:4].tolist() for x in v[1]]


def parse_trace(W, ops, z):
    """Decode M_listen.trace output into the same per-op records."""
    nfl = sum(1 for f in W.slot_flag if f is not None)
    out, i = [], 0
    expanded = []
    for op in ops:
        if op["op"] == "sample":
            expanded += [dict(op="eval", slot=W.sample_slot[op["obj"]], hidden=True), op]
        else:
            expanded.append(op)
    for op in expanded:
        if i >= len(z):
            break
        tag = z[i]
        if tag == 0:
            stale, k = z[i + 1], z[i + 2]
            rec = z[i + 3:i + 3 + k]
            flags = z[i + 3 + k:i + 3 + k + nfl]
            i += 3 + k + nfl
            calls = sorted({W.slot_owner[s] for s in rec if W.flag_names[W.slot_flag[s]] == "lp_needs_update"})
            if not op.get("hidden"):
                out.append(dict(kind="eval", stale=bool(stale), calls=calls, flags=flags, recomputed=rec))
        elif tag == 1:
            out.append(dict(kind="upd", flags=z[i + 1:i + 1 + nfl]))
            i += 1 + nfl
        elif tag == 2:
            out.append(dict(kind="raise", who=z[i + 1]))
            break
        else:
            out.append(dict(kind="fuel"))
            break
    return out


# =============================================================================================
# 6. The check
# =============================================================================================

def sync():
    try:
        txt, table, names, fl = t7_handlers.translate()
    except t7_handlers.TranslateError as e:
        return False, f"T7 translator: {e}"
    with C.CoqLock():
        C.write_if_changed(os.path.join(C.COQ, "gen", "G_handlers.v"), txt)
    return True, (txt, table, names, fl)


def runtime_crosscheck(table):
    """The translator resolves handlers through its own C3 linearisation of the ast; compare with the
    classes Python actually built (owner of each handler, parameter/model kind)."""
    import importlib
    from torchtree.core.abstractparameter import AbstractParameter
    from torchtree.core.model import Model
    bad = []
    n = 0
    for q, ent in table.items():
        mod, cn = q.split(":")
        try:
            cls = getattr(importlib.import_module(mod), cn)
        except Exception:
            continue
        n += 1
        for key, h in (("hp_owner", "handle_parameter_changed"), ("hm_owner", "handle_model_changed")):
            owner = next((k for k in cls.__mro__ if h in k.__dict__), None)
            got = f"{owner.__module__}:{owner.__name__}" if owner else "missing"
            if got != ent[key]:
                bad.append(f"{q}.{h}: translator says {ent[key]}, runtime {got}")
        if ent["is_param"] != (issubclass(cls, AbstractParameter) and cls is not AbstractParameter) or \
                ent["is_model"] != issubclass(cls, Model):
            bad.append(f"{q}: kind differs (translator param={ent['is_param']} model={ent['is_model']})")
    return bad, n


def handler_crosscheck(W):
    """Call the real handlers of every object of the instance (scratch copy) and compare what they do
    with the translated table: flags set, which fire_* reaches a probe listener, AttributeError."""
    from torchtree.core.parametric import ModelListener, ParameterListener
    bad, n = [], 0
    real = Real(W)
    for i, o in enumerate(real.objs):
        ent = W.table[W.obj_class[i]]
        for key, hn in (("hp", "handle_parameter_changed"), ("hm", "handle_model_changed")):
            prog = ent[key]
            if any(s[0] == "HOpaque" for s in prog) or ent[key + "_owner"] == "missing":
                continue
            if not hasattr(o, hn):
                continue
            hits = []

            class Probe(ModelListener, ParameterListener):
                def handle_model_changed(self, model, obj, index):
                    hits.append("EvM")

                def handle_parameter_changed(self, variable, index, event):
                    hits.append("EvP")
            lst = getattr(o, ent["listeners_attr"]) if ent["listeners_attr"] else None
            probe = Probe()
            if lst is not None:
                lst.append(probe)
            sets = [s[1] for s in prog if s[0] == "HSet"]
            watched = sorted(set(sets) | set(ent["flags"]))
            for f in watched:
                if hasattr(o, f):
                    object.__setattr__(o, f, False)
            raised = None
            try:
                getattr(o, hn)(None, None, None)
            except AttributeError as e:
                raised = str(e)
            finally:
                if lst is not None:
                    del lst[next(k for k, x in enumerate(lst) if x is probe)]   # (parameters overload ==)
            n += 1
            exp_raise = any(s[0] == "HRaise" for s in prog)
            cut = next((k for k, s in enumerate(prog) if s[0] == "HRaise"), len(prog))
            exp_hits = [s[1] for s in prog[:cut] if s[0] == "HFire"]
            exp_sets = {s[1] for s in prog[:cut] if s[0] == "HSet"}
            got_sets = {f for f in watched if hasattr(o, f) and getattr(o, f) is True}
            if bool(raised) != exp_raise or hits != exp_hits or got_sets != exp_sets:
                bad.append(f"{W.obj_class[i]}.{hn}: table {prog} but the call "
                           f"{'raises ' + raised if raised else 'sets ' + str(sorted(got_sets)) + ' fires ' + str(hits)}")
    return bad, n


def decode_diag(W, z):
    """M_listen.diag output -> list of dicts"""
    out, i = [], 0
    while i < len(z):
        t = z[i]
        if t == 1:
            out.append(dict(kind="raise", obj=z[i + 1], who=z[i + 2]))
            i += 3
        elif t == 2:
            out.append(dict(kind="uncovered", leaf=z[i + 1], slot=z[i + 2]))
            i += 3
        elif t in (3, 4, 7):
            out.append(dict(kind={3: "plan-leaves", 4: "plan-not-notified", 7: "fuel"}[t], obj=z[i + 1]))
            i += 2
        else:
            out.append(dict(kind={5: "not-topological", 6: "flag-shared"}.get(t, f"code{t}")))
            i += 1
    return out


def init_flags(W, real):
    fl = real.flags()
    cached = [k for k in range(len(W.slots)) if W.slot_flag[k] is not None]
    return [(W.slot_owner[k], W.slot_flag[k]) for k, b in zip(cached, fl) if b]


def coq_header(Ws, d0s):
    h = HEADER
    for i, (W, d0) in enumerate(zip(Ws, d0s)):
        h += f"Definition g{i} : graph := {coq_graph(W)}.\n"
        h += f"Definition d{i} : list flagid := {C.coq_list(d0, lambda x: f'({x[0]}%nat, {x[1]}%nat)')}.\n"
    return h


PRETTY = {"f:lp_needs_update": "()", "f:heights_need_update": ".node_heights",
          "f:branch_lengths_need_update": ".branch_lengths()", "f:needs_update": ".rates()/.probabilities()",
          "f:need_update": ".tensor", "f:_need_update": ".tensor", "leaf": ".tensor", "m:tensor": ".tensor"}


def slot_label(W, k):
    sn = W.slot_name[k]
    return W.obj_names[W.slot_owner[k]] + (PRETTY.get(sn) or "." + sn.split(":")[-1] + "()")


def value_for(W, real, i, rng):
    return real.gen_value(i, rng, W.base_values).tolist()


def updatable(W):
    named = set(W.leaf_ids)

    def under(i):
        if W.obj_kind[i] == "KLeaf":
            return [i]
        return [l for t in W.targets[i] for l in under(t)]
    return [i for i in range(len(W.obj_ids)) if W.obj_kind[i] != "KOther" and under(i)
            and all(W.obj_names[l] in named for l in under(i))
            and W.obj_names[i] not in getattr(W, "no_set_through", ())], under


def export_ops(W, ops):
    """history with objects / slots by name (stable across runs and across edits of the repository)"""
    out = []
    for o in ops:
        d = dict(o)
        if "obj" in d:
            d["obj"] = W.obj_names[d["obj"]]
        if "x" in d:
            d["x"] = W.obj_names[d["x"]]
        if "slot" in d:
            d["slot"] = [W.obj_names[W.slot_owner[d["slot"]]], W.slot_name[d["slot"]]]
        out.append(d)
    return out


def import_ops(W, ops):
    out = []
    for o in ops:
        d = dict(o)
        if "obj" in d:
            d["obj"] = W.obj_names.index(d["obj"])
        if "x" in d:
            d["x"] = W.obj_names.index(d["x"])
        if "slot" in d:
            oi = W.obj_names.index(d["slot"][0])
            d["slot"] = next(k for k in range(len(W.slots)) if W.slot_owner[k] == oi and W.slot_name[k] == d["slot"][1])
        out.append(d)
    return out


def replay_dict(W, ops, **kw):
    d = dict(spec=W.spec["name"], history=export_ops(W, ops), readable=describe_ops(W, ops))
    d.update(kw)
    return d


def describe_ops(W, ops):
    out = []
    for o in ops:
        if o["op"] == "eval":
            out.append(f"eval {slot_label(W, o['slot'])}")
        else:
            out.append(f"{o['op']} {W.obj_names[o['obj']]}")
    return out


def notification_probe(W, ops, target_obj):
    """Run the updates of `ops` on a new copy with a probe listener registered (public
    add_model_listener / add_parameter_listener) on target_obj; -> number of notifications received."""
    from torchtree.core.parametric import ModelListener, ParameterListener
    real = Real(W)
    hits = []

    class Probe(ModelListener, ParameterListener):
        def handle_model_changed(self, model, obj, index):
            hits.append("m")

        def handle_parameter_changed(self, variable, index, event):
            hits.append("p")
    o = real.objs[target_obj]
    if W.table[W.obj_class[target_obj]]["is_param"]:
        o.add_parameter_listener(Probe())
    else:
        o.add_model_listener(Probe())
    for op in ops:
        if op["op"] != "eval":
            r = real.apply(op)
            if r is not None:
                return None
    return len(hits)


def first_problem(W, ops, recs):
    """First stale evaluation / raising update of an executed history -> (index, kind) | None"""
    for j, r in enumerate(recs):
        if r["kind"] == "raise":
            return j, "raise"
        if r["kind"] == "eval" and r["stale"]:
            return j, "stale"
    return None


def last_update_before(ops, j):
    for i in range(j, -1, -1):
        if ops[i]["op"] != "eval":
            return i
    return None


def setter_defect(W, i, depth=0):
    """The class whose `tensor` setter fails to change / notify, walking from object i through its
    targets.  -> key suffix | None"""
    ent = W.table[W.obj_class[i]]
    st = [x[0] for x in (ent["setter"] or [])]
    c = short(W.obj_class[i])
    k = W.obj_kind[i]
    if k == "KLeaf":
        if "SBump" not in st:
            return f"{c}.tensor.setter:does-not-assign"
        if "SFireSelf" not in st[st.index("SBump"):]:
            return f"{c}.tensor.setter:does-not-notify"
        return None
    if k == "KView":
        if "SInplaceT" not in st:
            return f"{c}.tensor.setter:does-not-assign"
        if "SFireT" not in st[st.index("SInplaceT"):]:
            return f"{c}.tensor.setter:does-not-notify"
        return None
    if k in ("KCat", "KTrans"):
        if "SAssignT" not in st:
            return f"{c}.tensor.setter:does-not-assign"
        for t in W.targets[i]:
            d = setter_defect(W, t, depth + 1) if depth < 20 else None
            if d:
                return d
    return None


def attribute(W, ops, recs, j, kind):
    """Stable key + one-line description for a problem observed on the implementation."""
    if kind == "raise":
        op = ops[j]
        tgt = op.get("x", op["obj"]) if op["op"] == "sample" else op["obj"]
        _, under = updatable(W)
        for l in (under(tgt) or [tgt]):
            _, _, who = cascade(W, l)
            if who is not None:
                ent = W.table[W.obj_class[who]]
                e = "EvP" if any(s[0] == "HRaise" for s in ent["hp"]) else "EvM"
                why = next((s[1] for s in ent["hp" if e == "EvP" else "hm"] if s[0] == "HRaise"), "")
                return (f"C11:{short(W.obj_class[who])}.{hname(e)}:raises",
                        f"updating parameter '{W.obj_names[l]}' raises {recs[j]['exc']} in "
                        f"{short(W.obj_class[who])}.{hname(e)} ({why}): {recs[j].get('msg', '')}")
        return (f"C11:update-raises:{short(W.obj_class[tgt])}:{recs[j]['exc']}",
                f"updating '{W.obj_names[tgt]}' ({op['op']}) raises {recs[j]['exc']}: {recs[j].get('msg', '')}")
    k = ops[j]["slot"]
    # leaves changed since slot k was last evaluated
    changed = []
    _, under = updatable(W)
    for i in range(j - 1, -1, -1):
        if ops[i]["op"] == "eval":
            if ops[i]["slot"] == k:
                break
            continue
        tgt = ops[i].get("x", ops[i]["obj"]) if ops[i]["op"] == "sample" else ops[i]["obj"]
        if ops[i]["op"] != "fire":
            changed += [l for l in under(tgt) if l not in changed]
    for i in range(j - 1, -1, -1):
        if ops[i]["op"] in ("set", "propose", "reject", "sample"):
            tgt = ops[i].get("x", ops[i]["obj"]) if ops[i]["op"] == "sample" else ops[i]["obj"]
            d = setter_defect(W, tgt)
            if d:
                return (f"C11:{d}",
                        f"{slot_label(W, k)} is stale after '{W.obj_names[tgt]}' was assigned [{d}] "
                        f"(got {recs[j]['detail']['got']}, freshly built copy {recs[j]['detail']['fresh']})")
    rs = reads_set(W, k)
    for l in changed:
        pslot = next(s for s in range(len(W.slots)) if W.slot_owner[s] == l and W.slot_name[s] == "leaf")
        if pslot not in rs:
            continue
        marked, _, _ = cascade(W, l)
        # an unmarked cached slot between l and k ?
        for m in sorted(rs):
            if W.slot_flag[m] is not None and pslot in reads_set(W, m) and \
                    (W.slot_owner[m], W.flag_names[W.slot_flag[m]]) not in marked:
                key, m2, _ = root_cause(W, l, m)
                return (f"C11:{key}",
                        f"{slot_label(W, k)} is stale after parameter '{W.obj_names[l]}' changed "
                        f"[{key}: the cache of {slot_label(W, m2)} is left clean] "
                        f"(got {recs[j]['detail']['got']}, freshly built copy {recs[j]['detail']['fresh']})")
    return (f"C11:stale-unexplained:{short(W.obj_class[W.slot_owner[k]])}.{W.slot_name[k]}",
            f"{slot_label(W, k)} differs from a freshly built copy (got {recs[j]['detail']['got']}, fresh "
            f"{recs[j]['detail']['fresh']}) and the wiring model does not explain it")


def minimise(W, ops, recs, j):
    """Shorten a failing history: keep the last update before the problem, the evaluation of the same slot
    before it (so that the cache is clean) and the failing operation; fall back to the prefix."""
    if recs[j]["kind"] == "raise":
        cand = [ops[j]]
        r = run_history(W, cand)
        if r and r[-1]["kind"] == "raise":
            return cand
        return ops[:j + 1]
    k = ops[j]["slot"]
    ups = [i for i in range(j) if ops[i]["op"] != "eval"]
    for u in reversed(ups):
        cand = [dict(op="eval", slot=k), ops[u], dict(op="eval", slot=k)]
        if ops[u]["op"] == "reject":
            continue
        r = run_history(W, cand)
        if len(r) == 3 and r[2]["kind"] == "eval" and r[2]["stale"]:
            return cand
    return ops[:j + 1]


def one_step_histories(W, rng, real):
    """For every updatable parameter object (every kind) and update mode: evaluate everything, update,
    evaluate everything.  Exhaustive over (parameter, slot) pairs of the instance."""
    evaluable = [k for k in range(len(W.slots)) if W.observable[k] and k not in W.unevaluable]
    ev = [dict(op="eval", slot=k) for k in evaluable]
    ups, _ = updatable(W)
    hs = []
    for i in ups:
        modes = ["set"] + (["inplace"] if W.obj_kind[i] == "KLeaf" else [])
        for m in modes:
            hs.append(ev + [dict(op=m, obj=i, value=value_for(W, real, i, rng))] + ev)
    return hs


def check_history(W, gi, ops, rep, header_holder, pending, tag):
    """Run on the implementation, queue the model run; returns the implementation records."""
    recs = run_history(W, ops)
    pending.append((W, gi, ops, recs, tag))
    return recs


def compare(W, ops, recs, mrecs):
    """-> None | (index, text).  Exact on flags, re-executed _call sets and raises.  Staleness: the
    implementation stale where the model says fresh is a disagreement; the converse is not (a value
    restored by a rejection, a dependency that only reads a shape)."""
    for j, (a, b) in enumerate(zip(recs, mrecs)):
        if a["kind"] != b["kind"]:
            return j, f"implementation {a['kind']} vs model {b['kind']}"
        if a["kind"] == "raise":
            return None
        if a["kind"] == "eval" and a.get("exc"):
            return None          # the evaluation itself raises on the implementation: nothing to compare after it
        if a["flags"] != list(b["flags"]):
            cached = [k for k in range(len(W.slots)) if W.slot_flag[k] is not None]
            diff = [slot_label(W, cached[i]) + f"(impl {x}, model {y})"
                    for i, (x, y) in enumerate(zip(a["flags"], b["flags"])) if x != y]
            return j, "dirty flags differ: " + ", ".join(diff[:4])
        if a["kind"] == "eval":
            if a["calls"] != b["calls"]:
                return j, (f"re-executed _call set differs: impl {[W.obj_names[i] for i in a['calls']]} "
                           f"model {[W.obj_names[i] for i in b['calls']]}")
            if a["stale"] and not b["stale"]:
                return j, "implementation returns a stale value where the model returns the fresh one"
    if len(recs) != len(mrecs):
        return min(len(recs), len(mrecs)), "histories stop at different operations"
    return None


def optimizer_findings(seed):
    """In-place optimiser steps followed by the change notification (Optimizer._run): after run() — and at
    whatever the convergence monitor evaluates in between — every derived parameter and model of the graph
    returns what a freshly built copy holding the final leaf values returns."""
    torch = impl.load()
    from torchtree.core.abstractparameter import AbstractParameter
    from torchtree.core.model import CallableModel
    from torchtree.core.utils import process_object
    rng = random.Random(seed + 5)
    found, nrun = {}, 0

    def graph():
        r = lambda a, b: round(rng.uniform(a, b), 3)
        return [
            exp_of("t", P("z.unres", [r(-0.5, 0.5), r(-0.5, 0.5)], REAL)),
            dist("prior_t", "LogNormal", "t", {"loc": P("loc", [r(-0.3, 0.3), r(-0.3, 0.3)], REAL),
                                                "scale": exp_of("scale", P("scale.unres", [r(-0.2, 0.4)], REAL))}),
            dist("prior_loc", "Normal", "loc", {"loc": 0.0, "scale": 2.0}),
            joint("joint", ["prior_t", "prior_loc", "t", "scale"]),
        ]

    def observe(dic):
        out = {}
        for k, v in dic.items():
            with torch.no_grad():
                if isinstance(v, CallableModel):
                    out[k] = v().detach().clone()
                elif isinstance(v, AbstractParameter):
                    out[k] = v.tensor.detach().clone()
        return out

    for alg, opts in (("torch.optim.SGD", {"lr": 0.05}), ("torch.optim.Adam", {"lr": 0.1}),
                      ("torch.optim.SGD", {"lr": 0.03, "momentum": 0.9})):
        for iters in (1, 3):
            objs = graph()
            opt = {"id": "opt", "type": "Optimizer", "algorithm": alg, "options": opts, "maximize": True,
                   "iterations": iters, "loss": "joint", "parameters": ["z.unres", "loc", "scale.unres"]}
            try:
                dic = {}
                for o in strip(copy.deepcopy(objs)) + [opt]:
                    process_object(o, dic)
                observe(dic)                 # everything evaluated (and cached) once before the run
                import contextlib, io
                with contextlib.redirect_stdout(io.StringIO()), contextlib.redirect_stderr(io.StringIO()):
                    dic["opt"].run()
                got = observe(dic)
                leaves = {k: dic[k].tensor.detach().tolist() for k in ("z.unres", "loc", "scale.unres")}
                ref = observe(build(dict(objects=objs), leaves))
            except Exception as e:
                key = f"C11:optimizer:raises:{type(e).__name__}"
                found.setdefault(key, (key, f"{alg} {iters} iterations: {type(e).__name__}: {str(e)[:160]}",
                                       dict(optimizer=opt, objects=strip(objs))))
                continue
            nrun += 1
            for k in sorted(ref):
                if k in got and not torch.allclose(got[k], ref[k], rtol=1e-9, atol=1e-12, equal_nan=True):
                    key = f"C11:optimizer:stale-after-run:{type(dic[k]).__name__}"
                    found.setdefault(key, (key, f"after Optimizer.run() ({alg}, {iters} iteration(s)) {k} "
                                                f"({type(dic[k]).__name__}) returns {got[k].reshape(-1).tolist()[:4]} but a "
                                                f"freshly built copy holding the final parameter values returns "
                                                f"{ref[k].reshape(-1).tolist()[:4]}",
                                           dict(optimizer=opt, objects=strip(objs), final_leaves=leaves, observed=k)))
    return list(found.values()), nrun


def raising_value_findings(seed):
    """A parameter is given a value at which an evaluation RAISES (outside the support of a prior: the argument
    validation of torch.distributions); the caller catches the exception (as the samplers do) and evaluates again
    without touching the parameter, then assigns an admissible value.  At every point the same object behaves as a
    freshly built copy holding the same values: it raises where the copy raises, returns what the copy returns."""
    torch = impl.load()
    from torchtree.core.model import CallableModel
    from torchtree.core.utils import process_object
    rng = random.Random(seed + 7)
    found, nrun = {}, 0

    def graph():
        r = lambda a, b: round(rng.uniform(a, b), 3)
        return [
            P("x", [r(0.3, 2.0), r(0.3, 2.0)]),
            dist("prior_x", "Exponential", "x", {"rate": P("rate", [r(0.5, 2.0)])}),
            dist("prior_y", "Normal", P("y", [r(-1, 1)], REAL), {"loc": "x", "scale": 1.0}),
            joint("inner", ["prior_x"]),
            joint("joint", ["inner", "prior_y"]),
        ]

    def observe(dic):
        out = {}
        for k in ("prior_x", "prior_y", "inner", "joint"):
            try:
                with torch.no_grad():
                    out[k] = ("val", dic[k]().detach().clone())
            except Exception as e:       # noqa
                out[k] = ("raises", type(e).__name__)
        return out

    def same(a, b):
        if a[0] != b[0]:
            return False
        return a[1] == b[1] if a[0] == "raises" else torch.allclose(a[1], b[1], rtol=1e-9, atol=1e-12, equal_nan=True)

    for _ in range(4):
        objs = graph()
        dic = {}
        for o in strip(copy.deepcopy(objs)):
            process_object(o, dic)
        observe(dic)
        x0 = dic["x"].tensor.detach().clone()
        steps = [("x", torch.tensor([-0.5, float(x0[1])])), None, None,
                 ("x", x0 * rng.uniform(1.1, 1.6)), ("rate", torch.tensor([-1.0])), None,
                 ("rate", torch.tensor([rng.uniform(0.5, 2.0)]))]
        hist = []
        for st in steps:
            if st is not None:
                try:
                    dic[st[0]].tensor = st[1].clone()
                except Exception as e:       # noqa (an assignment never raises)
                    key = f"C11:raising-value:assignment-raises:{type(e).__name__}"
                    found.setdefault(key, (key, f"assigning {st[0]} = {st[1].tolist()} raises {type(e).__name__}", dict(history=hist)))
                    break
                hist.append(f"set {st[0]} = {st[1].tolist()}")
            else:
                hist.append("evaluate again")
            got = observe(dic)
            vals = {k: dic[k].tensor.detach().tolist() for k in ("x", "rate", "y")}
            ref = observe(build(dict(objects=objs), vals))
            nrun += 1
            for k in got:
                if not same(got[k], ref[k]):
                    key = f"C11:raising-value:{type(dic[k]).__name__}:{got[k][0]}-where-fresh-{ref[k][0]}"
                    show = lambda v: v[1] if v[0] == "raises" else v[1].reshape(-1).tolist()[:3]
                    found.setdefault(key, (key, f"after {hist}: {k} ({type(dic[k]).__name__}) {got[k][0]} {show(got[k])} "
                                                f"but a freshly built copy holding the same values {ref[k][0]} {show(ref[k])}",
                                           dict(objects=strip(objs), history=list(hist), observed=k)))
    return list(found.values()), nrun


def anonymous_parameter_findings(seed):
    """Hyper-parameters written as plain numbers / lists in the specification become parameters WITHOUT an id held by
    the model (Distribution 'parameters', CompoundGammaDirichletPrior alpha / c / shape / rate).  Each of them is
    assigned through the object the model holds; every time the model must return what a freshly built copy with that
    number in its specification returns."""
    torch = impl.load()
    from torchtree.core.utils import process_object
    rng = random.Random(seed + 9)
    found, nrun = {}, 0
    r = lambda a, b: round(rng.uniform(a, b), 3)

    def normal(vals):
        return [dist("d", "Normal", P("x", [0.3, -0.4, 1.1], REAL), {"loc": vals["loc"], "scale": vals["scale"]}),
                joint("joint", ["d"])]

    def gamma(vals):
        return [dist("d", "Gamma", P("x", [0.7, 1.9]), {"concentration": vals["concentration"], "rate": vals["rate"]}),
                joint("joint", ["d"])]

    def cgd(vals):
        n = ["A", "B", "C", "D"]
        return [taxa(n), {"id": "tree", "type": "UnRootedTreeModel", "newick": "((A,B),C,D);", "taxa": "taxa",
                          "branch_lengths": P("bl", [0.1, 0.2, 0.15, 0.3, 0.05])},
                {"id": "d", "type": "CompoundGammaDirichletPrior", "tree_model": "tree", "alpha": vals["alpha"],
                 "c": vals["c"], "shape": vals["shape"], "rate": vals["rate"]},
                joint("joint", ["d"])]

    graphs = [("Distribution[Normal]", normal, dict(loc=0.5, scale=1.5), lambda m: m.dict_parameters),
              ("Distribution[Gamma]", gamma, dict(concentration=2.0, rate=3.0), lambda m: m.dict_parameters),
              ("CompoundGammaDirichletPrior", cgd, dict(alpha=1.0, c=0.1, shape=1.0, rate=1.0),
               lambda m: dict(alpha=m.alpha, c=m.c, shape=m.shape, rate=m.rate))]
    for name, mk, vals0, held in graphs:
        try:
            vals = dict(vals0)
            dic = {}
            for o in strip(copy.deepcopy(mk(vals))):
                process_object(o, dic)
            dic["joint"]()
            order = list(vals)
            rng.shuffle(order)
            for key in order + order[:1]:
                vals[key] = round(vals[key] * r(1.2, 1.9), 4)
                par = held(dic["d"])[key]
                par.tensor = torch.full_like(par.tensor, vals[key])
                got = [dic["d"]().detach().clone(), dic["joint"]().detach().clone()]
                fresh = {}
                for o in strip(copy.deepcopy(mk(vals))):
                    process_object(o, fresh)
                want = [fresh["d"]().detach().clone(), fresh["joint"]().detach().clone()]
                nrun += 1
                for what, a, b in zip(("the model", "the joint that contains it"), got, want):
                    if a.shape != b.shape or not torch.allclose(a, b, rtol=1e-9, atol=1e-12, equal_nan=True):
                        k = f"C11:anonymous-parameter:{name}:{key}"
                        found.setdefault(k, (k, f"{name}: hyper-parameter `{key}' (a number in the specification) assigned "
                                                f"{vals[key]}: {what} returns {a.reshape(-1).tolist()[:3]} but a freshly "
                                                f"built copy with that number {b.reshape(-1).tolist()[:3]}",
                                             dict(model=name, assigned=key, values=dict(vals))))
        except Exception as e:       # noqa
            k = f"C11:anonymous-parameter:{name}:raises:{type(e).__name__}"
            found.setdefault(k, (k, f"{name}: {type(e).__name__}: {str(e)[:160]}", dict(model=name)))
    return list(found.values()), nrun


def blind_search(seed):
    """Used when the translator refuses the source: the property on the implementation without any
    wiring knowledge.  For every instance and every registered leaf: evaluate every callable model and
    every parameter of the registry, assign the leaf, evaluate again, compare with a freshly built copy."""
    torch = impl.load()
    from torchtree.core.abstractparameter import AbstractParameter
    from torchtree.core.model import CallableModel
    rng = random.Random(seed)
    found = {}

    def observe(dic):
        out = {}
        for k, v in dic.items():
            try:
                with torch.no_grad():
                    if isinstance(v, CallableModel):
                        out[k] = ("val", [v().detach().clone()])
                    elif isinstance(v, AbstractParameter):
                        out[k] = ("val", [v.tensor.detach().clone()])
            except Exception as e:
                out[k] = ("exc", type(e).__name__, str(e)[:100])
        return out

    for f in SPECS:
        sp = f()
        try:
            base = build(sp)
        except Exception as e:
            found.setdefault(f"C11:blind:build:{sp['name']}", (f"C11:blind:build:{sp['name']}",
                             f"instance {sp['name']} cannot be built: {e}", dict(spec=sp["name"])))
            continue
        doms = leaf_domains(sp["objects"])
        for leaf, how in [(k, h) for k in sorted(k for k, v in base.items() if kind_of(v) == "KLeaf")
                          for h in ("new-tensor", "same-object")]:
            dic = build(sp)
            observe(dic)
            cur = dic[leaf].tensor
            if not cur.dtype.is_floating_point or doms.get(leaf) in (HEIGHTS, GRID, "root", "origin", "spd"):
                new = cur * 1.5 if cur.dtype.is_floating_point else cur + 1
            elif doms.get(leaf) in (SIMPLEX, "kf"):
                new = cur.flip(-1) * 0.5 + cur * 0.5 if doms.get(leaf) == SIMPLEX else cur
                new = new / new.sum(-1, keepdim=True) if doms.get(leaf) == SIMPLEX else cur * 1.0
                if doms.get(leaf) == SIMPLEX and torch.allclose(new, cur):
                    w = torch.arange(1, cur.shape[-1] + 1, dtype=cur.dtype)
                    new = w / w.sum()
            elif doms.get(leaf) == UNIT:
                new = cur * 0.5 + 0.1
            else:
                new = cur * 1.3 + 0.05
            try:
                if how == "same-object":
                    # what the operators of the samplers do: edit the held tensor, assign the same object back
                    held = dic[leaf].tensor
                    if held.requires_grad or new.shape != held.shape or new.dtype != held.dtype:
                        continue
                    held.copy_(new)
                    dic[leaf].tensor = held
                else:
                    dic[leaf].tensor = new.clone()
            except Exception as e:
                key = f"C11:blind:update-raises:{type(e).__name__}:{sp['name']}"
                found.setdefault(key, (key, f"{sp['name']}: assigning '{leaf}' raises {type(e).__name__}: {e}",
                                       dict(spec=sp["name"], blind=True, leaf=leaf, value=new.tolist())))
                continue
            got = observe(dic)
            vals = {k: dic[k].tensor.detach().tolist() for k, v in dic.items() if kind_of(v) == "KLeaf"}
            ref = observe(build(sp, vals))
            for k in got:
                if k in ref and not same_value(got[k], ref[k], torch):
                    key = f"C11:blind:stale:{type(dic[k]).__name__}"
                    found.setdefault(key, (key, f"{sp['name']}: {k} ({type(dic[k]).__name__}) is stale after "
                                                f"'{leaf}' was assigned ({how}): got {_show(got[k], ref[k])}, freshly built copy "
                                                f"{_show(ref[k], got[k])}",
                                           dict(spec=sp["name"], blind=True, leaf=leaf, how=how, value=new.tolist(), observed=k)))
    return list(found.values())


def run(tier, seed, replay=None):
    rep = C.Report(PID, tier, seed)
    rep.trusted = C.COMMON_TRUSTED + [
        "translator T7 (harness/translate/t7_handlers.py, python ast, own C3 linearisation; fail-closed; "
        "cross-checked against the runtime MRO on every run)",
        "hand-written model model/M_listen.v (cascade, assignment plans, evaluation through caches) tied by "
        "exact correspondence on dirty flags, re-executed _call sets, raises and staleness",
        "wiring extraction harness/props/c11.py: listener lists by introspection of `listeners`/`_listeners`, "
        "read-dependencies by sys.setprofile tracing (completeness cross-checked by perturbing every leaf)",
        "abstract values: a slot value is a free term over leaf version counters (a real function may "
        "coincide on different inputs: the model is then pessimistic, never optimistic)"]
    rep.assumptions = ["the set of slots a value reads does not depend on the parameter values (checked on the "
                       "traced instances by the perturbation cross-check and by the re-executed-_call comparison)",
                       "the listener graph is acyclic (else extraction fails closed)"]
    rng = random.Random(seed)
    torch = impl.load()
    torch.manual_seed(seed)
    torch.set_num_threads(1)          # tiny tensors: intra-op threads only cost (and the machine is shared)
    t_start = time.time()

    ok_sync, info = sync()
    table = None
    if ok_sync:
        _, table, cls_names, flag_names = info

    # ------------------------------------------------------------------ instances
    Ws, errors = [], []
    if ok_sync:
        for f in SPECS:
            sp = f()
            try:
                W, _ = extract(sp, table, cls_names, flag_names)
                Ws.append(W)
            except Exception as e:
                errors.append((sp["name"], f"{type(e).__name__}: {e}"))
    rep.timings["extract"] = round(time.time() - t_start, 2)
    reals = [Real(W) for W in Ws]

    # ------------------------------------------------------------------ direct search on the implementation
    searched = {}

    def search(budget=None):
        """The property itself on the implementation: exhaustive one-step histories + random histories;
        every value compared with a freshly built copy.  Needs only the extracted instances."""
        if "done" in searched:
            return searched["done"]
        found = {}
        runs = []
        r2 = random.Random(seed + 1)
        nrand, ln = (20, 40) if tier == "quick" else (100, 400)
        for gi, (W, real) in enumerate(zip(Ws, reals)):
            hs = one_step_histories(W, r2, real)
            hs += [gen_history(W, r2, r2.randint(max(4, ln // 4), ln), real) for _ in range(nrand)]
            for ops in hs:
                recs = run_history(W, ops)
                runs.append((gi, ops, recs))
                p = first_problem(W, ops, recs)
                if p is None:
                    continue
                key, what = attribute(W, ops, recs, *p)
                if key not in found:
                    small = minimise(W, ops, recs, p[0])
                    found[key] = (key, what, replay_dict(W, small))
        searched["done"] = list(found.values())
        searched["runs"] = runs
        return searched["done"]

    if replay:
        return run_replay(rep, Ws, replay)

    if not ok_sync:
        C.log(f"[{PID}] {info}")
        rep.proof = dict(obligations=1, discharged=0, axioms={}, theorems=["T7 translation"], ok=False)
        fs = blind_search(seed)
        for f in fs:
            rep.violation(*f)
        if not fs:
            rep.violation("C11:translator-failed", info, dict(error=info), False)
        return rep.finish()
    proved = C.handle_proof(rep, PID, search)
    for name, e in errors:
        rep.violation(f"C11:extraction-failed:{name}", f"wiring of instance {name} cannot be extracted: {e}",
                      dict(spec=name, error=e), False)

    opt_fs, n_opt = optimizer_findings(seed)
    for f in opt_fs:
        rep.violation(*f)
    rz_fs, n_rz = raising_value_findings(seed)
    for f in rz_fs:
        rep.violation(*f)
    an_fs, n_an = anonymous_parameter_findings(seed)
    for f in an_fs:
        rep.violation(*f)
    bad, nrt = runtime_crosscheck(table)
    for b in bad[:3]:
        rep.violation("C11:translator-runtime-mismatch", b, dict(error=bad), False)
    nhc = 0
    for W in Ws:
        try:
            bad, k = handler_crosscheck(W)
        except Exception as e:
            bad, k = [f"{W.spec['name']}: handler cross-check failed: {type(e).__name__}: {e}"], 0
        nhc += k
        for b in bad[:3]:
            rep.violation("C11:translator-handler-mismatch:" + b.split(":")[1].split(" ")[0], b, dict(error=bad), False)

    # ------------------------------------------------------------------ wired, by vm_compute
    t0 = time.time()
    d0s = [init_flags(W, r) for W, r in zip(Ws, reals)]
    header = coq_header(Ws, d0s)
    wired_res = []
    try:
        wired_res = C.run_cases(PID, header, [f"(zb (wired g{i}) :: diag g{i})" for i in range(len(Ws))],
                                shard=1, rtype="Z")
    except RuntimeError as e:
        if proved:
            rep.violation("C11:model-eval-failed", str(e)[:300], dict(error=str(e)[-2000:]), False)
    rep.timings["wired"] = round(time.time() - t0, 2)
    wired_by_spec, class_verdict, offenders = {}, {}, []
    for W, z in zip(Ws, wired_res):
        w, dg = bool(z[0]), decode_diag(W, z[1:])
        wired_by_spec[W.spec["name"]] = w
        if w != (not dg):
            rep.violation("C11:wired-diag-inconsistent", f"{W.spec['name']}: wired={w} but diag={dg[:3]}",
                          dict(spec=W.spec["name"]), False)
        culprits = set()
        for d in dg:
            if d["kind"] == "uncovered":
                key, m, dep = root_cause(W, d["leaf"], d["slot"])
                offenders.append((W, "stale", key, d["leaf"], m, dep))
                culprits.add(key.split(".")[0].split(":")[0])
            elif d["kind"] == "raise":
                ent = W.table[W.obj_class[d["who"]]]
                e = "EvP" if any(s[0] == "HRaise" for s in ent["hp"]) else "EvM"
                offenders.append((W, "raise", f"{short(W.obj_class[d['who']])}.{hname(e)}:raises", d["obj"], None, None))
                culprits.add(short(W.obj_class[d["who"]]))
            elif d["kind"] in ("plan-leaves", "plan-not-notified"):
                key = setter_defect(W, d["obj"]) or f"{short(W.obj_class[d['obj']])}.tensor.setter:{d['kind']}"
                offenders.append((W, "setter", key, d["obj"], None, None))
                culprits.add(key.split(".")[0])
            else:
                rep.violation(f"C11:wiring:{d['kind']}:{W.spec['name']}", f"{W.spec['name']}: {d}",
                              dict(spec=W.spec["name"], diag=d), False)
        for c in {short(q) for q in W.obj_class}:
            class_verdict[c] = class_verdict.get(c, True) and c not in culprits

    # ------------------------------------------------------------------ each offending edge -> a concrete history on the real code
    t0 = time.time()
    reproduced, unreproduced = {}, []
    for W, kind, key, leaf, m, dep in offenders:
        full = f"C11:{key}"
        if full in reproduced:
            continue
        real = reals[Ws.index(W)]
        if kind == "setter":
            ups, under = updatable(W)
            if leaf not in ups:
                continue
            lslots = {s_ for s_ in range(len(W.slots)) if W.slot_name[s_] == "leaf" and W.slot_owner[s_] in under(leaf)}
            cands = [k_ for k_ in range(len(W.slots)) if W.slot_flag[k_] is not None and W.observable[k_]
                     and k_ not in W.unevaluable and lslots & reads_set(W, k_)]
            done = False
            for k_ in cands[:4]:
                ops = [dict(op="eval", slot=k_), dict(op="set", obj=leaf, value=value_for(W, real, leaf, rng)),
                       dict(op="eval", slot=k_)]
                recs = run_history(W, ops)
                if len(recs) == 3 and recs[2]["kind"] == "eval" and recs[2]["stale"]:
                    _, what = attribute(W, ops, recs, 2, "stale")
                    reproduced[full] = (full, what, replay_dict(W, ops))
                    done = True
                    break
            if not done:
                unreproduced.append((full, W.spec["name"], "no stale value observed after the assignment"))
            continue
        if W.obj_names[leaf] not in W.leaf_ids:
            # anonymous constant (a number in the JSON): no id through which a fresh copy could be given its value
            unreproduced.append((full, W.spec["name"], f"leaf {W.obj_names[leaf]} is an anonymous constant"))
            continue
        upd = dict(op="set", obj=leaf, value=value_for(W, real, leaf, rng))
        if kind == "raise":
            ops = [upd]
            recs = run_history(W, ops)
            if recs and recs[-1]["kind"] == "raise":
                k2, what = attribute(W, ops, recs, len(recs) - 1, "raise")
                reproduced[full] = (full, what, replay_dict(W, ops))
            else:
                unreproduced.append((full, W.spec["name"], "update does not raise on the implementation"))
            continue
        if m in W.unevaluable or not W.observable[m]:
            # the stale value cannot be observed on this tree (its _call raises for another reason): show
            # that the change notification is dropped — a listener of the object is not told
            hits = notification_probe(W, [upd], W.slot_owner[m])
            ctrl = None
            if hits == 0:
                reproduced[full] = (
                    full, f"changing '{W.obj_names[leaf]}' is not propagated by {key.split(':')[0]}: "
                          f"{slot_label(W, m)} keeps lp_needs_update as it was and a listener registered on "
                          f"'{W.obj_names[W.slot_owner[m]]}' receives no notification (the stale value itself is "
                          f"masked on this tree because {slot_label(W, m)} cannot be evaluated: "
                          f"{next((w for n_, s_, w in W.dropped if n_ == W.obj_names[W.slot_owner[m]]), '')})",
                    replay_dict(W, [upd], probe=W.obj_names[W.slot_owner[m]]))
            else:
                unreproduced.append((full, W.spec["name"], f"probe received {hits} notifications"))
            continue
        ops = [dict(op="eval", slot=m), upd, dict(op="eval", slot=m)]
        recs = run_history(W, ops)
        if len(recs) == 3 and recs[2]["kind"] == "eval" and recs[2]["stale"]:
            _, what = attribute(W, ops, recs, 2, "stale")
            reproduced[full] = (full, what, replay_dict(W, ops))
        else:
            unreproduced.append((full, W.spec["name"], f"{slot_label(W, m)} not stale on the implementation "
                                                       f"(read of '{W.obj_names[leaf]}' does not influence the value)"))
    for f in reproduced.values():
        rep.violation(*f)
    rep.timings["replay_offenders"] = round(time.time() - t0, 2)

    # ------------------------------------------------------------------ read-tracing completeness: perturb every leaf
    t0 = time.time()
    pert_checked = pert_changed = 0
    for W, real in zip(Ws, reals):
        evaluable = [k for k in range(len(W.slots)) if W.observable[k] and k not in W.unevaluable]
        base_copy = Real(W)
        base_vals = {k: base_copy.observe(k) for k in evaluable}
        for l in [i for i in range(len(W.obj_ids)) if W.obj_kind[i] == "KLeaf" and W.obj_names[i] in W.leaf_ids]:
            vals = dict(base_copy.leaf_values())
            vals[W.obj_names[l]] = value_for(W, real, l, rng)
            other = Real(W, vals)
            pslot = next(s for s in range(len(W.slots)) if W.slot_owner[s] == l and W.slot_name[s] == "leaf")
            for k in evaluable:
                pert_checked += 1
                if not same_value(other.observe(k), base_vals[k], torch):
                    pert_changed += 1
                    if pslot not in reads_set(W, k):
                        rep.violation(f"C11:trace-incomplete:{short(W.obj_class[W.slot_owner[k]])}.{W.slot_name[k]}",
                                      f"{W.spec['name']}: {slot_label(W, k)} changes with '{W.obj_names[l]}' but no "
                                      f"read was traced", dict(spec=W.spec["name"], leaf=W.obj_names[l]), False)
    rep.timings["perturbation"] = round(time.time() - t0, 2)

    # ------------------------------------------------------------------ the property on the implementation + correspondence
    t0 = time.time()
    for f in search():
        rep.violation(*f)
    rep.timings["direct_search"] = round(time.time() - t0, 2)

    jobs = searched.get("runs", [])
    ln = 40 if tier == "quick" else 400
    t0 = time.time()
    mres = []
    try:
        exprs = [f"trace g{gi} (init g{gi} d{gi}) [{'; '.join(model_op(Ws[gi], o) for o in ops)}]%nat"
                 for gi, ops, _ in jobs]
        mres = C.run_cases(PID, header, exprs, shard=max(4, len(exprs) // 16 + 1), rtype="Z")
    except RuntimeError as e:
        if proved:
            rep.violation("C11:model-eval-failed", str(e)[:300], dict(error=str(e)[-2000:]), False)
    rep.timings["model_eval"] = round(time.time() - t0, 2)
    opdist, pess, nstale, nraise, mism = {}, 0, 0, 0, 0
    for (gi, ops, recs), z in zip(jobs, mres):
        W = Ws[gi]
        mrecs = parse_trace(W, ops, z)
        kinds = {o["op"] for o in ops}
        touched = {o.get("obj") for o in ops if o["op"] != "eval"}
        for o in ops:
            opdist[o["op"]] = opdist.get(o["op"], 0) + 1
        nstale += sum(1 for r in recs if r.get("stale"))
        nraise += sum(1 for r in recs if r["kind"] == "raise")
        pess += sum(1 for a, b in zip(recs, mrecs) if a["kind"] == "eval" and b["kind"] == "eval"
                    and b["stale"] and not a["stale"])
        rep.case(dict(spec=W.spec["name"], ops=[model_op(W, o) for o in ops]),
                 nontrivial=len(touched) >= 2 and "eval" in kinds,
                 sample=dict(spec=W.spec["name"], history=describe_ops(W, ops)[:12], length=len(ops)))
        d = compare(W, ops, recs, mrecs)
        if d is not None and mism < 3:
            mism += 1
            j, text = d
            fs = search()
            hit = False
            p = first_problem(W, ops, recs)
            if p is not None and p[0] <= j:
                key, what = attribute(W, ops, recs, *p)
                rep.violation(key, what, replay_dict(W, minimise(W, ops, recs, p[0])))
                hit = True
            if not hit:
                rep.violation(f"C11:model-impl-differ:{W.spec['name']}",
                              f"{W.spec['name']} op {j} ({describe_ops(W, ops[j:j + 1])}): {text}",
                              replay_dict(W, ops[:j + 1], broken="correspondence M_listen.trace vs implementation",
                                          detail=text), False)

    classes = sorted({short(q) for W in Ws for q in W.obj_class})
    rep.exhaustive = dict(
        what="per instance graph every updatable parameter object (every kind) x {assignment, in-place change + "
             "notification} x every evaluable slot: history [evaluate all; update; evaluate all]",
        one_step_histories=sum(len(one_step_histories(W, random.Random(0), r)) for W, r in zip(Ws, reals)))
    rep.rule = ("per instance graph: for every updatable parameter object (plain, view, concatenation, transformed) "
                "and mode (assignment, in-place + notification) the history [evaluate every slot; update; evaluate "
                f"every slot], plus random histories of length <= {ln} mixing assignment through every parameter "
                "kind, draws by distributions, proposals/rejections, in-place steps + notification, bare "
                "notifications and evaluations of random slots; every evaluation compared with a freshly built "
                "copy (rtol 1e-9); non-trivial = updates touch >= 2 different parameters and at least one "
                "evaluation; distinct = distinct (instance, abstract operation sequence)")
    rep.extra = dict(
        input_distribution=opdist, optimizer_runs_compared_with_fresh_rebuild=n_opt,
        evaluations_around_a_raising_value=n_rz, assignments_of_anonymous_hyper_parameters=n_an, traces_validated_against_impl=len(mres), model_undefined=0,
        model_pessimistic_evaluations=pess, stale_evaluations_on_impl=nstale, raising_updates_on_impl=nraise,
        translator_units=[f"{len(table)} classes -> gen/G_handlers.v (handlers, tensor setters, cache flags, "
                          "listener attribute, fire_* loops)"],
        runtime_crosschecked_classes=nrt, handlers_called_and_compared_with_table=nhc,
        instances={W.spec["name"]: dict(objects=len(W.obj_ids), slots=len(W.slots),
                                        cached=sum(1 for f in W.slot_flag if f is not None),
                                        wired=wired_by_spec.get(W.spec["name"]),
                                        not_evaluable=[f"{n}.{s}: {w}" for n, s, w in W.dropped])
                   for W in Ws},
        classes_instantiated=classes, n_classes=len(classes),
        classes_not_wired=sorted(c for c, v in class_verdict.items() if not v),
        offending_edges_not_reproduced=unreproduced,
        perturbation=dict(pairs_checked=pert_checked, pairs_changed=pert_changed),
        not_instantiable=["EmpiricalSubstitutionModel/LG/WAG and RootParameter (abstract: cannot be constructed)",
                          "nn-based classes (Module, ModuleParameter, NormalizingFlow, RealNVP), variational "
                          "objectives (ELBO, KLpq, VR, CUBO: sampling inside _call), Hamiltonian/HMCOperator"])
    return rep.finish()


def run_replay(rep, Ws, path):
    blob = json.load(open(path))
    r = blob["replay"]
    if r.get("blind"):
        fs = [f for f in blind_search(rep.seed) if f[0] == blob["key"]]
        for f in fs:
            rep.violation(*f)
        return rep.finish()
    W = next((w for w in Ws if w.spec["name"] == r.get("spec")), None)
    if W is None or "history" not in r:
        C.log(f"[{PID}] replay file has no executable history: {r}")
        rep.violation(blob["key"], blob["what"], r, False)
        return rep.finish()
    ops = import_ops(W, r["history"])
    C.log(f"[{PID}] replaying on {W.spec['name']}: {describe_ops(W, ops)}")
    if "probe" in r:
        tgt = W.obj_names.index(r["probe"])
        hits = notification_probe(W, ops, tgt)
        C.log(f"[{PID}] probe listener on {r['probe']} received {hits} notifications")
        if hits == 0:
            rep.violation(blob["key"], blob["what"], r)
        return rep.finish()
    recs = run_history(W, ops)
    for o, rec in zip(describe_ops(W, ops), recs):
        C.log(f"   {o}: " + (f"raises {rec['exc']}: {rec.get('msg')}" if rec["kind"] == "raise" else
                             (f"stale={rec['stale']} {rec['detail'] or ''}" if rec["kind"] == "eval" else "ok")))
    p = first_problem(W, ops, recs)
    if p is not None:
        key, what = attribute(W, ops, recs, *p)
        rep.violation(key, what, r)
    return rep.finish()
