"""C11 — cached values never go stale.

Pipeline: T7 translator (handler/setter/flag table of every class -> coq/gen/G_handlers.v) -> proofs
(coq/prop/C11.v: wired_sound ...) -> wiring of real object graphs extracted (listeners by introspection,
dependencies by read-tracing, cross-checked by perturbation) and `wired` evaluated on them by vm_compute
-> the property itself evaluated on the implementation (random histories of updates through the public
parameter interface; after every operation every value is compared with a freshly built copy holding
the same leaf values) -> correspondence of the operational model M_listen.run with the implementation
(dirty flags after each operation, set of re-executed _call at each evaluation, staleness, raises).
"""
import copy
import hashlib
import json
import math
import os
import random
import sys
import time
import traceback

from harness import common as C
from harness import impl
from harness.translate import t7_handlers

PID = "C11"
HEADER = ("From Coq Require Import List ZArith Bool. Import ListNotations.\n"
          "From TT Require Import M_listen G_handlers.\n")

# =============================================================================================
# 1. Instance graphs: JSON specifications (the snippets of the docstrings / tests, composed)
# =============================================================================================

# value domains of the leaves (how random new values are drawn so that models stay evaluable)
POS, UNIT, REAL, SIMPLEX, HEIGHTS, BL, GRID = "pos", "unit", "real", "simplex", "heights", "bl", "grid"


def P(id_, values, dom=POS, **kw):
    d = {"id": id_, "type": "Parameter", "tensor": values, "_dom": dom}
    d.update(kw)
    return d


def taxa(names, dates=None):
    return {"id": "taxa", "type": "Taxa", "taxa": [
        {"id": n, "type": "Taxon", "attributes": {"date": (dates[i] if dates else 0.0)}}
        for i, n in enumerate(names)]}


NUC_SEQS = {"A": "ACGTACGTAAGGCCTTACGATTGA", "B": "ACGTACGAAAGGCTTTACGATTGC",
            "C": "ACCTACGTTAGGCCTAACGAATGA", "D": "TCGTGCGTAAGCCCTTACCATTGA",
            "E": "ACGAACGTAAGGCGTTAGGATTCA"}
CODON_SEQS = {"A": "ATGGCTAAAGGTCTGTTC", "B": "ATGGCCAAAGGTCTTTTC", "C": "ATGGCTAGAGGACTGTTT",
              "D": "ATGTCTAAAGGTCTGTAC"}


def alignment(names, seqs, datatype="nucleotide"):
    return {"id": "alignment", "type": "Alignment", "datatype": datatype, "taxa": "taxa",
            "sequences": [{"taxon": n, "sequence": seqs[n]} for n in names]}


def exp_of(id_, leaf):
    return {"id": id_, "type": "TransformedParameter", "transform": "torch.distributions.ExpTransform", "x": leaf}


def dist(id_, distribution, x, parameters=None):
    d = {"id": id_, "type": "Distribution", "distribution": "torch.distributions." + distribution, "x": x}
    if parameters:
        d["parameters"] = parameters
    return d


def joint(id_, members):
    return {"id": id_, "type": "JointDistributionModel", "distributions": members}


def spec_unrooted():
    n = ["A", "B", "C", "D", "E"]
    return dict(name="unrooted-gtr-weibull", objects=[
        taxa(n), alignment(n, NUC_SEQS),
        {"id": "patterns", "type": "SitePattern", "alignment": "alignment"},
        {"id": "tree", "type": "UnRootedTreeModel", "newick": "((A:0.1,B:0.2):0.05,(C:0.3,D:0.1):0.02,E:0.2);",
         "taxa": "taxa", "branch_lengths": P("bl", [0.1, 0.2, 0.3, 0.1, 0.2, 0.05, 0.02], BL)},
        {"id": "gtr", "type": "GTR",
         "rates": {"id": "gtr_rates", "type": "TransformedParameter",
                   "transform": "torch.distributions.StickBreakingTransform",
                   "x": P("gtr_rates_u", [0.1, -0.2, 0.3, 0.0, 0.2], REAL)},
         "frequencies": P("gtr_freqs", [0.25, 0.25, 0.3, 0.2], SIMPLEX)},
        {"id": "site", "type": "WeibullSiteModel", "categories": 3,
         "shape": exp_of("wshape", P("wshape_u", [0.1], REAL)),
         "invariant": P("pinv", [0.2], UNIT), "mu": P("site_mu", [1.3])},
        {"id": "like", "type": "TreeLikelihoodModel", "tree_model": "tree", "site_model": "site",
         "substitution_model": "gtr", "site_pattern": "patterns"},
        {"id": "cgd", "type": "CompoundGammaDirichletPrior", "tree_model": "tree",
         "alpha": P("cgd_alpha", [1.0]), "c": P("cgd_c", [0.5]), "shape": P("cgd_shape", [1.5]),
         "rate": P("cgd_rate", [2.0])},
        dist("prior_pinv", "Beta", "pinv", {"concentration1": P("b1", [1.5]), "concentration0": P("b0", [2.0])}),
        dist("prior_wshape", "LogNormal", "wshape", {"loc": P("ln_loc", [0.0], REAL), "scale": P("ln_scale", [1.0])}),
        joint("joint", ["like", "cgd", "prior_pinv", "prior_wshape", "wshape", "gtr_rates"]),
    ])


def spec_timetree():
    n = ["A", "B", "C", "D"]
    return dict(name="reparam-hky-clock", objects=[
        taxa(n, [0.0, 1.0, 0.5, 2.0]), alignment(n, NUC_SEQS),
        {"id": "patterns", "type": "SitePattern", "alignment": "alignment"},
        {"id": "tree", "type": "ReparameterizedTimeTreeModel", "newick": "(((A,B),C),D);", "taxa": "taxa",
         "ratios": P("ratios", [0.4, 0.6], UNIT), "root_height": P("root_height", [5.0], dom="root")},
        P("kf", [2.0, 0.1, 0.2, 0.3, 0.4], dom="kf"),
        {"id": "kappa", "type": "ViewParameter", "parameter": "kf", "indices": ":1"},
        {"id": "freqs", "type": "ViewParameter", "parameter": "kf", "indices": "1:"},
        {"id": "hky", "type": "HKY", "kappa": "kappa", "frequencies": "freqs"},
        {"id": "site", "type": "ConstantSiteModel", "mu": P("site_mu", [0.9])},
        {"id": "clock", "type": "StrictClockModel", "tree_model": "tree", "rate": P("clock_rate", [0.01])},
        {"id": "like", "type": "TreeLikelihoodModel", "tree_model": "tree", "site_model": "site",
         "substitution_model": "hky", "site_pattern": "patterns", "branch_model": "clock"},
        {"id": "coal", "type": "ConstantCoalescentModel", "tree_model": "tree", "theta": P("theta", [3.0])},
        {"id": "ctmc", "type": "CTMCScale", "x": "clock_rate", "tree_model": "tree"},
        dist("prior_theta", "Exponential", "theta", {"rate": P("theta_rate", [0.5])}),
        joint("joint", ["like", "coal", "ctmc", "prior_theta", "tree"]),
    ])


def spec_skyline():
    n = ["A", "B", "C", "D", "E"]
    return dict(name="timetree-skyline-gmrf", objects=[
        taxa(n, [0.0, 0.0, 1.0, 0.5, 0.0]),
        {"id": "tree", "type": "TimeTreeModel", "newick": "(((A,B),C),(D,E));", "taxa": "taxa",
         "internal_heights": P("heights", [1.0, 2.0, 1.5, 4.0], HEIGHTS)},
        {"id": "skyride", "type": "PiecewiseConstantCoalescentModel", "tree_model": "tree",
         "theta": exp_of("sky_theta", P("sky_theta_log", [1.0, 1.2, 0.8, 1.1], REAL))},
        {"id": "gmrf", "type": "GMRF", "x": "sky_theta_log", "precision": P("gmrf_prec", [2.0]), "tree_model": "tree"},
        {"id": "skygrid", "type": "PiecewiseConstantCoalescentGridModel", "tree_model": "tree",
         "theta": P("grid_theta", [3.0, 2.0, 4.0]), "grid": P("grid", [1.0, 3.0], GRID)},
        {"id": "skyglide", "type": "PiecewiseLinearCoalescentGridModel", "tree_model": "tree",
         "theta": "grid_theta", "grid": "grid"},
        {"id": "expcoal", "type": "ExponentialCoalescentModel", "tree_model": "tree",
         "theta": P("exp_theta", [3.0]), "growth": P("growth", [0.3], REAL)},
        {"id": "intcoal", "type": "ConstantCoalescentIntegratedModel", "tree_model": "tree", "alpha": 2.0, "beta": 1.5},
        {"id": "pexp", "type": "PiecewiseExponentialCoalescentGridModel", "tree_model": "tree",
         "theta": P("pexp_theta", [3.0]), "growth": P("pexp_growth", [0.2], REAL), "grid": P("pexp_grid", [], GRID)},
        {"id": "gmrf2", "type": "GMRF", "x": P("field2", [0.1, 0.4, 0.2], REAL), "precision": "gmrf_prec"},
        joint("joint", ["skyride", "gmrf", "skygrid", "skyglide", "expcoal", "intcoal", "gmrf2", "sky_theta"]),
    ])


def spec_birthdeath():
    n = ["A", "B", "C", "D"]
    return dict(name="birth-death", objects=[
        taxa(n, [0.0, 0.0, 1.0, 0.5]),
        {"id": "tree", "type": "TimeTreeModel", "newick": "(((A,B),C),D);", "taxa": "taxa",
         "internal_heights": P("heights", [1.0, 2.0, 3.0], HEIGHTS)},
        {"id": "bdsk", "type": "BDSKModel", "tree_model": "tree", "R": P("R", [1.5, 2.0]),
         "delta": P("delta", [1.0, 1.2]), "s": P("s", [0.3, 0.4], UNIT), "rho": P("rho", [0.5], UNIT),
         "origin": P("origin", [6.0], dom="origin")},
        {"id": "bd", "type": "BirthDeathModel", "tree_model": "tree", "lambda": P("bd_lambda", [2.0]),
         "mu": P("bd_mu", [1.0]), "psi": P("bd_psi", [0.5]), "rho": P("bd_rho", [0.5], UNIT),
         "origin": "origin"},
        joint("joint", ["bdsk", "bd"]),
    ])


def spec_codon():
    n = ["A", "B", "C", "D"]
    return dict(name="codon-mg94", objects=[
        taxa(n), {"id": "codon", "type": "CodonDataType", "genetic_code": "Universal"},
        alignment(n, CODON_SEQS, "codon"),
        {"id": "patterns", "type": "SitePattern", "alignment": "alignment"},
        {"id": "tree", "type": "UnRootedTreeModel", "newick": "((A:0.1,B:0.2):0.05,C:0.3,D:0.1);",
         "taxa": "taxa", "branch_lengths": P("bl", [0.1, 0.2, 0.3, 0.1, 0.05], BL)},
        {"id": "mg94", "type": "MG94", "data_type": "codon", "alpha": P("mg_alpha", [1.0]),
         "beta": P("mg_beta", [0.5]), "kappa": P("mg_kappa", [2.0]),
         "frequencies": P("mg_freqs", [1.0 / 61] * 61, SIMPLEX)},
        {"id": "site", "type": "ConstantSiteModel"},
        {"id": "like", "type": "TreeLikelihoodModel", "tree_model": "tree", "site_model": "site",
         "substitution_model": "mg94", "site_pattern": "patterns"},
        dist("prior_bl", "Exponential", "bl", {"rate": P("bl_rate", [10.0])}),
        joint("joint", ["like", "prior_bl"]),
    ])


def spec_general():
    n = ["A", "B", "C", "D"]
    gdt = {"id": "gdt", "type": "GeneralDataType", "codes": ["A", "C", "G", "T"]}
    return dict(name="general-subst-flexible", objects=[
        taxa(n, [0.0, 0.0, 0.0, 0.0]), gdt, alignment(n, NUC_SEQS, "gdt"),
        {"id": "patterns", "type": "SitePattern", "alignment": "alignment"},
        {"id": "tree", "type": "FlexibleTimeTreeModel", "newick": "(((A,B),C),D);", "taxa": "taxa",
         "internal_heights": P("heights", [1.0, 2.0, 3.0], HEIGHTS)},
        {"id": "sym", "type": "GeneralSymmetricSubstitutionModel", "data_type": "gdt",
         "mapping": [0, 1, 0, 2, 1, 0], "rates": P("sym_rates", [1.0, 2.0, 0.5]),
         "frequencies": P("sym_freqs", [0.25, 0.25, 0.25, 0.25], SIMPLEX)},
        {"id": "nonsym", "type": "GeneralNonSymmetricSubstitutionModel", "data_type": "gdt",
         "mapping": [0, 1, 2, 3, 4, 5, 0, 1, 2, 3, 4, 5], "rates": P("ns_rates", [1.0, 2.0, 0.5, 1.5, 0.7, 1.1]),
         "frequencies": P("ns_freqs", [0.2, 0.3, 0.25, 0.25], SIMPLEX), "normalize": True},
        {"id": "gjc", "type": "GeneralJC69", "state_count": 4},
        {"id": "jc", "type": "JC69"},
        {"id": "site", "type": "InvariantSiteModel", "invariant": P("pinv", [0.2], UNIT), "mu": P("site_mu", [1.1])},
        {"id": "clock", "type": "SimpleClockModel", "tree_model": "tree",
         "rate": P("rates", [0.01, 0.02, 0.015, 0.01, 0.03, 0.02])},
        {"id": "like_sym", "type": "TreeLikelihoodModel", "tree_model": "tree", "site_model": "site",
         "substitution_model": "sym", "site_pattern": "patterns", "branch_model": "clock"},
        {"id": "like_nonsym", "type": "TreeLikelihoodModel", "tree_model": "tree", "site_model": "site",
         "substitution_model": "nonsym", "site_pattern": "patterns", "branch_model": "clock"},
        {"id": "like_gjc", "type": "TreeLikelihoodModel", "tree_model": "tree", "site_model": "site",
         "substitution_model": "gjc", "site_pattern": "patterns", "branch_model": "clock"},
        {"id": "like_jc", "type": "TreeLikelihoodModel", "tree_model": "tree", "site_model": "site",
         "substitution_model": "jc", "site_pattern": "patterns", "branch_model": "clock", "use_tip_states": True},
        dist("prior_rates", "LogNormal", "rates", {"loc": P("r_loc", [-4.0], REAL), "scale": P("r_scale", [0.5])}),
        joint("joint", ["like_sym", "like_nonsym", "like_gjc", "like_jc", "prior_rates"]),
    ])


def spec_distributions():
    return dict(name="distributions", objects=[
        P("mvn_x", [0.1, -0.3, 0.5], REAL), P("y1", [0.2], REAL), P("y2", [1.5, -0.5], REAL),
        {"id": "mvn", "type": "MultivariateNormal", "x": "mvn_x", "parameters": {
            "loc": P("mvn_loc", [0.0, 0.1, -0.1], REAL),
            "covariance_matrix": P("mvn_cov", [[1.0, 0.1, 0.0], [0.1, 2.0, 0.2], [0.0, 0.2, 1.5]], dom="spd")}},
        {"id": "bridge", "type": "BayesianBridge", "x": "y2", "scale": P("br_scale", [1.2]),
         "alpha": P("br_alpha", [0.5])},
        {"id": "bridge2", "type": "BayesianBridge", "x": "y2", "scale": "br_scale",
         "local_scale": P("br_local", [0.8, 1.1]), "slab": P("br_slab", [2.0])},
        {"id": "mix", "type": "ScaleMixtureNormal", "x": "y2", "loc": 0.0, "global_scale": P("mix_g", [1.0]),
         "local_scale": P("mix_l", [0.5, 0.7]), "slab": P("mix_slab", [1.5])},
        # x given as a list: concatenated parameter; parameters behind a transform
        dist("normal_cat", "Normal", ["y1", "y2"],
             {"loc": P("n_loc", [0.0, 0.5, -0.5], REAL), "scale": exp_of("n_scale", P("n_scale_u", [0.0, 0.1, -0.1], REAL))}),
        {"id": "cat", "type": "CatParameter", "parameters": ["y1", "mvn_x"], "dim": -1},
        {"id": "cat_exp", "type": "TransformedParameter", "transform": "torch.distributions.ExpTransform", "x": "cat"},
        dist("gamma_on_cat", "Gamma", "cat_exp", {"concentration": P("g_conc", [2.0]), "rate": P("g_rate", [1.0])}),
        {"id": "affine", "type": "TransformedParameter", "transform": "torch.distributions.AffineTransform",
         "parameters": {"loc": 1.0, "scale": 2.0}, "x": ["y1", "y2"]},
        dist("normal_affine", "Normal", "affine", {"loc": P("a_loc", [0.0], REAL), "scale": P("a_scale", [3.0])}),
        {"id": "detnorm", "type": "DeterministicNormal", "x": P("dn_x", [0.1, 0.2], REAL), "shape": [],
         "loc": P("dn_loc", [0.0, 0.0], REAL), "scale": P("dn_scale", [1.0, 1.0])},
        {"id": "gmrfcov", "type": "GMRF", "x": "y2", "precision": "g_rate"},
        joint("joint", ["mvn", "bridge", "bridge2", "mix", "normal_cat", "gamma_on_cat", "cat_exp",
                        "normal_affine", "affine", "detnorm", "gmrfcov"]),
    ])


SPECS = [spec_unrooted, spec_timetree, spec_skyline, spec_birthdeath, spec_codon, spec_general, spec_distributions]
