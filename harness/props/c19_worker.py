"""C19 worker: runs the real torchtree-cli and the real loader on one option combination.

Everything here touches the implementation only (no Coq).  One call = one configuration:
  argv -> in-process torchtree.cli.cli.main() -> emitted JSON -> torchtree loader exactly as
  torchtree.torchtree.main does (remove_comments, expand_plates, process_objects per element)
  with every registry operation recorded -> density / gradient / Jacobian / initial-value checks
  -> short actual run of the emitted sampler / optimiser.
Returns a JSON-serialisable dict."""
import contextlib
import copy
import io
import json
import logging
import math
import os
import shutil
import sys
import tempfile
import traceback

_torch = None
DATA = None


def _init():
    global _torch, DATA
    if _torch is None:
        from harness import impl
        _torch = impl.load()
        _torch.set_num_threads(1)
        repo = os.environ.get("VERIF_REPO", "/repo").rstrip("/")
        DATA = os.path.join(repo, "data")
        logging.getLogger().handlers[:] = [_LogCatcher()]
        logging.getLogger().setLevel(logging.ERROR)
    return _torch


LOG = []


class _LogCatcher(logging.Handler):
    def emit(self, r):
        try:
            LOG.append(r.getMessage())
        except Exception:
            pass


# --------------------------------------------------------------------------- CLI

CONSTRAINED_SNAPSHOT = {}


def _snapshot_constrained(obj, out):
    if isinstance(obj, list):
        for e in obj:
            _snapshot_constrained(e, out)
    elif isinstance(obj, dict):
        if obj.get("type") == "Parameter" and "id" in obj and any(k.startswith("@") for k in obj):
            out[obj["id"]] = {k: copy.deepcopy(v) for k, v in obj.items()
                              if k in ("tensor", "full", "full_like", "@lower", "@upper", "@simplex")}
        else:
            for v in obj.values():
                _snapshot_constrained(v, out)


def _wrap_transformers():
    """Record the constrained values (as built by the model builders) just before the sub-command
    turns them into transformed parameters."""
    from torchtree.cli import advi, hmc, map as map_, mcmc
    for mod, name in ((hmc, "make_unconstrained"), (mcmc, "make_unconstrained"),
                      (map_, "make_unconstrained"), (advi, "create_variational_model")):
        orig = getattr(mod, name)
        if getattr(orig, "_c19", False):
            continue

        def make(orig, name):
            def wrapped(*a, **k):
                CONSTRAINED_SNAPSHOT.clear()
                _snapshot_constrained(a[1] if name == "create_variational_model" else a[0],
                                      CONSTRAINED_SNAPSHOT)
                return orig(*a, **k)
            wrapped._c19 = True
            return wrapped
        setattr(mod, name, make(orig, name))


def _frame_name(tb):
    """innermost torchtree frame: module-relative file + qualified function name (no line numbers)"""
    best = None
    for fs, _ in traceback.walk_tb(tb):
        fn = fs.f_code.co_filename
        if "/torchtree/" in fn:
            q = getattr(fs.f_code, "co_qualname", fs.f_code.co_name)
            best = fn.split("/torchtree/")[-1] + ":" + q
    return best or "?"


def run_cli(argv):
    """-> (status, payload): ('ok', json) | ('rejected', msg) | ('crash', 'Exc@site: msg')"""
    torch = _init()
    from torchtree.cli import cli
    _wrap_transformers()
    out, err = io.StringIO(), io.StringIO()
    old = sys.argv
    sys.argv = ["torchtree-cli"] + list(argv)
    torch.set_default_dtype(torch.float32)      # the CLI is a separate process with torch defaults
    CONSTRAINED_SNAPSHOT.clear()
    try:
        with contextlib.redirect_stdout(out), contextlib.redirect_stderr(err):
            cli.main()
        return "ok", json.loads(out.getvalue())
    except SystemExit as e:
        msg = err.getvalue().strip().split("\n")[-1][-300:]
        if e.code in (0, None):
            return "rejected", "exit 0: " + msg
        return "rejected", msg
    except BaseException as e:  # uncaught exception: no configuration is emitted
        return "crash", f"{type(e).__name__}@{_frame_name(e.__traceback__)}: {str(e)[:160]}"
    finally:
        sys.argv = old
        torch.set_default_dtype(torch.float64)


# --------------------------------------------------------------------------- loader with trace

class TraceDict(dict):
    """The `dic` registry handed to process_objects; records every operation."""

    def __init__(self):
        super().__init__()
        self.ev = []

    def __contains__(self, k):
        self.ev.append(["C", k])
        return dict.__contains__(self, k)

    def __getitem__(self, k):
        self.ev.append(["G", k])
        return dict.__getitem__(self, k)

    def __setitem__(self, k, v):
        self.ev.append(["S", k])
        dict.__setitem__(self, k, v)

    def get(self, k, d=None):
        self.ev.append(["G?", k])
        return dict.get(self, k, d)


def load_config(data, run=False):
    """Exactly torchtree.torchtree.main after json.load (no checkpoint): returns (dic, error)."""
    from torchtree.core.runnable import Runnable
    from torchtree.core.utils import (JSONParseError, expand_plates, process_objects,
                                      remove_comments)
    remove_comments(data)
    expand_plates(data)
    dic = TraceDict()
    LOG.clear()
    try:
        for element in data:
            obj = process_objects(element, dic)
            if run and isinstance(obj, Runnable):
                obj.run()
    except JSONParseError as e:
        root = LOG[0] if LOG else str(e)
        return dic, dict(kind="JSONParseError", root=root, outer=str(e))
    except BaseException as e:
        return dic, dict(kind=type(e).__name__, root=str(e)[:200], site=_frame_name(e.__traceback__))
    return dic, None


# --------------------------------------------------------------------------- JSON helpers

def index_objects(j, out=None):
    out = {} if out is None else out
    if isinstance(j, list):
        for e in j:
            index_objects(e, out)
    elif isinstance(j, dict):
        if "id" in j and "type" in j:
            out.setdefault(j["id"], j)
        for v in j.values():
            index_objects(v, out)
    return out


def _ids(v):
    vs = v if isinstance(v, list) else [v]
    return [x if isinstance(x, str) else x.get("id") for x in vs]


def moved_and_target(j):
    """python-side reading of what is moved / handed (cross-checked against the Coq model)"""
    objs = index_objects(j)
    moved, targets = [], []

    def var_x(d):
        d = objs.get(d) if isinstance(d, str) else d
        if d is None:
            return
        if d.get("type") == "JointDistributionModel":
            for e in d["distributions"]:
                var_x(e)
        elif "x" in d:
            moved.extend(_ids(d["x"]))

    for o in objs.values():
        t = o["type"]
        if t in ("HMCOperator", "SlidingWindowOperator", "ScalerOperator"):
            moved.extend(_ids(o["parameters"]))
        elif t == "GMRFPiecewiseCoalescentBlockUpdatingOperator":
            g = objs.get(o["gmrf"]) if isinstance(o["gmrf"], str) else o["gmrf"]
            if g is not None:
                moved.extend(_ids(g["x"]))
        elif t == "MCMC":
            targets.extend(_ids(o["joint"]))
        elif t == "Optimizer":
            if isinstance(o["loss"], str):
                targets.append(o["loss"])
                moved.extend(_ids(o["parameters"]))
            elif isinstance(o["loss"], dict):
                targets.extend(_ids(o["loss"]["joint"]))
                var_x(o["loss"]["variational"])
    dd = []
    for m in moved:
        if m not in dd:
            dd.append(m)
    tt = []
    for t in targets:
        if t not in tt:
            tt.append(t)
    return dd, tt


# --------------------------------------------------------------------------- numerics

MANIFOLD_TRANSFORMS = ("ConvexCombinationTransform", "RescaledRateTransform")


def autograd_logdet(obj):
    """log|det J| of a TransformedParameter / reparameterised tree computed from the forward map only
    (autograd Jacobian + slogdet); simplex-valued maps are taken on their first K-1 coordinates.
    Returns (value or None, note)."""
    torch = _torch
    from torchtree.core.parameter import TransformedParameter
    if isinstance(obj, TransformedParameter):
        x0 = obj.x.tensor.detach().clone()
        tname = type(obj.transform).__name__
    else:
        x0 = obj._internal_heights.tensor.detach().clone()
        tname = type(obj.transform).__name__
    if tname in MANIFOLD_TRANSFORMS:
        return None, f"{tname}: not a bijection between open sets"
    if x0.dim() != 1:
        return None, "batched"
    J = torch.autograd.functional.jacobian(lambda x: obj.transform(x), x0)
    J = J.reshape(-1, x0.numel())
    if J.shape[0] == J.shape[1] + 1:
        J = J[:-1]
    if J.shape[0] != J.shape[1]:
        return None, f"non-square {tuple(J.shape)}"
    return float(torch.linalg.slogdet(J)[1]), tname


def expand_requested(spec, dic):
    torch = _torch
    t = spec["tensor"]
    if isinstance(t, list):
        return torch.tensor(t, dtype=torch.float64)
    if "full" in spec:
        return torch.full(tuple(spec["full"]), float(t), dtype=torch.float64)
    if "full_like" in spec:
        ref = dict.get(dic, spec["full_like"])
        return torch.full_like(ref.tensor, float(t), dtype=torch.float64)
    return torch.tensor([float(t)], dtype=torch.float64)


def fnum(x):
    x = float(x)
    return x if math.isfinite(x) else repr(x)


def check_loaded(j0, dic, cfg):
    """density, gradient, Jacobian pieces and initial values on the loaded object graph"""
    torch = _torch
    from torchtree.core.parameter import TransformedParameter
    from torchtree.evolution.tree_model import ReparameterizedTimeTreeModel
    res = {}
    objs = index_objects(j0)
    moved, targets = moved_and_target(j0)
    res["moved"], res["targets"] = moved, targets
    get = lambda k: dict.get(dic, k)
    # --- values
    vals = {}
    for name in ["joint"] + [t for t in targets if t != "joint"] + \
            (["joint.jacobian"] if "joint.jacobian" in dic and "joint.jacobian" not in targets else []):
        o = get(name)
        if o is None:
            continue
        try:
            v = o()
            vals[name] = fnum(v.sum())
        except BaseException as e:
            vals[name] = dict(error=type(e).__name__, site=_frame_name(e.__traceback__), msg=str(e)[:160])
    res["values"] = vals
    # --- gradient of the target wrt what is moved
    grads = {}
    tname = targets[0] if targets else ("joint.jacobian" if "joint.jacobian" in dic else "joint")
    if isinstance(vals.get(tname), (float, str)):
        params = [get(m) for m in moved if get(m) is not None]
        try:
            for p in params:
                p.requires_grad = True
            v = get(tname)().sum()
            v.backward()
            for p in params:
                g = p.tensor.grad if hasattr(p.tensor, "grad") else None
                if g is None:
                    grads[p.id] = "none"
                else:
                    grads[p.id] = "finite" if bool(torch.isfinite(g).all()) else "nonfinite"
        except BaseException as e:
            grads["__error__"] = dict(error=type(e).__name__, site=_frame_name(e.__traceback__),
                                      msg=str(e)[:160])
        finally:
            for p in params:
                try:
                    p.requires_grad = False
                    if p.tensor.grad is not None:
                        p.tensor.grad = None
                except Exception:
                    pass
    res["grads"] = grads
    # --- log-determinants: implementation's own value and the autograd one, per candidate id
    logdets = {}
    for id_, o in objs.items():
        obj = get(id_)
        if obj is None:
            continue
        is_tp = isinstance(obj, TransformedParameter) and o["type"] == "TransformedParameter"
        is_tree = isinstance(obj, ReparameterizedTimeTreeModel)
        if not (is_tp or is_tree):
            continue
        if id_.startswith("variational") or id_.startswith("var."):
            continue
        ent = {}
        try:
            ent["impl"] = fnum(obj().sum())
        except BaseException as e:
            ent["impl"] = dict(error=type(e).__name__, site=_frame_name(e.__traceback__))
        try:
            v, note = autograd_logdet(obj)
            ent["auto"] = None if v is None else fnum(v)
            ent["note"] = note
        except BaseException as e:
            ent["auto"] = None
            ent["note"] = f"autograd failed: {type(e).__name__}: {str(e)[:80]}"
        logdets[id_] = ent
    res["logdets"] = logdets
    # --- initial values: constrained value after loading == value the builders requested
    init = []
    tree_json = objs.get("tree", {})
    keep = bool(tree_json.get("keep_branch_lengths", False))
    tree_param_ids = {"tree.ratios", "tree.root_height", "tree.shifts", "tree.blens"}
    for id_, spec in CONSTRAINED_SNAPSHOT.items():
        obj = get(id_)
        if obj is None:
            init.append(dict(id=id_, status="absent"))
            continue
        if keep and id_ in tree_param_ids:
            continue   # the loader overwrites them from the input tree on purpose
        lo, up = spec.get("@lower"), spec.get("@upper")
        try:
            want = expand_requested(spec, dic)
            got = obj.tensor.detach().to(torch.float64)
            if want.shape != got.shape:
                init.append(dict(id=id_, status="shape", want=list(want.shape), got=list(got.shape)))
                continue
            err = float(((got - want).abs() / (1e-7 + 1e-5 * want.abs())).max()) if want.numel() else 0.0
            inside = True
            if lo is not None and lo != up:
                inside = inside and bool((got > lo - 1e-12).all())
            if up is not None and lo != up:
                inside = inside and bool((got < up + 1e-12).all())
            if not (err <= 1.0) or not inside or not bool(torch.isfinite(got).all()):
                init.append(dict(id=id_, status="value", want=want.flatten()[:4].tolist(),
                                 got=[fnum(x) for x in got.flatten()[:4]], inside=inside))
        except BaseException as e:
            init.append(dict(id=id_, status="error", msg=f"{type(e).__name__}: {str(e)[:100]}"))
    # explicit switches
    req = cfg.get("requests", {})
    for id_, want in req.items():
        try:
            if id_ == "@tree.height":
                t = get("tree")
                n_tax = len(objs["taxa"]["taxa"])
                got = t.node_heights[..., n_tax:].max().reshape(1)
                wantt = torch.tensor([want], dtype=torch.float64)
            elif id_ == "@theta":
                o = get("coalescent.theta")
                got = o.tensor.detach().to(torch.float64)
                wantt = torch.full_like(got, want)
            else:
                o = get(id_)
                if o is None:
                    init.append(dict(id=id_, status="absent-requested"))
                    continue
                got = o.tensor.detach().to(torch.float64)
                wantt = torch.tensor(want, dtype=torch.float64) if isinstance(want, list) \
                    else torch.full_like(got, want)
            if wantt.shape != got.shape or \
                    float(((got - wantt).abs() / (1e-7 + 1e-5 * wantt.abs())).max()) > 1.0:
                init.append(dict(id=id_, status="requested", want=wantt.flatten()[:4].tolist(),
                                 got=[fnum(x) for x in got.flatten()[:4]]))
        except BaseException as e:
            init.append(dict(id=id_, status="error", msg=f"{type(e).__name__}: {str(e)[:100]}"))
    res["init"] = init
    res["n_constrained"] = len(CONSTRAINED_SNAPSHOT)
    return res


def short_run(j0, tmp):
    """Actually run the emitted sampler / optimiser for 2 iterations (files redirected to tmp)."""
    j = copy.deepcopy(j0)

    def patch(o):
        if isinstance(o, list):
            for e in o:
                patch(e)
        elif isinstance(o, dict):
            t = o.get("type")
            if t == "MCMC":
                o["iterations"] = 2
                o["every"] = 0
            elif t == "Optimizer":
                o["iterations"] = 2
                if "max_iter" in o:
                    o["max_iter"] = 2
                if isinstance(o.get("convergence"), dict):
                    o["convergence"]["every"] = 1
                    o["convergence"]["max_iterations"] = 2
                    if isinstance(o["convergence"].get("samples"), int):
                        o["convergence"]["samples"] = min(o["convergence"]["samples"], 3)
                    elif isinstance(o["convergence"].get("samples"), list):
                        o["convergence"]["samples"] = [2, 2]
            elif t == "Sampler":
                o["samples"] = 2
            if "every" in o and t in ("Logger", "TreeLogger"):
                o["every"] = 1
            for k in ("file_name", "checkpoint"):
                if isinstance(o.get(k), str):
                    o[k] = os.path.join(tmp, os.path.basename(o[k]))
            for v in o.values():
                patch(v)
    patch(j)
    cwd = os.getcwd()
    os.chdir(tmp)
    try:
        _torch.manual_seed(1)
        with contextlib.redirect_stdout(io.StringIO()), contextlib.redirect_stderr(io.StringIO()):
            dic, err = load_config(j, run=True)
        return err
    finally:
        os.chdir(cwd)


def run_one(cfg):
    """cfg: dict(argv=[...], requests={...}, run=bool).  Returns the observation record."""
    _init()
    rec = dict(argv=cfg["argv"])
    try:
        st, payload = run_cli(cfg["argv"])
    except BaseException as e:  # harness problem
        rec.update(status="harness-error", msg=f"{type(e).__name__}: {e}")
        return rec
    rec["status"] = st
    if st != "ok":
        rec["msg"] = payload
        return rec
    j0 = payload
    rec["json"] = j0
    rec["snapshot_n"] = len(CONSTRAINED_SNAPSHOT)
    snap = copy.deepcopy(CONSTRAINED_SNAPSHOT)
    with contextlib.redirect_stdout(io.StringIO()), contextlib.redirect_stderr(io.StringIO()):
        dic, err = load_config(copy.deepcopy(j0))
    rec["trace"] = dic.ev
    rec["load_error"] = err
    if err is None:
        CONSTRAINED_SNAPSHOT.clear()
        CONSTRAINED_SNAPSHOT.update(snap)
        try:
            with contextlib.redirect_stdout(io.StringIO()), contextlib.redirect_stderr(io.StringIO()):
                rec["checks"] = check_loaded(j0, dic, cfg)
        except BaseException as e:
            rec["checks"] = dict(harness_error=f"{type(e).__name__}: {e} @ "
                                               f"{traceback.format_tb(e.__traceback__)[-1][:200]}")
        if cfg.get("run", True):
            tmp = tempfile.mkdtemp(prefix="c19run_")
            try:
                rec["run_error"] = short_run(j0, tmp)
            except BaseException as e:
                rec["run_error"] = dict(kind="harness", root=f"{type(e).__name__}: {e}")
            finally:
                shutil.rmtree(tmp, ignore_errors=True)
    return rec


def run_many(cfgs):
    return [run_one(c) for c in cfgs]
